(* C07 — model of pkg/persistent/hashmap (hashmap.go, map.go): the persistent
   hash array mapped trie with bitmap, array and collision nodes, the nil-key
   slot, the count and iteration.  Executable Gallina only, no proofs.

   Go -> model dictionary
     uint32 hash / bitmap       N  (theorems assume hash k < 2^32; `>>`, `&`, `|`, `^`,
                                `1<<c` with c < 32 and the popCount sums cannot overflow)
     node interface             [node]: Bitmap | Array | Collision
     mapEntry{key,value}        [entry]: Leaf k v (key != nil) | Child c (key == nil)
     [nodeCap]node              list (option node) of length 32, None = nil child
     recursion through methods  explicit fuel, one unit per trie level (shift += 5);
                                *Fail = out of fuel, or an index-out-of-range panic
     newChild == child          [WSame]   (without returned its receiver)
     newChild == emptyBitmapNode [WEmpty] (without returned the shared empty node)
     iterator loop              [flat]: the sequence of Elem() results of
                                for it := n.iterator(); it.HasElem(); it.Next()
   Constants come from gen.Consts (regenerated from the Go source on every run). *)
From verif Require Import lib.Base gen.Consts.
Open Scope N_scope.

Module HC := pkg_persistent_hashmap.
Definition chunkBits : N := Z.to_N HC.chunkBits.
Definition nodeCap : N := Z.to_N HC.nodeCap.
Definition chunkMask : N := Z.to_N HC.chunkMask.
Definition m1 : N := Z.to_N HC.m1.
Definition m2 : N := Z.to_N HC.m2.
Definition m4 : N := Z.to_N HC.m4.
Definition m8 : N := Z.to_N HC.m8.
Definition m16 : N := Z.to_N HC.m16.

(* func chunk(shift, hash uint32) uint32 { return (hash >> shift) & chunkMask } *)
Definition chunk (shift h : N) : N := N.land (N.shiftr h shift) chunkMask.
(* func bitpos(shift, hash uint32) uint32 { return 1 << chunk(shift, hash) } *)
Definition bitpos (shift h : N) : N := N.shiftl 1 (chunk shift h).
(* func popCount(u uint32) uint32 — the SWAR population count, as written *)
Definition popCount (u : N) : N :=
  let u := N.land u m1 + N.land (N.shiftr u 1) m1 in
  let u := N.land u m2 + N.land (N.shiftr u 2) m2 in
  let u := N.land u m4 + N.land (N.shiftr u 4) m4 in
  let u := N.land u m8 + N.land (N.shiftr u 8) m8 in
  let u := N.land u m16 + N.land (N.shiftr u 16) m16 in
  u.
(* func index(bitmap, bit uint32) uint32 { return popCount(bitmap & (bit - 1)) } *)
Definition index (bitmap bit : N) : N := popCount (N.land bitmap (bit - 1)).

(* slice surgery used by the Go code (make + copy) *)
Definition insertAt {A} (i : nat) (x : A) (l : list A) : list A := firstn i l ++ x :: skipn i l.
Definition replaceAt {A} (i : nat) (x : A) (l : list A) : list A := firstn i l ++ x :: skipn (S i) l.
Definition removeAt {A} (i : nat) (l : list A) : list A := firstn i l ++ skipn (S i) l.

Section HashMap.
Variables K V : Type.
Variable eqk : K -> K -> bool.     (* Equal *)
Variable hash : K -> N.            (* Hash, uint32 *)

Inductive entry (T : Type) : Type :=
| Leaf (k : K) (v : V)
| Child (c : T).
Arguments Leaf {T}. Arguments Child {T}.

Inductive node : Type :=
| Bitmap (bm : N) (es : list (entry node))
| Array (nc : Z) (cs : list (option node))
| Collision (h : N) (kvs : list (K * V)).

Definition emptyBitmap : node := Bitmap 0 [].

Inductive fres := FFail | FRes (o : option V).
Inductive ares := AFail | ARes (n : node) (added : bool).
Inductive wres := WFail | WSame | WEmpty | WNew (n : node) (deleted : bool).

(* ---- iteration: what the iterator loop yields ---- *)
Fixpoint flat (n : node) : list (K * V) :=
  match n with
  | Bitmap _ es => flat_map (fun e => match e with Leaf k v => [(k, v)] | Child c => flat c end) es
  | Array _ cs => flat_map (fun o => match o with Some c => flat c | None => [] end) cs
  | Collision _ kvs => kvs
  end.

(* ---- collisionNode.findIndex: first i with eq(k, entries[i].key) ---- *)
Fixpoint findIndex (k : K) (kvs : list (K * V)) : option nat :=
  match kvs with
  | [] => None
  | (k', _) :: r => if eqk k k' then Some 0%nat else option_map S (findIndex k r)
  end.

(* ---- find ---- *)
Definition bitmapFind (rec : node -> N -> N -> K -> fres)
    (bm : N) (es : list (entry node)) (shift h : N) (k : K) : fres :=
  let bit := bitpos shift h in
  if N.land bm bit =? 0 then FRes None else
  match nth_error es (N.to_nat (index bm bit)) with
  | None => FFail
  | Some (Child c) => rec c (shift + chunkBits) h k
  | Some (Leaf k' v) => if eqk k' k then FRes (Some v) else FRes None
  end.

Fixpoint find (fuel : nat) (n : node) (shift h : N) (k : K) : fres :=
  match fuel with O => FFail | S f =>
  match n with
  | Bitmap bm es => bitmapFind (find f) bm es shift h k
  | Array _ cs =>
    match nth_error cs (N.to_nat (chunk shift h)) with
    | None => FFail
    | Some None => FRes None
    | Some (Some c) => find f c (shift + chunkBits) h k
    end
  | Collision _ kvs =>
    match findIndex k kvs with
    | None => FRes None
    | Some i => match nth_error kvs i with Some (_, v) => FRes (Some v) | None => FFail end
    end
  end end.

(* ---- assoc ---- *)
(* createNode(shift, k1, v1, h2, k2, v2); [rec] is assoc one level below the caller *)
Definition createNode (rec : node -> N -> N -> K -> V -> ares)
    (shift : N) (k1 : K) (v1 : V) (h2 : N) (k2 : K) (v2 : V) : option node :=
  let h1 := hash k1 in
  if h1 =? h2 then Some (Collision h1 [(k1, v1); (k2, v2)])
  else match rec emptyBitmap shift h1 k1 v1 with
       | AFail => None
       | ARes n _ => match rec n shift h2 k2 v2 with AFail => None | ARes n' _ => Some n' end
       end.

(* the loop of bitmapNode.unpack over i = 0 .. nodeCap-1, j counting entries *)
Fixpoint unpackLoop (rec : node -> N -> N -> K -> V -> ares) (shift : N)
    (cnt : nat) (i : N) (bm : N) (es : list (entry node)) : option (list (option node)) :=
  match cnt with O => Some [] | S cnt' =>
  if N.testbit bm i                       (* (n.bitmap>>i)&1 != 0 *)
  then match es with
       | [] => None                       (* n.entries[j] out of range *)
       | e :: r =>
         let oc := match e with
                   | Child c => Some c
                   | Leaf k v =>
                     match rec emptyBitmap (shift + chunkBits) (hash k) k v with
                     | ARes c _ => Some c | AFail => None end
                   end in
         match oc, unpackLoop rec shift cnt' (i + 1) bm r with
         | Some c, Some l => Some (Some c :: l)
         | _, _ => None
         end
       end
  else option_map (cons None) (unpackLoop rec shift cnt' (i + 1) bm es)
  end.

(* bitmapNode.unpack(shift, idx, newChild): children[idx] = newChild; the loop
   only writes positions whose bit is set, and the single call site has the
   bit of idx clear, so "loop, then set idx" is the same array. *)
Definition unpack (rec : node -> N -> N -> K -> V -> ares) (bm : N) (es : list (entry node))
    (shift idx : N) (newChild : node) : option node :=
  match unpackLoop rec shift (N.to_nat nodeCap) 0 bm es with
  | None => None
  | Some cs => Some (Array (Z.of_nat (length es) + 1) (replaceAt (N.to_nat idx) (Some newChild) cs))
  end.

Definition bitmapAssoc (rec : node -> N -> N -> K -> V -> ares)
    (bm : N) (es : list (entry node)) (shift h : N) (k : K) (v : V) : ares :=
  let bit := bitpos shift h in
  let idx := N.to_nat (index bm bit) in
  if N.land bm bit =? 0 then
    if N.div nodeCap 2 <=? N.of_nat (length es) then
      match rec emptyBitmap (shift + chunkBits) h k v with
      | AFail => AFail
      | ARes newNode _ =>
        match unpack rec bm es shift (chunk shift h) newNode with
        | None => AFail | Some a => ARes a true end
      end
    else ARes (Bitmap (N.lor bm bit) (insertAt idx (Leaf k v) es)) true
  else
  match nth_error es idx with
  | None => AFail
  | Some (Child c) =>
    match rec c (shift + chunkBits) h k v with
    | AFail => AFail
    | ARes c' added => ARes (Bitmap bm (replaceAt idx (Child c') es)) added
    end
  | Some (Leaf k' v') =>
    if eqk k k' then ARes (Bitmap bm (replaceAt idx (Leaf k v) es)) false
    else match createNode rec (shift + chunkBits) k' v' h k v with
         | None => AFail
         | Some c => ARes (Bitmap bm (replaceAt idx (Child c) es)) true
         end
  end.

Fixpoint assoc (fuel : nat) (n : node) (shift h : N) (k : K) (v : V) : ares :=
  match fuel with O => AFail | S f =>
  match n with
  | Bitmap bm es => bitmapAssoc (assoc f) bm es shift h k v
  | Array nc cs =>
    let idx := N.to_nat (chunk shift h) in
    match nth_error cs idx with
    | None => AFail
    | Some None =>
      match assoc f emptyBitmap (shift + chunkBits) h k v with
      | AFail => AFail
      | ARes c _ => ARes (Array (nc + 1) (replaceAt idx (Some c) cs)) true
      end
    | Some (Some child) =>
      match assoc f child (shift + chunkBits) h k v with
      | AFail => AFail
      | ARes c added => ARes (Array nc (replaceAt idx (Some c) cs)) added
      end
    end
  | Collision h0 kvs =>
    if h =? h0 then
      match findIndex k kvs with
      | Some i => ARes (Collision h0 (replaceAt i (k, v) kvs)) false
      | None => ARes (Collision h0 (kvs ++ [(k, v)])) true
      end
    else (* wrap := bitmapNode{bitpos(shift, n.hash), {nil, n}}; wrap.assoc(shift, ...) *)
      bitmapAssoc (assoc f) (bitpos shift h0) [Child n] shift h k v
  end end.

(* ---- without ---- *)
(* bitmapNode.withoutEntry(bit, idx) *)
Definition withoutEntry (bm : N) (es : list (entry node)) (bit : N) (idx : nat) : wres :=
  if bm =? bit then WEmpty
  else WNew (Bitmap (N.lxor bm bit) (removeAt idx es)) true.

(* the loop of arrayNode.pack(skip): (bitmap, entries) of the kept children *)
Fixpoint packLoop (i skip : N) (cs : list (option node)) : N * list (entry node) :=
  match cs with
  | [] => (0, [])
  | x :: r =>
    let '(bm, es) := packLoop (i + 1) skip r in
    match x with
    | Some c => if i =? skip then (bm, es) else (N.lor bm (N.shiftl 1 i), Child c :: es)
    | None => (bm, es)
    end
  end.

(* entries is make([]mapEntry, nChildren-1): a different number of kept
   children is an index panic or leaves zero entries behind -> Fail *)
Definition pack (nc : Z) (cs : list (option node)) (skip : N) : wres :=
  let '(bm, es) := packLoop 0 skip cs in
  if Z.eqb (Z.of_nat (length es)) (nc - 1) then WNew (Bitmap bm es) true else WFail.

Definition bitmapWithout (rec : node -> N -> N -> K -> wres)
    (bm : N) (es : list (entry node)) (shift h : N) (k : K) : wres :=
  let bit := bitpos shift h in
  if N.land bm bit =? 0 then WSame else
  let idx := N.to_nat (index bm bit) in
  match nth_error es idx with
  | None => WFail
  | Some (Child c) =>
    match rec c (shift + chunkBits) h k with
    | WFail => WFail
    | WSame => WSame
    | WEmpty => withoutEntry bm es bit idx
    | WNew c' deleted => WNew (Bitmap bm (replaceAt idx (Child c') es)) deleted
    end
  | Some (Leaf k' _) => if eqk k' k then withoutEntry bm es bit idx else WSame
  end.

Fixpoint without (fuel : nat) (n : node) (shift h : N) (k : K) : wres :=
  match fuel with O => WFail | S f =>
  match n with
  | Bitmap bm es => bitmapWithout (without f) bm es shift h k
  | Array nc cs =>
    let idx := N.to_nat (chunk shift h) in
    match nth_error cs idx with
    | None => WFail
    | Some None => WSame
    | Some (Some child) =>
      match without f child (shift + chunkBits) h k with
      | WFail => WFail
      | WSame => WSame
      | WEmpty =>
        if (nc <=? Z.of_N (N.div nodeCap 4))%Z then pack nc cs (chunk shift h)
        else WNew (Array (nc - 1) (replaceAt idx None cs)) true
      | WNew c _ => WNew (Array nc (replaceAt idx (Some c) cs)) true
      end
    end
  | Collision h0 kvs =>
    match findIndex k kvs with
    | None => WSame
    | Some i =>
      if Nat.eqb (length kvs) 1 then WEmpty
      else WNew (Collision h0 (removeAt i kvs)) true
    end
  end end.

(* ---- the map ---- *)
Record hmap := mkMap { count : Z; root : node; nilV : option V }.

(* levels: shifts 0,5,..,35; ceil(32/5) + 1 = 8 *)
Definition fuel0 : nat := N.to_nat (32 / chunkBits + 2).

Definition empty : hmap := mkMap 0 emptyBitmap None.
Definition Len (m : hmap) : Z := count m.

Definition Index (m : hmap) (k : option K) : fres :=
  match k with
  | None => FRes (nilV m)
  | Some k => find fuel0 (root m) 0 (hash k) k
  end.

Definition Assoc (m : hmap) (k : option K) (v : V) : option hmap :=
  match k with
  | None => Some (mkMap (match nilV m with None => count m + 1 | Some _ => count m end)%Z
                        (root m) (Some v))
  | Some k =>
    match assoc fuel0 (root m) 0 (hash k) k v with
    | AFail => None
    | ARes r added => Some (mkMap (if added then count m + 1 else count m)%Z r (nilV m))
    end
  end.

Definition Dissoc (m : hmap) (k : option K) : option hmap :=
  match k with
  | None => Some (mkMap (match nilV m with None => count m | Some _ => count m - 1 end)%Z
                        (root m) None)
  | Some k =>
    match without fuel0 (root m) 0 (hash k) k with
    | WFail => None
    | WSame => Some (mkMap (count m) (root m) (nilV m))
    | WEmpty => Some (mkMap (count m - 1)%Z emptyBitmap (nilV m))
    | WNew r deleted => Some (mkMap (if deleted then count m - 1 else count m)%Z r (nilV m))
    end
  end.

(* hashMap.Iterator: the nil key first when present, then the trie *)
Definition Iter (m : hmap) : list (option K * V) :=
  (match nilV m with Some v => [(None, v)] | None => [] end)
  ++ map (fun kv => (Some (fst kv), snd kv)) (flat (root m)).

End HashMap.

Arguments Leaf {K V T}. Arguments Child {K V T}.
Arguments Bitmap {K V}. Arguments Array {K V}. Arguments Collision {K V}.
Arguments emptyBitmap {K V}.
Arguments FFail {V}. Arguments FRes {V}.
Arguments AFail {K V}. Arguments ARes {K V}.
Arguments WFail {K V}. Arguments WSame {K V}. Arguments WEmpty {K V}. Arguments WNew {K V}.
Arguments flat {K V}. Arguments empty {K V}. Arguments Len {K V}. Arguments Iter {K V}.
Arguments mkMap {K V}. Arguments count {K V}. Arguments root {K V}. Arguments nilV {K V}.

(* ------------------------------------------------------------------ *)
(* Independent specification: a dictionary as an association list with at
   most one entry per key (insertion puts the new pair in front, deletion
   filters), over any key type with a boolean equality. *)
Section Spec.
Variables SK SV : Type.
Variable eqs : SK -> SK -> bool.
Definition smap := list (SK * SV).
Definition s_remove (k : SK) (m : smap) : smap := filter (fun kv => negb (eqs k (fst kv))) m.
Definition s_assoc (k : SK) (v : SV) (m : smap) : smap := (k, v) :: s_remove k m.
Definition s_dissoc (k : SK) (m : smap) : smap := s_remove k m.
Fixpoint s_lookup (k : SK) (m : smap) : option SV :=
  match m with
  | [] => None
  | (k', v) :: r => if eqs k k' then Some v else s_lookup k r
  end.
Definition s_mem (k : SK) (m : smap) : bool := existsb (fun kv => eqs k (fst kv)) m.
Fixpoint s_nodup (m : smap) : bool :=
  match m with [] => true | (k, _) :: r => negb (s_mem k r) && s_nodup r end.
End Spec.
Arguments s_remove {SK SV}. Arguments s_assoc {SK SV}. Arguments s_dissoc {SK SV}.
Arguments s_lookup {SK SV}. Arguments s_mem {SK SV}. Arguments s_nodup {SK SV}.

(* ------------------------------------------------------------------ *)
(* Histories over a version store.  Version 0 is the empty map; every
   operation takes any existing version and appends its result. *)
Inductive op (K V : Type) :=
| OAssoc (ver : nat) (k : option K) (v : V)
| ODissoc (ver : nat) (k : option K).
Arguments OAssoc {K V}. Arguments ODissoc {K V}.

Section History.
Variables K V : Type.
Variable eqk : K -> K -> bool.
Variable hash : K -> N.

Definition eqo (a b : option K) : bool :=
  match a, b with
  | None, None => true
  | Some x, Some y => eqk x y
  | _, _ => false
  end.

(* model store; None = the model failed (out of fuel / panic) *)
Definition m_step (st : list (hmap K V)) (o : op K V) : option (list (hmap K V)) :=
  match o with
  | OAssoc ver k v =>
    match nth_error st ver with
    | None => Some st                                  (* no such version: ignored *)
    | Some m => option_map (fun m' => st ++ [m']) (Assoc K V eqk hash m k v)
    end
  | ODissoc ver k =>
    match nth_error st ver with
    | None => Some st
    | Some m => option_map (fun m' => st ++ [m']) (Dissoc K V eqk hash m k)
    end
  end.

Fixpoint m_run (st : list (hmap K V)) (ops : list (op K V)) : option (list (hmap K V)) :=
  match ops with
  | [] => Some st
  | o :: r => match m_step st o with None => None | Some st' => m_run st' r end
  end.

(* specification store *)
Definition s_step (st : list (smap (option K) V)) (o : op K V) : list (smap (option K) V) :=
  match o with
  | OAssoc ver k v =>
    match nth_error st ver with None => st | Some m => st ++ [s_assoc eqo k v m] end
  | ODissoc ver k =>
    match nth_error st ver with None => st | Some m => st ++ [s_dissoc eqo k m] end
  end.

Definition s_run (st : list (smap (option K) V)) (ops : list (op K V)) : list (smap (option K) V) :=
  fold_left s_step ops st.

End History.
Arguments eqo {K}. Arguments m_step {K V}. Arguments m_run {K V}. Arguments s_step {K V}.
Arguments s_run {K V}.

(* ------------------------------------------------------------------ *)
(* Correspondence cases: keys are ids 0..n-1 with eq = id equality and
   hash = a table chosen by the harness; values are numbers below 2^20.
   A (key, value) pair is written as one number: (key code) * 2^20 + value,
   key code 0 = the nil key, id + 1 otherwise. *)
Record vobs := mkObs {
  o_len : Z;               (* Len() *)
  o_idx : list N;          (* the pairs (k, v) with Index(k) = (v, true), k over the universe *)
  o_iter : list N }.       (* the iterator loop, in order *)

Record case := mkCase {
  c_hashes : list N;                (* hash of key id i *)
  c_ops : list (op N N);
  c_obs : list vobs;                (* version i observed right after its creation *)
  c_late : list (nat * vobs);       (* re-observations of version i after later steps
                                       that differed from the first one *)
  c_pop : list (N * N) }.           (* (u, popCount u) as computed by the Go popCount *)

Definition hash_of (hs : list N) (k : N) : N := nth (N.to_nat k) hs 0.

(* compact input encoding used by the harness (big literals and constructor
   terms are slow to elaborate): hashes as 16-bit halves, an operation as two
   numbers (ver * 8192 + key code * 2 + kind, value), popCount samples as
   triples (high half, low half, result) *)
Fixpoint dec_pairs16 (l : list N) : list N :=
  match l with hi :: lo :: r => (hi * 65536 + lo) :: dec_pairs16 r | _ => [] end.
Fixpoint dec_ops (l : list N) : list (op N N) :=
  match l with
  | a :: v :: r =>
    let kind := a mod 2 in
    let kc := (a / 2) mod 4096 in
    let ver := N.to_nat (a / 8192) in
    let k := if kc =? 0 then None else Some (kc - 1) in
    (if kind =? 1 then OAssoc ver k v else ODissoc ver k) :: dec_ops r
  | _ => []
  end.
Fixpoint dec_pop (l : list N) : list (N * N) :=
  match l with hi :: lo :: r :: t => (hi * 65536 + lo, r) :: dec_pop t | _ => [] end.
Definition mkCaseC (hs ops : list N) (obs : list vobs) (late : list (nat * vobs)) (pop : list N) : case :=
  mkCase (dec_pairs16 hs) (dec_ops ops) obs late (dec_pop pop).

Definition universe (hs : list N) : list (option N) :=
  None :: map (fun i => Some (N.of_nat i)) (seq 0 (length hs)).

Definition oN_eqb : option N -> option N -> bool := option_eqb N.eqb.
Definition okey_eqb : option N -> option N -> bool := eqo N.eqb.

Definition vbase : N := 1048576.
Definition dec (c : N) : option N * N :=
  (let kc := c / vbase in if kc =? 0 then None else Some (kc - 1), c mod vbase).
Definition enc (kv : option N * N) : N :=
  (match fst kv with None => 0 | Some k => k + 1 end) * vbase + snd kv.

Fixpoint ins_sorted (x : N) (l : list N) : list N :=
  match l with
  | [] => [x]
  | y :: r => if x <=? y then x :: l else y :: ins_sorted x r
  end.
Definition sort_codes (l : list N) : list N := fold_right ins_sorted [] l.
Definition same_multiset (a b : list N) : bool :=
  list_eqb N.eqb (sort_codes a) (sort_codes b).

(* --- the oracle: one observed version against the reference dictionary --- *)
Definition check_version (hs : list N) (s : smap (option N) N) (o : vobs) : bool :=
  let it := map dec (o_iter o) in
  let ix := map dec (o_idx o) in
  (* the reported size is exact *)
  Z.eqb (o_len o) (Z.of_nat (length s))
  (* lookups give the reference results, for every key of the universe *)
  && forallb (fun k => oN_eqb (s_lookup okey_eqb k ix) (s_lookup okey_eqb k s)) (universe hs)
  (* iteration yields each entry exactly once: no key twice, as many pairs as
     the reference has, and every pair is a reference entry *)
  && s_nodup okey_eqb it
  && Nat.eqb (length it) (length s)
  && forallb (fun kv => oN_eqb (s_lookup okey_eqb (fst kv) s) (Some (snd kv))) it.

Fixpoint check_versions (hs : list N) (ss : list (smap (option N) N)) (os : list vobs) : bool :=
  match ss, os with
  | [], [] => true
  | s :: ss', o :: os' => check_version hs s o && check_versions hs ss' os'
  | _, _ => false
  end.

Definition check_C07 (hs : list N) (ops : list (op N N)) (obs : list vobs)
    (late : list (nat * vobs)) : bool :=
  let ss := s_run N.eqb [[]] ops in
  check_versions hs ss obs
  (* earlier versions are never changed: every later re-observation of
     version i still is what the reference says about version i *)
  && forallb (fun io => match nth_error ss (fst io) with
                        | Some s => check_version hs s (snd io)
                        | None => false end) late.

(* --- correspondence with the model --- *)
Definition corr_version (hs : list N) (m : hmap N N) (o : vobs) : bool :=
  let ix := map dec (o_idx o) in
  Z.eqb (Len m) (o_len o)
  && forallb (fun k => match Index N N N.eqb (hash_of hs) m k with
                       | FFail => false
                       | FRes r => oN_eqb r (s_lookup okey_eqb k ix)
                       end) (universe hs)
  && same_multiset (map enc (Iter m)) (o_iter o).

Fixpoint corr_versions (hs : list N) (ms : list (hmap N N)) (os : list vobs) : bool :=
  match ms, os with
  | [], [] => true
  | m :: ms', o :: os' => corr_version hs m o && corr_versions hs ms' os'
  | _, _ => false
  end.

(* specification population count: the number of set bits among 0..31 *)
Fixpoint rank (bm : N) (cnt : nat) (i : N) : nat :=
  match cnt with
  | O => O
  | S c => ((if N.testbit bm i then 1 else 0) + rank bm c (i + 1))%nat
  end.

Definition judge1 (c : case) : N :=
  let hs := c_hashes c in
  let corr :=
    match m_run N.eqb (hash_of hs) [empty] (c_ops c) with
    | None => false
    | Some ms =>
      corr_versions hs ms (c_obs c)
      && forallb (fun io => match nth_error ms (fst io) with
                            | Some m => corr_version hs m (snd io)
                            | None => false end) (c_late c)
    end in
  let pop_oracle := forallb (fun ur => N.eqb (snd ur) (N.of_nat (rank (fst ur) 32 0))) (c_pop c) in
  let pop_corr := forallb (fun ur => N.eqb (snd ur) (popCount (fst ur))) (c_pop c) in
  code (check_C07 hs (c_ops c) (c_obs c) (c_late c) && pop_oracle) (corr && pop_corr).

Definition judge := judge_with judge1.
