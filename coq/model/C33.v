(* C33 — model of pkg/ui styled text (text.go, text_builder.go, text_segment.go,
   styling.go): executable definitions only, no proofs.

   Text = list of segments (style, bytes).  Go's nil-vs-empty distinction is
   carried by a separate flag in the results ([res]).  The model follows the
   code after the repairs checks/C33.fixes/*.diff (TrimWcwidth, StyleText of an
   empty text, Segment.Concat/RConcat, Text.Concat with a Segment); the one
   remaining defect (StyleText can leave equal neighbouring styles, pinned by
   an existing test) is still modelled faithfully, see props/C33.v. *)
From verif Require Import lib.Base lib.Utf8 model.C34_width.
Open Scope Z_scope.

(* ---- ui.Color, ui.Style ---- *)
(* a colour is (kind, value): 0 = ansiColor, 1 = ansiBrightColor, 2 = xterm256Color,
   3 = trueColor (value = r*65536 + g*256 + b); Go compares dynamic type and value *)
Definition color := (N * N)%type.
Definition color_eqb (a b : color) : bool := N.eqb (fst a) (fst b) && N.eqb (snd a) (snd b).

Record style := mkStyle {
  fg : option color; bg : option color;
  bold : bool; dim : bool; italic : bool; underlined : bool; blink : bool; inverse : bool }.

Definition style0 : style := mkStyle None None false false false false false false.

Definition style_eqb (a b : style) : bool :=
  option_eqb color_eqb (fg a) (fg b) && option_eqb color_eqb (bg a) (bg b)
  && Bool.eqb (bold a) (bold b) && Bool.eqb (dim a) (dim b) && Bool.eqb (italic a) (italic b)
  && Bool.eqb (underlined a) (underlined b) && Bool.eqb (blink a) (blink b)
  && Bool.eqb (inverse a) (inverse b).

(* ---- ui.Styling (flattened: a jointStyling is its list of atoms) ---- *)
Inductive field := FBold | FDim | FItalic | FUnderlined | FBlink | FInverse.
Inductive styling :=
| SReset | SFg (c : option color) | SBg (c : option color)
| SOn (f : field) | SOff (f : field) | SToggle (f : field).

Definition get_field (f : field) (s : style) : bool :=
  match f with
  | FBold => bold s | FDim => dim s | FItalic => italic s
  | FUnderlined => underlined s | FBlink => blink s | FInverse => inverse s
  end.
Definition set_field (f : field) (v : bool) (s : style) : style :=
  match f with
  | FBold => mkStyle (fg s) (bg s) v (dim s) (italic s) (underlined s) (blink s) (inverse s)
  | FDim => mkStyle (fg s) (bg s) (bold s) v (italic s) (underlined s) (blink s) (inverse s)
  | FItalic => mkStyle (fg s) (bg s) (bold s) (dim s) v (underlined s) (blink s) (inverse s)
  | FUnderlined => mkStyle (fg s) (bg s) (bold s) (dim s) (italic s) v (blink s) (inverse s)
  | FBlink => mkStyle (fg s) (bg s) (bold s) (dim s) (italic s) (underlined s) v (inverse s)
  | FInverse => mkStyle (fg s) (bg s) (bold s) (dim s) (italic s) (underlined s) (blink s) v
  end.

Definition transform (t : styling) (s : style) : style :=
  match t with
  | SReset => style0
  | SFg c => mkStyle c (bg s) (bold s) (dim s) (italic s) (underlined s) (blink s) (inverse s)
  | SBg c => mkStyle (fg s) c (bold s) (dim s) (italic s) (underlined s) (blink s) (inverse s)
  | SOn f => set_field f true s
  | SOff f => set_field f false s
  | SToggle f => set_field f (negb (get_field f s)) s
  end.

(* ui.ApplyStyling *)
Definition apply_styling (s : style) (ts : list styling) : style :=
  fold_left (fun s t => transform t s) ts s.

(* ---- Segment, Text ---- *)
Definition seg := (style * bytes)%type.
Definition text := list seg.

Definition is_nil {A} (l : list A) : bool := match l with [] => true | _ => false end.

(* plain content *)
Definition content (t : text) : bytes := flat_map snd t.

(* ---- the normal form (the oracle's notion; independent of the operations) ---- *)
Fixpoint normalb (t : text) : bool :=
  match t with
  | [] => true
  | (s, x) :: r =>
    negb (is_nil x)
    && match r with [] => true | (s', _) :: _ => negb (style_eqb s s') end
    && normalb r
  end.

(* ---- StyleSegment, StyleText, T ---- *)
Definition style_seg (sg : seg) (ts : list styling) : seg := (apply_styling (fst sg) ts, snd sg).
Definition style_text (t : text) (ts : list styling) : text := map (fun sg => style_seg sg ts) t.
Definition T (s : bytes) (ts : list styling) : text :=
  if is_nil s then [] else style_text [(style0, s)] ts.

(* ---- TextBuilder ---- *)
Record builder := mkB { b_segs : text; b_style : style; b_text : bytes }.
Definition b_empty : builder := mkB [] style0 [].   (* zero value = after Reset *)

Definition last_seg (t : text) : seg := last t (style0, []).

Definition write_text (tb : builder) (t : text) : builder :=
  match t with
  | [] => tb
  | (s0, x0) :: t1 =>
    let merged := style_eqb (b_style tb) s0 in
    let tb1 := if merged then mkB (b_segs tb) (b_style tb) (b_text tb ++ x0) else tb in
    let t' := if merged then t1 else t in
    match t' with
    | [] => tb1
    | _ =>
      let segs1 := if is_nil (b_text tb1) then b_segs tb1
                   else b_segs tb1 ++ [(b_style tb1, b_text tb1)] in
      mkB (segs1 ++ removelast t') (fst (last_seg t')) (snd (last_seg t'))
    end
  end.

Definition b_is_empty (tb : builder) : bool := is_nil (b_segs tb) && is_nil (b_text tb).
Definition b_result (tb : builder) : text :=
  if b_is_empty tb then [] else b_segs tb ++ [(b_style tb, b_text tb)].

(* ui.Concat *)
Definition concat_texts (ts : list text) : text := b_result (fold_left write_text ts b_empty).

(* ---- Text.Partition ---- *)
Definition blen (x : bytes) : Z := Z.of_nat (length x).

(* the inner loop: consume k bytes from the front of segs *)
Fixpoint take_bytes (segs : text) (k : Z) : text * text :=
  match segs with
  | [] => ([], [])
  | (s, x) :: r =>
    if k <=? 0 then ([], segs)
    else if blen x <=? k then
      let '(a, b) := take_bytes r (k - blen x) in ((s, x) :: a, b)
    else ([(s, firstn (Z.to_nat k) x)], (s, skipn (Z.to_nat k) x) :: r)
  end.

Fixpoint partition_from (segs : text) (prev : Z) (idxs : list Z) : list text :=
  match idxs with
  | [] => [segs]
  | i :: r => let '(a, b) := take_bytes segs (i - prev) in a :: partition_from b i r
  end.
Definition partition (t : text) (idxs : list Z) : list text := partition_from t 0 idxs.

(* ---- strings.Split(s, sep) for a non-empty sep (leftmost, non-overlapping) ---- *)
Fixpoint is_prefix (p s : bytes) : bool :=
  match p, s with
  | [], _ => true
  | a :: p', b :: s' => N.eqb a b && is_prefix p' s'
  | _ :: _, [] => false
  end.

(* [skip]: bytes of a matched separator still to be skipped; [cur]: current piece, reversed *)
Fixpoint split_go (sep s : bytes) (skip : nat) (cur : bytes) : list bytes :=
  match s with
  | [] => [rev cur]
  | c :: r =>
    match skip with
    | S k => split_go sep r k cur
    | O => if is_prefix sep s then rev cur :: split_go sep r (length sep - 1) []
           else split_go sep r 0 (c :: cur)
    end
  end.
Definition split_bytes (sep s : bytes) : list bytes := split_go sep s 0 [].

(* ui.TextFromSegment *)
Definition text_from_seg (sg : seg) : text := if is_nil (snd sg) then [] else [sg].

(* Text.SplitByRune, after the first `len(t) == 0` test *)
Fixpoint split_text_go (sep : bytes) (t : text) (paste : builder) : list text :=
  match t with
  | [] => [b_result paste]
  | (s, x) :: r =>
    match split_bytes sep x with
    | [] => split_text_go sep r paste      (* unreachable: Split returns >= 1 piece *)
    | p0 :: rest =>
      let paste1 := write_text paste (text_from_seg (s, p0)) in
      match rest with
      | [] => split_text_go sep r paste1
      | _ =>
        b_result paste1
        :: map (fun p => text_from_seg (s, p)) (removelast rest)
        ++ split_text_go sep r (write_text b_empty (text_from_seg (s, last rest [])))
      end
    end
  end.
Definition split_text (sep : bytes) (t : text) : list text :=
  match t with [] => [] | _ => split_text_go sep t b_empty end.

(* ---- Text.TrimWcwidth, generic in the string width function [ofb]
   (wcwidth.Of) and the string trimming function [trimb] (wcwidth.Trim) ---- *)
Section Trim.
  Variable ofb : bytes -> Z.
  Variable trimb : bytes -> Z -> bytes.
  Fixpoint trim_text_g (t : text) (n : Z) : text :=
    match t with
    | [] => []
    | (s, x) :: r =>
      let wx := ofb x in
      if wx >=? n then text_from_seg (s, trimb x n)    (* appended only when not empty *)
      else (s, x) :: trim_text_g r (n - wx)
    end.
  (* styledWcswidth: the sum of the segments' widths *)
  Fixpoint text_width_g (t : text) : Z :=
    match t with [] => 0 | (_, x) :: r => ofb x + text_width_g r end.
End Trim.
Definition trim_text := trim_text_g of_bytes trim_bytes.
Definition text_width := text_width_g of_bytes.

(* ---- Segment.Concat / RConcat, Text.Concat / RConcat ---- *)
Definition seg_concat_str (s : seg) (rhs : bytes) : text := concat_texts [text_from_seg s; T rhs []].
Definition seg_concat_seg (s s2 : seg) : text := concat_texts [text_from_seg s; text_from_seg s2].
Definition seg_concat_text (s : seg) (t : text) : text := concat_texts [text_from_seg s; t].
Definition seg_rconcat_str (lhs : bytes) (s : seg) : text := concat_texts [T lhs []; text_from_seg s].
Definition text_concat_str (t : text) (rhs : bytes) : text := concat_texts [t; T rhs []].
Definition text_concat_seg (t : text) (s : seg) : text := concat_texts [t; text_from_seg s].
Definition text_concat_text (t t2 : text) : text := concat_texts [t; t2].
Definition text_rconcat_str (lhs : bytes) (t : text) : text := concat_texts [T lhs []; t].

(* ------------------------------------------------------------------ *)
(* operations as data, results with Go's nil flag *)
Inductive op :=
| OpT (s : bytes) (ts : list styling)
| OpConcat (ts : list text)
| OpPartition (t : text) (idxs : list Z)
| OpSplit (t : text) (sep : bytes)          (* sep = string(r) *)
| OpTrim (t : text) (n : Z)
| OpStyleText (t : text) (ts : list styling)
| OpStyleSeg (s : seg) (ts : list styling)  (* result is a Segment, shown as a one-segment list *)
| OpSegConcatStr (s : seg) (rhs : bytes)
| OpSegConcatSeg (s s2 : seg)
| OpSegConcatText (s : seg) (t : text)
| OpSegRConcatStr (lhs : bytes) (s : seg)
| OpTextConcatStr (t : text) (rhs : bytes)
| OpTextConcatSeg (t : text) (s : seg)
| OpTextConcatText (t t2 : text)
| OpTextRConcatStr (lhs : bytes) (t : text).

Definition res := (bool * text)%type.     (* (is Go nil, segments) *)
Definition nil_if_empty (t : text) : res := (is_nil t, t).

Definition run_op (o : op) : list res :=
  match o with
  | OpT s ts => [nil_if_empty (T s ts)]
  | OpConcat ts => [nil_if_empty (concat_texts ts)]
  | OpPartition t idxs => map nil_if_empty (partition t idxs)
  | OpSplit t sep => map nil_if_empty (split_text sep t)
  | OpTrim t n => [nil_if_empty (trim_text t n)]
  | OpStyleText t ts => [nil_if_empty (style_text t ts)]   (* nil for an empty text *)
  | OpStyleSeg s ts => [(false, [style_seg s ts])]
  | OpSegConcatStr s rhs => [nil_if_empty (seg_concat_str s rhs)]
  | OpSegConcatSeg s s2 => [nil_if_empty (seg_concat_seg s s2)]
  | OpSegConcatText s t => [nil_if_empty (seg_concat_text s t)]
  | OpSegRConcatStr lhs s => [nil_if_empty (seg_rconcat_str lhs s)]
  | OpTextConcatStr t rhs => [nil_if_empty (text_concat_str t rhs)]
  | OpTextConcatSeg t s => [nil_if_empty (text_concat_seg t s)]
  | OpTextConcatText t t2 => [nil_if_empty (text_concat_text t t2)]
  | OpTextRConcatStr lhs t => [nil_if_empty (text_rconcat_str lhs t)]
  end.

(* ------------------------------------------------------------------ *)
(* The oracle: the property on what an operation returned. *)

(* normal form of one returned Text: empty text is nil, no empty segment,
   adjacent styles differ *)
Definition res_normal (r : res) : bool :=
  normalb (snd r) && (negb (is_nil (snd r)) || fst r).

(* strings.Join *)
Definition join_bytes (sep : bytes) (ps : list bytes) : bytes :=
  match ps with
  | [] => []
  | p :: r => p ++ flat_map (fun q => sep ++ q) r
  end.

Fixpoint nondecreasing_from (lo : Z) (l : list Z) : bool :=
  match l with [] => true | i :: r => (lo <=? i) && nondecreasing_from i r end.

(* part j has i_j - i_(j-1) bytes; the last part has the rest *)
Fixpoint part_lengths_ok (prev : Z) (idxs : list Z) (parts : list text) : bool :=
  match idxs, parts with
  | [], [_] => true
  | i :: r, p :: ps => (blen (content p) =? i - prev) && part_lengths_ok i r ps
  | _, _ => false
  end.

Definition one (rs : list res) : option text :=
  match rs with [r] => Some (snd r) | _ => None end.

Definition content_is (rs : list res) (expect : bytes) : bool :=
  match one rs with Some t => bytes_eqb (content t) expect | None => false end.

Definition check_content (o : op) (rs : list res) : bool :=
  match o with
  | OpT s _ => content_is rs s
  | OpConcat ts => content_is rs (flat_map content ts)
  | OpPartition t idxs =>
    Nat.eqb (length rs) (S (length idxs))
    && bytes_eqb (flat_map (fun r => content (snd r)) rs) (content t)
    && (if nondecreasing_from 0 idxs && (last idxs 0 <=? blen (content t))
        then part_lengths_ok 0 idxs (map snd rs) else true)
  | OpSplit t sep =>
    if is_nil t then is_nil rs
    else negb (is_nil rs) && bytes_eqb (join_bytes sep (map (fun r => content (snd r)) rs)) (content t)
  | OpTrim t n =>
    match one rs with
    | Some t' => is_prefix (content t') (content t)
                 && (if 0 <=? n then text_width t' <=? n else true)
    | None => false
    end
  | OpStyleText t _ => content_is rs (content t)
  | OpStyleSeg s _ => content_is rs (snd s)
  | OpSegConcatStr s rhs => content_is rs (snd s ++ rhs)
  | OpSegConcatSeg s s2 => content_is rs (snd s ++ snd s2)
  | OpSegConcatText s t => content_is rs (snd s ++ content t)
  | OpSegRConcatStr lhs s => content_is rs (lhs ++ snd s)
  | OpTextConcatStr t rhs => content_is rs (content t ++ rhs)
  | OpTextConcatSeg t s => content_is rs (content t ++ snd s)
  | OpTextConcatText t t2 => content_is rs (content t ++ content t2)
  | OpTextRConcatStr lhs t => content_is rs (lhs ++ content t)
  end.

(* StyleSegment returns a Segment, not a Text: no normal form is claimed for it *)
Definition check_normal (o : op) (rs : list res) : bool :=
  match o with
  | OpStyleSeg _ _ => true
  | _ => forallb res_normal rs
  end.

Definition check_C33 (o : op) (rs : list res) : bool := check_normal o rs && check_content o rs.

(* ---- correspondence ---- *)
Definition seg_eqb (a b : seg) : bool := style_eqb (fst a) (fst b) && bytes_eqb (snd a) (snd b).
Definition res_eqb (a b : res) : bool := Bool.eqb (fst a) (fst b) && list_eqb seg_eqb (snd a) (snd b).

Record case := mkCase { c_op : op; c_obs : list res }.

Definition judge1 (c : case) : N :=
  code (check_C33 (c_op c) (c_obs c)) (list_eqb res_eqb (run_op (c_op c)) (c_obs c)).

Definition judge := judge_with judge1.
