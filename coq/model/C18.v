(* C18 — pipelines deliver data exactly once, in order, and never deadlock.
   Executable model only (no proofs): the stage-program DSL, its automaton,
   the pipeline LTS obtained by instantiating lib/C18_Lts.v, the case record
   and the judge.

   Modelled Go code: pkg/eval/compile_effect.go:pipelineOp.exec (per-form
   goroutines, the channel + pipe pair between adjacent forms, the
   reader-gone filter, wg.Wait), port.go:valueOutput.Put / byteOutput,
   frame.go:IterateInputs (merged read of both bands, always to the end),
   exception.go:MakePipelineError.  The Go scheduler, the real pipe buffer and
   the helper goroutines of IterateInputs are abstracted: a byte line is one
   item, a step is one channel/pipe action of one stage, all interleavings. *)
From verif Require Import lib.Base lib.C18_Lts gen.Consts.
Open Scope nat_scope.

(* which received items a draining stage forwards *)
Inductive filt := FAll | FNo | FMod (m r : N).   (* FMod: forward x iff x mod m <> r *)

Definition keep (f : filt) (x : N) : bool :=
  match f with
  | FAll => true
  | FNo => false
  | FMod m r => negb (N.eqb (N.modulo x m) r)
  end.

Inductive instr :=
| ISend (b : band) (x : N)        (* put v<x> / echo b<x>; on reader-gone the form ends with that exception *)
| IRecv1 (b : band)               (* read one item of one band: read-line / one receive on the value channel *)
| IDrain (f : filt) (t : option (N * N))
    (* each {|x| …}: merged read of both bands to the end.  Kept items are
       forwarded on the band they came in on.  Seeing item [fst t] the callback
       remembers exception Fail (snd t); a failed forward remembers the
       reader-gone exception.  Once an exception is remembered the callback does
       nothing more, the input is still read to its end, then the exception is
       thrown (this is what the builtin `each` does as well). *)
| IThrow (tag : N)                (* fail <tag> *)
| IOnly (b : band).
    (* only-values (b = V) / only-bytes (b = B), builtin_fn_io.go: forward band b,
       discard the other band in a helper goroutine; the builtin ends when both
       bands are at their end, or at once when a write reports reader-gone
       (since /repo f37fd5c it no longer joins the helper on that path). *)

Inductive lstate :=
| LRun (code : list instr)
| LDrain (f : filt) (t : option (N * N)) (pending : option (band * N))
         (broken : option exn) (rest : list instr)
| LOnly (b : band) (pending : option N) (rest : list instr)
| LExit (e : option exn).

Definition want (l : lstate) : action :=
  match l with
  | LRun [] => WExit None
  | LRun (ISend b x :: _) => WSend b x
  | LRun (IRecv1 b :: _) => WRecv (Only b)
  | LRun (IDrain _ _ :: _) => WRecv Any
  | LRun (IThrow t :: _) => WExit (Some (Fail t))
  | LRun (IOnly _ :: _) => WRecv Any
  | LOnly b (Some x) _ => WSend b x
  | LOnly _ None _ => WRecv Any
  | LDrain _ _ (Some (b, x)) _ _ => WSend b x
  | LDrain _ _ None _ _ => WRecv Any
  | LExit e => WExit e
  end.

Definition hits (t : option (N * N)) (x : N) : option N :=
  match t with
  | Some (y, tag) => if N.eqb x y then Some tag else None
  | None => None
  end.

(* the drain loop is waiting for input and gets [r] *)
Definition drain_cont (f : filt) (t : option (N * N)) (broken : option exn)
           (rest : list instr) (r : result) : lstate :=
  match r with
  | RItem b x =>
    match broken with
    | Some _ => LDrain f t None broken rest
    | None =>
      match hits t x with
      | Some tag => LDrain f t None (Some (Fail tag)) rest
      | None => if keep f x then LDrain f t (Some (b, x)) None rest
                else LDrain f t None None rest
      end
    end
  | REof => match broken with Some e => LExit (Some e) | None => LRun rest end
  | _ => LDrain f t None broken rest
  end.

(* the band filter is waiting for input and gets [r] *)
Definition only_cont (b : band) (rest : list instr) (r : result) : lstate :=
  match r with
  | RItem c x => if band_eqb c b then LOnly b (Some x) rest else LOnly b None rest
  | REof => LRun rest
  | _ => LOnly b None rest
  end.

Definition cont (l : lstate) (r : result) : lstate :=
  match l with
  | LRun (IOnly b :: rest) => only_cont b rest r
  | LOnly b (Some _) rest =>
    match r with
    | RGone => LExit (Some ReaderGone)
    | _ => LOnly b None rest
    end
  | LOnly b None rest => only_cont b rest r
  | LRun (ISend _ _ :: rest) =>
    match r with RGone => LExit (Some ReaderGone) | _ => LRun rest end
  | LRun (IRecv1 _ :: rest) => LRun rest
  | LRun (IDrain f t :: rest) => drain_cont f t None rest r
  | LDrain f t (Some _) broken rest =>
    match r with
    | RGone => LDrain f t None (Some ReaderGone) rest
    | _ => LDrain f t None broken rest
    end
  | LDrain f t None broken rest => drain_cont f t broken rest r
  | _ => l
  end.

Definition pipeline := list (list instr).

Definition init (p : pipeline) (k : nat) : lstate := LRun (nth k p []).

(* capacities: the value channel's comes from the Go source; the byte pipe's is
   a parameter of every theorem (any capacity >= 1) *)
Definition capV : nat := Z.to_nat pkg_eval.pipelineChanBufferSize.
Definition caps (capB : nat) (b : band) : nat := match b with V => capV | B => capB end.

(* the LTS of pipeline p *)
Definition pstate := state lstate.
Definition pfire (p : pipeline) (capB : nat) := fire lstate want cont (length p) (caps capB).
Definition pstep (p : pipeline) (capB : nat) := step lstate want cont (length p) (caps capB).
Definition preachable (p : pipeline) (capB : nat) :=
  reachable lstate want cont (length p) (caps capB) (init p).
Definition prun (p : pipeline) (capB : nat) (sch : list (nat * bool)) : option pstate :=
  run_sched lstate want cont (length p) (caps capB) sch (init_state lstate (init p)).
Definition pdone (p : pipeline) (s : pstate) : Prop := all_done lstate (length p) s.
Definition pobs (p : pipeline) (s : pstate) : obs := obs_of lstate (length p) s.

(* the oracle: the property on what was observed (independent of the programs) *)
Definition check_C18 (n : nat) (o : obs) : bool := check_obs n o.

(* the acceptor: could the model of pipeline p have ended like this? *)
Definition allowed (p : pipeline) (o : obs) : bool :=
  allowed_outcome lstate want cont (length p) (init p) o.

(* ---- correspondence case ---- *)
Record case := mkCase {
  c_prog : pipeline;
  c_obs : obs }.

(* What a band filter does cannot be recorded from inside the builtin.  The
   harness places a filter for band b only behind a stage that writes band b
   alone, so the filter is the identity on the data; the judge removes such
   stages (program, empty history, exit, position in a PipelineError) and judges
   the collapsed pipeline: its neighbours then face each other directly. *)
Definition is_filter (prog : list instr) : bool :=
  match prog with [IOnly _] => true | _ => false end.

Fixpoint drop_mask {A} (m : list bool) (l : list A) : list A :=
  match m, l with
  | true :: m', _ :: l' => drop_mask m' l'
  | false :: m', x :: l' => x :: drop_mask m' l'
  | _, _ => l
  end.

Definition writes_only (b : band) (prog : list instr) : bool :=
  forallb (fun i => match i with
                    | ISend c _ => band_eqb c b
                    | IRecv1 _ | IThrow _ => true
                    | _ => false
                    end) prog.

(* every filter has a predecessor, which is no filter and writes the filter's band only;
   the filter's exit is OK or reader-gone *)
Fixpoint collapsible_from (prev : option (list instr)) (ps : pipeline) (es : list (option exn)) : bool :=
  match ps, es with
  | [], _ => true
  | prog :: ps', e :: es' =>
    match prog with
    | [IOnly b] =>
      match prev with
      | Some w => negb (is_filter w) && writes_only b w
      | None => false
      end
      && match e with Some (Fail _) => false | _ => true end
    | _ => true
    end && collapsible_from (Some prog) ps' es'
  | _ :: _, [] => false
  end.

Definition collapse (c : case) : case :=
  let m := map is_filter (c_prog c) in
  let o := c_obs c in
  mkCase (drop_mask m (c_prog c))
         (mkObs (drop_mask m (o_hist o)) (drop_mask m (o_exit o))
                (match o_final o with
                 | FMulti es => if Nat.eqb (length es) (length m) then FMulti (drop_mask m es) else FMulti es
                 | f => f
                 end)).

Definition judge_plain (c : case) : N :=
  code (check_C18 (length (c_prog c)) (c_obs c)) (allowed (c_prog c) (c_obs c)).

Definition judge1 (c : case) : N :=
  if existsb is_filter (c_prog c) then
    if collapsible_from None (c_prog c) (o_exit (c_obs c)) then judge_plain (collapse c) else 1%N
  else judge_plain c.

(* The harness ships a case as a byte string (long list literals are slow to
   parse): 3-byte big-endian words, decoded here.
     case  := n prog^n hist^n exit^n final
     prog  := len instr^len        hist := len ev^len
     instr := 0 x | 1 x (send V/B) | 2 | 3 (recv1 V/B) | 4 fk m r ht tx tag (drain) | 5 tag | 6 0 band
     ev    := 0 x | 1 x (sent) | 2 x | 3 x (gone) | 4 x | 5 x (got) | 6 | 7 | 8 (eof Any/V/B)
     exit  := 0 | 1 | 2 tag        final := 0 | 1 exit | 2 len exit^len *)
Fixpoint words (b : bytes) : list N :=
  match b with
  | x :: y :: z :: r => (x * 65536 + y * 256 + z)%N :: words r
  | _ => []
  end.

Definition P (A : Type) := list N -> option (A * list N).

Fixpoint p_many {A} (p : P A) (n : nat) : P (list A) :=
  fun ws =>
  match n with
  | O => Some ([], ws)
  | S m => match p ws with
           | Some (x, r) => match p_many p m r with
                            | Some (xs, r') => Some (x :: xs, r')
                            | None => None
                            end
           | None => None
           end
  end.

Definition p_list {A} (p : P A) : P (list A) :=
  fun ws => match ws with
            | n :: r => p_many p (N.to_nat n) r
            | [] => None
            end.

Definition p_instr : P instr := fun ws =>
  match ws with
  | 0%N :: x :: r => Some (ISend V x, r)
  | 1%N :: x :: r => Some (ISend B x, r)
  | 2%N :: r => Some (IRecv1 V, r)
  | 3%N :: r => Some (IRecv1 B, r)
  | 4%N :: fk :: m :: rr :: ht :: tx :: tag :: r =>
    let f := match fk with 0%N => FAll | 1%N => FNo | _ => FMod m rr end in
    let t := match ht with 0%N => None | _ => Some (tx, tag) end in
    Some (IDrain f t, r)
  | 5%N :: tag :: r => Some (IThrow tag, r)
  | 6%N :: 0%N :: b :: r => Some (IOnly (match b with 0%N => V | _ => B end), r)
  | _ => None
  end.

Definition p_ev : P ev := fun ws =>
  match ws with
  | 0%N :: x :: r => Some (ESent V x, r)
  | 1%N :: x :: r => Some (ESent B x, r)
  | 2%N :: x :: r => Some (EGone V x, r)
  | 3%N :: x :: r => Some (EGone B x, r)
  | 4%N :: x :: r => Some (EGot V x, r)
  | 5%N :: x :: r => Some (EGot B x, r)
  | 6%N :: r => Some (EEof Any, r)
  | 7%N :: r => Some (EEof (Only V), r)
  | 8%N :: r => Some (EEof (Only B), r)
  | _ => None
  end.

Definition p_exit : P (option exn) := fun ws =>
  match ws with
  | 0%N :: r => Some (None, r)
  | 1%N :: r => Some (Some ReaderGone, r)
  | 2%N :: t :: r => Some (Some (Fail t), r)
  | _ => None
  end.

Definition p_final : P final := fun ws =>
  match ws with
  | 0%N :: r => Some (FNone, r)
  | 1%N :: r => match p_exit r with
                | Some (Some e, r') => Some (FSingle e, r')
                | _ => None
                end
  | 2%N :: r => match p_list p_exit r with
                | Some (es, r') => Some (FMulti es, r')
                | None => None
                end
  | _ => None
  end.

Definition decode (b : bytes) : option case :=
  match words b with
  | n :: r =>
    let k := N.to_nat n in
    match p_many (p_list p_instr) k r with
    | Some (progs, r1) =>
      match p_many (p_list p_ev) k r1 with
      | Some (hists, r2) =>
        match p_many p_exit k r2 with
        | Some (exs, r3) =>
          match p_final r3 with
          | Some (f, []) => Some (mkCase progs (mkObs hists exs f))
          | _ => None
          end
        | None => None
        end
      | None => None
      end
    | None => None
    end
  | [] => None
  end.

(* an undecodable case counts as a correspondence failure *)
Definition judge_bytes (b : bytes) : N :=
  match decode b with Some c => judge1 c | None => 1%N end.

Definition judge := judge_with judge_bytes.

(* ---- static shape predicates used in theorem statements ---- *)
(* may instruction i write on band b?  (a drain forwards on the band an item
   came in on: counted as "may write on both") *)
Definition sends_on (b : band) (i : instr) : bool :=
  match i with
  | ISend b' _ => band_eqb b' b
  | IDrain _ _ => true
  | IOnly b' => band_eqb b' b
  | _ => false
  end.
(* may instruction i wait on band b alone? *)
Definition recv1_on (b : band) (i : instr) : bool :=
  match i with IRecv1 b' => band_eqb b' b | _ => false end.

(* no single-band read at all *)
Definition no_recv1_instr (i : instr) : bool :=
  match i with IRecv1 _ => false | _ => true end.
Definition no_recv1 (p : pipeline) : bool := forallb (forallb no_recv1_instr) p.

(* a reader that waits on band b alone has a writer that never writes on the
   other band *)
Definition safe_pair (w r : list instr) : bool :=
  forallb (fun b => negb (existsb (recv1_on b) r && existsb (sends_on (other b)) w)) [V; B].
Definition no_cross_band (p : pipeline) : bool :=
  forallb (fun k => safe_pair (nth k p []) (nth (S k) p [])) (seq 0 (pred (length p))).

(* a deterministic scheduler for examples: the first stage that can move, moves *)
Fixpoint auto_sched (p : pipeline) (capB : nat) (rev_order : bool) (fuel : nat) (s : pstate)
  : list (nat * bool) :=
  match fuel with
  | O => []
  | S f =>
    let order := if rev_order then rev (seq 0 (length p)) else seq 0 (length p) in
    match find (enabledb lstate want cont (length p) (caps capB) s) order with
    | Some k =>
      match pfire p capB k true s with
      | Some s' => (k, true) :: auto_sched p capB rev_order f s'
      | None => match pfire p capB k false s with
                | Some s' => (k, false) :: auto_sched p capB rev_order f s'
                | None => []
                end
      end
    | None => []
    end
  end.

(* ---- read-to-end pipelines (for the determinism theorem) ---- *)
(* a stage  sends ; each {forward what the filter keeps} ; sends *)
Definition dstage := (list (band * N) * filt * list (band * N))%type.
Definition send_of (bx : band * N) : instr := ISend (fst bx) (snd bx).
Definition det_prog (d : dstage) : list instr :=
  let '(pre, f, post) := d in map send_of pre ++ IDrain f None :: map send_of post.
Definition det_pipeline (dp : list dstage) : pipeline := map det_prog dp.

Fixpoint proj_band (b : band) (l : list (band * N)) : list N :=
  match l with
  | [] => []
  | (c, x) :: r => if band_eqb c b then x :: proj_band b r else proj_band b r
  end.

(* what such a stage writes on band b, given what it receives on band b *)
Definition out_band (d : dstage) (b : band) (inp : list N) : list N :=
  let '(pre, f, post) := d in proj_band b pre ++ filter (keep f) inp ++ proj_band b post.

(* the data flow of the whole pipeline, stage by stage *)
Fixpoint flow_in (dp : list dstage) (k : nat) (b : band) : list N :=
  match k with
  | O => []
  | S j => out_band (nth j dp ([], FAll, [])) b (flow_in dp j b)
  end.
Definition flow_out (dp : list dstage) (k : nat) (b : band) : list N :=
  out_band (nth k dp ([], FAll, [])) b (flow_in dp k b).
