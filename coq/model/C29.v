(* C29 — model of pkg/cli/histutil: memStoreCursor, dbStoreCursor (frozen upper
   bound), hybridStoreCursor (hand-off), dedupCursor (stack); executable, no
   proofs.  The database is the sequential specification of the history store
   (model/C24_StoreSpec.v, proved to be refined by the model of pkg/store in C24).

   memStoreCursor {cmds, prefix, index} is modelled as a zipper over the slice:
   [mc_before] = cmds[:index] reversed, [mc_after] = cmds[index:], plus the flag
   [mc_low] for index = -1 (then mc_before = [] and mc_after = cmds); index =
   len(cmds) is mc_after = [].  Prev/Next are the scanning loops of mem_store.go
   on that representation. *)
From verif Require Import lib.Base model.C24_F64 model.C24_StoreSpec.
Open Scope Z_scope.

Definition hcmd := (bytes * Z)%type.     (* storedefs.Cmd {Text, Seq} *)
Definition hmatch (p : bytes) (c : hcmd) : bool := has_prefix p (fst c).

(* ---- memStoreCursor ---- *)
Record memcur := mkMem {
  mc_prefix : bytes;
  mc_before : list hcmd;      (* cmds[:index], reversed *)
  mc_after : list hcmd;       (* cmds[index:] *)
  mc_low : bool }.            (* index = -1 *)

(* for c.index--; c.index >= 0; c.index-- { if HasPrefix(...) { return } } *)
Fixpoint mem_scan_down (p : bytes) (before after : list hcmd) : memcur :=
  match before with
  | [] => mkMem p [] after true                        (* index = -1 *)
  | x :: b' => if hmatch p x then mkMem p b' (x :: after) false
               else mem_scan_down p b' (x :: after)
  end.

Definition mem_prev (c : memcur) : memcur :=
  if mc_low c then c                                   (* if c.index < 0 { return } *)
  else mem_scan_down (mc_prefix c) (mc_before c) (mc_after c).

(* for c.index++; c.index < len(c.cmds); c.index++ { if HasPrefix(...) { return } } *)
Fixpoint mem_scan_up (p : bytes) (before after : list hcmd) : memcur :=
  match after with
  | [] => mkMem p before [] false                      (* index = len *)
  | x :: a' => if hmatch p x then mkMem p before after false
               else mem_scan_up p (x :: before) a'
  end.

Definition mem_next (c : memcur) : memcur :=
  if mc_low c then mem_scan_up (mc_prefix c) [] (mc_after c)   (* from -1: examine index 0, 1, ... *)
  else match mc_after c with
       | [] => c                                       (* if c.index >= len(c.cmds) { return } *)
       | x :: a' => mem_scan_up (mc_prefix c) (x :: mc_before c) a'
       end.

Definition mem_get (c : memcur) : option hcmd :=
  if mc_low c then None
  else match mc_after c with [] => None | x :: _ => Some x end.

(* memStore.Cursor(prefix): &memStoreCursor{s.cmds, prefix, len(s.cmds)} *)
Definition mem_cursor (cmds : list hcmd) (p : bytes) : memcur := mkMem p (rev cmds) [] false.

(* memStore.AddCmd *)
Definition mem_add (cmds : list hcmd) (t : bytes) (seq : Z) : list hcmd :=
  cmds ++ [(t, if seq <? 0 then Z.of_nat (length cmds) + 1 else seq)].

(* ---- dbStoreCursor ---- *)
Record dbcur := mkDb {
  dc_prefix : bytes; dc_upper : Z;
  dc_text : bytes; dc_seq : Z;     (* c.cmd *)
  dc_end : bool }.                 (* c.err == ErrEndOfHistory (else nil) *)

(* dbStore.Cursor *)
Definition db_cursor (upper : Z) (p : bytes) : dbcur := mkDb p upper [] upper true.

(* c.set(cmd, err, endSeq); other database errors do not occur in the specification *)
Definition db_set (c : dbcur) (r : res) (endSeq : Z) : dbcur :=
  match r with
  | RCmd t s => mkDb (dc_prefix c) (dc_upper c) t s false
  | RNoMatch => mkDb (dc_prefix c) (dc_upper c) [] endSeq true
  | _ => c
  end.

Definition db_prev (db : sstate) (c : dbcur) : dbcur :=
  if dc_seq c <? 0 then c
  else db_set c (sp_prev db (dc_seq c) (dc_prefix c)) (-1).

Definition db_next (db : sstate) (c : dbcur) : dbcur :=
  if dc_upper c <=? dc_seq c then c
  else
    let r := sp_next db (dc_seq c + 1) (dc_prefix c) in
    let s := match r with RCmd _ s => s | _ => 0 end in     (* cmd.Seq; zero Cmd on error *)
    let c1 := if s <? dc_upper c then db_set c r (dc_upper c) else c in
    if dc_upper c <=? s then mkDb (dc_prefix c) (dc_upper c) [] (dc_upper c) true else c1.

Definition db_get (c : dbcur) : option hcmd :=
  if dc_end c then None else Some (dc_text c, dc_seq c).

(* ---- hybridStoreCursor ---- *)
Record hybcur := mkHyb { hc_shared : dbcur; hc_session : memcur; hc_use_shared : bool }.

Definition is_end (o : option hcmd) : bool := match o with None => true | Some _ => false end.

Definition hyb_prev (db : sstate) (c : hybcur) : hybcur :=
  if hc_use_shared c then mkHyb (db_prev db (hc_shared c)) (hc_session c) true
  else
    let s' := mem_prev (hc_session c) in
    if is_end (mem_get s') then mkHyb (db_prev db (hc_shared c)) s' true
    else mkHyb (hc_shared c) s' false.

Definition hyb_next (db : sstate) (c : hybcur) : hybcur :=
  if negb (hc_use_shared c) then mkHyb (hc_shared c) (mem_next (hc_session c)) false
  else
    let d' := db_next db (hc_shared c) in
    if is_end (db_get d') then mkHyb d' (mem_next (hc_session c)) false
    else mkHyb d' (hc_session c) true.

Definition hyb_get (c : hybcur) : option hcmd :=
  if hc_use_shared c then db_get (hc_shared c) else mem_get (hc_session c).

Definition hyb_cursor (upper : Z) (session : list hcmd) (p : bytes) : hybcur :=
  mkHyb (db_cursor upper p) (mem_cursor session p) false.

(* ---- dedupCursor ---- *)
Record dedcur := mkDed { dd_inner : hybcur; dd_current : Z; dd_stack : list hcmd }.

Definition occ (stack : list hcmd) (t : bytes) : bool := existsb (fun c => bytes_eqb t (fst c)) stack.

(* the for loop of dedupCursor.Prev; None = out of fuel *)
Fixpoint ded_loop (fuel : nat) (db : sstate) (inner : hybcur) (stack : list hcmd) : option dedcur :=
  match fuel with
  | O => None
  | S f =>
    let inner' := hyb_prev db inner in
    match hyb_get inner' with
    | None => Some (mkDed inner' (Z.of_nat (length stack)) stack)
    | Some cmd =>
      if negb (occ stack (fst cmd))
      then Some (mkDed inner' (Z.of_nat (length stack)) (stack ++ [cmd]))
      else ded_loop f db inner' stack
    end
  end.

Definition ded_prev (fuel : nat) (db : sstate) (c : dedcur) : option dedcur :=
  if dd_current c <? Z.of_nat (length (dd_stack c)) - 1
  then Some (mkDed (dd_inner c) (dd_current c + 1) (dd_stack c))
  else ded_loop fuel db (dd_inner c) (dd_stack c).

Definition ded_next (c : dedcur) : dedcur :=
  if 0 <=? dd_current c then mkDed (dd_inner c) (dd_current c - 1) (dd_stack c) else c.

Definition ded_get (c : dedcur) : option hcmd :=
  if dd_current c <? 0 then None
  else if dd_current c <? Z.of_nat (length (dd_stack c))
       then nth_error (dd_stack c) (Z.to_nat (dd_current c))
       else hyb_get (dd_inner c).

Definition ded_cursor (inner : hybcur) : dedcur := mkDed inner 0 [].

(* ------------------------------------------------------------------ *)
(* the session: a database shared with other sessions, the in-memory session
   history, one cursor *)
Inductive ev := ESess (t : bytes) | EOther (t : bytes).     (* hybridStore.AddCmd / another session's AddCmd *)
Inductive move := MPrev | MNext | MStay.
Inductive anycur := CHyb (c : hybcur) | CDed (c : dedcur).

Definition db_add (db : sstate) (t : bytes) : sstate * Z :=
  let '(db', r) := sp_add db t in (db', match r with RInt z => z | _ => 0 end).

Definition apply_ev (st : sstate * list hcmd) (e : ev) : sstate * list hcmd :=
  let '(db, sess) := st in
  match e with
  | ESess t => let '(db', seq) := db_add db t in (db', mem_add sess t seq)
  | EOther t => (fst (db_add db t), sess)
  end.

Definition cur_move (fuel : nat) (db : sstate) (m : move) (c : anycur) : option anycur :=
  match c, m with
  | _, MStay => Some c
  | CHyb h, MPrev => Some (CHyb (hyb_prev db h))
  | CHyb h, MNext => Some (CHyb (hyb_next db h))
  | CDed d, MPrev => match ded_prev fuel db d with Some d' => Some (CDed d') | None => None end
  | CDed d, MNext => Some (CDed (ded_next d))
  end.

Definition cur_get (c : anycur) : option hcmd :=
  match c with CHyb h => hyb_get h | CDed d => ded_get d end.

(* one step of a walk: what was added (by this and by other sessions) since the
   previous step, then the move; the result is Get after the move *)
Definition step := (list ev * move)%type.

Inductive obs := OCmd (c : hcmd) | OEnd | OFuel.
Definition obs_of (o : option hcmd) : obs := match o with Some c => OCmd c | None => OEnd end.

Fixpoint walk_run (st : sstate * list hcmd) (c : anycur) (w : list step) : list obs :=
  match w with
  | [] => []
  | (evs, m) :: w' =>
    let st' := fold_left apply_ev evs st in
    let fuel := S (S (length (s_log (fst st')) + length (snd st'))) in
    match cur_move fuel (fst st') m c with
    | Some c' => obs_of (cur_get c') :: walk_run st' c' w'
    | None => [OFuel]
    end
  end.

(* upper of NewDBStore: db.NextCmdSeq() *)
Definition next_seq (db : sstate) : Z := match sp_next_seq db with RInt z => z | _ => 0 end.

Definition new_cursor (upper : Z) (sess : list hcmd) (p : bytes) (dedup : bool) : anycur :=
  if dedup then CDed (ded_cursor (hyb_cursor upper sess p)) else CHyb (hyb_cursor upper sess p).

(* the whole scenario: [pre] = store operations before the session starts;
   NewHybridStore; [mid] = additions before the cursor is created; the walk *)
Definition scenario (pre : list op) (mid : list ev) (p : bytes) (dedup : bool) (w : list step) : list obs :=
  let db0 := spec_exec isort_desc (spec_init 0) pre in
  let upper := next_seq db0 in
  let st := fold_left apply_ev mid (db0, []) in
  walk_run st (new_cursor upper (snd st) p dedup) w.

(* ------------------------------------------------------------------ *)
(* Specification on observables: the session's view at cursor creation and a
   position in it. *)

(* keep the first occurrence of each text *)
Fixpoint dedup_first (seen : list bytes) (l : list hcmd) : list hcmd :=
  match l with
  | [] => []
  | c :: r => if mem_bytes (fst c) seen then dedup_first seen r
              else c :: dedup_first (fst c :: seen) r
  end.

(* the entries a cursor can visit, newest first *)
Definition visit_list (view : list hcmd) (p : bytes) (dedup : bool) : list hcmd :=
  let l := rev (filter (hmatch p) view) in
  if dedup then dedup_first [] l else l.

(* position: -1 = past the newest end (initial), 0.. = entries newest first,
   n = past the oldest end *)
Definition pos_move (n : Z) (m : move) (k : Z) : Z :=
  match m with
  | MPrev => Z.min (k + 1) n
  | MNext => Z.max (k - 1) (-1)
  | MStay => k
  end.

Definition pos_get (l : list hcmd) (k : Z) : obs :=
  if k <? 0 then OEnd else match nth_error l (Z.to_nat k) with Some c => OCmd c | None => OEnd end.

Fixpoint pos_run (l : list hcmd) (k : Z) (ms : list move) : list obs :=
  match ms with
  | [] => []
  | m :: ms' => let k' := pos_move (Z.of_nat (length l)) m k in pos_get l k' :: pos_run l k' ms'
  end.

Definition hcmd_eqb (a b : hcmd) : bool := bytes_eqb (fst a) (fst b) && Z.eqb (snd a) (snd b).
Definition obs_eqb (a b : obs) : bool :=
  match a, b with
  | OCmd x, OCmd y => hcmd_eqb x y
  | OEnd, OEnd => true
  | OFuel, OFuel => true
  | _, _ => false
  end.

(* [stored]: the commands in the database when the session started (they have
   sequence numbers below the session's upper bound); [session]: the session's own
   commands at cursor creation.  Commands added later or by other sessions are
   not part of the view. *)
Definition check_C29 (stored session : list hcmd) (p : bytes) (dedup : bool)
    (moves : list move) (observed : list obs) : bool :=
  list_eqb obs_eqb (pos_run (visit_list (stored ++ session) p dedup) (-1) moves) observed.

(* ---- correspondence case ---- *)
Record case := mkCase {
  k_pre : list op;             (* AddCmd / DelCmd before the session *)
  k_mid : list ev;
  k_prefix : bytes;
  k_dedup : bool;
  k_walk : list (step * obs);
  k_stored : list hcmd;        (* observed: CmdsWithSeq(0, upper) at session start *)
  k_session : list hcmd }.     (* observed: texts added by the session with the returned numbers *)

Definition judge1 (c : case) : N :=
  let w := map fst (k_walk c) in
  let o := map snd (k_walk c) in
  code (check_C29 (k_stored c) (k_session c) (k_prefix c) (k_dedup c) (map snd w) o)
       (list_eqb obs_eqb (scenario (k_pre c) (k_mid c) (k_prefix c) (k_dedup c) w) o).

Definition judge := judge_with judge1.

(* ------------------------------------------------------------------ *)
(* walks of the in-memory cursor alone (histutil.NewHybridStore(nil) and the
   session part of the hybrid cursor) *)
Definition mem_move (m : move) (c : memcur) : memcur :=
  match m with MPrev => mem_prev c | MNext => mem_next c | MStay => c end.

Fixpoint mem_run (c : memcur) (ms : list move) : list obs :=
  match ms with
  | [] => []
  | m :: ms' => let c' := mem_move m c in obs_of (mem_get c') :: mem_run c' ms'
  end.

(* number of additions (by this and by other sessions) during a walk *)
Fixpoint evcount (w : list step) : nat :=
  match w with
  | [] => O
  | (evs, _) :: w' => (length evs + evcount w')%nat
  end.

(* the session's view when the cursor is created: the commands in the database
   when the session started (all numbered below the frozen upper bound), then
   the session's own commands so far *)
Definition session_view (pre : list op) (mid : list ev) : list hcmd :=
  let db0 := spec_exec isort_desc (spec_init 0) pre in
  map out_cmd (s_log db0) ++ snd (fold_left apply_ev mid (db0, [])).
