(* Generated from /repo by harness/cmd/goconsts on every run; do not edit. *)
From Coq Require Import ZArith List String.
From verif Require Import lib.Base.
Import ListNotations.
Open Scope Z_scope.

