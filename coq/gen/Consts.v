(* Generated from /repo by harness/cmd/goconsts on every run; do not edit. *)
From Coq Require Import ZArith List String.
From verif Require Import lib.Base.
Import ListNotations.
Open Scope Z_scope.

Module pkg_persistent_vector.
  Definition chunkBits : Z := 5.
  Definition chunkMask : Z := 31.
  Definition nodeSize : Z := 32.
  Definition tailMaxLen : Z := 32.
End pkg_persistent_vector.

Module pkg_persistent_hashmap.
  Definition chunkBits : Z := 5.
  Definition chunkMask : Z := 31.
  Definition m1 : Z := 1431655765.
  Definition m16 : Z := 65535.
  Definition m2 : Z := 858993459.
  Definition m4 : Z := 252645135.
  Definition m8 : Z := 16711935.
  Definition nodeCap : Z := 32.
End pkg_persistent_hashmap.

Module pkg_persistent_hash.
  Definition DJBInit : Z := 5381.
End pkg_persistent_hash.

Module pkg_eval.
  Definition Break : Z := 1.
  Definition Continue : Z := 2.
  Definition FnSuffix : list N := (hx "7e"%string).
  Definition NsSuffix : list N := (hx "3a"%string).
  Definition Return : Z := 0.
  Definition builtinScope : Z := 3.
  Definition captureScope : Z := 2.
  Definition defaultFileRedirPerm : Z := 420.
  Definition defaultNotifyBgJobSuccess : bool := true.
  Definition defaultValuePrefix : list N := (hx "e296b620"%string).
  Definition delArgMsg : list N := (hx "617267756d656e747320746f2064656c206d757374206265207661726961626c65206f72207661726961626c6520656c656d656e7473"%string).
  Definition envScope : Z := 4.
  Definition externalScope : Z := 5.
  Definition filePortChanSize : Z := 32.
  Definition localScope : Z := 1.
  Definition newLValue : Z := 2.
  Definition noMatchOK : Z := 1.
  Definition pipelineChanBufferSize : Z := 32.
  Definition setLValue : Z := 1.
End pkg_eval.

Module pkg_eval_vals.
  Definition AllowExtraMapKey : Z := 2.
  Definition AllowMissingMapKey : Z := 1.
  Definition BigInt : Z := 1.
  Definition BigRat : Z := 2.
  Definition CmpEqual : Z := 1.
  Definition CmpLess : Z := 0.
  Definition CmpMore : Z := 2.
  Definition CmpUncomparable : Z := 3.
  Definition Float64 : Z := 3.
  Definition Int : Z := 0.
End pkg_eval_vals.

Module pkg_cli.
  Definition finalRedraw : Z := 2.
  Definition fullRedraw : Z := 1.
  Definition inputChSize : Z := 128.
End pkg_cli.

Module pkg_cli_term.
  Definition badRune : Z := 65533.
  Definition enableSGRMouse : bool := false.
  Definition hideCursor : list N := (hx "1b5b3f32356c"%string).
  Definition lackEOL : list N := (hx "1b5b376de28f8e1b5b6d"%string).
  Definition lackEOLRune : Z := 9166.
  Definition runeEndOfSeq : Z := (-1).
  Definition showCursor : list N := (hx "1b5b3f323568"%string).
End pkg_cli_term.

Module pkg_store.
  Definition DirScoreDecay : Z * Z := (493, 500).
  Definition DirScoreIncrement : Z := 10.
  Definition DirScorePrecision : Z := 6.
  Definition bucketCmd : list N := (hx "636d64"%string).
  Definition bucketDir : list N := (hx "646972"%string).
End pkg_store.

Module pkg_store_storedefs.
End pkg_store_storedefs.

Module pkg_daemon.
  Definition connectionOtherError : Z := 4.
  Definition connectionRefused : Z := 3.
  Definition connectionRefusedFmt : list N := (hx "536f636b65742066696c65202573206578697374732062757420726566757365732072657175657374732e2054686973206973206c696b656c79206265636175736520746865206461656d6f6e20776173207465726d696e617465642061626e6f726d616c6c792e20476f696e6720746f2072656d6f766520736f636b65742066696c6520616e642072652d737061776e20746865206461656d6f6e2e0a"%string).
  Definition daemonOK : Z := 0.
  Definition daemonOutdated : Z := 5.
  Definition retriesOnShutdown : Z := 3.
  Definition sockfileMissing : Z := 1.
  Definition sockfileOtherError : Z := 2.
End pkg_daemon.

Module pkg_wcwidth.
End pkg_wcwidth.

Module pkg_parse.
  Definition Append : Z := 4.
  Definition BadPrimary : Z := 0.
  Definition BadRedirMode : Z := 0.
  Definition Bareword : Z := 1.
  Definition Braced : Z := 12.
  Definition BracedElemExpr : Z := 3.
  Definition CmdExpr : Z := 1.
  Definition DoubleQuoted : Z := 3.
  Definition ExceptionCapture : Z := 7.
  Definition LHSExpr : Z := 2.
  Definition Lambda : Z := 10.
  Definition List : Z := 9.
  Definition Map : Z := 11.
  Definition NormalExpr : Z := 0.
  Definition OutputCapture : Z := 8.
  Definition Read : Z := 1.
  Definition ReadWrite : Z := 3.
  Definition SingleQuoted : Z := 2.
  Definition Tilde : Z := 6.
  Definition Variable_ : Z := 4.
  Definition Wildcard : Z := 5.
  Definition Write : Z := 2.
  Definition _ExprCtx_name : list N := (hx "4e6f726d616c45787072436d64457870724c485345787072427261636564456c656d4578707273747269637445787072"%string).
  Definition _PrimaryType_name : list N := (hx "4261645072696d61727942617265776f726453696e676c6551756f746564446f75626c6551756f7465645661726961626c6557696c646361726454696c6465457863657074696f6e436170747572654f7574707574436170747572654c6973744c616d6264614d6170427261636564"%string).
  Definition _RedirMode_name : list N := (hx "42616452656469724d6f6465526561645772697465526561645772697465417070656e64"%string).
  Definition eof : Z := (-1).
  Definition indentInc : Z := 2.
  Definition maxL : Z := 10.
  Definition maxR : Z := 10.
  Definition strictExpr : Z := 4.
End pkg_parse.

Module pkg_getopt.
  Definition AnyOption : Z := 1.
  Definition Argument : Z := 5.
  Definition BSD : Z := 3.
  Definition ChainShortOption : Z := 3.
  Definition GNU : Z := 1.
  Definition LongOnly : Z := 4.
  Definition LongOption : Z := 2.
  Definition NoArgument : Z := 0.
  Definition OptionArgument : Z := 4.
  Definition OptionOrArgument : Z := 0.
  Definition OptionalArgument : Z := 2.
  Definition RequiredArgument : Z := 1.
  Definition StopAfterDoubleDash : Z := 1.
  Definition StopBeforeFirstNonOption : Z := 2.
  Definition _Arity_name : list N := (hx "4e6f417267756d656e745265717569726564417267756d656e744f7074696f6e616c417267756d656e74"%string).
  Definition _Config_name_0 : list N := (hx "53746f704166746572446f75626c654461736853746f704265666f726546697273744e6f6e4f7074696f6e"%string).
  Definition _Config_name_1 : list N := (hx "4c6f6e674f6e6c79"%string).
  Definition _ContextType_name : list N := (hx "4f7074696f6e4f72417267756d656e74416e794f7074696f6e4c6f6e674f7074696f6e436861696e53686f72744f7074696f6e4f7074696f6e417267756d656e74417267756d656e74"%string).
End pkg_getopt.

Module pkg_edit_highlight.
  Definition barewordRegion : list N := (hx "62617265776f7264"%string).
  Definition commandRegion : list N := (hx "636f6d6d616e64"%string).
  Definition commentRegion : list N := (hx "636f6d6d656e74"%string).
  Definition doubleQuotedRegion : list N := (hx "646f75626c652d71756f746564"%string).
  Definition errorRegion : list N := (hx "6572726f72"%string).
  Definition keywordRegion : list N := (hx "6b6579776f7264"%string).
  Definition latesBufferSize : Z := 128.
  Definition lexicalRegion : Z := 0.
  Definition semanticRegion : Z := 1.
  Definition singleQuotedRegion : list N := (hx "73696e676c652d71756f746564"%string).
  Definition tildeRegion : list N := (hx "74696c6465"%string).
  Definition variableRegion : list N := (hx "7661726961626c65"%string).
  Definition wildcardRegion : list N := (hx "77696c6463617264"%string).
End pkg_edit_highlight.

Module pkg_cli_histutil.
End pkg_cli_histutil.

Module pkg_glob.
  Definition Question : Z := 0.
  Definition Star : Z := 1.
  Definition StarStar : Z := 2.
  Definition eof : Z := (-1).
End pkg_glob.

Module pkg_diag.
End pkg_diag.

Module pkg_lsp.
End pkg_lsp.

Module pkg_ui.
  Definition Alt : Z := 2.
  Definition Backspace : Z := 127.
  Definition Ctrl : Z := 4.
  Definition DefaultBindingRune : Z := (-1000).
  Definition Delete : Z := (-981).
  Definition Down : Z := (-986).
  Definition End_ : Z := (-980).
  Definition Enter : Z := 10.
  Definition F1 : Z := (-999).
  Definition F10 : Z := (-990).
  Definition F11 : Z := (-989).
  Definition F12 : Z := (-988).
  Definition F2 : Z := (-998).
  Definition F3 : Z := (-997).
  Definition F4 : Z := (-996).
  Definition F5 : Z := (-995).
  Definition F6 : Z := (-994).
  Definition F7 : Z := (-993).
  Definition F8 : Z := (-992).
  Definition F9 : Z := (-991).
  Definition Home : Z := (-983).
  Definition Insert : Z := (-982).
  Definition Left : Z := (-984).
  Definition PageDown : Z := (-978).
  Definition PageUp : Z := (-979).
  Definition Right : Z := (-985).
  Definition Shift : Z := 1.
  Definition Tab : Z := 9.
  Definition Up : Z := (-987).
  Definition functionKeyOffset : Z := 1000.
  Definition sgrPrefix : list N := (hx "1b5b"%string).
End pkg_ui.

Module pkg_md.
  Definition OpAutolink : Z := 11.
  Definition OpBlockquoteEnd : Z := 6.
  Definition OpBlockquoteStart : Z := 5.
  Definition OpBulletListEnd : Z := 10.
  Definition OpBulletListStart : Z := 9.
  Definition OpCodeBlock : Z := 2.
  Definition OpCodeSpan : Z := 1.
  Definition OpEmphasisEnd : Z := 5.
  Definition OpEmphasisStart : Z := 4.
  Definition OpHTMLBlock : Z := 3.
  Definition OpHardLineBreak : Z := 12.
  Definition OpHeading : Z := 1.
  Definition OpImage : Z := 10.
  Definition OpLinkEnd : Z := 9.
  Definition OpLinkStart : Z := 8.
  Definition OpListItemEnd : Z := 8.
  Definition OpListItemStart : Z := 7.
  Definition OpNewLine : Z := 3.
  Definition OpOrderedListEnd : Z := 12.
  Definition OpOrderedListStart : Z := 11.
  Definition OpParagraph : Z := 4.
  Definition OpRawHTML : Z := 2.
  Definition OpStrongEmphasisEnd : Z := 7.
  Definition OpStrongEmphasisStart : Z := 6.
  Definition OpText : Z := 0.
  Definition OpThematicBreak : Z := 0.
  Definition _InlineOpType_name : list N := (hx "4f70546578744f70436f64655370616e4f7052617748544d4c4f704e65774c696e654f70456d70686173697353746172744f70456d706861736973456e644f705374726f6e67456d70686173697353746172744f705374726f6e67456d706861736973456e644f704c696e6b53746172744f704c696e6b456e644f70496d6167654f704175746f6c696e6b4f70486172644c696e65427265616b"%string).
  Definition _OpType_name : list N := (hx "4f705468656d61746963427265616b4f7048656164696e674f70436f6465426c6f636b4f7048544d4c426c6f636b4f705061726167726170684f70426c6f636b71756f746553746172744f70426c6f636b71756f7465456e644f704c6973744974656d53746172744f704c6973744974656d456e644f7042756c6c65744c69737453746172744f7042756c6c65744c697374456e644f704f7264657265644c69737453746172744f704f7264657265644c697374456e64"%string).
  Definition asciiControl : list N := (hx "000102030405060708090a0b0c0d0e0f101112131415161718191a1b1c1d1e1f"%string).
  Definition asciiPuncts : list N := (hx "2122232425262728292a2b2c2d2e2f3a3b3c3d3e3f405b5c5d5e5f607b7c7d7e"%string).
  Definition blockquote : Z := 0.
  Definition bulletItem : Z := 2.
  Definition bulletList : Z := 1.
  Definition charRefPattern : list N := (hx "26283f3a5b612d7a412d5a302d395d2b7c235b302d395d7b312c377d7c235b78585d5b302d39612d66412d465d7b312c367d293b"%string).
  Definition closingTag : list N := (hx "3c2f5b612d7a412d5a5d5b612d7a412d5a302d392d5d2a5b205c745c6e5d2a3e"%string).
  Definition emailLocalPuncts : list N := (hx "2e2123242526272a2b2f3d3f5e5f607b7c7d7e2d"%string).
  Definition fmtBlockquote : Z := 0.
  Definition fmtBulletItem : Z := 1.
  Definition fmtOrderedItem : Z := 2.
  Definition forbiddenInAutolink : list N := (hx "000102030405060708090a0b0c0d0e0f101112131415161718191a1b1c1d1e1f26203c3e"%string).
  Definition forbiddenInRawLinkDest : list N := (hx "000102030405060708090a0b0c0d0e0f101112131415161718191a1b1c1d1e1f20"%string).
  Definition indentedCodePrefix : list N := (hx "20202020"%string).
  Definition metas : list N := (hx "215b5d2a5f605c263c0a"%string).
  Definition openTag : list N := (hx "3c5b612d7a412d5a5d5b612d7a412d5a302d392d5d2a283f3a5b205c745c6e5d2b5b612d7a412d5a5f3a5d5b612d7a412d5a302d395f5c2e3a2d5d2a283f3a5b205c745c6e5d2a3d5b205c745c6e5d2a283f3a5b5e205c745c6e22273d3c3e605d2b7c275b5e275d2a277c225b5e225d2a2229293f292a5b205c745c6e5d2a2f3f3e"%string).
  Definition orderedItem : Z := 4.
  Definition orderedList : Z := 3.
  Definition scheme : list N := (hx "5b612d7a412d5a5d5b612d7a412d5a302d392b2e2d5d7b312c33317d"%string).
  Definition segHTML : Z := 2.
  Definition segHardLineBreak : Z := 4.
  Definition segLinkOrImageEnd : Z := 6.
  Definition segLinkOrImageStart : Z := 5.
  Definition segNewLine : Z := 3.
  Definition segText : Z := 0.
  Definition segTextNoReflow : Z := 1.
End pkg_md.

Module pkg_cli_tk.
  Definition colViewColGap : Z := 1.
  Definition listBoxColGap : Z := 2.
End pkg_cli_tk.

Module pkg_mods_math.
  Definition maxInt : Z := 9223372036854775807.
  Definition minInt : Z := (-9223372036854775808).
End pkg_mods_math.

Module pkg_strutil.
End pkg_strutil.

Module pkg_edit.
End pkg_edit.

Module pkg_edit_complete.
End pkg_edit_complete.

Module pkg_mods_str.
End pkg_mods_str.

Module pkg_mods_re.
End pkg_mods_re.

Module pkg_eval_vars.
End pkg_eval_vars.

Module pkg_rpc.
  Definition logRegisterError : bool := false.
End pkg_rpc.

Module pkg_shell.
End pkg_shell.

Module pkg_persistent_list.
End pkg_persistent_list.

Module pkg_mods_file.
End pkg_mods_file.

Module pkg_mods_flag.
End pkg_mods_flag.

Module pkg_ui_styledown.
End pkg_ui_styledown.

