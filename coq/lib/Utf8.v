(* UTF-8 as Go's unicode/utf8 implements it (executable definitions only; the
   proofs live in lib/Utf8_proofs.v).  Bytes and runes are N. *)
From verif Require Import lib.Base.
Open Scope N_scope.

Definition RuneError : N := 65533.   (* U+FFFD *)
Definition MaxRune : N := 1114111.   (* U+10FFFF *)
Definition RuneSelf : N := 128.

(* utf8.first[] and acceptRanges: for a leading byte, (size, lo, hi) of the
   second byte; None for bytes that cannot start a multi-byte sequence *)
Definition first_info (b : N) : option (nat * N * N) :=
  if b <? 194 then None                                  (* < 0xC2: ASCII handled before; 80..C1 invalid *)
  else if b <=? 223 then Some (2%nat, 128, 191)          (* C2..DF *)
  else if b =? 224 then Some (3%nat, 160, 191)           (* E0 *)
  else if b <=? 236 then Some (3%nat, 128, 191)          (* E1..EC *)
  else if b =? 237 then Some (3%nat, 128, 159)           (* ED *)
  else if b <=? 239 then Some (3%nat, 128, 191)          (* EE..EF *)
  else if b =? 240 then Some (4%nat, 144, 191)           (* F0 *)
  else if b <=? 243 then Some (4%nat, 128, 191)          (* F1..F3 *)
  else if b =? 244 then Some (4%nat, 128, 143)           (* F4 *)
  else None.

Definition is_cont (b : N) : bool := (128 <=? b) && (b <=? 191).

(* utf8.DecodeRune: (rune, width); width 0 only for the empty input *)
Definition decode_rune (s : bytes) : N * nat :=
  match s with
  | [] => (RuneError, 0%nat)
  | p0 :: r1 =>
    if p0 <? 128 then (p0, 1%nat) else
    match first_info p0 with
    | None => (RuneError, 1%nat)
    | Some (sz, lo, hi) =>
      match r1 with
      | [] => (RuneError, 1%nat)
      | b1 :: r2 =>
        if (b1 <? lo) || (hi <? b1) then (RuneError, 1%nat) else
        match sz with
        | 2%nat => ((p0 mod 32) * 64 + (b1 mod 64), 2%nat)
        | _ =>
          match r2 with
          | [] => (RuneError, 1%nat)
          | b2 :: r3 =>
            if negb (is_cont b2) then (RuneError, 1%nat) else
            match sz with
            | 3%nat => ((p0 mod 16) * 4096 + (b1 mod 64) * 64 + (b2 mod 64), 3%nat)
            | _ =>
              match r3 with
              | [] => (RuneError, 1%nat)
              | b3 :: _ =>
                if negb (is_cont b3) then (RuneError, 1%nat) else
                ((p0 mod 8) * 262144 + (b1 mod 64) * 4096 + (b2 mod 64) * 64 + (b3 mod 64), 4%nat)
              end
            end
          end
        end
      end
    end
  end.

Definition is_surrogate (r : N) : bool := (55296 <=? r) && (r <=? 57343).

(* utf8.ValidRune *)
Definition valid_rune (r : N) : bool := (r <=? MaxRune) && negb (is_surrogate r).

(* utf8.AppendRune / EncodeRune (invalid runes encode U+FFFD) *)
Definition encode_rune (r : N) : bytes :=
  if r <? 128 then [r]
  else if r <? 2048 then [192 + r / 64; 128 + r mod 64]
  else if negb (valid_rune r) then [239; 191; 189]
  else if r <? 65536 then [224 + r / 4096; 128 + (r / 64) mod 64; 128 + r mod 64]
  else [240 + r / 262144; 128 + (r / 4096) mod 64; 128 + (r / 64) mod 64; 128 + r mod 64].

(* utf8.RuneLen for valid runes *)
Definition rune_len (r : N) : nat := length (encode_rune r).

(* utf8.RuneStart *)
Definition rune_start (b : N) : bool := negb (is_cont b).

(* decode a whole string the way a Go "for _, r := range s" loop does;
   fuel = length of the input *)
Fixpoint decode_all_fuel (fuel : nat) (s : bytes) : list N :=
  match fuel with
  | O => []
  | S f =>
    match s with
    | [] => []
    | _ => let '(r, w) := decode_rune s in r :: decode_all_fuel f (skipn w s)
    end
  end.
Definition decode_all (s : bytes) : list N := decode_all_fuel (length s) s.

Definition encode_all (rs : list N) : bytes := flat_map encode_rune rs.

(* utf8.Valid *)
Fixpoint valid_fuel (fuel : nat) (s : bytes) : bool :=
  match fuel with
  | O => match s with [] => true | _ => false end
  | S f =>
    match s with
    | [] => true
    | p0 :: _ =>
      let '(r, w) := decode_rune s in
      if (r =? RuneError) && Nat.eqb w 1 then false else valid_fuel f (skipn w s)
    end
  end.
Definition valid (s : bytes) : bool := valid_fuel (length s) s.

(* utf8.DecodeLastRune *)
Definition decode_last_rune (s : bytes) : N * nat :=
  match rev s with
  | [] => (RuneError, 0%nat)
  | l :: _ =>
    if l <? 128 then (l, 1%nat) else
    let n := length s in
    let lim := (n - 4)%nat in
    (* start = the greatest index in [lim, n-2] holding a rune start, else lim-1 clipped to 0 *)
    let fix find (k : nat) (start : nat) : nat :=
        (* examines indices start, start-1, ... for k steps *)
        match k with
        | O => start
        | S k' =>
          if rune_start (nth start s 0) then start
          else match start with O => O | S st' => if Nat.ltb st' lim then st' else find k' st' end
        end in
    let start0 := (n - 2)%nat in
    let start :=
        if Nat.ltb n 2 then 0%nat
        else let st := find 3%nat start0 in st in
    let start := if Nat.ltb start lim then lim else start in
    let '(r, w) := decode_rune (skipn start s) in
    if Nat.eqb (start + w) n then (r, w) else (RuneError, 1%nat)
  end.
