(* Facts about the executable UTF-8 model lib/Utf8.v (which mirrors Go's
   unicode/utf8): widths, decode after encode, encode after decode, validity,
   whole-string round trips.  No assumption that list elements are < 256:
   larger numbers are treated as invalid bytes by the model, as the lemmas show. *)
From verif Require Import lib.Base lib.ListX lib.Utf8.
From Coq Require Import ZifyBool ZifyNat ZifyN.
Open Scope N_scope.

(* div/mod by constants inside lia *)
#[local] Ltac Zify.zify_post_hook ::= Z.to_euclidean_division_equations.

(* destruct every boolean comparison on N in the goal, closing impossible branches *)
Ltac ncases :=
  repeat match goal with
  | |- context [N.ltb ?a ?b] => destruct (N.ltb_spec a b); try lia
  | |- context [N.leb ?a ?b] => destruct (N.leb_spec a b); try lia
  | |- context [N.eqb ?a ?b] => destruct (N.eqb_spec a b); try lia
  end.

(* ------------------------------------------------------------------ *)
(* shapes of decode_rune on well-formed sequences *)

Lemma decode1 b t : b < 128 -> decode_rune (b :: t) = (b, 1%nat).
Proof. intros H. unfold decode_rune. ncases. reflexivity. Qed.

Lemma decode2 p0 b1 t :
  194 <= p0 <= 223 -> 128 <= b1 <= 191 ->
  decode_rune (p0 :: b1 :: t) = ((p0 mod 32) * 64 + b1 mod 64, 2%nat).
Proof.
  intros H0 H1. unfold decode_rune, first_info. ncases; cbn [orb negb]; reflexivity.
Qed.

(* the second-byte window of a three-byte sequence *)
Definition b1_ok3 (p0 b1 : N) : Prop :=
  (p0 = 224 -> 160 <= b1 <= 191) /\ (p0 = 237 -> 128 <= b1 <= 159) /\ 128 <= b1 <= 191.

Lemma decode3 p0 b1 b2 t :
  224 <= p0 <= 239 -> b1_ok3 p0 b1 -> 128 <= b2 <= 191 ->
  decode_rune (p0 :: b1 :: b2 :: t) =
  ((p0 mod 16) * 4096 + (b1 mod 64) * 64 + b2 mod 64, 3%nat).
Proof.
  intros H0 (Ha & Hb & Hc) H2. unfold decode_rune, first_info, is_cont.
  ncases; cbn [orb negb andb]; reflexivity.
Qed.

Definition b1_ok4 (p0 b1 : N) : Prop :=
  (p0 = 240 -> 144 <= b1 <= 191) /\ (p0 = 244 -> 128 <= b1 <= 143) /\ 128 <= b1 <= 191.

Lemma decode4 p0 b1 b2 b3 t :
  240 <= p0 <= 244 -> b1_ok4 p0 b1 -> 128 <= b2 <= 191 -> 128 <= b3 <= 191 ->
  decode_rune (p0 :: b1 :: b2 :: b3 :: t) =
  ((p0 mod 8) * 262144 + (b1 mod 64) * 4096 + (b2 mod 64) * 64 + b3 mod 64, 4%nat).
Proof.
  intros H0 (Ha & Hb & Hc) H2 H3. unfold decode_rune, first_info, is_cont.
  ncases; cbn [orb negb andb]; reflexivity.
Qed.

(* ------------------------------------------------------------------ *)
(* widths *)

Lemma decode_rune_nil : decode_rune [] = (RuneError, 0%nat).
Proof. reflexivity. Qed.

(* every result of decode_rune on a non-empty input is one of five shapes *)
Lemma decode_rune_shapes s : s <> [] ->
  let '(r, w) := decode_rune s in
  (w = 1%nat /\ (r = RuneError \/ r < 128 /\ exists t, s = r :: t))
  \/ (w = 2%nat /\ exists p0 b1 t, s = p0 :: b1 :: t /\ 194 <= p0 <= 223 /\ 128 <= b1 <= 191
        /\ r = (p0 mod 32) * 64 + b1 mod 64)
  \/ (w = 3%nat /\ exists p0 b1 b2 t, s = p0 :: b1 :: b2 :: t /\ 224 <= p0 <= 239 /\ b1_ok3 p0 b1
        /\ 128 <= b2 <= 191 /\ r = (p0 mod 16) * 4096 + (b1 mod 64) * 64 + b2 mod 64)
  \/ (w = 4%nat /\ exists p0 b1 b2 b3 t, s = p0 :: b1 :: b2 :: b3 :: t /\ 240 <= p0 <= 244
        /\ b1_ok4 p0 b1 /\ 128 <= b2 <= 191 /\ 128 <= b3 <= 191
        /\ r = (p0 mod 8) * 262144 + (b1 mod 64) * 4096 + (b2 mod 64) * 64 + b3 mod 64).
Proof.
  intros Hne. destruct s as [|p0 r1]; [congruence|]. clear Hne.
  unfold decode_rune.
  destruct (N.ltb_spec p0 128) as [Hp|Hp].
  { left. split; [reflexivity|]. right. split; [exact Hp|]. eexists; reflexivity. }
  destruct (first_info p0) as [[[sz lo] hi]|] eqn:Hfi; [|left; split; [reflexivity|left; reflexivity]].
  destruct r1 as [|b1 r2]; [left; split; [reflexivity|left; reflexivity]|].
  destruct (N.ltb_spec b1 lo) as [Hlo|Hlo]; cbn [orb];
    [left; split; [reflexivity|left; reflexivity]|].
  destruct (N.ltb_spec hi b1) as [Hhi|Hhi];
    [left; split; [reflexivity|left; reflexivity]|].
  (* which class of leading byte *)
  unfold first_info in Hfi.
  destruct (N.ltb_spec p0 194); [discriminate|].
  destruct (N.leb_spec p0 223).
  { inversion Hfi; subst sz lo hi. right; left. split; [reflexivity|].
    exists p0, b1, r2. split; [reflexivity|split; [lia|split; [lia|reflexivity]]]. }
  assert (Hsz : (sz = 3%nat /\ 224 <= p0 <= 239 /\ b1_ok3 p0 b1)
             \/ (sz = 4%nat /\ 240 <= p0 <= 244 /\ b1_ok4 p0 b1)).
  { unfold b1_ok3, b1_ok4. revert Hfi. ncases; intros Hfi; inversion Hfi; subst sz lo hi;
      try (left; repeat split; lia); try (right; repeat split; lia). }
  destruct Hsz as [(-> & Hp0 & Hb1)|(-> & Hp0 & Hb1)].
  - destruct r2 as [|b2 r3]; [left; split; [reflexivity|left; reflexivity]|].
    unfold is_cont.
    destruct (N.leb_spec 128 b2); cbn [andb negb]; [|left; split; [reflexivity|left; reflexivity]].
    destruct (N.leb_spec b2 191); cbn [andb negb]; [|left; split; [reflexivity|left; reflexivity]].
    right; right; left. split; [reflexivity|].
    exists p0, b1, b2, r3.
    split; [reflexivity|split; [lia|split; [exact Hb1|split; [lia|reflexivity]]]].
  - destruct r2 as [|b2 r3]; [left; split; [reflexivity|left; reflexivity]|].
    unfold is_cont.
    destruct (N.leb_spec 128 b2); cbn [andb negb]; [|left; split; [reflexivity|left; reflexivity]].
    destruct (N.leb_spec b2 191); cbn [andb negb]; [|left; split; [reflexivity|left; reflexivity]].
    destruct r3 as [|b3 r4]; [left; split; [reflexivity|left; reflexivity]|].
    destruct (N.leb_spec 128 b3); cbn [andb negb]; [|left; split; [reflexivity|left; reflexivity]].
    destruct (N.leb_spec b3 191); cbn [andb negb]; [|left; split; [reflexivity|left; reflexivity]].
    right; right; right. split; [reflexivity|].
    exists p0, b1, b2, b3, r4.
    split; [reflexivity|split; [lia|split; [exact Hb1|split; [lia|split; [lia|reflexivity]]]]].
Qed.

Lemma decode_rune_width_bounds s : s <> [] ->
  (1 <= snd (decode_rune s) <= 4)%nat.
Proof.
  intros H. pose proof (decode_rune_shapes s H) as S. destruct (decode_rune s) as [r w]. cbn [snd].
  destruct S as [(-> & _)|[(-> & _)|[(-> & _)|(-> & _)]]]; lia.
Qed.

Lemma decode_rune_width_le_length s : (snd (decode_rune s) <= length s)%nat.
Proof.
  destruct s as [|b t] eqn:E; [cbn; lia|]. rewrite <- E.
  assert (H : s <> []) by (subst; discriminate).
  pose proof (decode_rune_shapes s H) as S. destruct (decode_rune s) as [r w]. cbn [snd].
  destruct S as [(-> & _)|[(-> & p0 & b1 & t' & -> & _)|[(-> & p0 & b1 & b2 & t' & -> & _)
    |(-> & p0 & b1 & b2 & b3 & t' & -> & _)]]]; cbn [length]; try lia.
  subst s. cbn [length]. lia.
Qed.

Lemma decode_rune_width_pos s : s <> [] -> (0 < snd (decode_rune s))%nat.
Proof. intros H. pose proof (decode_rune_width_bounds s H). lia. Qed.

Lemma decode_rune_width_zero_iff s : snd (decode_rune s) = 0%nat <-> s = [].
Proof.
  split; [|intros ->; reflexivity]. intros H. destruct s as [|b t]; [reflexivity|].
  assert (Hne : b :: t <> []) by discriminate. pose proof (decode_rune_width_bounds _ Hne). lia.
Qed.

(* the decoded rune is always a valid rune (U+FFFD for every invalid input) *)
Lemma decode_rune_valid_rune s : valid_rune (fst (decode_rune s)) = true.
Proof.
  destruct s as [|b t] eqn:E; [reflexivity|]. rewrite <- E.
  assert (H : s <> []) by (subst; discriminate).
  pose proof (decode_rune_shapes s H) as S. destruct (decode_rune s) as [r w]. cbn [fst].
  unfold valid_rune, is_surrogate, MaxRune.
  destruct S as [(_ & [->|(Hr & _)])|[(_ & p0 & b1 & t' & _ & H0 & H1 & ->)
    |[(_ & p0 & b1 & b2 & t' & _ & H0 & (Ha & Hb & Hc) & H2 & ->)
    |(_ & p0 & b1 & b2 & b3 & t' & _ & H0 & (Ha & Hb & Hc) & H2 & H3 & ->)]]].
  - reflexivity.
  - ncases; reflexivity.
  - ncases; reflexivity.
  - destruct (N.eq_dec p0 237) as [E237|N237].
    + specialize (Hb E237). subst p0. ncases; reflexivity.
    + ncases; try reflexivity.
  - destruct (N.eq_dec p0 244) as [E244|N244].
    + specialize (Hb E244). subst p0. ncases; reflexivity.
    + ncases; reflexivity.
Qed.

(* ------------------------------------------------------------------ *)
(* encode *)

Lemma rune_len_bounds r : (1 <= rune_len r <= 4)%nat.
Proof. unfold rune_len, encode_rune. repeat destruct (_ : bool); cbn [length]; lia. Qed.

Lemma encode_rune_nonempty r : encode_rune r <> [].
Proof. pose proof (rune_len_bounds r) as H. unfold rune_len in H.
  destruct (encode_rune r); [cbn in H; lia|discriminate]. Qed.

Lemma encode_rune_ascii r : r < 128 -> encode_rune r = [r].
Proof. intros H. unfold encode_rune. ncases. reflexivity. Qed.

Lemma encode_rune_invalid r : valid_rune r = false -> encode_rune r = encode_rune RuneError.
Proof.
  intros H. unfold encode_rune. rewrite H. cbn [negb].
  unfold valid_rune, is_surrogate, MaxRune in H.
  destruct (N.ltb_spec r 128); [exfalso; revert H; ncases; discriminate|].
  destruct (N.ltb_spec r 2048); [exfalso; revert H; ncases; discriminate|].
  reflexivity.
Qed.

(* every byte written by encode_rune is a byte *)
Lemma encode_rune_bytes r : Forall (fun b => b < 256) (encode_rune r).
Proof.
  unfold encode_rune.
  destruct (N.ltb_spec r 128); [repeat constructor; lia|].
  destruct (N.ltb_spec r 2048); [repeat constructor; lia|].
  destruct (valid_rune r) eqn:V; cbn [negb]; [|repeat constructor; lia].
  unfold valid_rune, MaxRune in V. apply andb_true_iff in V as [V _]. apply N.leb_le in V.
  destruct (N.ltb_spec r 65536); repeat constructor; lia.
Qed.

(* the central fact: decoding what was encoded, whatever follows *)
Lemma decode_encode r : valid_rune r = true ->
  forall t, decode_rune (encode_rune r ++ t) = (r, rune_len r).
Proof.
  intros V t. unfold rune_len, encode_rune. rewrite V. cbn [negb].
  unfold valid_rune, is_surrogate, MaxRune in V.
  apply andb_true_iff in V as [Vmax Vsur]. apply N.leb_le in Vmax.
  destruct (N.ltb_spec r 128) as [H1|H1].
  { cbn [app length]. apply decode1; exact H1. }
  destruct (N.ltb_spec r 2048) as [H2|H2].
  { cbn [app length]. rewrite decode2 by lia. f_equal. lia. }
  assert (Hs : r < 55296 \/ 57343 < r) by (revert Vsur; ncases; cbn; intros; try discriminate; lia).
  destruct (N.ltb_spec r 65536) as [H3|H3].
  { cbn [app length]. rewrite decode3; [f_equal; lia|lia| |lia].
    unfold b1_ok3. repeat split; intros; lia. }
  cbn [app length]. rewrite decode4; [f_equal; lia|lia| |lia|lia].
  unfold b1_ok4. repeat split; intros; lia.
Qed.

Lemma decode_encode_nil r : valid_rune r = true ->
  decode_rune (encode_rune r) = (r, rune_len r).
Proof. intros V. rewrite <- (app_nil_r (encode_rune r)) at 1. apply decode_encode; exact V. Qed.

(* encoding what was decoded gives back the consumed bytes, except for the
   one-byte U+FFFD answers that stand for invalid input *)
Lemma encode_decode s r w : decode_rune s = (r, w) -> s <> [] ->
  (r <> RuneError \/ w <> 1%nat) ->
  encode_rune r = firstn w s.
Proof.
  intros D Hne Hok. pose proof (decode_rune_shapes s Hne) as S. rewrite D in S.
  destruct S as [(-> & [->|(Hr & t & ->)])|[(-> & p0 & b1 & t' & -> & H0 & H1 & ->)
    |[(-> & p0 & b1 & b2 & t' & -> & H0 & (Ha & Hb & Hc) & H2 & ->)
    |(-> & p0 & b1 & b2 & b3 & t' & -> & H0 & (Ha & Hb & Hc) & H2 & H3 & ->)]]].
  - destruct Hok; congruence.
  - rewrite encode_rune_ascii by exact Hr. reflexivity.
  - cbn [firstn]. unfold encode_rune. ncases. f_equal; [lia|f_equal; lia].
  - cbn [firstn].
    assert (V : valid_rune ((p0 mod 16) * 4096 + (b1 mod 64) * 64 + b2 mod 64) = true).
    { pose proof (decode_rune_valid_rune (p0 :: b1 :: b2 :: t')) as V. rewrite D in V. exact V. }
    unfold encode_rune. rewrite V. cbn [negb].
    destruct (N.eq_dec p0 224) as [E224|N224].
    + specialize (Ha E224). subst p0. ncases. f_equal; [lia|f_equal; [lia|f_equal; lia]].
    + ncases. f_equal; [lia|f_equal; [lia|f_equal; lia]].
  - cbn [firstn].
    assert (V : valid_rune ((p0 mod 8) * 262144 + (b1 mod 64) * 4096 + (b2 mod 64) * 64 + b3 mod 64) = true).
    { pose proof (decode_rune_valid_rune (p0 :: b1 :: b2 :: b3 :: t')) as V. rewrite D in V. exact V. }
    unfold encode_rune. rewrite V. cbn [negb].
    destruct (N.eq_dec p0 240) as [E240|N240].
    + specialize (Ha E240). subst p0. ncases.
      f_equal; [lia|f_equal; [lia|f_equal; [lia|f_equal; lia]]].
    + ncases. f_equal; [lia|f_equal; [lia|f_equal; [lia|f_equal; lia]]].
Qed.

(* a decoded sequence does not depend on what follows it *)
Lemma decode_rune_prefix s r w t : decode_rune s = (r, w) -> s <> [] ->
  (r <> RuneError \/ w <> 1%nat) ->
  decode_rune (firstn w s ++ t) = (r, w).
Proof.
  intros D Hne Hok. pose proof (encode_decode s r w D Hne Hok) as E.
  assert (V : valid_rune r = true).
  { pose proof (decode_rune_valid_rune s) as V. rewrite D in V. exact V. }
  rewrite <- E. rewrite decode_encode by exact V. f_equal.
  unfold rune_len. rewrite E. rewrite firstn_length.
  pose proof (decode_rune_width_le_length s) as L. rewrite D in L. cbn [snd] in L. lia.
Qed.

Lemma rune_len_decode s r w : decode_rune s = (r, w) -> s <> [] ->
  (r <> RuneError \/ w <> 1%nat) -> rune_len r = w.
Proof.
  intros D Hne Hok. unfold rune_len. rewrite (encode_decode s r w D Hne Hok), firstn_length.
  pose proof (decode_rune_width_le_length s) as L. rewrite D in L. cbn [snd] in L. lia.
Qed.

(* ------------------------------------------------------------------ *)
(* whole strings *)

Lemma decode_all_fuel_S f s : s <> [] ->
  decode_all_fuel (S f) s =
  fst (decode_rune s) :: decode_all_fuel f (skipn (snd (decode_rune s)) s).
Proof. intros H. destruct s; [congruence|]. cbn [decode_all_fuel]. destruct (decode_rune _); reflexivity. Qed.

Lemma decode_all_fuel_nil f : decode_all_fuel f [] = [].
Proof. destruct f; reflexivity. Qed.

Lemma skipn_width_shorter s : s <> [] ->
  (length (skipn (snd (decode_rune s)) s) < length s)%nat.
Proof.
  intros Hne. pose proof (decode_rune_width_pos s Hne). rewrite skipn_length.
  destruct s; [congruence|cbn [length]; lia].
Qed.

Lemma decode_all_fuel_enough f : forall g s, (length s <= f)%nat -> (length s <= g)%nat ->
  decode_all_fuel f s = decode_all_fuel g s.
Proof.
  induction f as [|f IH]; intros g s L1 L2.
  - destruct s; [rewrite !decode_all_fuel_nil; reflexivity|cbn in L1; lia].
  - destruct (list_eq_dec N.eq_dec s []) as [->|Hne]; [rewrite !decode_all_fuel_nil; reflexivity|].
    destruct g as [|g]; [destruct s; [congruence|cbn in L2; lia]|].
    rewrite !decode_all_fuel_S by exact Hne. f_equal.
    pose proof (skipn_width_shorter s Hne). apply IH; lia.
Qed.

Lemma decode_all_nil : decode_all [] = [].
Proof. reflexivity. Qed.

Lemma decode_all_step s : s <> [] ->
  decode_all s = fst (decode_rune s) :: decode_all (skipn (snd (decode_rune s)) s).
Proof.
  intros Hne. unfold decode_all.
  destruct (length s) as [|n] eqn:Ls; [destruct s; [congruence|discriminate]|].
  rewrite decode_all_fuel_S by exact Hne. f_equal.
  pose proof (skipn_width_shorter s Hne). apply decode_all_fuel_enough; lia.
Qed.

Lemma decode_all_encode_app r t : valid_rune r = true ->
  decode_all (encode_rune r ++ t) = r :: decode_all t.
Proof.
  intros V. rewrite decode_all_step.
  - rewrite decode_encode by exact V. cbn [fst snd]. f_equal. f_equal.
    unfold rune_len. rewrite skipn_app, skipn_all, Nat.sub_diag. reflexivity.
  - pose proof (encode_rune_nonempty r). destruct (encode_rune r); [congruence|discriminate].
Qed.

(* decoding an encoded rune sequence gives the sequence back *)
Lemma decode_all_encode_all rs : Forall (fun r => valid_rune r = true) rs ->
  decode_all (encode_all rs) = rs.
Proof.
  induction 1 as [|r rs V _ IH]; [reflexivity|].
  unfold encode_all in *. cbn [flat_map]. rewrite decode_all_encode_app by exact V. f_equal. exact IH.
Qed.

Lemma valid_fuel_S f s : s <> [] ->
  valid_fuel (S f) s =
  if (fst (decode_rune s) =? RuneError) && Nat.eqb (snd (decode_rune s)) 1 then false
  else valid_fuel f (skipn (snd (decode_rune s)) s).
Proof. intros H. destruct s; [congruence|]. cbn [valid_fuel]. destruct (decode_rune _); reflexivity. Qed.

Lemma valid_fuel_nil f : valid_fuel f [] = true.
Proof. destruct f; reflexivity. Qed.

Lemma valid_fuel_enough f : forall g s, (length s <= f)%nat -> (length s <= g)%nat ->
  valid_fuel f s = valid_fuel g s.
Proof.
  induction f as [|f IH]; intros g s L1 L2.
  - destruct s; [rewrite !valid_fuel_nil; reflexivity|cbn in L1; lia].
  - destruct (list_eq_dec N.eq_dec s []) as [->|Hne]; [rewrite !valid_fuel_nil; reflexivity|].
    destruct g as [|g]; [destruct s; [congruence|cbn in L2; lia]|].
    rewrite !valid_fuel_S by exact Hne.
    destruct (_ && _); [reflexivity|].
    pose proof (skipn_width_shorter s Hne). apply IH; lia.
Qed.

Lemma valid_step s : s <> [] ->
  valid s = if (fst (decode_rune s) =? RuneError) && Nat.eqb (snd (decode_rune s)) 1 then false
            else valid (skipn (snd (decode_rune s)) s).
Proof.
  intros Hne. unfold valid.
  destruct (length s) as [|n] eqn:Ls; [destruct s; [congruence|discriminate]|].
  rewrite valid_fuel_S by exact Hne.
  destruct (_ && _); [reflexivity|].
  pose proof (skipn_width_shorter s Hne). apply valid_fuel_enough; lia.
Qed.

(* valid strings are exactly re-encoded by decode-then-encode (canonical form) *)
Lemma encode_all_decode_all s : valid s = true -> encode_all (decode_all s) = s.
Proof.
  remember (length s) as n eqn:Ln. revert s Ln.
  induction n as [n IH] using lt_wf_ind. intros s Ln V.
  destruct s as [|b t] eqn:E; [reflexivity|]. rewrite <- E in *.
  assert (Hne : s <> []) by (subst; discriminate).
  rewrite valid_step in V by exact Hne. rewrite decode_all_step by exact Hne.
  destruct (decode_rune s) as [r w] eqn:D. cbn [fst snd] in *.
  destruct ((r =? RuneError) && Nat.eqb w 1) eqn:Bad; [discriminate|].
  assert (Hok : r <> RuneError \/ w <> 1%nat).
  { apply andb_false_iff in Bad as [B|B]; [left; apply N.eqb_neq; exact B|right; apply Nat.eqb_neq; exact B]. }
  unfold encode_all in *. cbn [flat_map].
  rewrite (encode_decode s r w D Hne Hok).
  pose proof (skipn_width_shorter s Hne) as Lk. rewrite D in Lk. cbn [snd] in Lk.
  rewrite (IH (length (skipn w s))); [apply firstn_skipn|lia|reflexivity|exact V].
Qed.

(* the encoding of valid runes is valid UTF-8, also in front of valid text *)
Lemma valid_encode_app r t : valid_rune r = true -> valid (encode_rune r ++ t) = valid t.
Proof.
  intros V. rewrite valid_step.
  - rewrite decode_encode by exact V. cbn [fst snd].
    assert (Hs : skipn (rune_len r) (encode_rune r ++ t) = t).
    { unfold rune_len. rewrite skipn_app, skipn_all, Nat.sub_diag. reflexivity. }
    rewrite Hs.
    destruct ((r =? RuneError) && Nat.eqb (rune_len r) 1) eqn:B; [|reflexivity].
    apply andb_true_iff in B as [B1 B2]. apply N.eqb_eq in B1. subst r. discriminate.
  - pose proof (encode_rune_nonempty r). destruct (encode_rune r); [congruence|discriminate].
Qed.

Lemma valid_ascii_cons b t : b < 128 -> valid (b :: t) = valid t.
Proof.
  intros H.
  assert (V : valid_rune b = true) by (unfold valid_rune, is_surrogate, MaxRune; ncases; reflexivity).
  pose proof (valid_encode_app b t V) as E. rewrite (encode_rune_ascii b H) in E. exact E.
Qed.

Lemma valid_nil : valid [] = true.
Proof. reflexivity. Qed.

Lemma valid_app s t : valid s = true -> valid (s ++ t) = valid t.
Proof.
  remember (length s) as n eqn:Ln. revert s Ln.
  induction n as [n IH] using lt_wf_ind. intros s Ln V.
  destruct s as [|b s'] eqn:E; [reflexivity|]. rewrite <- E in *.
  assert (Hne : s <> []) by (subst; discriminate).
  rewrite valid_step in V by exact Hne.
  destruct (decode_rune s) as [r w] eqn:D. cbn [fst snd] in *.
  destruct ((r =? RuneError) && Nat.eqb w 1) eqn:Bad; [discriminate|].
  assert (Hok : r <> RuneError \/ w <> 1%nat).
  { apply andb_false_iff in Bad as [B|B]; [left; apply N.eqb_neq; exact B|right; apply Nat.eqb_neq; exact B]. }
  pose proof (encode_decode s r w D Hne Hok) as En.
  assert (Vr : valid_rune r = true).
  { pose proof (decode_rune_valid_rune s) as Vr. rewrite D in Vr. exact Vr. }
  pose proof (skipn_width_shorter s Hne) as Lk. rewrite D in Lk. cbn [snd] in Lk.
  rewrite <- (firstn_skipn w s) at 1. rewrite <- app_assoc, <- En.
  rewrite valid_encode_app by exact Vr.
  apply (IH (length (skipn w s))); [lia|reflexivity|exact V].
Qed.
