(* C18 — generic labelled transition system of an Elvish pipeline
   (pkg/eval/compile_effect.go:pipelineOp.exec, port.go, frame.go:IterateInputs).
   Definitions only (executable Gallina); the proofs are in
   proofs/C18_lts_proofs.v.

   n stages.  Between stage k and stage k+1 there is link k with two bands:
   band V = the value channel (make(chan any, pipelineChanBufferSize)),
   band B = the byte pipe (os.Pipe, modelled as a FIFO of whole lines).
   Each band is a bounded FIFO.  A link carries the two flags the Go code
   keeps: [closed] (writer closed its ends: fop.close) and [rgone] (reader
   exited: close(sendStop) / reader end of the pipe closed).

   A stage is an arbitrary deterministic automaton (local state L,
   [want : L -> action], [cont : L -> result -> L]).  One step of the system =
   one channel/pipe action (or the exit) of one stage; the step relation
   quantifies over the stage and over a choice bit, so it contains every
   interleaving = every goroutine schedule.  *)
From verif Require Import lib.Base.
Open Scope nat_scope.

Inductive band := V | B.
Definition band_eqb (a b : band) : bool :=
  match a, b with V, V => true | B, B => true | _, _ => false end.
Definition other (b : band) : band := match b with V => B | B => V end.

(* which band(s) a receive waits on: one band (read-line; `<-InputChan()`), or
   the merge of both (Frame.IterateInputs) *)
Inductive sel := Only (b : band) | Any.

Definition sel_has (s : sel) (b : band) : bool :=
  match s with Any => true | Only b' => band_eqb b' b end.

(* exit status of a stage: None = no exception *)
Inductive exn := ReaderGone | Fail (tag : N).
Definition exn_eqb (a b : exn) : bool :=
  match a, b with
  | ReaderGone, ReaderGone => true
  | Fail s, Fail t => N.eqb s t
  | _, _ => false
  end.

Inductive action :=
| WSend (b : band) (x : N)      (* ValueOutput.Put / ByteOutput.WriteString of a line *)
| WRecv (s : sel)
| WExit (e : option exn).       (* the form returns *)

Inductive result :=
| RSent                          (* the write succeeded *)
| RGone                          (* errs.ReaderGone *)
| RItem (b : band) (x : N)
| REof.                          (* the selected band(s) are closed and drained *)

(* what a stage experienced, in its own program order *)
Inductive ev :=
| ESent (b : band) (x : N)
| EGone (b : band) (x : N)
| EGot (b : band) (x : N)
| EEof (s : sel).

Definition sel_eqb (a b : sel) : bool :=
  match a, b with
  | Any, Any => true
  | Only x, Only y => band_eqb x y
  | _, _ => false
  end.

Definition ev_eqb (a b : ev) : bool :=
  match a, b with
  | ESent b x, ESent c y => band_eqb b c && N.eqb x y
  | EGone b x, EGone c y => band_eqb b c && N.eqb x y
  | EGot b x, EGot c y => band_eqb b c && N.eqb x y
  | EEof s, EEof t => sel_eqb s t
  | _, _ => false
  end.

Definition result_of (e : ev) : result :=
  match e with
  | ESent _ _ => RSent
  | EGone _ _ => RGone
  | EGot b x => RItem b x
  | EEof _ => REof
  end.

(* may event [e] be the outcome of action [a]? *)
Definition ev_matches (a : action) (e : ev) : bool :=
  match a, e with
  | WSend b x, ESent c y => band_eqb b c && N.eqb x y
  | WSend b x, EGone c y => band_eqb b c && N.eqb x y
  | WRecv s, EGot c _ => sel_has s c
  | WRecv s, EEof t => sel_eqb s t
  | _, _ => false
  end.

(* projections of a history *)
Fixpoint sents (b : band) (h : list ev) : list N :=
  match h with
  | [] => []
  | ESent c x :: r => if band_eqb c b then x :: sents b r else sents b r
  | _ :: r => sents b r
  end.
Fixpoint gots (b : band) (h : list ev) : list N :=
  match h with
  | [] => []
  | EGot c x :: r => if band_eqb c b then x :: gots b r else gots b r
  | _ :: r => gots b r
  end.
(* saw the end of band b *)
Fixpoint eof_on (b : band) (h : list ev) : bool :=
  match h with
  | [] => false
  | EEof s :: r => sel_has s b || eof_on b r
  | _ :: r => eof_on b r
  end.
Definition has_eof (h : list ev) : bool := eof_on V h || eof_on B h.
Fixpoint has_gone (h : list ev) : bool :=
  match h with
  | [] => false
  | EGone _ _ :: _ => true
  | _ :: r => has_gone r
  end.
Fixpoint has_got (h : list ev) : bool :=
  match h with
  | [] => false
  | EGot _ _ :: _ => true
  | _ :: r => has_got r
  end.

Fixpoint prefixb (a b : list N) : bool :=
  match a, b with
  | [], _ => true
  | x :: a', y :: b' => N.eqb x y && prefixb a' b'
  | _ :: _, [] => false
  end.

(* ---- the pipeline exception (exception.go:MakePipelineError preceded by the
   reader-gone filter of pipelineOp.exec) ---- *)

(* excs[k] as stored by pipelineOp.exec:
   `if exc != nil && !(outputIsPipe && isReaderGone(exc)) { *pexc = exc }` *)
Definition mask1 (n k : nat) (e : option exn) : option exn :=
  match e with
  | Some ReaderGone => if S k <? n then None else e
  | _ => e
  end.

Fixpoint mask_from (n k : nat) (es : list (option exn)) : list (option exn) :=
  match es with
  | [] => []
  | e :: r => mask1 n k e :: mask_from n (S k) r
  end.
Definition mask (es : list (option exn)) : list (option exn) := mask_from (length es) 0 es.

Inductive final :=
| FNone                              (* nil *)
| FSingle (e : exn)                  (* the one non-OK exception itself *)
| FMulti (es : list (option exn)).   (* PipelineError{...}; None = OK *)

Definition not_ok (es : list (option exn)) : list exn :=
  flat_map (fun e => match e with Some x => [x] | None => [] end) es.

Definition make_pipeline_error (es : list (option exn)) : final :=
  match not_ok es with
  | [] => FNone
  | [e] => FSingle e
  | _ => FMulti es
  end.

Definition oexn_eqb := option_eqb exn_eqb.
Definition final_eqb (a b : final) : bool :=
  match a, b with
  | FNone, FNone => true
  | FSingle x, FSingle y => exn_eqb x y
  | FMulti x, FMulti y => list_eqb oexn_eqb x y
  | _, _ => false
  end.

(* ------------------------------------------------------------------ *)
Section Lts.
  Variable L : Type.
  Variable want : L -> action.
  Variable cont : L -> result -> L.
  Variable n : nat.               (* number of stages *)
  Variable cap : band -> nat.     (* capacities of the two bands *)
  Variable init : nat -> L.       (* initial local state of stage k *)

  Record stage := mkStage {
    loc : L;
    fin : option (option exn);    (* None = running; Some e = exited with e *)
    hist : list ev }.             (* ghost: what this stage experienced *)

  Record link := mkLink {
    buf : band -> list N;
    closed : bool;                (* writer exited: fop.close(port) *)
    rgone : bool }.               (* reader exited: close(sendStop), readerGone *)

  Record state := mkState {
    stg : nat -> stage;
    lnk : nat -> link }.          (* lnk k connects stage k to stage k+1 *)

  Definition upd {A} (f : nat -> A) (k : nat) (v : A) : nat -> A :=
    fun j => if Nat.eqb j k then v else f j.

  Definition set_buf (f : band -> list N) (b : band) (v : list N) : band -> list N :=
    fun c => if band_eqb c b then v else f c.

  Definition init_state : state :=
    mkState (fun k => mkStage (init k) None [])
            (fun _ => mkLink (fun _ => []) false false).

  (* stage k experienced [e]: feed the result to its continuation, log it *)
  Definition deliver (st : stage) (e : ev) : stage :=
    mkStage (cont (loc st) (result_of e)) (fin st) (hist st ++ [e]).

  Definition is_last (k : nat) : bool := Nat.eqb (S k) n.

  (* One action of stage k.  [c] resolves the two genuine races of the Go
     code: `select { case data <- v: …; case <-sendStop: … }` when both are
     ready, and which band IterateInputs hands over first when both have data.
     None = stage k cannot move now (exited, or blocked). *)
  Definition fire (k : nat) (c : bool) (s : state) : option state :=
    let st := stg s k in
    match fin st with
    | Some _ => None
    | None =>
      match want (loc st) with
      | WExit e =>
        (* f(): record exc; mark reader-gone on the input; close owned outputs; wg.Done *)
        let lnk1 := upd (lnk s) k (mkLink (buf (lnk s k)) true (rgone (lnk s k))) in
        let lnk2 := match k with
                    | O => lnk1
                    | S j => upd lnk1 j (mkLink (buf (lnk1 j)) (closed (lnk1 j)) true)
                    end in
        Some (mkState (upd (stg s) k (mkStage (loc st) (Some e) (hist st))) lnk2)
      | WSend b x =>
        if is_last k then
          (* the pipeline's own output port: modelled as a sink that always accepts *)
          Some (mkState (upd (stg s) k (deliver st (ESent b x))) (lnk s))
        else
          let l := lnk s k in
          let space := Nat.ltb (length (buf l b)) (cap b) in
          let ok := Some (mkState (upd (stg s) k (deliver st (ESent b x)))
                           (upd (lnk s) k (mkLink (set_buf (buf l) b (buf l b ++ [x])) (closed l) (rgone l)))) in
          let gone := Some (mkState (upd (stg s) k (deliver st (EGone b x))) (lnk s)) in
          if rgone l then
            match b with
            | V => if space && c then ok else gone   (* select: either ready case *)
            | B => gone                              (* write(2) on a pipe without reader: EPIPE *)
            end
          else if space then ok else None             (* blocks while the buffer is full *)
      | WRecv sl =>
        match k with
        | O => (* the pipeline's own input: modelled as closed and empty *)
          Some (mkState (upd (stg s) k (deliver st (EEof sl))) (lnk s))
        | S j =>
          let l := lnk s j in
          let take (b : band) :=
            match buf l b with
            | x :: r => Some (mkState (upd (stg s) k (deliver st (EGot b x)))
                               (upd (lnk s) j (mkLink (set_buf (buf l) b r) (closed l) (rgone l))))
            | [] => None
            end in
          let eof := if closed l
                     then Some (mkState (upd (stg s) k (deliver st (EEof sl))) (lnk s))
                     else None in
          match sl with
          | Only b => match take b with Some s' => Some s' | None => eof end
          | Any =>
            let b1 := if c then V else B in
            match take b1 with
            | Some s' => Some s'
            | None => match take (other b1) with Some s' => Some s' | None => eof end
            end
          end
        end
      end
    end.

  Definition step (s s' : state) : Prop := exists k c, k < n /\ fire k c s = Some s'.

  Inductive reachable : state -> Prop :=
  | reach_init : reachable init_state
  | reach_step s s' : reachable s -> step s s' -> reachable s'.

  (* run an explicit schedule (for examples and refutations) *)
  Fixpoint run_sched (sch : list (nat * bool)) (s : state) : option state :=
    match sch with
    | [] => Some s
    | (k, c) :: r =>
      if Nat.ltb k n then
        match fire k c s with Some s' => run_sched r s' | None => None end
      else None
    end.

  (* all stages have exited: wg.Wait() returns *)
  Definition all_done (s : state) : Prop := forall k, k < n -> fin (stg s k) <> None.
  Definition all_doneb (s : state) : bool :=
    forallb (fun k => match fin (stg s k) with Some _ => true | None => false end) (seq 0 n).

  Definition enabledb (s : state) (k : nat) : bool :=
    match fire k true s, fire k false s with None, None => false | _, _ => true end.
  (* no stage can move *)
  Definition stuckb (s : state) : bool := forallb (fun k => negb (enabledb s k)) (seq 0 n).

  Definition exits (s : state) : list (option exn) :=
    map (fun k => match fin (stg s k) with Some e => e | None => None end) (seq 0 n).

  (* what pipelineOp.exec returns once wg.Wait() is through *)
  Definition result_state (s : state) : option final :=
    if all_doneb s then Some (make_pipeline_error (mask (exits s))) else None.

  (* ---- observation of a finished run and the acceptor ---- *)
  Record obs := mkObs {
    o_hist : list (list ev);         (* per stage *)
    o_exit : list (option exn);      (* per stage: how the form ended *)
    o_final : final }.               (* what Eval returned *)

  Definition obs_of (s : state) : obs :=
    mkObs (map (fun k => hist (stg s k)) (seq 0 n)) (exits s)
          (make_pipeline_error (mask (exits s))).

  (* replay of a stage's own history on its automaton *)
  Fixpoint run_local (l : L) (h : list ev) : option L :=
    match h with
    | [] => Some l
    | e :: r => if ev_matches (want l) e then run_local (cont l (result_of e)) r else None
    end.

  Definition hist_at (o : obs) (k : nat) : list ev := nth k (o_hist o) [].
  Definition exit_at (o : obs) (k : nat) : option exn := nth k (o_exit o) None.

  (* the property on the observables of link k (between stage k and k+1) *)
  Definition link_ok (o : obs) (k : nat) : bool :=
    let hw := hist_at o k in
    let hr := hist_at o (S k) in
    forallb (fun b =>
      prefixb (gots b hr) (sents b hw)
      && (if eof_on b hr then Nat.eqb (length (gots b hr)) (length (sents b hw)) else true))
      [V; B].

  (* C18 on observables: exactly-once-in-order per band, read-to-end sees all,
     exceptions composed by the rule *)
  Definition check_obs (o : obs) : bool :=
    Nat.eqb (length (o_hist o)) n && Nat.eqb (length (o_exit o)) n
    && forallb (link_ok o) (seq 0 (pred n))
    && final_eqb (o_final o) (make_pipeline_error (mask (o_exit o))).

  (* the model's acceptor: is [o] an outcome the LTS can end in? *)
  Definition stage_ok (o : obs) (k : nat) : bool :=
    match run_local (init k) (hist_at o k) with
    | Some l => match want l with
                | WExit e => oexn_eqb e (exit_at o k)
                | _ => false
                end
    | None => false
    end.

  Definition causal_ok (o : obs) (k : nat) : bool :=
    (* a writer that was told "reader gone" outlived its reader, so the reader
       never saw this link closed *)
    negb (has_gone (hist_at o k) && has_eof (hist_at o (S k))).

  Definition allowed_outcome (o : obs) : bool :=
    check_obs o
    && forallb (stage_ok o) (seq 0 n)
    && forallb (causal_ok o) (seq 0 (pred n))
    && negb (has_got (hist_at o 0))
    && negb (has_gone (hist_at o (pred n))).
End Lts.

Arguments mkStage {L}.
Arguments loc {L}.
Arguments fin {L}.
Arguments hist {L}.
Arguments mkState {L}.
Arguments stg {L}.
Arguments lnk {L}.
