(* Shared executable helpers: byte strings as [list N], hex literals used by
   the generated case files, boolean list equality.  No proofs about the code
   live here; only library facts. *)
From Coq Require Export List NArith ZArith Bool Lia.
From Coq Require Import String Ascii.
Export ListNotations.
Open Scope N_scope.

Definition bytes := list N.

(* ---- hex literals: the harness writes every byte string as (hx "6869") ---- *)
Definition hexval (c : ascii) : N :=
  let n := N_of_ascii c in
  if (48 <=? n) && (n <=? 57) then n - 48
  else if (97 <=? n) && (n <=? 102) then n - 87
  else 0.

Fixpoint hx (s : string) : bytes :=
  match s with
  | String a (String b r) => (16 * hexval a + hexval b) :: hx r
  | _ => []
  end.

(* ---- decidable equality on lists, generic ---- *)
Fixpoint list_eqb {A} (eqb : A -> A -> bool) (a b : list A) : bool :=
  match a, b with
  | [], [] => true
  | x :: a', y :: b' => eqb x y && list_eqb eqb a' b'
  | _, _ => false
  end.

Lemma list_eqb_spec {A} (eqb : A -> A -> bool) :
  (forall x y, eqb x y = true <-> x = y) ->
  forall a b, list_eqb eqb a b = true <-> a = b.
Proof.
  intros H a; induction a as [|x a IH]; intros [|y b]; simpl; split; intros E;
    try reflexivity; try discriminate.
  - apply andb_true_iff in E as [E1 E2]. apply H in E1. apply IH in E2. congruence.
  - inversion E; subst. apply andb_true_iff; split; [apply H|apply IH]; reflexivity.
Qed.

Definition bytes_eqb : bytes -> bytes -> bool := list_eqb N.eqb.

Lemma bytes_eqb_spec a b : bytes_eqb a b = true <-> a = b.
Proof. apply list_eqb_spec. intros; apply N.eqb_eq. Qed.

Lemma bytes_eqb_refl a : bytes_eqb a a = true.
Proof. apply bytes_eqb_spec; reflexivity. Qed.

Definition option_eqb {A} (eqb : A -> A -> bool) (a b : option A) : bool :=
  match a, b with
  | Some x, Some y => eqb x y
  | None, None => true
  | _, _ => false
  end.

(* judge helper: indexes (from 0) of the cases for which [f] returns a
   non-zero code, with the code.  0 = fine, 1 = model and implementation
   disagree (correspondence), 2 = the implementation's observation violates
   the property oracle. *)
Fixpoint judge_from {A} (f : A -> N) (i : N) (l : list A) : list (N * N) :=
  match l with
  | [] => []
  | x :: r =>
    let c := f x in
    if c =? 0 then judge_from f (i + 1) r else (i, c) :: judge_from f (i + 1) r
  end.

Definition judge_with {A} (f : A -> N) (l : list A) : list (N * N) := judge_from f 0 l.

(* verdict code from the two booleans *)
Definition code (oracle_ok corr_ok : bool) : N :=
  if negb oracle_ok then 2 else if negb corr_ok then 1 else 0.
