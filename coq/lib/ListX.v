(* List lemmas missing from the 8.16 standard library. *)
From Coq Require Import List Arith Lia.
Import ListNotations.

Lemma skipn_skipn {A} (n m : nat) (l : list A) : skipn n (skipn m l) = skipn (m + n) l.
Proof. revert l; induction m as [|m IH]; intros l; [reflexivity|].
  destruct l as [|x l]; [rewrite !skipn_nil; reflexivity|]. simpl. apply IH. Qed.

Lemma firstn_skipn_split3 {A} (l : list A) (i j : nat) : i <= j ->
  l = firstn i l ++ firstn (j - i) (skipn i l) ++ skipn j l.
Proof. intros H.
  rewrite <- (firstn_skipn i l) at 1. f_equal.
  rewrite <- (firstn_skipn (j - i) (skipn i l)) at 1. f_equal.
  rewrite skipn_skipn. f_equal. lia. Qed.
