(* C10 — order outputs a stable sorted permutation of its input.
   Property theorems only; every proof is [exact <lemma>].

   Vocabulary (model/C10.v, proofs/C10_sort.v, proofs/C10_proofs.v):
   - [order_with S rk o vals] is the model of the builtin run with the sort S
     in the place of sort.Stable; [order] uses the insertion sort proved
     correct here, [order_go] the transcription of Go's sort.Stable that the
     harness compares with the implementation on every run.
   - [StableSortContract S]: S permutes; S returns the stable sorted
     permutation whenever Less is a strict weak order on the input; S calls
     Less only on elements of the input; S depends on Less only through its
     answers.  Proved both for the insertion sort (C10_isort_contract) and for
     the transcription of Go's sort.Stable (C10_go_stable_meets_contract).
   - "mutually comparable" is [SWO_on (okless rk c) keys]: on the keys of the
     input the comparator is asymmetric and "not smaller" is transitive (C09
     proves this of vals.Cmp; here it is a hypothesis, discharged for numbers
     in C10_order_numbers). *)
From Coq Require Import Permutation Sorted.
From verif Require Import lib.Base model.C10 proofs.C10_sort proofs.C10_proofs proofs.C10_gostable.

(* ---- the verified insertion sort satisfies the contract assumed of sort.Stable ---- *)
Theorem C10_isort_contract : StableSortContract isortT.
Proof. exact isortT_contract. Qed.
Print Assumptions C10_isort_contract.

(* ---- the transcription of Go's sort.Stable (insertion-sorted blocks of 20, then
   symMerge passes: binary searches, rotations, recursion on both halves)
   satisfies the same contract, for every length and every Less: always a
   permutation; the stable sorted permutation whenever Less is a strict weak
   order on the input; Less called on input elements only; extensional ---- *)
Theorem C10_go_stable_meets_contract : StableSortContract gostableT.
Proof. exact gostableT_contract. Qed.
Print Assumptions C10_go_stable_meets_contract.

(* so the model that is compared with the implementation on every run (order_go)
   meets the specification itself, with no assumption about the sort *)
Theorem C10_order_go_meets_spec : forall rk o vals,
  (forall ks, static_keys o vals = Some ks -> SWO_on (okless rk (comparator_of o)) ks) ->
  let m := order_go rk o vals in
  Spec_C10 rk o vals (r_out m) (r_err m) (model_cb_failed o m).
Proof. exact order_go_meets_spec. Qed.
Print Assumptions C10_order_go_meets_spec.

(* Go's algorithm and the insertion sort arrange alike under a strict weak order *)
Theorem C10_go_stable_eq_isort : forall (X : Type) (less : X -> X -> bool) l,
  SWO_on less l -> fst (gostableT X less l) = isort X less l.
Proof. exact @gostable_eq_isort. Qed.
Print Assumptions C10_go_stable_eq_isort.

(* ---- main theorem: for every sort satisfying the contract, every option
   combination and every input whose keys are mutually comparable, what the
   model writes / throws satisfies the specification that the oracle checks on
   the implementation ---- *)
Theorem C10_order_meets_spec : forall (S : sorter) rk o vals,
  StableSortContract S ->
  (forall ks, static_keys o vals = Some ks -> SWO_on (okless rk (comparator_of o)) ks) ->
  let m := order_with S rk o vals in
  Spec_C10 rk o vals (r_out m) (r_err m) (model_cb_failed o m).
Proof. exact order_meets_spec. Qed.
Print Assumptions C10_order_meets_spec.

(* the same without any assumption on the sort: the model with the insertion sort *)
Theorem C10_order_isort_meets_spec : forall rk o vals,
  (forall ks, static_keys o vals = Some ks -> SWO_on (okless rk (comparator_of o)) ks) ->
  let m := order rk o vals in
  Spec_C10 rk o vals (r_out m) (r_err m) (model_cb_failed o m).
Proof. exact order_isort_meets_spec. Qed.
Print Assumptions C10_order_isort_meets_spec.

(* ---- the oracle evaluated on the implementation's observations is sound ---- *)
Theorem C10_oracle_sound : forall rk o vals outs err cbf,
  check_C10 rk o vals outs err cbf = true -> Spec_C10 rk o vals outs err cbf.
Proof. exact check_C10_sound. Qed.
Print Assumptions C10_oracle_sound.

(* ---- permutation: needs no comparability at all ---- *)
Theorem C10_order_perm : forall (S : sorter) rk o vals,
  StableSortContract S ->
  r_err (order_with S rk o vals) = None -> Permutation vals (r_out (order_with S rk o vals)).
Proof. exact order_perm. Qed.
Print Assumptions C10_order_perm.

(* ---- sorted: no value is written before a value whose key compares smaller ---- *)
Theorem C10_order_sorted : forall (S : sorter) rk o vals,
  StableSortContract S ->
  r_err (order_with S rk o vals) = None ->
  exists ks, static_keys o vals = Some ks /\
    (SWO_on (okless rk (comparator_of o)) ks ->
     exists dout : list (value * value),
       Permutation (combine ks vals) dout /\
       r_out (order_with S rk o vals) = map snd dout /\
       StronglySorted (fun p q => key_less rk o (fst q) (fst p) = false) dout).
Proof. exact order_sorted. Qed.
Print Assumptions C10_order_sorted.

(* ---- stable: the output decorated with (input position, (key, value)) is a
   permutation of the decorated input, sorted, and two elements of which
   neither compares smaller keep their input order ---- *)
Theorem C10_order_stable : forall (S : sorter) rk o vals,
  StableSortContract S ->
  r_err (order_with S rk o vals) = None ->
  exists ks, static_keys o vals = Some ks /\
    (SWO_on (okless rk (comparator_of o)) ks ->
     exists touts : list titem,
       Permutation (tagged (combine ks vals)) touts /\
       r_out (order_with S rk o vals) = map (fun t => snd (snd t)) touts /\
       StronglySorted (fun a b =>
           key_less rk o (fst (snd b)) (fst (snd a)) = false /\
           (key_less rk o (fst (snd a)) (fst (snd b)) = false -> fst a < fst b)) touts).
Proof. exact order_stable_sorted. Qed.
Print Assumptions C10_order_stable.

(* the stable sorted permutation is unique: the three clauses determine the output *)
Theorem C10_stable_sorted_unique : forall (X : Type) (less : X -> X -> bool) inp o1 o2,
  StableSorted less inp o1 -> StableSorted less inp o2 -> o1 = o2.
Proof. exact @StableSorted_unique. Qed.
Print Assumptions C10_stable_sorted_unique.

(* ---- &reverse: descending, ties still in input order ---- *)
Theorem C10_order_reverse : forall (S : sorter) rk o vals,
  StableSortContract S -> o_reverse o = true ->
  r_err (order_with S rk o vals) = None ->
  exists ks, static_keys o vals = Some ks /\
    (SWO_on (okless rk (comparator_of o)) ks ->
     exists touts : list titem,
       Permutation (tagged (combine ks vals)) touts /\
       r_out (order_with S rk o vals) = map (fun t => snd (snd t)) touts /\
       StronglySorted (fun a b =>
           okless rk (comparator_of o) (fst (snd a)) (fst (snd b)) = false /\
           (okless rk (comparator_of o) (fst (snd b)) (fst (snd a)) = false -> fst a < fst b))
         touts).
Proof. exact order_reverse. Qed.
Print Assumptions C10_order_reverse.

(* ---- &key g  ==  &less-than comparing the images under g (g pure, total):
   decorate-sort-undecorate.  For any sort satisfying the contract when nothing
   fails; for the insertion sort the whole run coincides, failures and the
   number of comparator calls included. ---- *)
Theorem C10_order_key_equiv : forall (S : sorter) (g : value -> value) okl fl rv vals,
  StableSortContract S -> SWO_on okl (map g vals) ->
  (forall i a b, In a (map g vals) -> In b (map g vals) -> fl i a b = None) ->
  r_err (order_gen S (Some (fun _ v => inr (g v))) okl fl rv vals) = None /\
  r_err (order_gen S None (fun a b => okl (g a) (g b)) (fun i a b => fl i (g a) (g b)) rv vals) = None /\
  r_out (order_gen S (Some (fun _ v => inr (g v))) okl fl rv vals) =
  r_out (order_gen S None (fun a b => okl (g a) (g b)) (fun i a b => fl i (g a) (g b)) rv vals).
Proof. exact order_key_equiv. Qed.
Print Assumptions C10_order_key_equiv.

Theorem C10_order_key_equiv_isort : forall (g : value -> value) okl fl rv vals,
  let a := order_gen isortT (Some (fun _ v => inr (g v))) okl fl rv vals in
  let b := order_gen isortT None (fun a b => okl (g a) (g b)) (fun i a b => fl i (g a) (g b)) rv vals in
  r_out a = r_out b /\ r_err a = r_err b /\ r_lcalls a = r_lcalls b.
Proof. exact order_key_equiv_isort. Qed.
Print Assumptions C10_order_key_equiv_isort.

(* ---- &total  ==  &less-than={|a b| == -1 (compare &total $a $b)} ---- *)
Theorem C10_order_total_equiv : forall (S : sorter) rk rv key vals,
  StableSortContract S ->
  order_with S rk (mkOpts rv true key None) vals =
  order_with S rk (mkOpts rv false key (Some (mkLt LCmpTotal LNoFail))) vals.
Proof. exact total_equiv. Qed.
Print Assumptions C10_order_total_equiv.

(* ---- default  ==  &less-than={|a b| == -1 (compare $a $b)} ---- *)
Theorem C10_order_lessthan_equiv : forall (S : sorter) rk rv key vals,
  StableSortContract S ->
  order_with S rk (mkOpts rv false key None) vals =
  order_with S rk (mkOpts rv false key (Some (mkLt LCmp LNoFail))) vals.
Proof. exact lessthan_equiv. Qed.
Print Assumptions C10_order_lessthan_equiv.

(* ---- failure is atomic: an exception means nothing was written (any sort) ---- *)
Theorem C10_order_error_atomic : forall (S : sorter) rk o vals,
  r_err (order_with S rk o vals) <> None -> r_out (order_with S rk o vals) = [].
Proof. exact order_error_atomic. Qed.
Print Assumptions C10_order_error_atomic.

(* a failing &key call: that error after exactly n calls, nothing written, no comparison *)
Theorem C10_order_key_failure : forall (S : sorter) rk o vals k e n,
  both_total_lt o = false -> o_key o = Some k ->
  keys_from (key_call k) 1 vals = inl (e, n) ->
  order_with S rk o vals = mkRes [] (Some e) n 0.
Proof. exact order_key_failure. Qed.
Print Assumptions C10_order_key_failure.

(* any comparator call that the sort makes and that fails (an uncomparable pair
   that is inspected, a throwing or misbehaving &less-than) *)
Theorem C10_order_inspected_failure : forall (S : sorter) rk o vals ks kc i p q e,
  both_total_lt o = false ->
  keyed_of (option_map key_call (o_key o)) vals = inr (ks, kc) ->
  nth_error (snd (S item (item_less (okless rk (comparator_of o)) (o_reverse o)) (combine ks vals))) i
    = Some (p, q) ->
  fails rk (comparator_of o) (1 + i) (fst (cmp_args (o_reverse o) p q))
        (snd (cmp_args (o_reverse o) p q)) = Some e ->
  r_err (order_with S rk o vals) <> None /\ r_out (order_with S rk o vals) = [].
Proof. exact order_inspected_failure. Qed.
Print Assumptions C10_order_inspected_failure.

(* mutually comparable keys and callbacks that do not fail: no exception *)
Theorem C10_order_no_error : forall (S : sorter) rk o vals ks,
  StableSortContract S -> both_total_lt o = false ->
  (match o_key o with
   | Some k => keys_from (key_call k) 1 vals = inr ks
   | None => ks = vals
   end) ->
  (forall i a b, In a ks -> In b ks -> fails rk (comparator_of o) i a b = None) ->
  r_err (order_with S rk o vals) = None.
Proof. exact order_no_error. Qed.
Print Assumptions C10_order_no_error.

(* an exception always has one of the three causes *)
Theorem C10_order_error_cause : forall (S : sorter) rk o vals,
  StableSortContract S -> r_err (order_with S rk o vals) <> None ->
  both_total_lt o = true \/
  (exists k e n, o_key o = Some k /\ keys_from (key_call k) 1 vals = inl (e, n) /\
                 r_err (order_with S rk o vals) = Some e) \/
  (exists ks a b e n, static_keys o vals = Some ks /\ In a ks /\ In b ks /\
     fails rk (comparator_of o) n (if o_reverse o then b else a) (if o_reverse o then a else b)
       = Some e /\ r_err (order_with S rk o vals) = Some e).
Proof. exact order_error_cause. Qed.
Print Assumptions C10_order_error_cause.

(* ---- the error latch written as in slice.Less (state: latched error, calls
   made; Less answers true once latched) gives exactly what order_gen computes
   from the latch-free trace: the first failing call wins, no call after it ---- *)
Theorem C10_latch_equiv : forall (X : Type) (ok : X -> X -> bool)
    (fl : nat -> X -> X -> option errkind) (l : list X),
  match first_fail_plain fl 1 (isort_trace X ok l) with
  | Some (e, k) => snd (isort_l ok fl (None, 0%nat) [] l) = (Some e, k)
  | None => isort_l ok fl (None, 0%nat) [] l = (isort X ok l, (None, length (isort_trace X ok l)))
  end.
Proof. exact @latch_equiv. Qed.
Print Assumptions C10_latch_equiv.

(* ---- a closed instance, no hypothesis left: any list of numbers (ints and
   floats mixed), default comparator, with or without &reverse ---- *)
Theorem C10_order_numbers : forall (S : sorter) rk rv vals,
  StableSortContract S -> Forall is_number vals ->
  let m := order_with S rk (mkOpts rv false None None) vals in
  r_err m = None /\
  StableSorted (fun a b => if rv then Z.ltb (num2 b) (num2 a) else Z.ltb (num2 a) (num2 b))
               vals (r_out m).
Proof. exact order_numbers. Qed.
Print Assumptions C10_order_numbers.

(* ---- non-vacuity ---- *)
Definition ex_p (k t : Z) := VList [VNum k; VNum t].
Definition ex_rk : list N := [1; 0; 2; 4; 3]%N.

(* &key on [key tag] payloads, ties keep their input order; both sorts agree *)
Example C10_example_key :
  let o := mkOpts false false (Some (mkKey KFirst None)) None in
  let vals := [ex_p 2 0; ex_p 1 1; ex_p 2 2; ex_p 1 3; ex_p 0 4] in
  r_out (order ex_rk o vals) = [ex_p 0 4; ex_p 1 1; ex_p 1 3; ex_p 2 0; ex_p 2 2]
  /\ order_go ex_rk o vals = order ex_rk o vals
  /\ check_C10 ex_rk o vals (r_out (order ex_rk o vals)) None false = true.
Proof. vm_compute. auto. Qed.

(* &reverse keeps ties in input order; reversing the ascending result would not *)
Example C10_example_reverse :
  let o := mkOpts true false (Some (mkKey KFirst None)) None in
  let vals := [ex_p 2 0; ex_p 1 1; ex_p 2 2; ex_p 1 3; ex_p 0 4] in
  r_out (order ex_rk o vals) = [ex_p 2 0; ex_p 2 2; ex_p 1 1; ex_p 1 3; ex_p 0 4]
  /\ check_C10 ex_rk o vals [ex_p 2 2; ex_p 2 0; ex_p 1 3; ex_p 1 1; ex_p 0 4] None false = false.
Proof. vm_compute. auto. Qed.

(* an uncomparable pair: exception, nothing written; and the oracle rejects output before it *)
Example C10_example_uncomparable :
  let o := mkOpts false false None None in
  let vals := [VNum 2; VStr [97%N]; VNum 1] in
  order ex_rk o vals = mkRes [] (Some EUncomparable) 0 1
  /\ check_C10 ex_rk o vals [VNum 1] (Some EUncomparable) false = false
  /\ r_out (order ex_rk (mkOpts false true None None) vals) = [VStr [97%N]; VNum 1; VNum 2].
Proof. vm_compute. auto. Qed.

(* the hypothesis of the main theorem is satisfiable: numbers are mutually comparable *)
Example C10_example_hypothesis :
  SWO_on (okless ex_rk CDefault) [VNum 3; VFlt 6; VNum 1].
Proof. apply SWO_numbers. repeat constructor. Qed.
