(* C39 -- One interpreter can safely be used from many goroutines.
   Property theorems only; every proof is [exact <lemma>]. *)
From verif Require Import lib.Base model.C39 proofs.C39_proofs proofs.C39_serial proofs.C39_disjoint proofs.C39_full proofs.C39_complete.
Open Scope N_scope.

(* For ALL job sets (Eval / Check / Call) that import only modules that are
   already loaded, ALL initial states and ALL interleavings: no two accesses of
   different threads to the same shared location, one of them a write, are
   made without a common lock held exclusively by at least one of them. *)
Theorem C39_race_free_without_use : forall g0 st0 mods0 js sched,
  no_file_use mods0 js -> race_free (c_trace (run sched (init g0 st0 mods0 js))).
Proof. exact race_free_without_use. Qed.
Print Assumptions C39_race_free_without_use.

(* Without any restriction on the jobs (file imports included): every location
   other than the module table is free of races. *)
Theorem C39_no_race_outside_modules : forall g0 st0 mods0 js sched,
  race_free_on (fun l => l <> LModules) (c_trace (run sched (init g0 st0 mods0 js))).
Proof. exact no_race_outside_modules. Qed.
Print Assumptions C39_no_race_outside_modules.

(* Every access to a variable holds the variable's own lock (exclusively for
   writes), in every interleaving of every job set. *)
Theorem C39_ptrvar_accesses_atomic : forall g0 st0 mods0 js sched,
  Forall slot_event_ok (c_trace (run sched (init g0 st0 mods0 js)))
  /\ race_free_on (fun l => exists s, l = LSlot s) (c_trace (run sched (init g0 st0 mods0 js))).
Proof. exact ptrvar_accesses_atomic. Qed.
Print Assumptions C39_ptrvar_accesses_atomic.

(* Every access to ev.global holds ev.mu, exclusively for the replacement. *)
Theorem C39_global_accesses_locked : forall g0 st0 mods0 js sched,
  Forall global_event_ok (c_trace (run sched (init g0 st0 mods0 js))).
Proof. exact global_accesses_locked. Qed.
Print Assumptions C39_global_accesses_locked.

(* The unrestricted statement
     forall js sched, race_free (c_trace (run sched (init [] [] [] js)))
   is FALSE of the faithful model: two threads importing file modules write
   ev.modules holding no lock (builtin_special.go: useFromFile / evalModule). *)
Theorem C39_race_free_refuted :
  exists js sched, ~ race_free (c_trace (run sched (init [] [] [] js))).
Proof. exact race_free_refuted. Qed.
Print Assumptions C39_race_free_refuted.

(* The oracle used on the implementation's observations is sound: it accepts
   only observations that some serial order of the jobs produces. *)
Theorem C39_acceptor_sound : forall setup js o,
  serial_outcome_ok setup js o = true -> SerialOutcome setup js o.
Proof. exact serial_outcome_ok_sound. Qed.
Print Assumptions C39_acceptor_sound.

(* Compile-and-replace of the global namespace is one critical section: for
   ALL job sets and ALL interleavings the global namespace equals the one
   obtained by applying the Eval programs one after the other (a serial order:
   the order in which they replaced ev.global); every Eval commits at most
   once; only Eval jobs commit. *)
Theorem C39_global_update_atomic : forall g0 st0 mods0 js sched,
  let c := run sched (init g0 st0 mods0 js) in
  c_global c = ns_after (eval_prog js) (rev (c_commits c)) g0
  /\ NoDup (c_commits c)
  /\ (forall t, In t (c_commits c) -> eval_prog js t <> None).
Proof. exact global_update_atomic. Qed.
Print Assumptions C39_global_update_atomic.

(* Inside the critical section the namespace a thread compiled against is
   still the current one, and the thread holds ev.mu exclusively. *)
Theorem C39_snapshot_is_current : forall g0 st0 mods0 js sched t p,
  let c := run sched (init g0 st0 mods0 js) in
  t_ops (c_thr c t) = [OCompile p] -> t_snap (c_thr c t) = c_global c /\ c_w c = Some t.
Proof. exact snapshot_is_current. Qed.
Print Assumptions C39_snapshot_is_current.

(* Serializability of self-contained evaluations (every name a program reads
   or assigns is declared earlier in the same program; imports are free):
   for ALL such job sets, initial states and interleavings that run every
   thread to completion, there is a serial schedule - each thread runs alone in
   one uninterrupted block, in some order - that also runs every thread to
   completion and has EXACTLY the same observation (final variables, every
   job's error flag and value outputs). *)
Theorem C39_serializable_disjoint : forall g0 st0 mods0 js sched,
  eval_jobs js ->
  let c0 := init g0 st0 mods0 js in
  let c := run sched c0 in
  (forall t, t_ops (c_thr c t) = []) ->
  exists order F,
    NoDup order
    /\ (forall t, t_ops (c_thr (run (blocks F order) c0) t) = [])
    /\ obs_of (run (blocks F order) c0) (length js) = obs_of c (length js).
Proof. exact serializable_disjoint. Qed.
Print Assumptions C39_serializable_disjoint.

(* PLANNED with Check jobs mixed in, full statement (not proved, see
   checks/C39.md):
     forall g0 st0 mods0 js sched, (forall j, In j js -> disjoint_job j) ->
       let c := run sched (init g0 st0 mods0 js) in
       (forall t, t_ops (c_thr c t) = []) ->
       exists order F, NoDup order /\ obs_of (run (blocks F order) c0) (length js) = obs_of c (length js)
   (it needs the position of every Check relative to the commits it saw).
   Proved for that class: in ALL interleavings every variable access is made
   by the thread that declared the variable (no value flows between
   evaluations) and the namespace is the one of the serial order in which the
   evaluations committed. *)
Theorem C39_serializable_disjoint_partial : forall g0 st0 mods0 js sched,
  (forall j, In j js -> disjoint_job j) ->
  let c := run sched (init g0 st0 mods0 js) in
  Forall own_event (c_trace c)
  /\ c_global c = ns_after (eval_prog js) (rev (c_commits c)) g0
  /\ NoDup (c_commits c).
Proof. exact serializable_disjoint_partial. Qed.
Print Assumptions C39_serializable_disjoint_partial.

(* The statement "every observation of every interleaving is the outcome of
   some serial order of the jobs" is FALSE of the faithful model: the new
   namespace is published before the declaring code has run. *)
Theorem C39_serializable_refuted :
  exists setup js sched,
    let '(g0, st0) := setup_state setup in
    serial_outcome_ok setup js
      (obs_of (run sched (init g0 st0 [] js)) (length js)) = false.
Proof. exact serializable_refuted. Qed.
Print Assumptions C39_serializable_refuted.

(* ... and complete: it accepts EVERY observation that some serial order of the
   jobs produces, so the oracle demands exactly that and nothing more. *)
Theorem C39_acceptor_complete : forall setup js o,
  SerialOutcome setup js o -> serial_outcome_ok setup js o = true.
Proof. exact serial_outcome_ok_complete. Qed.
Print Assumptions C39_acceptor_complete.

(* The model of the RW lock: in ALL interleavings ev.mu is never held
   exclusively and shared at the same time. *)
Theorem C39_mu_exclusive : forall g0 st0 mods0 js sched,
  let c := run sched (init g0 st0 mods0 js) in c_w c <> None -> c_r c = [].
Proof. exact mu_exclusive. Qed.
Print Assumptions C39_mu_exclusive.

(* ---- non-vacuity ---- *)
(* the acceptor accepts an outcome of the order job 1, job 0 ... *)
Example C39_ex_accepts :
  serial_outcome_ok [SDecl 1 5] [JEval [SDecl 20 7; SGet 20]; JEval [SDecl 20 8]; JCheck [SGet 20]]
    (mkObs [(1, 5); (20, 7)] [mkRes false [7]; mkRes false []; mkRes true []]) = true.
Proof. vm_compute. reflexivity. Qed.
(* ... and rejects $nil read from a variable under declaration *)
Example C39_ex_rejects :
  serial_outcome_ok [] [JEval [SDecl 30 7]; JEval [SGet 30]]
    (mkObs [(30, 7)] [mkRes false []; mkRes false [0]]) = false.
Proof. vm_compute. reflexivity. Qed.
(* the model has interleavings with a race (two importers) and without *)
Example C39_ex_race :
  has_race (c_trace (run use_witness_sched (init [] [] [] use_witness_jobs))) = true.
Proof. vm_compute. reflexivity. Qed.
Example C39_ex_commit_order :
  c_commits (run [1;1;1;1;1;1;1;0;0;0;0;0;0;0] (init [] [] [] [JEval [SDecl 1 1]; JEval [SDecl 1 2]])) = [0; 1].
Proof. vm_compute. reflexivity. Qed.
(* a complete interleaving that is not serial (the two evaluations execute
   their statements alternately): C39_serializable_disjoint applies to it *)
Example C39_ex_interleaved_complete :
  let c := run [0;0;0;0;0;0; 1;1;1;1;1;1; 1;0;1;0]
               (init [] [] [] [JEval [SDecl 1 1; SGet 1]; JEval [SDecl 1 2; SGet 1]]) in
  (t_ops (c_thr c 0), t_ops (c_thr c 1), obs_of c 2, c_commits c)
  = ([], [], mkObs [(1, 2)] [mkRes false [1]; mkRes false [2]], [1; 0]).
Proof. vm_compute. reflexivity. Qed.
