(* C39 -- One interpreter can safely be used from many goroutines.
   Property theorems only; every proof is [exact <lemma>]. *)
From verif Require Import lib.Base model.C39 proofs.C39_proofs proofs.C39_serial proofs.C39_disjoint proofs.C39_full proofs.C39_complete proofs.C39_snapshot.
Open Scope N_scope.

(* For ALL job sets (Eval / Check / Call) that import only modules that are
   already loaded, ALL initial states and ALL interleavings: no two accesses of
   different threads to the same shared location, one of them a write, are
   made without a common lock held exclusively by at least one of them. *)
Theorem C39_race_free_without_use : forall g0 st0 mods0 js sched,
  no_file_use mods0 js -> race_free (c_trace (run sched (init g0 st0 mods0 js))).
Proof. exact race_free_without_use. Qed.
Print Assumptions C39_race_free_without_use.

(* Without any restriction on the jobs (file imports included): every location
   other than the module table is free of races. *)
Theorem C39_no_race_outside_modules : forall g0 st0 mods0 js sched,
  race_free_on (fun l => l <> LModules) (c_trace (run sched (init g0 st0 mods0 js))).
Proof. exact no_race_outside_modules. Qed.
Print Assumptions C39_no_race_outside_modules.

(* Every access to a variable holds the variable's own lock (exclusively for
   writes), in every interleaving of every job set. *)
Theorem C39_ptrvar_accesses_atomic : forall g0 st0 mods0 js sched,
  Forall slot_event_ok (c_trace (run sched (init g0 st0 mods0 js)))
  /\ race_free_on (fun l => exists s, l = LSlot s) (c_trace (run sched (init g0 st0 mods0 js))).
Proof. exact ptrvar_accesses_atomic. Qed.
Print Assumptions C39_ptrvar_accesses_atomic.

(* Every access to ev.global holds ev.mu, exclusively for the replacement. *)
Theorem C39_global_accesses_locked : forall g0 st0 mods0 js sched,
  Forall global_event_ok (c_trace (run sched (init g0 st0 mods0 js))).
Proof. exact global_accesses_locked. Qed.
Print Assumptions C39_global_accesses_locked.

(* The unrestricted statement
     forall js sched, race_free (c_trace (run sched (init [] [] [] js)))
   is FALSE of the faithful model: two threads importing file modules write
   ev.modules holding no lock (builtin_special.go: useFromFile / evalModule). *)
Theorem C39_race_free_refuted :
  exists js sched, ~ race_free (c_trace (run sched (init [] [] [] js))).
Proof. exact race_free_refuted. Qed.
Print Assumptions C39_race_free_refuted.

(* The oracle used on the implementation's observations is sound: it accepts
   only observations that some serial order of the jobs produces. *)
Theorem C39_acceptor_sound : forall setup js o,
  serial_outcome_ok setup js o = true -> SerialOutcome setup js o.
Proof. exact serial_outcome_ok_sound. Qed.
Print Assumptions C39_acceptor_sound.

(* Compile-and-replace of the global namespace is one critical section: for
   ALL job sets and ALL interleavings the global namespace equals the one
   obtained by applying the Eval programs one after the other (a serial order:
   the order in which they replaced ev.global); every Eval commits at most
   once; only Eval jobs commit. *)
Theorem C39_global_update_atomic : forall g0 st0 mods0 js sched,
  let c := run sched (init g0 st0 mods0 js) in
  c_global c = ns_after (eval_prog js) (rev (c_commits c)) g0
  /\ NoDup (c_commits c)
  /\ (forall t, In t (c_commits c) -> eval_prog js t <> None).
Proof. exact global_update_atomic. Qed.
Print Assumptions C39_global_update_atomic.

(* Inside the critical section the namespace a thread compiled against is
   still the current one, and the thread holds ev.mu exclusively. *)
Theorem C39_snapshot_is_current : forall g0 st0 mods0 js sched t p,
  let c := run sched (init g0 st0 mods0 js) in
  t_ops (c_thr c t) = [OCompile p] -> t_snap (c_thr c t) = c_global c /\ c_w c = Some t.
Proof. exact snapshot_is_current. Qed.
Print Assumptions C39_snapshot_is_current.

(* Serializability of self-contained evaluations (every name a program reads
   or assigns is declared earlier in the same program; imports are free) mixed
   with static checks of ARBITRARY programs: for ALL such job sets, initial
   states and interleavings that run every thread to completion, the serial
   schedule that runs each thread alone in one uninterrupted block, in the
   LINEARIZATION ORDER (an Eval at the moment it replaced ev.global, a Check at
   the moment it read its snapshot under the read lock), also runs every thread
   to completion and has EXACTLY the same observation (final variables, every
   job's error flag - the verdict of every Check - and value outputs). *)
Theorem C39_serializable_disjoint : forall g0 st0 mods0 js sched,
  mixed_jobs js ->
  let c0 := init g0 st0 mods0 js in
  let c := run sched c0 in
  (forall t, t_ops (c_thr c t) = []) ->
  let order := rev (c_lin c) in
  exists F,
    NoDup order
    /\ (forall t, t_ops (c_thr (run (blocks F order) c0) t) = [])
    /\ obs_of (run (blocks F order) c0) (length js) = obs_of c (length js).
Proof. exact serializable_disjoint. Qed.
Print Assumptions C39_serializable_disjoint.

(* A Check linearizes at its snapshot: in every interleaving a finished Check
   has taken its place in the linearization order, compiled against exactly the
   namespace produced by the evaluations that precede it there, and reports
   whether its program compiles against that namespace. *)
Theorem C39_check_linearizes : forall g0 st0 mods0 js sched t p,
  mixed_jobs js ->
  let c := run sched (init g0 st0 mods0 js) in
  check_prog js t = Some p -> t_ops (c_thr c t) = [] ->
  In t (c_lin c)
  /\ t_snap (c_thr c t) = ns_after (eval_prog js) (before t (rev (c_lin c))) g0
  /\ t_err (c_thr c t) = is_none (compile t 0 (t_snap (c_thr c t)) p).
Proof. exact check_linearizes. Qed.
Print Assumptions C39_check_linearizes.

(* Call linearizes likewise, for ALL job sets (no restriction at all) and ALL
   interleavings: a finished Call has taken its place in the linearization
   order at its read of ev.global under the read lock (Evaler.Global()), and
   the namespace it ran against is exactly the one produced by the
   evaluations that precede it there. *)
Theorem C39_call_linearizes : forall g0 st0 mods0 js sched t p,
  let c := run sched (init g0 st0 mods0 js) in
  nth_error js (N.to_nat t) = Some (JCall p) -> t_ops (c_thr c t) = [] ->
  In t (c_lin c)
  /\ t_snap (c_thr c t) = ns_after (eval_prog js) (before t (rev (c_lin c))) g0.
Proof. exact call_linearizes. Qed.
Print Assumptions C39_call_linearizes.

(* The same for every thread that is not an Eval (Check or Call), finished or
   not, in ALL job sets: from the moment it is in the linearization order its
   snapshot is the namespace of the prefix before it. *)
Theorem C39_snapshot_linearizes : forall g0 st0 mods0 js sched t,
  let c := run sched (init g0 st0 mods0 js) in
  eval_prog js t = None -> In t (c_lin c) ->
  t_snap (c_thr c t) = ns_after (eval_prog js) (before t (rev (c_lin c))) g0.
Proof. exact snapshot_linearizes. Qed.
Print Assumptions C39_snapshot_linearizes.

(* The linearization order itself, ALL job sets and interleavings: no thread
   appears twice, the commits are exactly its Evals, and the current namespace
   is the one produced by the whole order. *)
Theorem C39_lin_order : forall g0 st0 mods0 js sched,
  let c := run sched (init g0 st0 mods0 js) in
  NoDup (c_lin c)
  /\ c_commits c = filter (fun t => is_some (eval_prog js t)) (c_lin c)
  /\ c_global c = ns_after (eval_prog js) (rev (c_lin c)) g0.
Proof. exact lin_order_facts. Qed.
Print Assumptions C39_lin_order.

(* In ALL interleavings (complete or not) of that class every variable access
   is made by the thread that declared the variable (no value flows between
   evaluations) and the namespace is the one of the serial order in which the
   evaluations committed. *)
Theorem C39_no_flow_between_disjoint_evals : forall g0 st0 mods0 js sched,
  (forall j, In j js -> disjoint_job j) ->
  let c := run sched (init g0 st0 mods0 js) in
  Forall own_event (c_trace c)
  /\ c_global c = ns_after (eval_prog js) (rev (c_commits c)) g0
  /\ NoDup (c_commits c).
Proof. exact serializable_disjoint_partial. Qed.
Print Assumptions C39_no_flow_between_disjoint_evals.

(* The statement "every observation of every interleaving is the outcome of
   some serial order of the jobs" is FALSE of the faithful model: the new
   namespace is published before the declaring code has run. *)
Theorem C39_serializable_refuted :
  exists setup js sched,
    let '(g0, st0) := setup_state setup in
    serial_outcome_ok setup js
      (obs_of (run sched (init g0 st0 [] js)) (length js)) = false.
Proof. exact serializable_refuted. Qed.
Print Assumptions C39_serializable_refuted.

(* ... and complete: it accepts EVERY observation that some serial order of the
   jobs produces, so the oracle demands exactly that and nothing more. *)
Theorem C39_acceptor_complete : forall setup js o,
  SerialOutcome setup js o -> serial_outcome_ok setup js o = true.
Proof. exact serial_outcome_ok_complete. Qed.
Print Assumptions C39_acceptor_complete.

(* The model of the RW lock: in ALL interleavings ev.mu is never held
   exclusively and shared at the same time. *)
Theorem C39_mu_exclusive : forall g0 st0 mods0 js sched,
  let c := run sched (init g0 st0 mods0 js) in c_w c <> None -> c_r c = [].
Proof. exact mu_exclusive. Qed.
Print Assumptions C39_mu_exclusive.

(* ---- non-vacuity ---- *)
(* the acceptor accepts an outcome of the order job 1, job 0 ... *)
Example C39_ex_accepts :
  serial_outcome_ok [SDecl 1 5] [JEval [SDecl 20 7; SGet 20]; JEval [SDecl 20 8]; JCheck [SGet 20]]
    (mkObs [(1, 5); (20, 7)] [mkRes false [7]; mkRes false []; mkRes true []]) = true.
Proof. vm_compute. reflexivity. Qed.
(* ... and rejects $nil read from a variable under declaration *)
Example C39_ex_rejects :
  serial_outcome_ok [] [JEval [SDecl 30 7]; JEval [SGet 30]]
    (mkObs [(30, 7)] [mkRes false []; mkRes false [0]]) = false.
Proof. vm_compute. reflexivity. Qed.
(* the model has interleavings with a race (two importers) and without *)
Example C39_ex_race :
  has_race (c_trace (run use_witness_sched (init [] [] [] use_witness_jobs))) = true.
Proof. vm_compute. reflexivity. Qed.
Example C39_ex_commit_order :
  c_commits (run [1;1;1;1;1;1;1;0;0;0;0;0;0;0] (init [] [] [] [JEval [SDecl 1 1]; JEval [SDecl 1 2]])) = [0; 1].
Proof. vm_compute. reflexivity. Qed.
(* a complete interleaving that is not serial (the two evaluations execute
   their statements alternately): C39_serializable_disjoint applies to it *)
Example C39_ex_interleaved_complete :
  let c := run [0;0;0;0;0;0; 1;1;1;1;1;1; 1;0;1;0]
               (init [] [] [] [JEval [SDecl 1 1; SGet 1]; JEval [SDecl 1 2; SGet 1]]) in
  (t_ops (c_thr c 0), t_ops (c_thr c 1), obs_of c 2, c_commits c)
  = ([], [], mkObs [(1, 2)] [mkRes false [1]; mkRes false [2]], [1; 0]).
Proof. vm_compute. reflexivity. Qed.

(* a Check that takes its snapshot between the commits of two evaluations sees
   the first declaration but not the second *)
Example C39_ex_check_between :
  let js := [JEval [SDecl 1 1]; JCheck [SGet 1; SGet 2]; JEval [SDecl 2 2]; JCheck [SGet 1]] in
  let c := run [0;0;0;0;0;0; 1;1;1;1; 3;3;3;3; 2;2;2;2;2;2; 1;1; 3;3; 0; 2]
               (init [] [] [] js) in
  (c_lin c, map (fun r => r_err r) (o_res (obs_of c 4))) = ([2; 3; 1; 0], [false; true; false; false]).
Proof. vm_compute. reflexivity. Qed.
