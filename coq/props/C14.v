(* C14 — Element assignment never mutates values seen elsewhere.
   Theorems about the store of the reference interpreter; every proof is
   [exact <lemma>]. *)
From verif Require Import lib.Base model.C15_Syntax model.C15_Values model.C15_Interp model.C14
  proofs.C21_proofs proofs.C14_proofs.

(* An element assignment rebinds the variable to the nested assoc of a value of
   the variable: its current value in reference mode; in faithful mode (the Go
   code) the value read when the left-hand side was evaluated. *)
Theorem C14_elem_set_is_nested_assoc : forall s t v s',
  t_ixs t <> [] ->
  assign_target s t v = POk s' ->
  exists nv,
    nested_assoc (if st_stale s then t_snap t else cell s (t_addr t)) (t_ixs t) v = POk nv
    /\ s' = store_at s (t_addr t) nv.
Proof. exact elem_set_is_nested_assoc. Qed.
Print Assumptions C14_elem_set_is_nested_assoc.

(* Frame: the assignment writes the assigned variable's cell only.  Every
   other variable, every cell captured by a closure, the output so far, the
   environment and the deferred list are unchanged; values read earlier are
   immutable terms and cannot change at all. *)
Theorem C14_set_elem_frame : forall s t v s',
  assign_target s t v = POk s' ->
  (forall b, b <> t_addr t -> cell s' b = cell s b)
  /\ length (st_store s') = length (st_store s)
  /\ st_env s' = st_env s /\ st_out s' = st_out s /\ st_defers s' = st_defers s.
Proof. exact set_elem_frame. Qed.
Print Assumptions C14_set_elem_frame.

(* the same over a whole list of (element) assignments, complete or partly failed *)
Theorem C14_assign_all_frame : forall ts s vs s' rs st,
  assign_all s ts vs [] = (s', rs, st) ->
  forall b, touched rs b = false -> cell s' b = cell s b.
Proof. exact assign_all_frame. Qed.
Print Assumptions C14_assign_all_frame.

(* tmp / with on elements: undoing restores the whole variable *)
Theorem C14_elem_restores : forall ts s vs s' rs st,
  assign_all s ts vs [] = (s', rs, st) ->
  forall s3, length (st_store s3) = length (st_store s) ->
  forall b, cell (apply_restores s3 rs) b = if touched rs b then cell s b else cell s3 b.
Proof. exact restores_undo_assignments. Qed.
Print Assumptions C14_elem_restores.

(* Characterisation of a command with two element lvalues of one variable in the
   faithful model: the second assoc starts from the container the variable held
   when the command began (vars.MakeElement reads it while the left-hand side is
   evaluated), so  var v0 = [1 2]; set v0[0] v0[1] = x y  leaves [1 y].  Reading
   "its old value" as the value before the command this complies with C14, and
   the oracle accepts it (see checks/C14.md, Observations); no alias changes. *)
Definition witness_prog : chunk :=
  [[CVar [(false, 0%N)] (Some [EList [EStr [49%N]; EStr [50%N]]])];
   [CBuiltin BPut [EList [EStr [73%N]; EVar 0%N]] []];
   [CVar [(false, 10%N)] (Some [EVar 0%N])];
   [CSet [((false, 0%N), [EStr [48%N]]); ((false, 0%N), [EStr [49%N]])] [EStr [120%N]; EStr [121%N]]];
   [CBuiltin BPut [EList [EStr [80%N]; EStr [48%N]; EVar 0%N; EList [EVar 10%N]]] []];
   [CBuiltin BPut [EList [EStr [67%N]; EStr [48%N];
      EList [ECapture [[CBuiltin BCount [EVar 10%N] []]]; EList [ECapture [[CBuiltin BAll [EVar 10%N] []]]]]]] []]].
Definition witness_steps : list step :=
  [SMulti [VStr [48%N]] (VStr [120%N]) [VStr [49%N]] (VStr [121%N])].

Theorem C14_multi_lvalue_base_is_command_start :
  let one_two := VList [VStr [49%N]; VStr [50%N]] in
  let one_y := VList [VStr [49%N]; VStr [121%N]] in
  outputs (run_program default_fuel true witness_prog)
  = [VList [VStr [73%N]; one_two]; VList [VStr [80%N]; VStr [48%N]; one_y; VList [one_two]];
     VList [VStr [67%N]; VStr [48%N]; VList [VNum 2; one_two]]]
  /\ nested_assoc one_two [VStr [49%N]] (VStr [121%N]) = POk one_y
  /\ check_C14 witness_steps (outputs (run_program default_fuel true witness_prog)) = true.
Proof. vm_compute. repeat split; reflexivity. Qed.
Print Assumptions C14_multi_lvalue_base_is_command_start.

(* when the base is the variable's current value (reference mode; in the Go code:
   at most one element lvalue per variable and a right-hand side that does not
   assign it) the assoc is of the value at assignment time *)
Theorem C14_elem_set_sequential_partial : forall s t v s',
  st_stale s = false -> t_ixs t <> [] ->
  assign_target s t v = POk s' ->
  exists nv, nested_assoc (cell s (t_addr t)) (t_ixs t) v = POk nv /\ s' = store_at s (t_addr t) nv.
Proof. exact elem_set_sequential_partial. Qed.
Print Assumptions C14_elem_set_sequential_partial.

(* ---- non-vacuity ---- *)
Example C14_example_reference_accepts :
  check_C14 witness_steps (outputs (run_program default_fuel false witness_prog)) = true.
Proof. vm_compute. reflexivity. Qed.

(* a two-lvalue step: both readings accepted, anything else rejected *)
Example C14_example_multi_both_readings :
  let one_two := VList [VStr [49%N]; VStr [50%N]] in
  let log x := [VList [VStr [73%N]; one_two];
                VList [VStr [80%N]; VStr [48%N]; x; VList [one_two]];
                VList [VStr [67%N]; VStr [48%N]; VList [VNum 2; one_two]]] in
  check_C14 witness_steps (log (VList [VStr [120%N]; VStr [121%N]])) = true
  /\ check_C14 witness_steps (log (VList [VStr [49%N]; VStr [121%N]])) = true
  /\ check_C14 witness_steps (log (VList [VStr [120%N]; VStr [50%N]])) = false.
Proof. vm_compute. repeat split; reflexivity. Qed.

(* an alias that changed is rejected: [I [1]] [P 0 [2] [[9]]] for set x[0] = 2 *)
Example C14_example_alias_rejected :
  let one := VList [VStr [49%N]] in
  let two := VList [VStr [50%N]] in
  let st := [SSet [VStr [48%N]] (VStr [50%N])] in
  let c n := VList [VStr [67%N]; VStr [48%N]; VList [VNum n; one]] in
  check_C14 st [VList [VStr [73%N]; one]; VList [VStr [80%N]; VStr [48%N]; two; VList [one]]; c 1%Z] = true
  /\ check_C14 st [VList [VStr [73%N]; one]; VList [VStr [80%N]; VStr [48%N]; two; VList [two]]; c 1%Z] = false
  (* an alias whose count changed (an entry appeared or vanished) is rejected *)
  /\ check_C14 st [VList [VStr [73%N]; one]; VList [VStr [80%N]; VStr [48%N]; two; VList [one]]; c 2%Z] = false.
Proof. vm_compute. repeat split; reflexivity. Qed.
