(* C13 — Indexing and slicing follow the language reference exactly.
   Property theorems only; every proof is [exact <lemma>]. *)
From verif Require Import lib.Base lib.Utf8 model.C13
  proofs.C13_convert_proofs proofs.C13_proofs proofs.C13_runes_proofs proofs.C13_string_proofs
  proofs.C13_oracle_proofs.
Open Scope Z_scope.

(* For every length a Go slice or string can have (0 <= n <= MaxInt) and every
   index value — a typed int, ANY byte string, or a value of another type —
   the model of vals.ConvertListIndex returns exactly what the reference
   function ref_index (written from website/ref/language.md) prescribes: the
   same element position, the same half-open slice [lo, hi), or an error
   whenever the reference rules the index out. *)
Theorem C13_convert_matches_ref : forall n raw, in_int_range n ->
  to_ref (ConvertListIndex raw n) = ref_index n raw.
Proof. exact convert_matches_ref. Qed.
Print Assumptions C13_convert_matches_ref.

(* What the reference function returns is always inside the sequence. *)
Theorem C13_ref_index_in_range : forall n raw k,
  ref_index n raw = RIndex k -> 0 <= k < n.
Proof. exact ref_index_index_range. Qed.
Print Assumptions C13_ref_index_in_range.

Theorem C13_ref_slice_in_range : forall n raw lo hi, 0 <= n ->
  ref_index n raw = RSlice lo hi -> 0 <= lo <= hi /\ hi <= n.
Proof. exact ref_index_slice_range. Qed.
Print Assumptions C13_ref_slice_in_range.

(* Indexing a list of any length: an element index yields nth_error at the
   reference position, a slice yields firstn (hi-lo) (skipn lo l), an index the
   reference rules out yields an error. *)
Theorem C13_index_list_ref : forall l raw, zlen l <= MaxInt ->
  match ref_index (zlen l) raw with
  | RIndex k => exists x, indexList l raw = Ok (VElem x) /\ nth_error l (Z.to_nat k) = Some x
  | RSlice lo hi =>
    indexList l raw = Ok (VList (firstn (Z.to_nat (hi - lo)) (skipn (Z.to_nat lo) l)))
    /\ 0 <= lo <= hi /\ hi <= zlen l
  | RError => exists e, indexList l raw = Err e
  end.
Proof. exact index_list_ref. Qed.
Print Assumptions C13_index_list_ref.

(* The slice, element by element: $li[a..b] = [$li[a] ... $li[b-1]]. *)
Theorem C13_slice_list_ref : forall l raw lo hi, zlen l <= MaxInt ->
  ref_index (zlen l) raw = RSlice lo hi ->
  exists r, indexList l raw = Ok (VList r) /\
    length r = Z.to_nat (hi - lo) /\
    forall i, (i < Z.to_nat (hi - lo))%nat -> nth_error r i = nth_error l (Z.to_nat lo + i).
Proof. exact slice_list_ref. Qed.
Print Assumptions C13_slice_list_ref.

(* Replacing an element changes exactly the addressed element and nothing else. *)
Theorem C13_assoc_changes_only_i : forall l raw v, zlen l <= MaxInt ->
  match ref_index (zlen l) raw with
  | RIndex k => exists l', assocList l raw v = Ok (VList l') /\
      length l' = length l /\
      nth_error l' (Z.to_nat k) = Some v /\
      forall j, j <> Z.to_nat k -> nth_error l' j = nth_error l j
  | RSlice _ _ => assocList l raw v = Err EAssocSlice
  | RError => exists e, assocList l raw v = Err e
  end.
Proof. exact assoc_changes_only_i. Qed.
Print Assumptions C13_assoc_changes_only_i.

(* String indices are byte offsets that must fall on character boundaries:
   for every text whose code points are valid (U+FFFD included) and every
   index value, a single index succeeds iff a code point starts at that byte
   offset (the range is that code point), a slice succeeds iff both of its
   bounds are boundaries of the code point sequence; otherwise an error. *)
Theorem C13_string_index_boundary : forall rs raw,
  forallb valid_rune rs = true -> zlen (encode_all rs) <= MaxInt ->
  let s := encode_all rs in
  match ref_string_range rs s raw with
  | Some (lo, hi) => convertStringIndex raw s = Ok (lo, hi)
  | None => exists e, convertStringIndex raw s = Err e
  end.
Proof. exact string_index_boundary. Qed.
Print Assumptions C13_string_index_boundary.

(* The result of indexing a string is the byte slice between the two offsets. *)
Theorem C13_index_string_ref : forall rs raw,
  forallb valid_rune rs = true -> zlen (encode_all rs) <= MaxInt ->
  let s := encode_all rs in
  match ref_string_range rs s raw with
  | Some (lo, hi) => indexString s raw = Ok (VStr (firstn (Z.to_nat (hi - lo)) (skipn (Z.to_nat lo) s)))
  | None => exists e, indexString s raw = Err e
  end.
Proof. exact index_string_ref. Qed.
Print Assumptions C13_index_string_ref.

(* Replacing part of a string leaves the prefix and the suffix untouched. *)
Theorem C13_assoc_string_frame : forall rs raw rp,
  forallb valid_rune rs = true -> zlen (encode_all rs) <= MaxInt ->
  let s := encode_all rs in
  match ref_string_range rs s raw with
  | Some (lo, hi) =>
    assocString s raw (Some rp) = Ok (VStr (firstn (Z.to_nat lo) s ++ rp ++ skipn (Z.to_nat hi) s))
  | None => exists e, assocString s raw (Some rp) = Err e
  end.
Proof. exact assoc_string_frame. Qed.
Print Assumptions C13_assoc_string_frame.

(* The oracle evaluated on the implementation's observations is sound for the
   element-wise statements. *)
Theorem C13_oracle_sound_index_list : forall l raw ob,
  check_C13 (OpIndexList l raw) ob = true -> unspecified (zlen l) raw = false ->
  match ref_index (zlen l) raw with
  | RIndex k => exists x, ob = ObsVal (VElem x) /\ nth_error l (Z.to_nat k) = Some x
  | RSlice lo hi => exists r, ob = ObsVal (VList r) /\ length r = Z.to_nat (hi - lo) /\
      forall i, (i < Z.to_nat (hi - lo))%nat -> nth_error r i = nth_error l (Z.to_nat lo + i)
  | RError => exists e, ob = ObsErr e
  end.
Proof. exact oracle_sound_index_list. Qed.
Print Assumptions C13_oracle_sound_index_list.

Theorem C13_oracle_sound_assoc_list : forall l raw v ob,
  check_C13 (OpAssocList l raw v) ob = true -> unspecified (zlen l) raw = false ->
  match ref_index (zlen l) raw with
  | RIndex k => exists l', ob = ObsVal (VList l') /\ length l' = length l /\
      nth_error l' (Z.to_nat k) = Some v /\
      forall j, j <> Z.to_nat k -> nth_error l' j = nth_error l j
  | RSlice _ _ => True
  | RError => exists e, ob = ObsErr e
  end.
Proof. exact oracle_sound_assoc_list. Qed.
Print Assumptions C13_oracle_sound_assoc_list.

(* Every valid code point: decoding its encoding gives it back, the encoding is a
   rune-start byte plus at most three continuation bytes, and every proper prefix
   of it is undecodable (checked by evaluation over all 2^21 candidates). *)
Theorem C13_every_rune_roundtrips : forall r, valid_rune r = true -> rune_ok r = true.
Proof. exact rune_ok_all. Qed.
Print Assumptions C13_every_rune_roundtrips.

(* The model's own result passes the oracle on every operation: for every list
   length, every index value, every text. *)
Theorem C13_model_meets_oracle_convert : forall n raw, in_int_range n ->
  check_C13 (OpConvert n raw) (run_op (OpConvert n raw)) = true.
Proof. exact model_meets_oracle_convert. Qed.
Print Assumptions C13_model_meets_oracle_convert.

Theorem C13_model_meets_oracle_index_list : forall l raw, zlen l <= MaxInt ->
  check_C13 (OpIndexList l raw) (run_op (OpIndexList l raw)) = true.
Proof. exact model_meets_oracle_index_list. Qed.
Print Assumptions C13_model_meets_oracle_index_list.

Theorem C13_model_meets_oracle_assoc_list : forall l raw v, zlen l <= MaxInt ->
  check_C13 (OpAssocList l raw v) (run_op (OpAssocList l raw v)) = true.
Proof. exact model_meets_oracle_assoc_list. Qed.
Print Assumptions C13_model_meets_oracle_assoc_list.

Theorem C13_model_meets_oracle_index_str : forall rs s raw, zlen s <= MaxInt ->
  check_C13 (OpIndexStr (Some rs) s raw) (run_op (OpIndexStr (Some rs) s raw)) = true.
Proof. exact model_meets_oracle_index_str. Qed.
Print Assumptions C13_model_meets_oracle_index_str.

Theorem C13_model_meets_oracle_assoc_str : forall rs s raw rp, zlen s <= MaxInt ->
  check_C13 (OpAssocStr (Some rs) s raw (Some rp)) (run_op (OpAssocStr (Some rs) s raw (Some rp))) = true.
Proof. exact model_meets_oracle_assoc_str. Qed.
Print Assumptions C13_model_meets_oracle_assoc_str.

(* ---- non-vacuity ---- *)
Example C13_ex_incl_minus1 :
  ConvertListIndex (IStr [46; 46; 61; 45; 49]%N) 3 = Ok (true, 0, 3).   (* "..=-1" *)
Proof. vm_compute. reflexivity. Qed.
Example C13_ex_neg_slice :
  indexList [10; 11; 12; 13]%N (IStr [49; 46; 46; 45; 49]%N) = Ok (VList [11; 12]%N).   (* "1..-1" *)
Proof. vm_compute. reflexivity. Qed.
Example C13_ex_overflow :
  (* "..=9223372036854775807": j++ wraps to MinInt, still an error *)
  ConvertListIndex (IStr [46;46;61;57;50;50;51;51;55;50;48;51;54;56;53;52;55;55;53;56;48;55]%N) 3 = Err EOutOfRange.
Proof. vm_compute. reflexivity. Qed.
Example C13_ex_multibyte :
  (* "世界"[3..] = "界", "世界"[1] is refused *)
  indexString [228;184;150;231;149;140]%N (IStr [51; 46; 46]%N) = Ok (VStr [231;149;140]%N)
  /\ indexString [228;184;150;231;149;140]%N (IInt 1) = Err ENotBoundary.
Proof. vm_compute. split; reflexivity. Qed.
Example C13_ex_fffd :
  (* "a\ufffdb"[1] is the code point U+FFFD, "a\ufffdb"[..4] = "a\ufffd", offset 2 is refused *)
  indexString [97;239;191;189;98]%N (IInt 1) = Ok (VStr [239;191;189]%N)
  /\ indexString [97;239;191;189;98]%N (IStr [46;46;52]%N) = Ok (VStr [97;239;191;189]%N)
  /\ indexString [97;239;191;189;98]%N (IInt 2) = Err ENotBoundary.
Proof. vm_compute. repeat split; reflexivity. Qed.
