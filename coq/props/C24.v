(* C24 — The history store behaves like a sequential log with unique sequence
   numbers.  Property theorems only; every proof is [exact <lemma>]. *)
From verif Require Import lib.Base model.C24_F64 model.C24_StoreSpec model.C24
  proofs.C24_proofs proofs.C24_more.
From Coq Require Import Floats.SpecFloat Sorting.Sorted Sorting.Permutation.
Open Scope N_scope.

(* For every operation history (any length below 2^64 - seq0, any arguments
   including negative and huge ones, any sort routine), every result of the
   model of cmd.go/dir.go over the bbolt bucket model (sorted byte keys, Seek/
   Next/Prev/First/Last cursors, uint64 casts) equals the result of the
   sequential specification. *)
Theorem C24_store_refines_spec : forall sortf seq0 h,
  seq0 + N.of_nat (length h) < two64 ->
  conc_run sortf (conc_init seq0) h = spec_run sortf (spec_init seq0) h.
Proof. exact store_refines_spec. Qed.
Print Assumptions C24_store_refines_spec.

(* The numbers returned by the AddCmd operations of any history strictly
   increase (as Go ints, hence the 2^63 bound), whatever else happens between. *)
Theorem C24_seq_strictly_increasing : forall sortf seq0 h,
  seq0 + N.of_nat (length h) < two63 ->
  StronglySorted Z.lt (adds h (conc_run sortf (conc_init seq0) h)).
Proof. exact seq_strictly_increasing. Qed.
Print Assumptions C24_seq_strictly_increasing.

(* ... and are never reused, even after deletions (histories contain arbitrary
   DelCmd operations). *)
Theorem C24_seq_never_reused : forall sortf seq0 h,
  seq0 + N.of_nat (length h) < two63 ->
  NoDup (adds h (conc_run sortf (conc_init seq0) h)).
Proof. exact seq_never_reused. Qed.
Print Assumptions C24_seq_never_reused.

(* After any history, a newly allocated number exceeds every number in the log. *)
Theorem C24_add_is_fresh : forall sortf seq0 h t,
  seq0 + N.of_nat (length h) + 1 < two64 ->
  let st := spec_exec sortf (spec_init seq0) h in
  forall c, In c (s_log st) -> fst c < s_seq (fst (sp_add st t)).
Proof. exact add_is_fresh. Qed.
Print Assumptions C24_add_is_fresh.

(* Every listing returned in any history is in strictly increasing sequence order. *)
Theorem C24_listing_sorted : forall sortf seq0 h,
  seq0 + N.of_nat (length h) < two63 ->
  Forall res_sorted (conc_run sortf (conc_init seq0) h).
Proof. exact listing_sorted. Qed.
Print Assumptions C24_listing_sorted.

(* Bytewise order of the 8-byte big-endian keys = numeric order, and decoding
   inverts encoding, for every sequence number below 2^64. *)
Theorem C24_big_endian_order_iso : forall n m, n < two64 -> m < two64 ->
  bytes_ltb (marshalSeq n) (marshalSeq m) = (n <? m).
Proof. exact marshal_ltb. Qed.
Print Assumptions C24_big_endian_order_iso.

Theorem C24_unmarshal_marshal : forall n, n < two64 -> unmarshalSeq (marshalSeq n) = n.
Proof. exact unmarshal_marshal. Qed.
Print Assumptions C24_unmarshal_marshal.

(* Prefix searches return the nearest match: NextCmd the least sequence number
   at or after [from], PrevCmd the greatest strictly before [upto], among the
   commands with the prefix; "no match" only if there is none.  ([asc] holds in
   every reachable state: C24_reachable_sorted.) *)
Theorem C24_next_is_nearest : forall ss from p, asc (s_log ss) ->
  match sp_next ss from p with
  | RCmd t z => exists c, In c (s_log ss) /\ snd c = t /\ to_int (fst c) = z
      /\ u64 from <= fst c /\ has_prefix p t = true
      /\ forall d, In d (s_log ss) -> u64 from <= fst d -> has_prefix p (snd d) = true -> fst c <= fst d
  | RNoMatch => forall d, In d (s_log ss) -> u64 from <= fst d -> has_prefix p (snd d) = false
  | _ => False
  end.
Proof. exact next_is_least. Qed.
Print Assumptions C24_next_is_nearest.

Theorem C24_prev_is_nearest : forall ss upto p, asc (s_log ss) ->
  match sp_prev ss upto p with
  | RCmd t z => exists c, In c (s_log ss) /\ snd c = t /\ to_int (fst c) = z
      /\ fst c < u64 upto /\ has_prefix p t = true
      /\ forall d, In d (s_log ss) -> fst d < u64 upto -> has_prefix p (snd d) = true -> fst d <= fst c
  | RNoMatch => forall d, In d (s_log ss) -> fst d < u64 upto -> has_prefix p (snd d) = false
  | _ => False
  end.
Proof. exact prev_is_greatest. Qed.
Print Assumptions C24_prev_is_nearest.

Theorem C24_reachable_sorted : forall sortf seq0 h,
  seq0 + N.of_nat (length h) < two64 ->
  asc (s_log (spec_exec sortf (spec_init seq0) h)).
Proof. exact reachable_asc. Qed.
Print Assumptions C24_reachable_sorted.

(* A visit multiplies every stored score by the decay factor and adds
   increment * factor to the visited directory's (decayed, or 0) score; [q_decay]
   and [q_inc] are these binary64 operations followed by the store's
   DirScorePrecision-digit text round trip. *)
Theorem C24_adddir_scores : forall ss d f, d <> [] ->
  let ss' := fst (sp_add_dir ss d f) in
  (forall k, k <> d -> m_get k (s_dirs ss') = option_map q_decay (m_get k (s_dirs ss)))
  /\ m_get d (s_dirs ss')
     = Some (q_inc (match m_get d (s_dirs ss) with Some s => q_decay s | None => S754_zero false end) f).
Proof. exact adddir_scores. Qed.
Print Assumptions C24_adddir_scores.

(* Dirs: for any sort routine meeting sort.Sort's contract, the listing is
   sorted by descending score and is exactly the non-blacklisted entries. *)
Theorem C24_dirs_sorted_desc_no_blacklisted : forall sortf ss bl, sort_contract sortf ->
  exists l, sp_dirs sortf ss bl = RDirs l /\ DescSorted l
    /\ Permutation l (filter (fun e => negb (mem_bytes (fst e) bl)) (s_dirs ss))
    /\ (forall e, In e l -> mem_bytes (fst e) bl = false).
Proof. exact dirs_listing. Qed.
Print Assumptions C24_dirs_sorted_desc_no_blacklisted.

(* The oracle evaluated on the implementation's observed history is sound: every
   observed result is acceptable for the specification's result. *)
Theorem C24_oracle_sound : forall seq0 h, check_C24 seq0 h = true ->
  Forall2 res_ok (spec_run isort_desc (spec_init seq0) (map fst h)) (map snd h).
Proof. exact check_C24_sound. Qed.
Print Assumptions C24_oracle_sound.

(* Non-vacuity: a history with a deletion, a negative bound and prefix searches. *)
Example C24_example_run :
  conc_run isort_desc (conc_init 0)
    [OAddCmd [101; 99]; OAddCmd [108]; OAddCmd [101]; ODelCmd 2; OAddCmd [101; 120];
     OCmds 0 (-1); OPrevCmd 4 [101]; ONextCmd 2 [101]; OCmd 2; ONextCmdSeq]
  = [RInt 1; RInt 2; RInt 3; ROk; RInt 4;
     RCmds [([101; 99], 1%Z); ([101], 3%Z); ([101; 120], 4%Z)];
     RCmd [101] 3; RCmd [101] 3; RNoMatch; RInt 5].
Proof. vm_compute. reflexivity. Qed.

(* one visit of /a with factor 1 on an empty store gives score 10 *)
Example C24_example_dirs :
  conc_run isort_desc (conc_init 0)
    [OAddDir [47; 97] (S754_finite false 4503599627370496 (-52)); ODirs []]
  = [ROk; RDirs [([47; 97], S754_finite false 5629499534213120 (-49))]].
Proof. vm_compute. reflexivity. Qed.
