(* C43 — Completion inserts text that evaluates to the chosen candidate.
   Property theorems only; every proof is [exact <lemma>].

   Everything is stated over model/C43.v (pkg/edit/complete: Cook, FilterPrefix,
   the Complete pipeline, generateFileNames, the dispatch of the completers and
   the seed / style / range extraction for argument and redirection words) and,
   for reading the inserted text back, over model/C03.v (the string-literal
   reader of pkg/parse), for EVERY byte string (the only hypothesis: list
   elements are bytes), EVERY IsPrint table, every buffer and every directory
   listing, with no length bound.  The parse tree at the dot, the directory
   listing and the home directory are inputs.

   [term_ok ctx t]: the text t after the word is the end of input or starts with
   a rune that cannot start a primary in the context (white space, ; | ) ...). *)
From verif Require Import lib.Base lib.Utf8 model.C03 proofs.C03_proofs model.C43
  proofs.C43_proofs proofs.C43_oracle proofs.C43_full proofs.C43_var.
From Coq Require Import Permutation Sorted.
Open Scope N_scope.

(* Cook, then read: the text inserted for a PlainItem or ComplexItem, followed by
   whatever follows the replaced range, is read in every expression context as
   exactly ONE word, a string literal whose value is the candidate (the stem,
   which is also the text shown in the menu); the code suffix and the rest of
   the buffer are left over.  From C03_quote_parses_back. *)
Theorem C43_cooked_evaluates_to_candidate : forall (is_print : N -> bool) q r ctx t,
  Forall (fun b => b < 256) (item_str r) -> quotes r = true ->
  term_ok is_print ctx (item_suffix r ++ t) ->
  exists ty,
    read_compound is_print ctx (to_insert (cook is_print q r) ++ t)
      = COk [(ty, item_str r)] (item_suffix r ++ t)
    /\ eval_compound [(ty, item_str r)] = Some (item_str r)
    /\ string_literal [(ty, item_str r)] = Some (item_str r)
    /\ to_show (cook is_print q r) = item_str r.
Proof. exact cooked_evaluates. Qed.
Print Assumptions C43_cooked_evaluates_to_candidate.

(* File-name candidates: a file gets a space as code suffix, which ends the word
   whatever follows; a directory gets a slash inside the quotes and no suffix, so
   it needs a terminator after the replaced range. *)
Theorem C43_file_item_evaluates : forall (is_print : N -> bool) q dir (e : entry) ctx t,
  Forall (fun b => b < 256) dir -> Forall (fun b => b < 256) (fst e) ->
  (snd e = true -> term_ok is_print ctx t) ->
  exists ty,
    read_compound is_print ctx (to_insert (cook is_print q (file_item dir e)) ++ t)
      = COk [(ty, item_str (file_item dir e))] (item_suffix (file_item dir e) ++ t)
    /\ eval_compound [(ty, item_str (file_item dir e))] = Some (item_str (file_item dir e)).
Proof. exact file_item_reads_back. Qed.
Print Assumptions C43_file_item_evaluates.

(* End to end on the buffer: after substituting the item for [from, to), what
   starts at from is the one word with the candidate's value. *)
Theorem C43_substituted_word_evaluates : forall (is_print : N -> bool) q r ctx (buf : bytes) from to,
  (from <= length buf)%nat ->
  Forall (fun b => b < 256) (item_str r) -> quotes r = true ->
  term_ok is_print ctx (item_suffix r ++ skipn to buf) ->
  exists ty,
    read_compound is_print ctx (skipn from (subst buf from to (to_insert (cook is_print q r))))
      = COk [(ty, item_str r)] (item_suffix r ++ skipn to buf)
    /\ eval_compound [(ty, item_str r)] = Some (item_str r).
Proof. exact substituted_reads_back. Qed.
Print Assumptions C43_substituted_word_evaluates.

(* The full statement WITHOUT the terminator hypothesis is false of the code:
     forall buf from to r, ... the word at from evaluates to item_str r.
   Witness (also found on the implementation, class new-word-directly-before-word):
   the buffer [echo  b] with the dot between the two spaces; the new argument is
   inserted at the end of the separator, directly before b, and a directory
   candidate has no code suffix, so the completed word is sub/b, not sub/. *)
Theorem C43_substituted_word_evaluates_refuted :
  exists (buf : bytes) from to r,
    (from <= to)%nat /\ (to <= length buf)%nat /\ quotes r = true /\
    read_word ascii_print (subst buf from to (to_insert (cook ascii_print TBare r))) from
    <> Some (WWord [(TBare, item_str r)] (length (to_insert (cook ascii_print TBare r)) - length (item_suffix r))).
Proof. exact substituted_refuted. Qed.
Print Assumptions C43_substituted_word_evaluates_refuted.

(* noQuoteItem (variable names, already quoted by QuoteVariableName) is inserted as is. *)
Theorem C43_noquote_inserted_verbatim : forall (is_print : N -> bool) q s,
  to_insert (cook is_print q (RNoQuote s)) = s.
Proof. exact cook_noquote. Qed.
Print Assumptions C43_noquote_inserted_verbatim.

(* Quoting matches the style the user had started, whenever that style can
   represent the candidate: double stays double; single stays single when all
   runes are printable valid UTF-8; bare stays bare (and the text is the
   candidate itself) when it is a safe bareword. *)
Theorem C43_style_preserved_when_representable : forall (is_print : N -> bool) q s,
  representable is_print q s = true ->
  QuoteAs is_print s q =
  (match q with TBare => s | TSingle => quote_single s | _ => quote_double is_print s end, q).
Proof. exact style_preserved. Qed.
Print Assumptions C43_style_preserved_when_representable.

(* ... and a started quote is never dropped: a bareword is inserted only when the
   user typed a bareword, and then it is the candidate itself. *)
Theorem C43_bare_only_if_asked : forall (is_print : N -> bool) q s,
  snd (QuoteAs is_print s q) = TBare -> q = TBare /\ fst (QuoteAs is_print s q) = s.
Proof. exact bare_only_if_asked. Qed.
Print Assumptions C43_bare_only_if_asked.

(* The replaced range lies within the buffer (for the node ranges the parser
   reported, which lie within the buffer). *)
Theorem C43_replace_range_in_buffer : forall (is_print : N -> bool) homes t src (buf : bytes) r seed q,
  tree_wf buf t -> (r_name r = NVariable -> var_leaf_wf t) ->
  complete_model is_print homes t src = MRes r seed q ->
  (r_from r <= r_to r)%nat /\ (r_to r <= length buf)%nat.
Proof. exact replace_range_in_buffer. Qed.
Print Assumptions C43_replace_range_in_buffer.

(* Substitution touches nothing outside the range. *)
Theorem C43_substitution_frame : forall (buf : bytes) from to ins,
  (from <= to)%nat -> (to <= length buf)%nat ->
  firstn from (subst buf from to ins) = firstn from buf
  /\ skipn from (subst buf from to ins) = ins ++ skipn to buf
  /\ skipn (from + length ins) (subst buf from to ins) = skipn to buf
  /\ length (subst buf from to ins) = (length buf - (to - from) + length ins)%nat.
Proof. exact subst_frame. Qed.
Print Assumptions C43_substitution_frame.

(* File-name completion offers exactly the directory entries that start with
   the typed prefix: the stems that survive FilterPrefix are, in listing order,
   dir ++ name (++ slash for directories) for the entries whose name has the
   file part of the seed as a prefix and is a dot-file iff that file part is. *)
Theorem C43_filenames_exactly_prefix_matches : forall es seed,
  map item_str (filter_prefix seed (gen_file_names (Some es) seed)) = expected_files es seed.
Proof. exact filenames_exact. Qed.
Print Assumptions C43_filenames_exactly_prefix_matches.

Theorem C43_expected_files_meaning : forall es v x dir fp, split_path v = (dir, fp) ->
  (In x (expected_files es v) <->
   exists name isdir, In (name, isdir) es /\ has_prefix name fp = true
     /\ dotfile name = dotfile fp
     /\ x = dir ++ name ++ (if isdir then [cSLASH] else [])).
Proof. exact expected_files_spec. Qed.
Print Assumptions C43_expected_files_meaning.

(* filepath.Split: the two parts concatenate to the seed, the file part has no slash *)
Theorem C43_split_path : forall s d f, split_path s = (d, f) -> s = d ++ f /\ ~ In cSLASH f.
Proof. exact split_path_spec. Qed.
Print Assumptions C43_split_path.

(* The Complete pipeline, for ANY sort function meeting sort.Slice's contract
   (sorted permutation): only cooked candidates having the seed as prefix are
   offered, each such candidate is represented by an item inserting the same
   text, items are ordered by the shown text and no two neighbours insert the
   same text. *)
Theorem C43_complete_sorted_dedup : forall (is_print : N -> bool) sort seed q raw,
  sort_contract sort ->
  let out := pipeline is_print sort seed q raw in
  (forall it, In it out -> exists r, In r raw /\ has_prefix (item_str r) seed = true /\ it = cook is_print q r)
  /\ (forall r, In r raw -> has_prefix (item_str r) seed = true ->
        exists it, In it out /\ to_insert it = to_insert (cook is_print q r))
  /\ StronglySorted (fun a b => bytes_ltb (to_show b) (to_show a) = false) out
  /\ no_adj None out.
Proof. exact pipeline_spec. Qed.
Print Assumptions C43_complete_sorted_dedup.

(* the executable sort used by the judge meets the contract *)
Theorem C43_isort_meets_contract : sort_contract isort_items.
Proof. exact isort_meets_contract. Qed.
Print Assumptions C43_isort_meets_contract.

(* The oracle evaluated on the implementation's observations means what the
   property says. *)
Theorem C43_oracle_sound : forall (pr : N -> bool) buf name src ty res obs,
  check_C43 pr buf name src ty res obs = true -> Spec_C43 pr buf name src ty res obs.
Proof. exact check_C43_sound. Qed.
Print Assumptions C43_oracle_sound.

(* Cook is injective: for a fixed seed style, distinct candidates get distinct
   inserted texts (equal texts would read back to equal strings); in particular
   QuoteAs is injective on byte strings, for every style. *)
Theorem C43_cook_injective : forall (pr : N -> bool) q r1 r2,
  good_item r1 -> good_item r2 ->
  to_insert (cook pr q r1) = to_insert (cook pr q r2) -> item_str r1 = item_str r2.
Proof. exact cook_inj. Qed.
Print Assumptions C43_cook_injective.

Theorem C43_quote_as_injective : forall (pr : N -> bool) q s1 s2,
  Forall (fun b => b < 256) s1 -> Forall (fun b => b < 256) s2 ->
  fst (QuoteAs pr s1 q) = fst (QuoteAs pr s2 q) -> s1 = s2.
Proof. exact quote_as_inj. Qed.
Print Assumptions C43_quote_as_injective.

(* MAIN: the model satisfies the WHOLE oracle, for ALL inputs.  Whenever the
   model of Complete answers for an argument or redirection word (any path,
   pieces, homes; file names from any duplicate-free listing of slash-free
   byte-string names, or any fixed generator of candidates that quote and carry
   no suffix or a space), with node ranges inside the buffer on rune boundaries
   and a terminator after the replaced range, then the observations the judge
   predicts exist for every item and check_C43 accepts them: range in the
   buffer; every completed word evaluates to its candidate, in the started style
   when representable; the offered values are exactly the entries / candidates
   with the typed prefix, each inserted text once. *)
Theorem C43_model_satisfies_oracle : forall (pr : N -> bool) homes t src (buf : bytes) r seed q,
  complete_model pr homes t src = MRes r seed q -> r_name r <> NVariable ->
  tree_wf buf t ->
  on_boundary buf (t_leaf_to t) = true -> on_boundary buf (t_cfrom t) = true ->
  on_boundary buf (t_cto t) = true ->
  Forall (fun b => b < 256) seed -> src_wf src ->
  term_ok pr CNormal (skipn (r_to r) buf) ->
  exists obs,
    Forall2 (fun it o => predicted_obs pr buf (r_from r) (r_to r) it = Some o) (r_items r) obs
    /\ check_C43 pr buf (r_name r) src (mkTyped q seed) r obs = true.
Proof. exact model_satisfies_oracle. Qed.
Print Assumptions C43_model_satisfies_oracle.

(* the per-item core of it, for any candidate *)
Theorem C43_model_item_satisfies : forall (pr : N -> bool) q r (buf : bytes) from to,
  (from <= length buf)%nat ->
  Forall (fun b => b < 256) (item_str r) -> quotes r = true ->
  term_ok pr CNormal (item_suffix r ++ skipn to buf) ->
  exists o, predicted_obs pr buf from to (cook pr q r) = Some o
    /\ item_spec pr q (cook pr q r) o.
Proof. exact model_item_satisfies. Qed.
Print Assumptions C43_model_item_satisfies.

(* ---- variable completion (names after the dollar sign) ---- *)

(* The name part typed after the dollar sign (no sigil, no namespace) is
   replaced by QuoteVariableName of a name in scope, inserted verbatim; what
   then starts at the dollar sign is ONE variable primary naming exactly that
   variable.  From C03_quote_var_parses_back. *)
Theorem C43_variable_substituted_evaluates : forall (pr : N -> bool) ctx (pre mid post n : bytes),
  Forall (fun b => b < 256) n -> term_ok pr ctx post ->
  read_compound pr ctx
    (skipn (length pre)
       (subst (pre ++ cDOLLAR :: mid ++ post) (S (length pre)) (S (length pre) + length mid)
              (to_insert (cook pr TBare (RNoQuote (QuoteVariableName pr n))))))
  = COk [(TVar, n)] post.
Proof. exact var_substituted_reads_back. Qed.
Print Assumptions C43_variable_substituted_evaluates.

(* what the model of completeVariable offers, for any sort meeting the contract *)
Theorem C43_variable_items_offered : forall (pr : N -> bool) sort seed ns names it,
  sort_contract sort ->
  In it (pipeline pr sort seed TBare (var_items pr ns names)) ->
  has_prefix (to_insert it) seed = true
  /\ ((exists n, In n names /\ to_insert it = QuoteVariableName pr n)
      \/ (ns = [] /\ (to_insert it = [101; 58] \/ to_insert it = [69; 58]))).
Proof. exact var_items_offered. Qed.
Print Assumptions C43_variable_items_offered.

(* The same statement after an explode sigil (or a typed namespace) is false of
   the code: the quoted form of a name that needs quoting, inserted after the at
   sign, is not read as that variable (witness: the name [a b]).  Not reachable
   with a non-empty typed seed (FilterPrefix compares with the quoted text);
   see checks/C43.md. *)
Theorem C43_variable_after_sigil_refuted :
  exists n : bytes,
    read_compound ascii_print CNormal (cDOLLAR :: cAT :: QuoteVariableName ascii_print n)
    <> COk [(TVar, cAT :: n)] [].
Proof. exact var_after_sigil_refuted. Qed.
Print Assumptions C43_variable_after_sigil_refuted.

(* ---- non-vacuity ---- *)
From Coq Require Import String.

(* [a b] in the three styles; a directory [a b/]; a leading tilde *)
Example C43_ex_cook :
  to_insert (cook ascii_print TBare (RComplex (hx "612062"%string) [32])) = hx "276120622720"%string
  /\ to_insert (cook ascii_print TDouble (RComplex (hx "6120622f"%string) [])) = hx "226120622f22"%string
  /\ to_insert (cook ascii_print TBare (RPlain (hx "7e74"%string))) = hx "277e7427"%string
  /\ to_insert (cook ascii_print TBare (RPlain (hx "6162"%string))) = hx "6162"%string.
Proof. vm_compute. repeat split. Qed.

(* a directory with [ab], [a b] (directory), [.hid], [b]: seed [a] offers the first two,
   sorted; seed [.] only the dot-file; the empty seed hides it *)
Example C43_ex_files :
  let es := [(hx "6162"%string, false); (hx "612062"%string, true); (hx "2e686964"%string, false); ([98], false)] in
  map to_insert (pipeline ascii_print isort_items [97] TBare (gen_file_names (Some es) [97]))
    = [hx "276120622f27"%string; hx "616220"%string]
  /\ map to_insert (pipeline ascii_print isort_items [46] TBare (gen_file_names (Some es) [46]))
    = [hx "2e68696420"%string]
  /\ List.length (pipeline ascii_print isort_items [] TBare (gen_file_names (Some es) [])) = 3%nat.
Proof. vm_compute. repeat split. Qed.

(* the oracle is not an accept-everything function: an unquoted [a b] is rejected *)
Example C43_ex_oracle_rejects :
  check_C43 ascii_print (hx "6563686f2061"%string) NArgument GNotModelled (mkTyped TBare [97])
    (mkRes NArgument 5 6 [mkItem (hx "61206220"%string) (hx "612062"%string)])
    [mkIObs (WWord [(TBare, [97])] 1) (EStr [97])] = false.
Proof. vm_compute. reflexivity. Qed.

(* the model of Complete answers on a concrete tree: [echo a] with the dot at the
   end, directory with [ab] and [a b]/ : argument, range 5..6, two items; and
   [echo $v] with variables [va b], [vab], [x]: variable, range 6..7, one item
   (the quoted name of [va b] does not start with v) *)
Example C43_ex_complete_model :
  let es := [(hx "6162"%string, false); (hx "612062"%string, true)] in
  let t := mkTree [KPrimary (PStr TBare); KIndexing; KCompound; KForm true false; KPipeline; KChunk]
                  6 [mkPiece (Some TBare) (Some [97]) false 6] 6 TBare 5 6 (Some (hx "6563686f"%string)) 5 [97] in
  match complete_model ascii_print [] t (GFiles [46] (Some es)) with
  | MRes r seed q => r_from r = 5%nat /\ r_to r = 6%nat /\ map to_insert (r_items r) = [hx "276120622f27"%string; hx "616220"%string]
  | _ => False
  end.
Proof. vm_compute. repeat split. Qed.

Example C43_ex_variable_model :
  let t := mkTree [KPrimary (PStr TVar); KIndexing; KCompound; KForm true false; KPipeline; KChunk]
                  7 [] 0 TVar 0 0 None 5 [118] in
  match complete_model ascii_print [] t (GVars [hx "76612062"%string; hx "766162"%string; [120]]) with
  | MRes r seed q => r_name r = NVariable /\ r_from r = 6%nat /\ r_to r = 7%nat /\ map to_insert (r_items r) = [hx "766162"%string]
  | _ => False
  end.
Proof. vm_compute. repeat split. Qed.
