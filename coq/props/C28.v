(* C28 — Editor buffer commands keep the cursor valid and edit exactly.
   Property theorems only; every proof is [exact <lemma>].

   Buffers are rune lists, the dot is a rune index (model/C28.v); the byte
   view of Go is [encode_all content] / [byte_off content dot].  All theorems
   hold for every Unicode table / width function [U : uni] and, where a
   categoriser appears, for every categoriser [cat : N -> Z]. *)
From Coq Require Import Permutation.
From verif Require Import lib.Base lib.Utf8 model.C28
  proofs.C28_proofs proofs.C28_words proofs.C28_area proofs.C28_oracle proofs.C28_utf8 proofs.C28_main proofs.C28_spec.
Open Scope nat_scope.

(* ---- dot_in_range ---- *)

(* Every one of the 26 buffer builtins leaves the dot inside the buffer. *)
Theorem C28_dot_in_range_builtin : forall U c b,
  dot b <= length (content b) -> dot (apply_cmd U c b) <= length (content (apply_cmd U c b)).
Proof. exact dot_in_range_builtin. Qed.
Print Assumptions C28_dot_in_range_builtin.

(* The same for the general word movers, transpose-word and any kill built from
   any mover, for every categoriser. *)
Theorem C28_dot_in_range_any_categoriser : forall (cat : N -> Z) rs d, d <= length rs ->
  move_left_gw cat rs d <= length rs /\ move_right_gw cat rs d <= length rs /\
  snd (transpose_gw cat rs d) <= length (fst (transpose_gw cat rs d)) /\
  (forall m : list N -> nat -> nat, snd (make_kill m rs d) <= length (fst (make_kill m rs d))).
Proof. exact dot_in_range_any_categoriser. Qed.
Print Assumptions C28_dot_in_range_any_categoriser.

(* Invariant over histories: for every configuration (abbreviation tables,
   paste quoting) and every sequence of key events, paste brackets, builtins
   and outside replacements of the buffer, the dot stays inside the buffer and
   the recorded inserts stay a suffix of the text in front of the dot of
   lastCodeBuffer (so no slice index of an abbreviation expansion can go below
   zero). *)
Theorem C28_history_invariant : forall U cfg st evs,
  (dot (st_buf st) <= length (content (st_buf st)) /\
   exists pre, firstn (dot (st_last st)) (content (st_last st)) = pre ++ st_inserts st) ->
  Forall ev_ok evs ->
  let st' := run U cfg st evs in
  dot (st_buf st') <= length (content (st_buf st')) /\
  exists pre, firstn (dot (st_last st')) (content (st_last st')) = pre ++ st_inserts st'.
Proof. exact history_invariant. Qed.
Print Assumptions C28_history_invariant.

(* ... in particular after every prefix of every history from a fresh code area. *)
Theorem C28_dot_in_range_history : forall U cfg b evs,
  dot b <= length (content b) -> Forall ev_ok evs ->
  forall k, let st := run U cfg (init_state b) (firstn k evs) in
            dot (st_buf st) <= length (content (st_buf st)).
Proof. exact dot_in_range_history. Qed.
Print Assumptions C28_dot_in_range_history.

(* ---- byte_dot_on_boundary ---- *)

(* The byte offset of a rune index (the sum of the encoded widths in front of
   it) cuts the encoded text exactly between two encoded runes. *)
Theorem C28_byte_dot_on_boundary : forall rs d,
  firstn (byte_off rs d) (encode_all rs) = encode_all (firstn d rs) /\
  skipn (byte_off rs d) (encode_all rs) = encode_all (skipn d rs) /\
  byte_off rs d <= length (encode_all rs).
Proof. exact byte_off_boundary. Qed.
Print Assumptions C28_byte_dot_on_boundary.


(* For buffers of valid runes the oracle's byte walk (which decodes the way Go
   does) finds exactly rune index d at the byte offset of d: the model's byte
   dot is a character boundary in the oracle's sense. *)
Theorem C28_byte_dot_is_char_boundary : forall rs d,
  Forall (fun r => valid_rune r = true) rs -> d <= length rs ->
  rune_index (encode_all rs) (byte_off rs d) = Some d /\
  at_boundary (encode_all rs) (byte_off rs d) = true.
Proof. exact byte_off_is_char_boundary. Qed.
Print Assumptions C28_byte_dot_is_char_boundary.

(* Decoding the encoded buffer gives the runes back (utf8 round trip). *)
Theorem C28_decode_encode : forall rs,
  Forall (fun r => valid_rune r = true) rs -> decode_all (encode_all rs) = rs.
Proof. exact decode_all_encode_all. Qed.
Print Assumptions C28_decode_encode.

(* A character boundary lies inside the text: 0 <= d <= len, and the character
   index is at most the byte offset. *)
Theorem C28_boundary_within_buffer : forall s d k,
  boundary s d k -> d <= length s /\ k <= d.
Proof. exact boundary_le. Qed.
Print Assumptions C28_boundary_within_buffer.

(* ---- kill_deletes_between ---- *)

(* A kill built from any mover removes exactly the text between the old dot
   and the mover's target and leaves the dot at the lower end. *)
Theorem C28_kill_deletes_between : forall (m : list N -> nat -> nat) rs d,
  make_kill m rs d =
  (firstn (Nat.min d (m rs d)) rs ++ skipn (Nat.max d (m rs d)) rs, Nat.min d (m rs d)).
Proof. exact kill_deletes_between. Qed.
Print Assumptions C28_kill_deletes_between.

(* The ten kill builtins of the table do so with the mover of their move twin. *)
Theorem C28_kill_builtin_deletes_between : forall U c m b,
  is_kill c = true -> mover_of U c = Some m ->
  let nd := m (content b) (dot b) in
  apply_cmd U c b =
  mkBuf (firstn (Nat.min (dot b) nd) (content b) ++ skipn (Nat.max (dot b) nd) (content b))
        (Nat.min (dot b) nd).
Proof. exact kill_builtin_deletes_between. Qed.
Print Assumptions C28_kill_builtin_deletes_between.

(* ---- transpose_is_permutation, transpose_word_swaps ---- *)

Theorem C28_transpose_is_permutation : forall U c b,
  is_transpose c = true -> dot b <= length (content b) ->
  Permutation (content b) (content (apply_cmd U c b)) /\
  length (content (apply_cmd U c b)) = length (content b).
Proof. exact transpose_builtin_permutation. Qed.
Print Assumptions C28_transpose_is_permutation.

Theorem C28_transpose_any_categoriser_is_permutation : forall (cat : N -> Z) rs d,
  d <= length rs ->
  Permutation rs (fst (transpose_gw cat rs d)) /\ length (fst (transpose_gw cat rs d)) = length rs.
Proof. exact transpose_any_categoriser_permutation. Qed.
Print Assumptions C28_transpose_any_categoriser_is_permutation.

(* transpose-rune: unchanged, or exactly two adjacent runes exchanged (the first
   two at the beginning, the last two at the end, the two around the dot
   otherwise) with the dot behind them. *)
Theorem C28_transpose_rune_swaps : forall rs d, d <= length rs ->
  transpose_runes rs d = (rs, d) \/
  exists p a b q, rs = p ++ a :: b :: q /\ transpose_runes rs d = (p ++ b :: a :: q, length p + 2)
                  /\ (d = 0 /\ p = [] \/ d = length rs /\ q = [] \/ d = length p + 1).
Proof. exact transpose_runes_shape. Qed.
Print Assumptions C28_transpose_rune_swaps.

(* transpose-word, any categoriser: unchanged, or p ++ w1 ++ s ++ w2 ++ q becomes
   p ++ w2 ++ s ++ w1 ++ q where w1, w2 are non-empty runs of one non-whitespace
   category each and s is whitespace; the dot goes behind w1's new place. *)
Theorem C28_transpose_word_swaps : forall (cat : N -> Z) rs d, d <= length rs ->
  transpose_gw cat rs d = (rs, d) \/
  words_swapped cat rs (fst (transpose_gw cat rs d)) (snd (transpose_gw cat rs d)).
Proof. exact transpose_gw_swaps. Qed.
Print Assumptions C28_transpose_word_swaps.

(* ---- word_motion_lands_on_word_start ---- *)

(* Leftward: the greatest word start below the dot, 0 when there is none.
   Rightward: the least word start above the dot, the end of the buffer when
   there is none.  (word start = non-whitespace rune whose predecessor is
   absent or of another category.) *)
Theorem C28_word_motion_lands_on_word_start : forall (cat : N -> Z) rs d, d <= length rs ->
  lands_left cat rs d (move_left_gw cat rs d) /\ lands_right cat rs d (move_right_gw cat rs d).
Proof. exact word_motion_lands. Qed.
Print Assumptions C28_word_motion_lands_on_word_start.

(* The model's word motions coincide with the oracle's executable
   "nearest word start" functions. *)
Theorem C28_word_motion_is_nearest_word_start : forall (cat : N -> Z) rs d, d <= length rs ->
  move_left_gw cat rs d = last_ws_before cat rs d /\ move_right_gw cat rs d = first_ws_after cat rs d.
Proof. exact word_motion_nearest. Qed.
Print Assumptions C28_word_motion_is_nearest_word_start.

(* ---- abbr_expansion_dot_at_end ---- *)

(* A graphic key outside a paste: the rune is inserted, then the three
   expansions run on the state [after_insert]. *)
Theorem C28_key_inserts_then_expands : forall U cfg st (r : Z),
  st_pasting st = false -> (0 <= r)%Z -> r <> 10%Z -> r <> 127%Z ->
  is_graphic U (Z.to_N r) = true ->
  handle_key U cfg st r 0 =
  expand_small_word_abbr U cfg (Z.to_N r)
    (expand_simple_abbr cfg
       (if is_whitespace (Z.to_N r) then expand_command_abbr U cfg (after_insert st (Z.to_N r))
        else after_insert st (Z.to_N r))).
Proof. exact handle_key_graphic. Qed.
Print Assumptions C28_key_inserts_then_expands.

(* In that state the inserted text is in front of the dot ... *)
Theorem C28_inserted_text_before_dot : forall st rn,
  (dot (st_buf st) <= length (content (st_buf st)) /\
   exists pre, firstn (dot (st_last st)) (content (st_last st)) = pre ++ st_inserts st) ->
  let st2 := after_insert st rn in
  dot (st_buf st2) <= length (content (st_buf st2)) /\
  exists pre, firstn (dot (st_buf st2)) (content (st_buf st2)) = pre ++ st_inserts st2.
Proof. exact inserted_text_before_dot. Qed.
Print Assumptions C28_inserted_text_before_dot.

(* ... so a simple abbreviation replaces exactly the abbreviation in front of
   the dot and leaves the dot right behind the expansion, *)
Theorem C28_abbr_expansion_dot_at_end : forall cfg st,
  dot (st_buf st) <= length (content (st_buf st)) ->
  (exists pre, firstn (dot (st_buf st)) (content (st_buf st)) = pre ++ st_inserts st) ->
  let st' := expand_simple_abbr cfg st in
  st' = st \/
  exists pre abbr full, In (abbr, full) (simple_abbrs cfg) /\ abbr <> [] /\
    content (st_buf st) = pre ++ abbr ++ skipn (dot (st_buf st)) (content (st_buf st)) /\
    dot (st_buf st) = length (pre ++ abbr) /\
    content (st_buf st') = pre ++ full ++ skipn (dot (st_buf st)) (content (st_buf st)) /\
    dot (st_buf st') = length (pre ++ full) /\
    st_inserts st' = [].
Proof. exact simple_abbr_dot_at_end. Qed.
Print Assumptions C28_abbr_expansion_dot_at_end.

(* a small-word abbreviation leaves the dot at the end of the buffer behind the
   trigger (and abbreviation plus trigger fit in front of the old dot), *)
Theorem C28_small_word_abbr_dot_at_end : forall U cfg trigger st,
  dot (st_buf st) <= length (content (st_buf st)) ->
  (exists pre, firstn (dot (st_buf st)) (content (st_buf st)) = pre ++ st_inserts st) ->
  let st' := expand_small_word_abbr U cfg trigger st in
  st' = st \/
  exists (abbr full : list N), abbr <> [] /\
    length abbr + 1 <= dot (st_buf st) /\
    content (st_buf st') =
      firstn (dot (st_buf st) - length abbr - 1) (content (st_buf st)) ++ full ++ [trigger] /\
    dot (st_buf st') = length (content (st_buf st')) /\
    st_inserts st' = [].
Proof. exact small_word_abbr_dot_at_end. Qed.
Print Assumptions C28_small_word_abbr_dot_at_end.

(* and a command abbreviation leaves the dot at the end of the buffer. *)
Theorem C28_command_abbr_dot_at_end : forall U cfg st,
  let st' := expand_command_abbr U cfg st in
  st' = st \/ (dot (st_buf st') = length (content (st_buf st')) /\ st_inserts st' = []).
Proof. exact command_abbr_dot_at_end. Qed.
Print Assumptions C28_command_abbr_dot_at_end.

(* ---- the oracle evaluated on the implementation's observations ---- *)

(* check_step = true implies the property for that observed step: the new
   cursor is on a character boundary inside the buffer and valid UTF-8 stayed
   valid UTF-8 (no character cut in half); a kill deleted exactly
   the text between the old cursor and the target of its move twin; a
   transpose only permuted the runes; a word motion landed on the nearest word
   start. *)
Theorem C28_oracle_sound : forall U e c0 d0 c1 d1 aux,
  check_step U e c0 d0 c1 d1 aux = true -> step_spec U e c0 d0 c1 d1 aux.
Proof. exact check_step_sound. Qed.
Print Assumptions C28_oracle_sound.


(* ---- the model satisfies what the oracle demands ---- *)

(* For every buffer of valid runes with the dot in range, every builtin, every
   Unicode table and width function: the byte-level view of the model's step
   (what the implementation is compared with) satisfies the Prop-level
   statement of the property [step_spec] — cursor on a character boundary
   inside the buffer, kills delete exactly the text up to the target of their
   move twin, transposes permute, word motions land on the nearest word start. *)
Theorem C28_model_satisfies_spec : forall U c b,
  Forall (fun r => valid_rune r = true) (content b) -> dot b <= length (content b) ->
  let b' := apply_cmd U c b in
  step_spec U (ECmd c)
    (encode_all (content b)) (byte_off (content b) (dot b))
    (encode_all (content b')) (byte_off (content b') (dot b'))
    (aux_of U c b).
Proof. exact model_step_spec. Qed.
Print Assumptions C28_model_satisfies_spec.

(* ... and passes the executable oracle (so a code-2 verdict can only come from
   an implementation that differs from the model). *)
Theorem C28_model_passes_oracle : forall U c b,
  Forall (fun r => valid_rune r = true) (content b) -> dot b <= length (content b) ->
  let b' := apply_cmd U c b in
  check_step U (ECmd c)
    (encode_all (content b)) (byte_off (content b) (dot b))
    (encode_all (content b')) (byte_off (content b') (dot b'))
    (aux_of U c b) = true.
Proof. exact model_passes_oracle. Qed.
Print Assumptions C28_model_passes_oracle.

(* ---- non-vacuity ---- *)
Definition U0 : uni :=
  mkUni (fun r => N.eqb r 32 || N.eqb r 10)
        (fun r => (N.leb 97 r && N.leb r 122) || N.leb 19968 r)
        (fun r => N.leb 48 r && N.leb r 57) (fun _ => false)
        (fun r => N.leb 32 r) (fun r => N.leb 32 r)
        (fun r => if N.leb 19968 r then 2%Z else 1%Z).

(* "ab 中文": transpose-word at dot 1 exchanges the two words *)
Example C28_ex_transpose_word :
  apply_cmd U0 (TransposeW FWord) (mkBuf [97; 98; 32; 20013; 25991]%N 1)
  = mkBuf [20013; 25991; 32; 97; 98]%N 5.
Proof. vm_compute. reflexivity. Qed.

(* "中文\nabcd" at the end of line 2 (width 4): move-dot-up lands behind two wide runes *)
Example C28_ex_up_wide :
  apply_cmd U0 MoveUp (mkBuf [20013; 25991; 10; 97; 98; 99; 100]%N 7) = mkBuf [20013; 25991; 10; 97; 98; 99; 100]%N 2
  /\ apply_cmd U0 MoveUp (mkBuf [20013; 25991; 10; 97; 98; 99; 100]%N 6) = mkBuf [20013; 25991; 10; 97; 98; 99; 100]%N 1.
Proof. vm_compute. split; reflexivity. Qed.

(* typing "l " with the command abbreviation l -> "ls -l", then "xx" with the
   simple abbreviation xx -> "中" *)
Example C28_ex_abbr_history :
  st_buf (run U0 (mkCfg [([120; 120], [20013])]%N [([108], [108; 115; 32; 45; 108])]%N [] false)
              (init_state (mkBuf [] 0))
              [EKey 108 0; EKey 32 0; EKey 120 0; EKey 120 0]%Z)
  = mkBuf [108; 115; 32; 45; 108; 32; 20013]%N 7.
Proof. vm_compute. reflexivity. Qed.

(* kill-word-left in "ab  cd" at dot 4 removes "ab  " *)
Example C28_ex_kill_word_left :
  apply_cmd U0 (KillWLeft FWord) (mkBuf [97; 98; 32; 32; 99; 100]%N 4) = mkBuf [99; 100]%N 0.
Proof. vm_compute. reflexivity. Qed.
