(* C04 — repr output evaluates back to an equal value.
   Property theorems only; every proof is [exact <lemma>].

   Model (model/C04.v): [repr] = vals.Repr with the list / map builders, their
   indentation and the sort of map entries by vals.CmpTotal with ties broken on
   the key texts ([key_lt]; an insertion sort as sort.Slice runs it for at most
   12 entries); [read_val] =
   the parser + evaluator on exactly the expression language repr prints (list
   and map literals, white space, (num X), $nil $true $false, string words
   through C03's reader; anything else = ROther).  Maps are association lists
   in the iteration order of the hash map.
   is_print = unicode.IsPrint (any table); pf / fmtF / fmtE = strconv's
   ParseFloat / FormatFloat 'f' / 'e' under C05's contract [contract_S]; rk =
   the order of the Go type descriptors (any).
   okv v  : v is built from nil, booleans, byte strings, numbers in canonical
            representation, lists and maps.
   wfv v  : float patterns are 64-bit and map keys are pairwise not eq, a NaN
            counting as equal to a NaN.
   eqn a b: eq (vals.Equal) where every NaN is taken as one self-equal token,
            i.e. "eq, and a NaN reads back as a NaN".
   term_ok ctx t : the text after the expression is empty or starts with a
            rune that cannot start a primary in that context (white space,
            closing bracket, = after a map key ...).
   rdepth v: the fuel the reader needs (nesting depth plus widths). *)
From verif Require Import lib.Base lib.Utf8 model.C03 proofs.C03_proofs model.C08_Value
  proofs.C08_Value_proofs proofs.C09_proofs model.C04
  proofs.C04_proofs proofs.C04_text proofs.C04_roundtrip proofs.C04_sem proofs.C04_order proofs.C04_fuel proofs.C04_main.
From verif Require model.C05 proofs.C05_float_proofs.
From Coq Require Import Permutation.
Open Scope N_scope.

(* THE PROPERTY, part 1: for every value of any depth and width, every indent
   (negative = single line, >= 0 = pretty-printed from that level), in every
   expression context, followed by any terminator: the text repr prints is read
   back as exactly one value, nothing of it is left over, and that value is eq
   to the original with NaN compared by kind. *)
Theorem C04_repr_roundtrip : forall is_print pf fmtF fmtE rk,
  C05_float_proofs.contract_S pf fmtF fmtE ->
  forall v, okv v = true -> wfv v ->
  forall ind ctx t fuel, (rdepth v <= fuel)%nat -> term_ok is_print ctx t ->
  exists v', read_val is_print pf fuel ctx (repr is_print fmtF fmtE rk v ind ++ t) = ROk v' t
             /\ eqn v v' = true.
Proof. exact repr_roundtrip. Qed.
Print Assumptions C04_repr_roundtrip.

(* What exactly comes back: [norm v] — lists as plain lists, map entries in
   printed order, NaN as ParseFloat's NaN, everything else bit for bit.  No
   hypothesis on map keys is needed for this half. *)
Theorem C04_repr_reads_back : forall is_print pf fmtF fmtE rk,
  C05_float_proofs.contract_S pf fmtF fmtE ->
  forall v, okv v = true ->
  forall ind ctx t fuel, (rdepth v <= fuel)%nat -> term_ok is_print ctx t ->
  read_val is_print pf fuel ctx (repr is_print fmtF fmtE rk v ind ++ t) = ROk (norm is_print pf fmtF fmtE rk v ind) t.
Proof. exact repr_reads_back. Qed.
Print Assumptions C04_repr_reads_back.

(* ... and that value is eq to the original (NaN by kind), for maps of any size *)
Theorem C04_norm_is_eq : forall is_print pf fmtF fmtE rk,
  (exists b', pf C05.sNaN = Some b' /\ C05.is_nan b' = true) ->
  forall v, okv v = true -> wfv v -> forall ind,
  wfv (norm is_print pf fmtF fmtE rk v ind) /\ eqn v (norm is_print pf fmtF fmtE rk v ind) = true.
Proof. exact norm_good. Qed.
Print Assumptions C04_norm_is_eq.

(* The text is exactly one expression: read as the whole argument, nothing is
   left. *)
Theorem C04_repr_single_expression : forall is_print pf fmtF fmtE rk,
  C05_float_proofs.contract_S pf fmtF fmtE ->
  forall v, okv v = true -> forall ind fuel, (rdepth v <= fuel)%nat ->
  read_val is_print pf fuel CNormal (repr is_print fmtF fmtE rk v ind ++ []) = ROk (norm is_print pf fmtF fmtE rk v ind) [].
Proof. exact repr_single_expression. Qed.
Print Assumptions C04_repr_single_expression.

(* ... in particular for the function the judge runs on the whole argument of
   put, with the fuel it gives itself: the text is exactly one expression and
   evaluates to a value eq to the original *)
Theorem C04_read_expr_roundtrip : forall is_print pf fmtF fmtE rk,
  C05_float_proofs.contract_S pf fmtF fmtE ->
  forall v ind, okv v = true -> wfv v ->
  exists v', read_expr is_print pf (repr is_print fmtF fmtE rk v ind) = EVal v' /\ eqn v v' = true.
Proof. exact read_expr_roundtrip. Qed.
Print Assumptions C04_read_expr_roundtrip.

(* Every number keeps its exact or inexact type: int, big int and rational come
   back identical, a float bit for bit, a NaN as a NaN; nothing else becomes a
   number. *)
Theorem C04_repr_keeps_exactness : forall is_print pf fmtF fmtE rk,
  C05_float_proofs.contract_S pf fmtF fmtE ->
  forall v, okv v = true ->
  forall ind ctx t fuel, (rdepth v <= fuel)%nat -> term_ok is_print ctx t ->
  exists v', read_val is_print pf fuel ctx (repr is_print fmtF fmtE rk v ind ++ t) = ROk v' t
   /\ num_type v' = num_type v
   /\ match v with
      | VInt _ | VBig _ | VRat _ => v' = v
      | VFloat b => if C05.is_nan b then exists b', v' = VFloat b' /\ C05.is_nan b' = true else v' = v
      | _ => True
      end.
Proof. exact repr_keeps_exactness. Qed.
Print Assumptions C04_repr_keeps_exactness.

(* THE PROPERTY, part 2 (reprMap sorts by CmpTotal and breaks ties on the key
   texts): for every map of the domain on whose keys CmpTotal is antisymmetric
   and transitive (KeysOrdered), every order in which the hash map yields the
   entries gives the same text — any size, any indent.  That tying keys of the
   domain never share a text is not assumed: it follows from the round trip
   (equal texts read back to one value, which is eq to both keys). *)
Theorem C04_repr_order_canonical : forall is_print pf fmtF fmtE rk,
  C05_float_proofs.contract_S pf fmtF fmtE ->
  forall m1 m2 ind, okv (VMap m1) = true -> wfv (VMap m1) -> KeysOrdered rk m1 ->
  Permutation m1 m2 ->
  repr is_print fmtF fmtE rk (VMap m1) ind = repr is_print fmtF fmtE rk (VMap m2) ind.
Proof. exact repr_order_canonical. Qed.
Print Assumptions C04_repr_order_canonical.

(* KeysOrdered holds (C09) whenever the numbers inside the keys are all exact,
   or all inexact: then nothing is assumed about the comparison.  This covers
   every former witness: keys that are maps, lists of maps, strings ... *)
Theorem C04_repr_order_canonical_exact : forall is_print pf fmtF fmtE rk,
  C05_float_proofs.contract_S pf fmtF fmtE ->
  forall m1 m2 ind, okv (VMap m1) = true -> wfv (VMap m1) -> wfb (VMap m1) = true -> injective rk ->
  (forall e, In e m1 -> nums_all is_exact (fst e) = true) -> Permutation m1 m2 ->
  repr is_print fmtF fmtE rk (VMap m1) ind = repr is_print fmtF fmtE rk (VMap m2) ind.
Proof. exact repr_order_canonical_exact. Qed.
Print Assumptions C04_repr_order_canonical_exact.

Theorem C04_repr_order_canonical_inexact : forall is_print pf fmtF fmtE rk,
  C05_float_proofs.contract_S pf fmtF fmtE ->
  forall m1 m2 ind, okv (VMap m1) = true -> wfv (VMap m1) -> wfb (VMap m1) = true -> injective rk ->
  (forall e, In e m1 -> nums_all is_float (fst e) = true) -> Permutation m1 m2 ->
  repr is_print fmtF fmtE rk (VMap m1) ind = repr is_print fmtF fmtE rk (VMap m2) ind.
Proof. exact repr_order_canonical_inexact. Qed.
Print Assumptions C04_repr_order_canonical_inexact.

(* through nesting: repr is compositional, so a map whose entries come out in
   another order AND whose values print alike (recursively: hold maps rebuilt in
   other orders) prints alike *)
Theorem C04_repr_order_canonical_nested : forall is_print pf fmtF fmtE rk,
  C05_float_proofs.contract_S pf fmtF fmtE ->
  forall m m'' m', okv (VMap m) = true -> wfv (VMap m) -> KeysOrdered rk m -> Permutation m m'' ->
  Forall2 (fun e e' => fst e = fst e' /\ SameText is_print fmtF fmtE rk (snd e) (snd e')) m'' m' ->
  SameText is_print fmtF fmtE rk (VMap m) (VMap m').
Proof. exact repr_order_canonical_nested. Qed.
Print Assumptions C04_repr_order_canonical_nested.

Theorem C04_same_text_list : forall is_print fmtF fmtE rk s s' l l',
  Forall2 (SameText is_print fmtF fmtE rk) l l' ->
  SameText is_print fmtF fmtE rk (VList s l) (VList s' l').
Proof. exact same_text_list. Qed.
Print Assumptions C04_same_text_list.

(* values of the domain that print alike are eq *)
Theorem C04_same_text_is_eq : forall is_print pf fmtF fmtE rk,
  C05_float_proofs.contract_S pf fmtF fmtE ->
  forall a b ind, okv a = true -> wfv a -> okv b = true -> wfv b ->
  repr is_print fmtF fmtE rk a ind = repr is_print fmtF fmtE rk b ind -> eqn a b = true.
Proof. exact same_text_eqn. Qed.
Print Assumptions C04_same_text_is_eq.

(* the witnesses of the repaired defect (two keys that tie under CmpTotal and
   collide in all 32 hash bits) now print in one order, whatever the insertion
   order, through the trie model of pkg/persistent/hashmap ... *)
Theorem C04_old_witnesses_canonical :
  order_matters [(w_int0, VStr [120]); (w_flt0, VStr [121])] = false
  /\ order_matters [(w_int, VStr [120]); (w_flt, VStr [121])] = false
  /\ order_matters [(w_mapA, VStr [120]); (w_mapB, VStr [121])] = false
  /\ order_matters [(w_lstA, VStr [120]); (w_lstB, VStr [121])] = false.
Proof. exact old_witnesses_canonical. Qed.
Print Assumptions C04_old_witnesses_canonical.

(* ... and the pairs the generator plants do tie, are not Equal and hash alike *)
Theorem C04_planted_pairs_tie_and_collide :
  tie_collide w_int0 w_flt0 = true /\ tie_collide w_int w_flt = true
  /\ tie_collide w_mapA w_mapB = true /\ tie_collide w_lstA w_lstB = true
  /\ tie_collide w_z w_f = true.
Proof. exact planted_pairs_tie_and_collide. Qed.
Print Assumptions C04_planted_pairs_tie_and_collide.

(* FULL STATEMENT: the same for ALL maps of the domain, without KeysOrdered:
     forall m1 m2 ind, okv (VMap m1) -> wfv (VMap m1) -> Permutation m1 m2 ->
       repr (VMap m1) ind = repr (VMap m2) ind.
   It is still FALSE of the faithful model and of the repaired code: CmpTotal is
   not transitive across exact and inexact numbers (C09), and the tie-break
   makes the comparison cyclic on  c = -9007233084598711,  f = -9007233084598712.0,
   z = -9007233084598713  (c < f < z by the texts, both ties; z < c by value).
   z and f collide in all 32 hash bits, so through the trie model the two
   insertion orders c,z,f and c,f,z give two Equal maps that print differently. *)
Theorem C04_repr_order_canonical_refuted :
  exists es1 es2 a b, Permutation es1 es2 /\ map_of es1 = Some a /\ map_of es2 = Some b
    /\ wfb a = true /\ wfb b = true /\ equal a b = true /\ repr0 a <> repr0 b.
Proof. exact repr_order_refuted_w. Qed.
Print Assumptions C04_repr_order_canonical_refuted.

Theorem C04_cyclic_triple : lt0 w_c w_f = true /\ lt0 w_f w_z = true /\ lt0 w_z w_c = true.
Proof. exact cyclic_triple. Qed.
Print Assumptions C04_cyclic_triple.

(* the sort itself: one result for all permutations of the input under a strict
   linear order on the elements present *)
Theorem C04_insertion_sort_canonical : forall (A : Type) (lt : A -> A -> bool) (P : A -> Prop),
  (forall a b, P a -> P b -> lt a b = true \/ lt b a = true \/ a = b) ->
  (forall a b, P a -> P b -> lt a b = true -> lt b a = false) ->
  (forall a b c, P a -> P b -> P c -> lt a b = true -> lt b c = true -> lt a c = true) ->
  forall l1 l2, Forall P l1 -> Permutation l1 l2 -> isort lt l1 = isort lt l2.
Proof. exact (@isort_canonical). Qed.
Print Assumptions C04_insertion_sort_canonical.

(* The oracle evaluated on the implementation's observations states the
   property ... *)
Theorem C04_oracle_sound : forall v res back go_eq text alts,
  check_C04 v res back go_eq text alts = true -> Spec_C04 v res back go_eq text alts.
Proof. exact check_C04_sound. Qed.
Print Assumptions C04_oracle_sound.

(* ... and what the model predicts for the implementation passes it *)
Theorem C04_model_passes_oracle : forall is_print pf fmtF fmtE rk,
  C05_float_proofs.contract_S pf fmtF fmtE ->
  forall v ind text, okv v = true -> wfv v ->
  check_C04 v resValue (norm is_print pf fmtF fmtE rk v ind) true text [] = true.
Proof. exact model_passes_oracle. Qed.
Print Assumptions C04_model_passes_oracle.

(* ---- non-vacuity: concrete texts through the executable model ---- *)
From Coq Require Import String.
Definition ex_pf (s : bytes) : option N :=
  if bytes_eqb s (hx "302e35"%string) then Some 4602678819172646912          (* 0.5 *)
  else if bytes_eqb s (hx "4e614e"%string) then Some 9221120237041090561      (* NaN *)
  else None.
Definition ex_F (b : N) : bytes := if b =? 4602678819172646912 then hx "302e35"%string else hx "4e614e"%string.
Definition ex_v : value :=
  VMap [(VStr (hx "6120627e"%string), VList false [VInt (-3); VRat (mkrat 1 3); VFloat 4602678819172646912]);
        (VNil, VMap []); (VBool true, VStr []); (VFloat 9221120237041090562, VBig (2 ^ 70))].

(* single line and pretty-printed, read back by read_expr (the whole argument);
   the text is  [&$nil=[&] &$true='' &(num NaN)=(num 1180591620717411303424) &'a b~'=[(num -3) (num 1/3) (num 0.5)]]  *)
Example C04_ex_roundtrip :
  ReprPlain ascii_print ex_F ex_F rk0 ex_v
    = hx "5b26246e696c3d5b265d202624747275653d27272026286e756d204e614e293d286e756d2031313830353931363230373137343131333033343234292026276120627e273d5b286e756d202d332920286e756d20312f332920286e756d20302e35295d5d"%string
  /\ (exists v', read_expr ascii_print ex_pf (ReprPlain ascii_print ex_F ex_F rk0 ex_v) = EVal v' /\ eqn ex_v v' = true)
  /\ (exists v', read_expr ascii_print ex_pf (repr ascii_print ex_F ex_F rk0 ex_v 0) = EVal v' /\ eqn ex_v v' = true)
  (* the reader is no accept-everything function *)
  /\ read_expr ascii_print ex_pf (hx "5b61205d5d"%string) = EAbstain            (* [a ]]  : text left over *)
  /\ read_expr ascii_print ex_pf (hx "5b6120"%string) = EParseErr               (* [a    : unterminated *)
  /\ read_expr ascii_print ex_pf (hx "5b26613d62205d"%string) = EVal (VMap [(VStr [97], VStr [98])])
  /\ read_expr ascii_print ex_pf (hx "5b612026623d635d"%string) = EParseErr     (* elements and pairs *)
  /\ read_expr ascii_print ex_pf (hx "286e756d20302e3529"%string) = EVal (VFloat 4602678819172646912).
Proof. vm_compute. repeat split; eexists; split; reflexivity. Qed.
