(* C04 — repr output evaluates back to an equal value.
   Property theorems only; every proof is [exact <lemma>].

   Model (model/C04.v): [repr] = vals.Repr with the list / map builders, their
   indentation and the sort of map entries by vals.CmpTotal ([cmp_total4], an
   insertion sort as sort.Slice runs it for at most 12 entries); [read_val] =
   the parser + evaluator on exactly the expression language repr prints (list
   and map literals, white space, (num X), $nil $true $false, string words
   through C03's reader; anything else = ROther).  Maps are association lists
   in the iteration order of the hash map.
   is_print = unicode.IsPrint (any table); pf / fmtF / fmtE = strconv's
   ParseFloat / FormatFloat 'f' / 'e' under C05's contract [contract_S]; rk =
   the order of the Go type descriptors (any).
   okv v  : v is built from nil, booleans, byte strings, numbers in canonical
            representation, lists and maps.
   wfv v  : float patterns are 64-bit and map keys are pairwise not eq, a NaN
            counting as equal to a NaN.
   eqn a b: eq (vals.Equal) where every NaN is taken as one self-equal token,
            i.e. "eq, and a NaN reads back as a NaN".
   term_ok ctx t : the text after the expression is empty or starts with a
            rune that cannot start a primary in that context (white space,
            closing bracket, = after a map key ...).
   rdepth v: the fuel the reader needs (nesting depth plus widths). *)
From verif Require Import lib.Base lib.Utf8 model.C03 proofs.C03_proofs model.C08_Value model.C04
  proofs.C04_proofs proofs.C04_text proofs.C04_roundtrip proofs.C04_sem proofs.C04_order proofs.C04_fuel proofs.C04_main.
From verif Require model.C05 proofs.C05_float_proofs.
From Coq Require Import Permutation.
Open Scope N_scope.

(* THE PROPERTY, part 1: for every value of any depth and width, every indent
   (negative = single line, >= 0 = pretty-printed from that level), in every
   expression context, followed by any terminator: the text repr prints is read
   back as exactly one value, nothing of it is left over, and that value is eq
   to the original with NaN compared by kind. *)
Theorem C04_repr_roundtrip : forall is_print pf fmtF fmtE rk,
  C05_float_proofs.contract_S pf fmtF fmtE ->
  forall v, okv v = true -> wfv v ->
  forall ind ctx t fuel, (rdepth v <= fuel)%nat -> term_ok is_print ctx t ->
  exists v', read_val is_print pf fuel ctx (repr is_print fmtF fmtE rk v ind ++ t) = ROk v' t
             /\ eqn v v' = true.
Proof. exact repr_roundtrip. Qed.
Print Assumptions C04_repr_roundtrip.

(* What exactly comes back: [norm v] — lists as plain lists, map entries in
   printed order, NaN as ParseFloat's NaN, everything else bit for bit.  No
   hypothesis on map keys is needed for this half. *)
Theorem C04_repr_reads_back : forall is_print pf fmtF fmtE rk,
  C05_float_proofs.contract_S pf fmtF fmtE ->
  forall v, okv v = true ->
  forall ind ctx t fuel, (rdepth v <= fuel)%nat -> term_ok is_print ctx t ->
  read_val is_print pf fuel ctx (repr is_print fmtF fmtE rk v ind ++ t) = ROk (norm pf rk v) t.
Proof. exact repr_reads_back. Qed.
Print Assumptions C04_repr_reads_back.

(* ... and that value is eq to the original (NaN by kind), for maps of any size *)
Theorem C04_norm_is_eq : forall pf rk,
  (exists b', pf C05.sNaN = Some b' /\ C05.is_nan b' = true) ->
  forall v, okv v = true -> wfv v ->
  wfv (norm pf rk v) /\ eqn v (norm pf rk v) = true.
Proof. exact norm_good. Qed.
Print Assumptions C04_norm_is_eq.

(* The text is exactly one expression: read as the whole argument, nothing is
   left. *)
Theorem C04_repr_single_expression : forall is_print pf fmtF fmtE rk,
  C05_float_proofs.contract_S pf fmtF fmtE ->
  forall v, okv v = true -> forall ind fuel, (rdepth v <= fuel)%nat ->
  read_val is_print pf fuel CNormal (repr is_print fmtF fmtE rk v ind ++ []) = ROk (norm pf rk v) [].
Proof. exact repr_single_expression. Qed.
Print Assumptions C04_repr_single_expression.

(* ... in particular for the function the judge runs on the whole argument of
   put, with the fuel it gives itself: the text is exactly one expression and
   evaluates to a value eq to the original *)
Theorem C04_read_expr_roundtrip : forall is_print pf fmtF fmtE rk,
  C05_float_proofs.contract_S pf fmtF fmtE ->
  forall v ind, okv v = true -> wfv v ->
  exists v', read_expr is_print pf (repr is_print fmtF fmtE rk v ind) = EVal v' /\ eqn v v' = true.
Proof. exact read_expr_roundtrip. Qed.
Print Assumptions C04_read_expr_roundtrip.

(* Every number keeps its exact or inexact type: int, big int and rational come
   back identical, a float bit for bit, a NaN as a NaN; nothing else becomes a
   number. *)
Theorem C04_repr_keeps_exactness : forall is_print pf fmtF fmtE rk,
  C05_float_proofs.contract_S pf fmtF fmtE ->
  forall v, okv v = true ->
  forall ind ctx t fuel, (rdepth v <= fuel)%nat -> term_ok is_print ctx t ->
  exists v', read_val is_print pf fuel ctx (repr is_print fmtF fmtE rk v ind ++ t) = ROk v' t
   /\ num_type v' = num_type v
   /\ match v with
      | VInt _ | VBig _ | VRat _ => v' = v
      | VFloat b => if C05.is_nan b then exists b', v' = VFloat b' /\ C05.is_nan b' = true else v' = v
      | _ => True
      end.
Proof. exact repr_keeps_exactness. Qed.
Print Assumptions C04_repr_keeps_exactness.

(* THE PROPERTY, part 2 — FULL STATEMENT:
     forall entries es, every insertion order of es gives a map with the same
     printed text:  Permutation m1 m2 -> repr (VMap m1) ind = repr (VMap m2) ind
     for the iteration orders m1, m2 the hash map produces.
   It is FALSE of the faithful model and of the code.  The two insertion orders
   of the entries (num 0)=x, (num 0.0)=y, pushed through the trie model of
   pkg/persistent/hashmap (model/C07.v) with vals.Hash and vals.Equal, give two
   maps that are Equal and print differently (the keys tie under CmpTotal and
   collide in all 32 hash bits, so they sit in one collision node in insertion
   order and the sort leaves tied entries where they were): *)
Theorem C04_repr_order_canonical_refuted :
  exists es a b, map_of es = Some a /\ map_of (rev es) = Some b
    /\ wfb a = true /\ wfb b = true /\ equal a b = true /\ repr0 a <> repr0 b.
Proof. exact repr_order_refuted_w. Qed.
Print Assumptions C04_repr_order_canonical_refuted.

(* the same for the other planted witnesses; a tie without a hash collision
   ((num 1) and (num 1.0)) is printed in one order *)
Theorem C04_order_witnesses :
  order_matters [(w_int0, VStr [120]); (w_flt0, VStr [121])] = true
  /\ order_matters [(w_int, VStr [120]); (w_flt, VStr [121])] = true
  /\ order_matters [(w_mapA, VStr [120]); (w_mapB, VStr [121])] = true
  /\ order_matters [(w_lstA, VStr [120]); (w_lstB, VStr [121])] = true
  /\ order_matters [(VInt 1, VStr [120]); (VFloat 4607182418800017408, VStr [121])] = false.
Proof. exact order_matters_all. Qed.
Print Assumptions C04_order_witnesses.

(* the pairs the generator plants do tie under CmpTotal, are not Equal, and have
   the same 32-bit Hash *)
Theorem C04_planted_pairs_tie_and_collide :
  tie_collide w_int0 w_flt0 = true /\ tie_collide w_int w_flt = true
  /\ tie_collide w_mapA w_mapB = true /\ tie_collide w_lstA w_lstB = true.
Proof. exact planted_pairs_tie_and_collide. Qed.
Print Assumptions C04_planted_pairs_tie_and_collide.

(* ... and it holds whenever no two entries tie: if CmpTotal is a strict linear
   order on the keys present (StrictKeys: no two different entries compare
   equal; greater flips to less; less is asymmetric and transitive), the text
   is the same for every order in which the entries come out of the hash map,
   for maps of every size, every indent. *)
Theorem C04_repr_order_canonical_partial : forall is_print fmtF fmtE rk m1 m2 ind,
  Permutation m1 m2 -> StrictKeys rk m1 ->
  repr is_print fmtF fmtE rk (VMap m1) ind = repr is_print fmtF fmtE rk (VMap m2) ind.
Proof. exact repr_order_canonical_partial. Qed.
Print Assumptions C04_repr_order_canonical_partial.

(* ... and through nesting: repr is compositional, so a map whose entries come
   out in another order AND whose values are themselves values that print alike
   (e.g. hold maps rebuilt in other orders, recursively) prints alike *)
Theorem C04_repr_order_canonical_nested_partial : forall is_print fmtF fmtE rk m m'' m',
  Permutation m m'' -> StrictKeys rk m ->
  Forall2 (fun e e' => fst e = fst e' /\ SameText is_print fmtF fmtE rk (snd e) (snd e')) m'' m' ->
  SameText is_print fmtF fmtE rk (VMap m) (VMap m').
Proof. exact repr_order_canonical_nested_partial. Qed.
Print Assumptions C04_repr_order_canonical_nested_partial.

Theorem C04_same_text_list : forall is_print fmtF fmtE rk s s' l l',
  Forall2 (SameText is_print fmtF fmtE rk) l l' ->
  SameText is_print fmtF fmtE rk (VList s l) (VList s' l').
Proof. exact same_text_list. Qed.
Print Assumptions C04_same_text_list.

(* the sort itself: one result for all permutations of the input under a strict
   linear order on the elements present *)
Theorem C04_insertion_sort_canonical : forall (A : Type) (lt : A -> A -> bool) (P : A -> Prop),
  (forall a b, P a -> P b -> lt a b = true \/ lt b a = true \/ a = b) ->
  (forall a b, P a -> P b -> lt a b = true -> lt b a = false) ->
  (forall a b c, P a -> P b -> P c -> lt a b = true -> lt b c = true -> lt a c = true) ->
  forall l1 l2, Forall P l1 -> Permutation l1 l2 -> isort lt l1 = isort lt l2.
Proof. exact (@isort_canonical). Qed.
Print Assumptions C04_insertion_sort_canonical.

(* The oracle evaluated on the implementation's observations states the
   property ... *)
Theorem C04_oracle_sound : forall v res back go_eq text alts,
  check_C04 v res back go_eq text alts = true -> Spec_C04 v res back go_eq text alts.
Proof. exact check_C04_sound. Qed.
Print Assumptions C04_oracle_sound.

(* ... and what the model predicts for the implementation passes it *)
Theorem C04_model_passes_oracle : forall pf fmtF fmtE rk,
  C05_float_proofs.contract_S pf fmtF fmtE ->
  forall v text, okv v = true -> wfv v ->
  check_C04 v resValue (norm pf rk v) true text [] = true.
Proof. exact model_passes_oracle. Qed.
Print Assumptions C04_model_passes_oracle.

(* ---- non-vacuity: concrete texts through the executable model ---- *)
From Coq Require Import String.
Definition ex_pf (s : bytes) : option N :=
  if bytes_eqb s (hx "302e35"%string) then Some 4602678819172646912          (* 0.5 *)
  else if bytes_eqb s (hx "4e614e"%string) then Some 9221120237041090561      (* NaN *)
  else None.
Definition ex_F (b : N) : bytes := if b =? 4602678819172646912 then hx "302e35"%string else hx "4e614e"%string.
Definition ex_v : value :=
  VMap [(VStr (hx "6120627e"%string), VList false [VInt (-3); VRat (mkrat 1 3); VFloat 4602678819172646912]);
        (VNil, VMap []); (VBool true, VStr []); (VFloat 9221120237041090562, VBig (2 ^ 70))].

(* single line and pretty-printed, read back by read_expr (the whole argument);
   the text is  [&$nil=[&] &$true='' &(num NaN)=(num 1180591620717411303424) &'a b~'=[(num -3) (num 1/3) (num 0.5)]]  *)
Example C04_ex_roundtrip :
  ReprPlain ascii_print ex_F ex_F rk0 ex_v
    = hx "5b26246e696c3d5b265d202624747275653d27272026286e756d204e614e293d286e756d2031313830353931363230373137343131333033343234292026276120627e273d5b286e756d202d332920286e756d20312f332920286e756d20302e35295d5d"%string
  /\ (exists v', read_expr ascii_print ex_pf (ReprPlain ascii_print ex_F ex_F rk0 ex_v) = EVal v' /\ eqn ex_v v' = true)
  /\ (exists v', read_expr ascii_print ex_pf (repr ascii_print ex_F ex_F rk0 ex_v 0) = EVal v' /\ eqn ex_v v' = true)
  (* the reader is no accept-everything function *)
  /\ read_expr ascii_print ex_pf (hx "5b61205d5d"%string) = EAbstain            (* [a ]]  : text left over *)
  /\ read_expr ascii_print ex_pf (hx "5b6120"%string) = EParseErr               (* [a    : unterminated *)
  /\ read_expr ascii_print ex_pf (hx "5b26613d62205d"%string) = EVal (VMap [(VStr [97], VStr [98])])
  /\ read_expr ascii_print ex_pf (hx "5b612026623d635d"%string) = EParseErr     (* elements and pairs *)
  /\ read_expr ascii_print ex_pf (hx "286e756d20302e3529"%string) = EVal (VFloat 4602678819172646912).
Proof. vm_compute. repeat split; eexists; split; reflexivity. Qed.
