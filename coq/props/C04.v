(* C04 — repr output evaluates back to an equal value.
   Property theorems only; every proof is [exact <lemma>]. *)
From verif Require Import lib.Base model.C03 model.C08_Value model.C04 proofs.C04_proofs.
Open Scope N_scope.

(* The oracle evaluated on the implementation's observations states the
   property. *)
Theorem C04_oracle_sound : forall v res back go_eq text alts,
  check_C04 v res back go_eq text alts = true -> Spec_C04 v res back go_eq text alts.
Proof. exact check_C04_sound. Qed.
Print Assumptions C04_oracle_sound.
