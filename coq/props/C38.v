(* C38 — Option parsing matches GNU/BSD getopt_long semantics.
   Property theorems only; every proof is [exact <lemma>].
   Model and conventions: model/C38.v.  [parse] is the model of getopt.parse
   (state: options, non-options, option waiting for its argument, stopped),
   [bits_of]/[conv_of] map a configuration selection to the Go Config value
   (from gen.Consts) and to the conventions it stands for. *)
From verif Require Import lib.Base gen.Consts model.C38
  proofs.C38_proofs proofs.C38_rules proofs.C38_roundtrip proofs.C38_lossless.

(* The Config bits of the current tree select the conventions: GNU = stop after
   "--" and permute; BSD = additionally stop at the first non-option. *)
Theorem C38_config_double_dash : forall cs, has (bits_of cs) bitSADD = cv_dd (conv_of cs).
Proof. exact has_dd. Qed.
Print Assumptions C38_config_double_dash.
Theorem C38_config_stop_first : forall cs, has (bits_of cs) bitSBFN = cv_sf (conv_of cs).
Proof. exact has_sf. Qed.
Print Assumptions C38_config_stop_first.
Theorem C38_config_long_only : forall cs, has (bits_of cs) bitLO = cv_lo (conv_of cs).
Proof. exact has_lo. Qed.
Print Assumptions C38_config_long_only.

(* For all specs with distinct names (and no '=' in long names) and all item
   sequences valid for the configuration: parsing the rendered argument list
   returns exactly the items' options with their arguments, the non-option list,
   the option whose required argument is missing, and whether the options ended. *)
Theorem C38_parse_render_roundtrip : forall cs specs items,
  specs_distinct specs = true -> longs_no_eq specs = true ->
  valid (conv_of cs) specs items = true ->
  parse (bits_of cs) specs (render items) = meaning (conv_of cs) items.
Proof. exact parse_render_roundtrip. Qed.
Print Assumptions C38_parse_render_roundtrip.

(* The item grammar is unambiguous: reading the rendering of a valid item
   sequence gives back the items (so "the items of an argument list" is well
   defined). *)
Theorem C38_tokenize_render : forall cv specs, specs_distinct specs = true ->
  forall items stopped, valid_seq cv specs stopped items = true ->
  tokenize cv specs stopped (render items) = items.
Proof. exact tokenize_render. Qed.
Print Assumptions C38_tokenize_render.

(* For EVERY argument list (valid or not): the model of getopt.parse computes
   the reference reading, under every configuration, provided no long name
   contains '='. *)
Theorem C38_parse_is_reference : forall cs specs,
  longs_no_eq specs = true -> forall args,
  parse (bits_of cs) specs args = ref_parse (conv_of cs) specs args.
Proof. exact parse_is_ref. Qed.
Print Assumptions C38_parse_is_reference.

(* unknown options and a missing argument are reported: Parse returns the
   items' options and non-options, "missing argument" iff the last item lacks
   its required argument, and one "unknown option" per unknown option *)
Theorem C38_unknown_and_missing_reported : forall cs specs,
  longs_no_eq specs = true -> forall args,
  Parse (bits_of cs) specs args =
  (flat_map item_opts (tokenize (conv_of cs) specs false args),
   flat_map item_non (tokenize (conv_of cs) specs false args),
   ref_errs (tokenize (conv_of cs) specs false args)).
Proof. exact Parse_is_ref. Qed.
Print Assumptions C38_unknown_and_missing_reported.

(* and, without any hypothesis: an error is reported exactly when an option is
   waiting for its argument at the end or an unknown option was returned *)
Theorem C38_errors_iff : forall cfg specs args,
  let '(opts, non, errs) := Parse cfg specs args in
  (In EMissing errs <-> st_pend (parse cfg specs args) <> None)
  /\ (In EUnknown errs <-> exists o, In o opts /\ o_unknown o = true)
  /\ (errs = [] <-> st_pend (parse cfg specs args) = None /\ Forall (fun o => o_unknown o = false) opts).
Proof. exact errors_iff. Qed.
Print Assumptions C38_errors_iff.

(* "--": with StopAfterDoubleDash it ends the options and everything after it
   is a non-option; without, it is an ordinary non-option word *)
Theorem C38_double_dash_rules : forall cfg specs pre post,
  st_pend (parse cfg specs pre) = None -> st_stop (parse cfg specs pre) = false ->
  (has cfg bitSADD = true ->
     parse cfg specs (pre ++ DD :: post) =
     mkSt (st_opts (parse cfg specs pre)) (st_non (parse cfg specs pre) ++ post) None true)
  /\ (has cfg bitSADD = false ->
     parse cfg specs (pre ++ DD :: post) =
     run cfg specs (mkSt (st_opts (parse cfg specs pre)) (st_non (parse cfg specs pre) ++ [DD]) None
                         (has cfg bitSBFN)) post).
Proof. exact double_dash_rules. Qed.
Print Assumptions C38_double_dash_rules.

(* ... except right after an option that requires an argument: then it is the argument *)
Theorem C38_double_dash_as_argument : forall cfg specs pre post o,
  st_pend (parse cfg specs pre) = Some o ->
  parse cfg specs (pre ++ DD :: post) =
  run cfg specs (mkSt (st_opts (parse cfg specs pre) ++ [set_arg o DD]) (st_non (parse cfg specs pre))
                      None (st_stop (parse cfg specs pre))) post.
Proof. exact double_dash_as_argument. Qed.
Print Assumptions C38_double_dash_as_argument.

(* BSD: the first non-option ends the options; GNU: parsing goes on after it *)
Theorem C38_stop_at_first_nonoption : forall cfg specs pre w post,
  st_pend (parse cfg specs pre) = None -> st_stop (parse cfg specs pre) = false ->
  is_nonopt w = true ->
  (has cfg bitSBFN = true ->
     parse cfg specs (pre ++ w :: post) =
     mkSt (st_opts (parse cfg specs pre)) (st_non (parse cfg specs pre) ++ w :: post) None true)
  /\ (has cfg bitSBFN = false ->
     parse cfg specs (pre ++ w :: post) =
     run cfg specs (mkSt (st_opts (parse cfg specs pre)) (st_non (parse cfg specs pre) ++ [w]) None false) post).
Proof. exact stop_at_first_nonoption. Qed.
Print Assumptions C38_stop_at_first_nonoption.

(* long-only: "-name" is read exactly as "--name", as a long option ... *)
Theorem C38_long_only_rules : forall cfg specs st body,
  has cfg bitLO = true -> st_pend st = None -> st_stop st = false ->
  body <> [] -> prefix1 body = false ->
  step cfg specs st (DASH :: body) = step cfg specs st (DASH :: DASH :: body)
  /\ step cfg specs st (DASH :: body) = after_long st (parseLong body specs).
Proof. exact long_only_one_dash. Qed.
Print Assumptions C38_long_only_rules.

(* ... and no short option is ever produced *)
Theorem C38_long_only_no_short_options : forall cfg specs args, has cfg bitLO = true ->
  all_long (parse cfg specs args).
Proof. exact long_only_no_short_options. Qed.
Print Assumptions C38_long_only_no_short_options.

(* Complete reads all but the last word exactly as parse does; its context is
   the waiting option / "argument" when the parser state says so *)
Theorem C38_complete_prefix_is_parse : forall cfg specs args opts non ctx,
  Complete cfg specs args = Some (opts, non, ctx) ->
  non = st_non (parse cfg specs (removelast args))
  /\ (exists extra, opts = st_opts (parse cfg specs (removelast args)) ++ extra
        /\ (st_pend (parse cfg specs (removelast args)) <> None
            \/ st_stop (parse cfg specs (removelast args)) = true -> extra = []))
  /\ (forall o, st_pend (parse cfg specs (removelast args)) = Some o ->
        ctx = mkCtx OptionArgument (Some (set_arg o (last args []))) [])
  /\ (st_pend (parse cfg specs (removelast args)) = None ->
      st_stop (parse cfg specs (removelast args)) = true ->
        ctx = mkCtx Argument None (last args [])).
Proof. exact complete_prefix_is_parse. Qed.
Print Assumptions C38_complete_prefix_is_parse.

(* Complete panics (model: None) exactly on the empty argument list *)
Theorem C38_complete_defined : forall cfg specs args, Complete cfg specs args = None <-> args = [].
Proof. exact complete_none. Qed.
Print Assumptions C38_complete_defined.

(* A known option that is returned (or still waits for its argument) is one of
   the specs; a long one only of a spec that has a long name ("--=x" is an
   unknown option), a short one only of a spec that has a short name ("-\000"
   is an unknown option). *)
Theorem C38_known_options_from_specs : forall cfg specs args o,
  In o (st_opts (parse cfg specs args)) \/ st_pend (parse cfg specs args) = Some o ->
  o_unknown o = false -> In (o_spec o) specs.
Proof. exact known_options_from_specs. Qed.
Print Assumptions C38_known_options_from_specs.

Theorem C38_long_matches_only_long_specs : forall cfg specs args o,
  In o (st_opts (parse cfg specs args)) \/ st_pend (parse cfg specs args) = Some o ->
  o_unknown o = false -> o_long o = true -> s_long (o_spec o) <> [].
Proof. exact long_matches_only_long_specs. Qed.
Print Assumptions C38_long_matches_only_long_specs.

Theorem C38_short_matches_only_short_specs : forall cfg specs args o,
  In o (st_opts (parse cfg specs args)) \/ st_pend (parse cfg specs args) = Some o ->
  o_unknown o = false -> o_long o = false -> s_short (o_spec o) <> 0%N.
Proof. exact short_matches_only_short_specs. Qed.
Print Assumptions C38_short_matches_only_short_specs.

(* Every argument list is the rendering of its reading: the reference reader
   loses nothing, so "the items of an argument list" always exist. *)
Theorem C38_render_tokenize : forall cv specs args stopped,
  render (tokenize cv specs stopped args) = args.
Proof. exact render_tokenize. Qed.
Print Assumptions C38_render_tokenize.

(* The oracle evaluated on the implementation's Parse observations is sound for
   the Prop-level specification: the argument list is the rendering of an item
   sequence (its reading) and the observation is those items' options,
   non-options and error kinds. *)
Theorem C38_oracle_sound : forall cs specs args opts non errs,
  longs_no_eq specs = true ->
  check_C38 cs specs args (ObsParse opts non errs) = true ->
  Spec_C38_parse (conv_of cs) specs args opts non errs.
Proof. exact check_C38_sound. Qed.
Print Assumptions C38_oracle_sound.

(* ---- non-vacuity: a valid item sequence that uses every form ---- *)
Definition ex_specs : list ospec :=
  [mkSpec 97 [97;108;108] NoArg;            (* -a --all *)
   mkSpec 98 [] NoArg;                      (* -b *)
   mkSpec 111 [111;117;116] ReqArg;         (* -o --out ARG *)
   mkSpec 112 [112;97;114] OptArg;          (* -p --par [ARG] *)
   mkSpec 0 [114;101;113] ReqArg]%N.        (* --req ARG *)
Definition ex_items : list item :=
  [IShorts [mkSpec 97 [97;108;108] NoArg; mkSpec 98 [] NoArg] (EAtt (mkSpec 111 [111;117;116] ReqArg) [102]);
   IShorts [] (EDet (mkSpec 111 [111;117;116] ReqArg) [45;45]);
   INon [120];
   ILong true (mkSpec 112 [112;97;114] OptArg) (LEq [118]);
   ILong true (mkSpec 0 [114;101;113] ReqArg) (LDet [45;97]);
   ILongUnk true [110;111] None;
   IShorts [mkSpec 97 [97;108;108] NoArg] (EUnk 122 [49]);
   IDD; IRest [45;97];
   IRest [45;45]]%N.
Example C38_ex_valid :
  specs_distinct ex_specs = true /\ longs_no_eq ex_specs = true
  /\ valid (conv_of CGNU) ex_specs ex_items = true
  /\ length (render ex_items) = 12%nat
  /\ length (st_opts (parse (bits_of CGNU) ex_specs (render ex_items))) = 9%nat
  /\ st_non (parse (bits_of CGNU) ex_specs (render ex_items)) = [[120]; [45;97]; [45;45]]%N.
Proof. vm_compute. repeat split. Qed.

(* the formerly defective inputs: "--=x" and "-\000" are valid items (unknown
   options) and parse as such, also next to short-only / long-only specs *)
Example C38_ex_no_name_items :
  valid (conv_of CGNU) ex_specs [ILongUnk true [] (Some [120]); IShorts [] (EUnk 0 [])]%N = true
  /\ st_opts (parse (bits_of CGNU) ex_specs [[45;45;61;120]; [45;0]]%N)
     = [unk_long [] [120]; unk_short 0 []]%N.
Proof. vm_compute. split; reflexivity. Qed.
