(* C02 — Errors in prefixes of valid programs are partial, so the REPL keeps
   reading.  Property theorems only; every proof is [exact <lemma>]. *)
From verif Require Import lib.Base lib.Utf8 model.C01_Parse model.C02 proofs.C02_proofs.

(* The oracle on the observed errors / Enter decisions is sound. *)
Theorem C02_oracle_sound : forall src full pre,
  check_C02 src full pre = true -> Spec_C02 src full pre.
Proof. exact check_C02_sound. Qed.
Print Assumptions C02_oracle_sound.

(* For every text, every fuel that suffices and every Unicode table: an error
   of the model is marked partial iff its range starts at the end of the text. *)
Theorem C02_partial_iff_at_end : forall is_print src fuel t es,
  parse_fuel is_print src fuel = Some (t, es) ->
  forall e, In e es -> (e_partial e = true <-> e_from e = length src).
Proof. exact partial_iff_at_end. Qed.
Print Assumptions C02_partial_iff_at_end.

Theorem C02_partial_errors_point_at_eof : forall is_print src fuel t es,
  parse_fuel is_print src fuel = Some (t, es) ->
  partial_at_end (length src) es = true.
Proof. exact partial_errors_point_at_eof. Qed.
Print Assumptions C02_partial_errors_point_at_eof.

(* Enter inserts a newline (isSyntaxComplete = false) iff some error is partial. *)
Theorem C02_enter_agrees : forall is_print src fuel t es,
  parse_fuel is_print src fuel = Some (t, es) ->
  (isSyntaxComplete src es = false <-> exists e, In e es /\ e_partial e = true).
Proof. exact enter_agrees. Qed.
Print Assumptions C02_enter_agrees.
