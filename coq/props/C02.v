(* C02 — Errors in prefixes of valid programs are partial, so the REPL keeps
   reading.  Property theorems only; every proof is [exact <lemma>]. *)
From verif Require Import lib.Base lib.Utf8 model.C01_Parse model.C02 proofs.C01_Utf8_proofs proofs.C02_proofs proofs.C01_sweep proofs.C02_Prefix_proofs.

(* The oracle on the observed errors / Enter decisions is sound. *)
Theorem C02_oracle_sound : forall src full pre,
  check_C02 src full pre = true -> Spec_C02 src full pre.
Proof. exact check_C02_sound. Qed.
Print Assumptions C02_oracle_sound.

(* For every text, every fuel that suffices and every Unicode table: an error
   of the model is marked partial iff its range starts at the end of the text. *)
Theorem C02_partial_iff_at_end : forall is_print src fuel t es,
  parse_fuel is_print src fuel = Some (t, es) ->
  forall e, In e es -> (e_partial e = true <-> e_from e = length src).
Proof. exact partial_iff_at_end. Qed.
Print Assumptions C02_partial_iff_at_end.

Theorem C02_partial_errors_point_at_eof : forall is_print src fuel t es,
  parse_fuel is_print src fuel = Some (t, es) ->
  partial_at_end (length src) es = true.
Proof. exact partial_errors_point_at_eof. Qed.
Print Assumptions C02_partial_errors_point_at_eof.

(* Enter inserts a newline (isSyntaxComplete = false) iff some error is partial. *)
Theorem C02_enter_agrees : forall is_print src fuel t es,
  parse_fuel is_print src fuel = Some (t, es) ->
  (isSyntaxComplete src es = false <-> exists e, In e es /\ e_partial e = true).
Proof. exact enter_agrees. Qed.
Print Assumptions C02_enter_agrees.

(* Prefixes of valid programs, bounded version: for every text of length <= 3
   over 25 metacharacters, of length <= 4 over 16 bytes (incl. a two-byte
   rune), and every double-quoted string holding one escape of each form with
   digits over small sets reaching surrogates, the planes D8000..DFFFF and
   values above U+10FFFF (C01_sweep.escape_texts; every cut inside the escape is
   a prefix) that the model parses without errors, every proper prefix cut at a
   rune boundary has only partial errors, each starting at the end of the
   prefix, and isSyntaxComplete is false when there is one.  The unbounded
   statement is C01_sweep.prefix_errors_partial_statement. *)
Theorem C02_prefix_errors_partial_partial : forall s,
  in_sweep_C02 s -> errs_of s = Some [] -> valid s = true ->
  forall p, In p (proper_prefixes s) ->
  exists es, errs_of p = Some es
    /\ (forall e, In e es -> e_partial e = true /\ e_from e = length p)
    /\ (es <> [] -> isSyntaxComplete p es = false).
Proof. exact sweep_prefix_prop. Qed.
Print Assumptions C02_prefix_errors_partial_partial.

(* Prefixes of valid programs, UNBOUNDED and for ALL valid programs: the
   grammar is G = { p | the model parses p without any error } -- every
   construct of the language (barewords, all string and escape forms,
   variables, wildcards, tilde, captures, lists, maps, lambdas, braced lists,
   indexing, pipelines, redirections incl. fd duplication, options, background
   jobs, comments, line continuations), any bytes incl. invalid UTF-8.
   For every p in G, every Unicode table and every rune boundary L of p (a
   position reached by decoding forward from 0; L <= len p), the prefix p[:L]
   parses (no OutOfFuel), every error of it starts at L and is marked partial,
   and isSyntaxComplete is false when there is one (Enter inserts a newline). *)
Theorem C02_prefix_errors_partial : forall is_print p t,
  parse_model is_print p = Some (t, []) ->
  forall L, boundary p L -> L <= length p ->
  exists t' es, parse_model is_print (firstn L p) = Some (t', es)
    /\ (forall e, In e es -> e_from e = L /\ e_partial e = true)
    /\ (es <> [] -> isSyntaxComplete (firstn L p) es = false).
Proof. exact prefix_errors_partial_full. Qed.
Print Assumptions C02_prefix_errors_partial.

(* the same under the name asked for: G is the set of all error-free programs *)
Theorem C02_prefix_errors_partial_G : forall is_print p, C02_G is_print p ->
  forall L, boundary p L -> L <= length p ->
  forall t' es, parse_model is_print (firstn L p) = Some (t', es) ->
  forall e, In e es -> e_from e = L /\ e_partial e = true.
Proof. exact prefix_errors_partial_on_G. Qed.
Print Assumptions C02_prefix_errors_partial_G.

(* non-vacuity: the prefix "a |" of the valid "a | b" has exactly one error,
   partial, at its end *)
Example C02_example :
  errs_of [97; 32; 124; 32; 98]%N = Some []
  /\ errs_of [97; 32; 124]%N = Some [E 3 3 errShouldBeForm true].
Proof. exact example_prefix. Qed.
