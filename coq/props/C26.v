(* C26 — Concurrent clients of the daemon see a linearizable history.
   Property theorems only; every proof is [exact <lemma>].

   Vocabulary (model/C26.v, proofs/C26_proofs.v): a history is a list of calls
   (client, operation, invocation time, optional result and response time); a
   call's id is its index.  [precedes h a b]: a responded before b was invoked.
   [Linearization st0 h order]: order has no repetition, contains every returned
   call, never places a call before one that precedes it, and replaying it on
   C24's sequential specification from st0 yields every returned result.
   [Linearizable st0 h]: such an order exists. *)
From verif Require Import lib.Base model.C24_F64 model.C24_StoreSpec model.C24 model.C26
  model.C26_retry proofs.C24_proofs proofs.C24_more proofs.C26_proofs proofs.C26_more proofs.C26_exact
  proofs.C26_retry_proofs.
From Coq Require Import Floats.SpecFloat.
Open Scope N_scope.

(* The witness validator run on the real daemon's recorded histories is sound. *)
Theorem C26_check_witness_sound : forall st0 h order,
  check_witness st0 h order = true -> Linearizable st0 h.
Proof. exact check_witness_sound. Qed.
Print Assumptions C26_check_witness_sound.

(* ... and exact: it accepts an order if and only if the order is a
   linearization, so the run-time oracle demands the property and nothing more
   (a valid witness is never rejected). *)
Theorem C26_check_witness_exact : forall st0 h order,
  check_witness st0 h order = true <-> Linearization st0 h order.
Proof. exact check_witness_exact. Qed.
Print Assumptions C26_check_witness_exact.

(* The server model: clients invoke requests, the service executes each request
   as one atomic step of the specification at some moment between its
   invocation and its response (what db.Update / db.View give), replies arrive
   in any order; actions that are not enabled do nothing.  For every
   interleaving (every list of actions, any number of clients and requests,
   requests still pending included) the recorded history is linearizable, and
   the execution order is a linearization (linearization-point argument).
   [sortf] is any sort routine meeting sort.Sort's contract. *)
Theorem C26_server_model_linearizable : forall sortf, sort_contract sortf ->
  forall st0 acts,
  Linearization st0 (v_hist (sv_run sortf st0 acts)) (v_lin (sv_run sortf st0 acts)).
Proof. exact server_model_linearizable. Qed.
Print Assumptions C26_server_model_linearizable.

(* Sequence numbers are unique across all clients: in a linearizable history
   (fewer than 2^63 - seq0 calls) two different returned AddCmd calls, whoever
   issued them, got different numbers. *)
Theorem C26_seq_unique_across_clients : forall st0 h, Linearizable st0 h ->
  s_seq st0 + N.of_nat (length h) < two63 ->
  forall i j ci cj ti tj zi zj tmi tmj, i <> j ->
    nth_error h i = Some ci -> k_op ci = OAddCmd ti -> k_ret ci = Some (RInt zi, tmi) ->
    nth_error h j = Some cj -> k_op cj = OAddCmd tj -> k_ret cj = Some (RInt zj, tmj) ->
    zi <> zj.
Proof. exact seq_unique_across_clients. Qed.
Print Assumptions C26_seq_unique_across_clients.

(* No added command is lost or duplicated: in a linearizable history on a new
   database, (1) an AddCmd of text t that returned number z before a listing
   was invoked is in that listing as (t, z) whenever z is in the listing's range
   and no DelCmd of z occurs anywhere in the history; (2) no listing shows a
   sequence number twice. *)
Theorem C26_no_lost_or_duplicate_add : forall seq0 h,
  Linearizable (spec_init seq0) h ->
  seq0 + N.of_nat (length h) < two63 ->
  (forall i ci t z tmi j cj a b l tmj,
     nth_error h i = Some ci -> k_op ci = OAddCmd t -> k_ret ci = Some (RInt z, tmi) ->
     nth_error h j = Some cj -> k_op cj = OCmds a b -> k_ret cj = Some (RCmds l, tmj) ->
     precedes h i j -> no_delete_of h (u64 z) -> u64 a <= u64 z -> u64 z < u64 b ->
     In (t, z) l)
  /\ (forall j cj a b l tmj,
     nth_error h j = Some cj -> k_op cj = OCmds a b -> k_ret cj = Some (RCmds l, tmj) ->
     NoDup (map snd l)).
Proof. exact no_lost_or_duplicate_add. Qed.
Print Assumptions C26_no_lost_or_duplicate_add.

(* Combined: whatever the interleaving of the server model, numbers are unique
   across clients. *)
Theorem C26_server_model_seq_unique : forall sortf, sort_contract sortf ->
  forall seq0 acts,
  let h := v_hist (sv_run sortf (spec_init seq0) acts) in
  seq0 + N.of_nat (length h) < two63 ->
  forall i j ci cj ti tj zi zj tmi tmj, i <> j ->
    nth_error h i = Some ci -> k_op ci = OAddCmd ti -> k_ret ci = Some (RInt zi, tmi) ->
    nth_error h j = Some cj -> k_op cj = OAddCmd tj -> k_ret cj = Some (RInt zj, tmj) ->
    zi <> zj.
Proof. exact server_model_seq_unique. Qed.
Print Assumptions C26_server_model_seq_unique.

(* The client's retry on ErrShutdown (model/C26_retry.v): a call makes up to
   three attempts; an attempt either fails before anything is written
   (RSendFail: ErrShutdown, the client reconnects and tries again) or is written
   to a live connection (RSend), after which it is never retried; only written
   requests can be executed.  Contract of pkg/rpc used: ErrShutdown means the
   request was not written.  For every interleaving of invocations, failed
   attempts, sends, executions and replies: *)

(* ... the history stays linearizable, *)
Theorem C26_retry_linearizable : forall sortf, sort_contract sortf ->
  forall st0 acts,
  Linearization st0 (v_hist (r_sv (rrun sortf st0 acts))) (v_lin (r_sv (rrun sortf st0 acts))).
Proof. intros sortf H st0 acts. exact (retry_linearizable sortf st0 H acts). Qed.
Print Assumptions C26_retry_linearizable.

(* ... and every request is executed at most once: no request is executed
   twice; none is written to a connection twice; only written requests are
   executed; a call fails at most three times and a written one fewer; and the
   bucket sequence has advanced by exactly the number of executed AddCmd
   requests — a retried AddCmd never adds its command twice. *)
Theorem C26_retry_at_most_once : forall sortf st0 acts,
  let s := rrun sortf st0 acts in
  NoDup (v_lin (r_sv s))
  /\ NoDup (r_sent s)
  /\ (forall i, In i (v_lin (r_sv s)) -> In i (r_sent s))
  /\ (forall i, (attempts_failed i s <= max_attempts)%nat
                /\ (In i (r_sent s) -> (attempts_failed i s < max_attempts)%nat))
  /\ (s_seq st0 + N.of_nat (length (v_hist (r_sv s))) < two64 ->
      s_seq (v_st (r_sv s)) = s_seq st0 + N.of_nat (length (adds_executed (r_sv s)))).
Proof. exact retry_at_most_once. Qed.
Print Assumptions C26_retry_at_most_once.

(* an AddCmd whose first two attempts hit a shut-down connection is executed
   once; a fourth attempt, a second send and an execution before the send do
   nothing *)
Example C26_example_retry :
  let s := rrun isort_desc (spec_init 0)
             [RInvoke 1 (OAddCmd [97]); RExec 0; RSendFail 0; RSendFail 0; RSend 0; RSend 0;
              RSendFail 0; RExec 0; RExec 0; RRespond 0; RInvoke 1 ONextCmdSeq; RSend 1; RExec 1; RRespond 1] in
  v_lin (r_sv s) = [0; 1]%nat /\ r_sent s = [1; 0]%nat /\ r_failed s = [0; 0]%nat
  /\ map k_ret (v_hist (r_sv s)) = [Some (RInt 1, 2); Some (RInt 2, 5)]
  /\ s_seq (v_st (r_sv s)) = 1.
Proof. vm_compute. repeat split; reflexivity. Qed.

(* Non-vacuity.  Two clients add concurrently, a third lists afterwards. *)
Definition ex_h : history :=
  [ mkCall 1 (OAddCmd [97]) 0 (Some (RInt 2, 10));
    mkCall 2 (OAddCmd [98]) 1 (Some (RInt 1, 9));
    mkCall 3 (OCmds 0 (-1)) 11 (Some (RCmds [([98], 1%Z); ([97], 2%Z)], 12)) ].

(* the order b, a, listing is accepted; a, b, listing is not (results would be
   swapped); listing first is not (it was invoked after both had returned) *)
Example C26_example_witness :
  check_witness (spec_init 0) ex_h [1; 0; 2]%nat = true
  /\ check_witness (spec_init 0) ex_h [0; 1; 2]%nat = false
  /\ check_witness (spec_init 0) ex_h [2; 1; 0]%nat = false.
Proof. vm_compute. repeat split; reflexivity. Qed.

(* a history in which two clients got the same number has no valid witness
   among the orders of its calls *)
Definition ex_dup : history :=
  [ mkCall 1 (OAddCmd [97]) 0 (Some (RInt 1, 10));
    mkCall 2 (OAddCmd [98]) 1 (Some (RInt 1, 9)) ].
Example C26_example_duplicate_number_rejected :
  check_witness (spec_init 0) ex_dup [0; 1]%nat = false
  /\ check_witness (spec_init 0) ex_dup [1; 0]%nat = false.
Proof. vm_compute. split; reflexivity. Qed.

(* the server model run on an interleaving of two clients *)
Example C26_example_server_run :
  let s := sv_run isort_desc (spec_init 0)
             [AInvoke 1 (OAddCmd [97]); AInvoke 2 (OAddCmd [98]); AExec 1; AExec 0;
              ARespond 0; ARespond 1; AInvoke 1 ONextCmdSeq; AExec 2; ARespond 2] in
  v_lin s = [1; 0; 2]%nat
  /\ map k_ret (v_hist s) = [Some (RInt 2, 4); Some (RInt 1, 5); Some (RInt 3, 8)]
  /\ check_witness (spec_init 0) (v_hist s) (v_lin s) = true.
Proof. vm_compute. repeat split; reflexivity. Qed.
