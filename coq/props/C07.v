From verif Require Import lib.Base model.C07.
Example C07_stub : popCount 7 = 3.
Proof. reflexivity. Qed.
