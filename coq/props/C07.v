(* C07 — Maps are immutable dictionaries, including under hash collisions.
   Property theorems only; every proof is [exact <lemma>].

   The model (model/C07.v) is the hash array mapped trie of
   pkg/persistent/hashmap: bitmap / array / collision nodes, the nil-key slot,
   count and iteration.  All theorems are for every key type with
   [KeyOK eqk hash]: eq is an equivalence, eq keys hash alike, hashes are
   below 2^32 (Go's uint32).  No bound on the number of keys, on the length of
   histories, or on how hashes collide. *)
From Coq Require Import Permutation.
From verif Require Import lib.Base model.C07 proofs.C07_swar proofs.C07_lists proofs.C07_node
  proofs.C07_proofs.

(* The SWAR popCount of hashmap.go counts the set bits of every uint32
   ([rank u 32 0] = number of i < 32 with bit i of u set). *)
Theorem C07_swar_popcount_correct : forall u, (u < 2 ^ 32)%N ->
  popCount u = N.of_nat (rank u 32 0).
Proof. exact popCount_correct. Qed.
Print Assumptions C07_swar_popcount_correct.

(* Invariant: the empty map is well formed, and Assoc / Dissoc of a well-formed
   map never fail (fuel 8 suffices, no index is out of range) and give a
   well-formed map.  [MapInv] = trie invariant of the root (hash prefixes along
   the path, bitmap popcount = number of entries, array nodes count their
   children and have at least nodeCap/4 of them, collision entries share the
   hash and are pairwise non-eq, no empty non-root node, bitmap and array nodes
   only on shifts <= 30 resp. 25) plus count = number of iterated pairs. *)
Theorem C07_invariant : forall K V (eqk : K -> K -> bool) (hash : K -> N), KeyOK eqk hash ->
  MapInv K V eqk hash empty
  /\ (forall m ko v, MapInv K V eqk hash m ->
        exists m', Assoc K V eqk hash m ko v = Some m' /\ MapInv K V eqk hash m')
  /\ (forall m ko, MapInv K V eqk hash m ->
        exists m', Dissoc K V eqk hash m ko = Some m' /\ MapInv K V eqk hash m').
Proof. exact (fun K V => @invariant_f K V). Qed.
Print Assumptions C07_invariant.

(* Lookup after insertion / replacement. *)
Theorem C07_find_assoc : forall K V (eqk : K -> K -> bool) (hash : K -> N), KeyOK eqk hash ->
  forall m ko v ko', MapInv K V eqk hash m ->
  exists m', Assoc K V eqk hash m ko v = Some m' /\ MapInv K V eqk hash m' /\
    Index K V eqk hash m' ko' =
      if eqo eqk ko' ko then FRes (Some v) else Index K V eqk hash m ko'.
Proof. exact (fun K V => @find_assoc_f K V). Qed.
Print Assumptions C07_find_assoc.

(* Lookup after deletion. *)
Theorem C07_find_without : forall K V (eqk : K -> K -> bool) (hash : K -> N), KeyOK eqk hash ->
  forall m ko ko', MapInv K V eqk hash m ->
  exists m', Dissoc K V eqk hash m ko = Some m' /\ MapInv K V eqk hash m' /\
    Index K V eqk hash m' ko' =
      if eqo eqk ko' ko then FRes None else Index K V eqk hash m ko'.
Proof. exact (fun K V => @find_without_f K V). Qed.
Print Assumptions C07_find_without.

(* The reported size is exact. *)
Theorem C07_count_exact : forall K V (eqk : K -> K -> bool) (hash : K -> N),
  forall m, MapInv K V eqk hash m -> Len m = Z.of_nat (length (Iter m)).
Proof. exact (fun K V => @count_exact_f K V). Qed.
Print Assumptions C07_count_exact.

(* Iteration yields each entry exactly once: no key twice, and a key is
   found exactly when it is iterated, with the iterated value. *)
Theorem C07_iter_once : forall K V (eqk : K -> K -> bool) (hash : K -> N), KeyOK eqk hash ->
  forall m, MapInv K V eqk hash m ->
  NoDupK (eqo eqk) (Iter m)
  /\ forall ko, Index K V eqk hash m ko = FRes (s_lookup (eqo eqk) ko (Iter m)).
Proof. exact (fun K V => @iter_once_f K V). Qed.
Print Assumptions C07_iter_once.

(* ... and the iteration after an operation is a permutation of the
   reference dictionary operation on the iteration before. *)
Theorem C07_iter_assoc_perm : forall K V (eqk : K -> K -> bool) (hash : K -> N), KeyOK eqk hash ->
  forall m ko v, MapInv K V eqk hash m ->
  exists m', Assoc K V eqk hash m ko v = Some m' /\ MapInv K V eqk hash m'
    /\ Permutation (Iter m') ((ko, v) :: s_remove (eqo eqk) ko (Iter m)).
Proof. exact (fun K V => @inv_assoc_f K V). Qed.
Print Assumptions C07_iter_assoc_perm.

Theorem C07_iter_dissoc_perm : forall K V (eqk : K -> K -> bool) (hash : K -> N), KeyOK eqk hash ->
  forall m ko, MapInv K V eqk hash m ->
  exists m', Dissoc K V eqk hash m ko = Some m' /\ MapInv K V eqk hash m'
    /\ Permutation (Iter m') (s_remove (eqo eqk) ko (Iter m)).
Proof. exact (fun K V => @inv_dissoc_f K V). Qed.
Print Assumptions C07_iter_dissoc_perm.

(* Main theorem.  For every history of insertions, replacements and deletions
   over a version store (any operation may start from any existing version,
   nil key included), the model never fails, and every version agrees with
   the reference dictionary: size, every lookup, and the iteration is a
   duplicate-free permutation of the reference entries ([VSpec]). *)
Theorem C07_history_refines_map : forall K V (eqk : K -> K -> bool) (hash : K -> N), KeyOK eqk hash ->
  forall ops : list (op K V),
  exists ms, m_run eqk hash [empty] ops = Some ms
    /\ Forall2 (fun m s =>
         Len m = Z.of_nat (length s)
         /\ (forall ko, Index K V eqk hash m ko = FRes (s_lookup (eqo eqk) ko s))
         /\ Permutation (Iter m) s
         /\ NoDupK (eqo eqk) (Iter m)) ms (s_run eqk [[]] ops).
Proof. exact (fun K V => @history_refines_f K V). Qed.
Print Assumptions C07_history_refines_map.

(* Earlier versions are never changed: whatever is run afterwards, version i
   of the store is the value it was (values are immutable terms; together with
   the previous theorem every observation of it stays what it was). *)
Theorem C07_old_versions_unchanged : forall K V (eqk : K -> K -> bool) (hash : K -> N),
  forall (ops : list (op K V)) ms ms', m_run eqk hash ms ops = Some ms' ->
  forall i m, nth_error ms i = Some m -> nth_error ms' i = Some m.
Proof. exact (fun K V => @old_versions_unchanged_f K V). Qed.
Print Assumptions C07_old_versions_unchanged.

(* Why fuel 8 is enough for createNode: two different uint32 hashes differ in
   one of the chunks at shifts 0, 5, .., 30. *)
Theorem C07_distinct_hashes_differ_in_a_chunk : forall h1 h2,
  (h1 < 2 ^ 32)%N -> (h2 < 2 ^ 32)%N -> h1 <> h2 ->
  exists l, (l < 7)%N /\ chunk (5 * l) h1 <> chunk (5 * l) h2.
Proof. exact distinct_hashes_differ_in_a_chunk. Qed.
Print Assumptions C07_distinct_hashes_differ_in_a_chunk.

(* The oracle evaluated on the implementation's observations implies the
   specification: every observed version (at creation and at every later
   re-observation that differed) has the reference size, the reference lookup
   results on the whole key universe, and an iteration without repeated keys,
   of the reference length, all of whose pairs are reference entries. *)
Theorem C07_oracle_sound : forall hs ops obs late, check_C07 hs ops obs late = true ->
  Forall2 (VersionSpec hs) (s_run N.eqb [[]] ops) obs
  /\ (forall i o, In (i, o) late ->
        exists s, nth_error (s_run N.eqb [[]] ops) i = Some s /\ VersionSpec hs s o).
Proof. exact check_C07_sound. Qed.
Print Assumptions C07_oracle_sound.

(* The key universe of the correspondence cases satisfies the hypotheses. *)
Theorem C07_instance_keyok : forall hs, Forall (fun h => (h < 2 ^ 32)%N) hs ->
  KeyOK N.eqb (hash_of hs).
Proof. exact instance_keyok. Qed.
Print Assumptions C07_instance_keyok.

(* Non-vacuity: 20 keys with one full hash; then 40 keys spread over one
   level-1 node below a shared 5-bit prefix: collision node, unpack at 16,
   pack at 8, as computed by the model. *)
Example C07_ex_collision :
  let hs := repeat 7%N 20 in
  let ops := map (fun i => OAssoc i (Some (N.of_nat i)) (N.of_nat i)) (seq 0 20) in
  match m_run N.eqb (hash_of hs) [empty] ops with
  | Some ms => map (fun m => Len m) ms = map Z.of_nat (seq 0 21)
               /\ match root (last ms empty) with
                  | Bitmap 128 [Child (Collision 7 kvs)] => length kvs = 20%nat
                  | _ => False end
  | None => False
  end.
Proof. vm_compute. split; reflexivity. Qed.

Example C07_ex_unpack_pack :
  let hs := map (fun i => (3 + 32 * N.of_nat i)%N) (seq 0 32) in
  let ins := map (fun i => OAssoc i (Some (N.of_nat i)) 1%N) (seq 0 17) in
  let del := map (fun i => ODissoc (17 + i) (Some (N.of_nat i))) (seq 0 10) in
  match m_run N.eqb (hash_of hs) [empty] (ins ++ del) with
  | Some ms =>
    (match nth_error ms 16 with Some (mkMap 16 (Bitmap 8 [Child (Bitmap _ es)]) None) => length es = 16%nat | _ => False end)
    /\ (match nth_error ms 17 with Some (mkMap 17 (Bitmap 8 [Child (Array 17 _)]) None) => True | _ => False end)
    /\ (match nth_error ms 26 with Some (mkMap 8 (Bitmap 8 [Child (Array 8 _)]) None) => True | _ => False end)
    /\ (match nth_error ms 27 with Some (mkMap 7 (Bitmap 8 [Child (Bitmap _ es)]) None) => length es = 7%nat | _ => False end)
  | None => False
  end.
Proof. vm_compute. repeat split; reflexivity. Qed.
