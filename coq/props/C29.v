(* C29 — History navigation visits matching commands newest-first, then back.
   Property theorems only; every proof is [exact <lemma>].

   Specification (model/C29.v): the session's view = commands stored before the
   session started ++ the session's own commands at cursor creation; the visit
   list = the view's commands with the prefix, newest first, de-duplicated to the
   first (most recent) occurrence of each text when asked; a cursor is a position
   in that list, saturating at "past the newest end" (-1) and "past the oldest
   end" (length); Get reports end of history at both.  [check_C29] demands exactly
   [pos_run] of the observed walk; it is evaluated on every observation of
   histutil.NewHybridStore / NewDedupCursor.

   Proved here for all inputs: the facts about the specification that make it
   say what the property says, the refinement of the specification by the
   in-memory cursor for every walk (the whole navigation when there is no
   database, histutil.NewHybridStore(nil), and the session half of the hybrid
   cursor), and that additions by other sessions do not change a backward step
   of the database cursor.

   NOT proved (time): the planned full-strength statements over the composed
   model, for every database state db_i that extends the session-start state by
   additions numbered >= upper, every prefix and every walk w:
     C29_walk_back_visits_matches_newest_first / C29_forward_retraces /
     C29_end_of_history_both_ends / C29_concurrent_adds_invisible :
       scenario pre mid p false w = pos_run (visit_list (stored ++ session) p false) (-1) (map snd w)
     C29_dedup_first_occurrence_only :
       scenario pre mid p true w = pos_run (visit_list (stored ++ session) p true) (-1) (map snd w)
   They need the simulation lemmas for dbStoreCursor (over sp_prev/sp_next of the
   C24 specification), the hybrid hand-off and the dedup stack; the composed model
   is compared with the specification and with the implementation on every run
   instead.  The statements below carry the suffix _partial where they are the
   restriction of a planned theorem. *)
From verif Require Import lib.Base model.C24_F64 model.C24_StoreSpec model.C29 proofs.C29_proofs.
Open Scope Z_scope.

(* Every walk (any sequence of Prev/Next) of a fresh in-memory cursor over any
   command list returns exactly what the specification returns. *)
Theorem C29_mem_walk_refines_spec : forall cmds p ms,
  mem_run (mem_cursor cmds p) ms = pos_run (visit_list cmds p false) (-1) ms.
Proof. exact mem_cursor_walk. Qed.
Print Assumptions C29_mem_walk_refines_spec.

(* k steps back visit the k newest matching commands, newest first
   (in-memory cursor; full statement for the hybrid cursor: see above). *)
Theorem C29_walk_back_visits_matches_newest_first_partial : forall cmds p k,
  (k <= length (filter (hmatch p) cmds))%nat ->
  mem_run (mem_cursor cmds p) (repeat MPrev k)
  = map OCmd (firstn k (rev (filter (hmatch p) cmds))).
Proof. exact mem_walk_back. Qed.
Print Assumptions C29_walk_back_visits_matches_newest_first_partial.

(* the same fact for the specification itself, which is what the oracle demands
   of the hybrid and de-duplicating cursors *)
Theorem C29_spec_walk_back : forall l k, (k <= length l)%nat ->
  pos_run l (-1) (repeat MPrev k) = map OCmd (firstn k l).
Proof. exact pos_walk_back. Qed.
Print Assumptions C29_spec_walk_back.

(* A step forward after a step back returns to the entry left (positions of the
   specification; by C29_mem_walk_refines_spec also of the in-memory cursor). *)
Theorem C29_forward_retraces_partial : forall n k, -1 <= k < n ->
  pos_move n MNext (pos_move n MPrev k) = k.
Proof. exact pos_forward_retraces. Qed.
Print Assumptions C29_forward_retraces_partial.

(* Both ends report end of history, and stepping further past an end stays there. *)
Theorem C29_end_of_history_both_ends_partial : forall l,
  (pos_get l (-1) = OEnd /\ pos_get l (Z.of_nat (length l)) = OEnd)
  /\ (pos_move (Z.of_nat (length l)) MPrev (Z.of_nat (length l)) = Z.of_nat (length l)
      /\ pos_move (Z.of_nat (length l)) MNext (-1) = -1).
Proof. exact pos_ends. Qed.
Print Assumptions C29_end_of_history_both_ends_partial.

(* Commands appended to the database with numbers at or above the cursor's
   position (as all additions after the session start are, the position never
   exceeding the frozen upper bound) do not change a backward step. *)
Theorem C29_concurrent_adds_invisible_partial : forall db later c,
  (forall e, In e later -> (u64 (dc_seq c) <= fst e)%N) ->
  db_prev (mkS (s_seq db) (s_log db ++ later) (s_dirs db)) c = db_prev db c.
Proof. exact db_prev_ignores_later. Qed.
Print Assumptions C29_concurrent_adds_invisible_partial.

(* The de-duplicated visit list contains every text once, only entries of the
   plain list, and for every entry of the plain list an entry with its text. *)
Theorem C29_dedup_first_occurrence_only_partial : forall l,
  NoDup (map fst (dedup_first [] l))
  /\ (forall c, In c (dedup_first [] l) -> In c l)
  /\ (forall c, In c l -> exists c', In c' (dedup_first [] l) /\ fst c' = fst c).
Proof. exact dedup_first_summary. Qed.
Print Assumptions C29_dedup_first_occurrence_only_partial.

(* Non-vacuity: a stored history with a deletion, a session command, a command
   of another session added during the walk; prefix "e"; with de-duplication. *)
Example C29_example_walk :
  scenario [OAddCmd [101%N]; OAddCmd [108%N]; OAddCmd [101%N; 99%N]; ODelCmd 2; OAddCmd [101%N]]
           [ESess [101%N; 99%N]] [101%N] true
           [([], MPrev); ([EOther [101%N; 120%N]], MPrev); ([], MPrev); ([], MNext); ([], MNext); ([], MNext)]
  = [OCmd ([101%N; 99%N], 5); OCmd ([101%N], 4); OEnd; OCmd ([101%N], 4); OCmd ([101%N; 99%N], 5); OEnd].
Proof. vm_compute. reflexivity. Qed.

Example C29_example_oracle :
  check_C29 [([101%N], 1); ([101%N; 99%N], 3); ([101%N], 4)] [([101%N; 99%N], 5)] [101%N] true
    [MPrev; MPrev; MPrev; MNext; MNext; MNext]
    [OCmd ([101%N; 99%N], 5); OCmd ([101%N], 4); OEnd; OCmd ([101%N], 4); OCmd ([101%N; 99%N], 5); OEnd] = true.
Proof. vm_compute. reflexivity. Qed.
