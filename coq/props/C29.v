(* C29 — History navigation visits matching commands newest-first, then back.
   Property theorems only; every proof is [exact <lemma>].

   Model (model/C29.v): memStoreCursor, dbStoreCursor over the sequential store
   specification of C24 with the upper bound frozen at session start,
   hybridStoreCursor (hand-off between session and stored part), dedupCursor
   (stack).  [scenario pre mid p dedup w]: the store operations [pre] before the
   session, NewHybridStore, the additions [mid] (by this session through the
   hybrid store, or by other sessions directly to the database) before the cursor
   is created with prefix [p] (wrapped by NewDedupCursor when [dedup]), then the
   walk [w]: each step = the additions (by this or other sessions) that happen
   before it, and Prev / Next / nothing; the result lists Get after every step.

   Specification: [session_view pre mid] = the commands in the database when the
   session started (numbers below the frozen upper bound) ++ the session's own
   commands at cursor creation; [visit_list view p dedup] = the view's commands
   with the prefix, newest first, reduced to the first (most recent) occurrence of
   each text when [dedup]; a cursor is a position in it saturating at both ends
   ([pos_run]).

   All theorems hold for every stored history, all additions by this and other
   sessions before and during the walk, every prefix and every walk.  The one
   hypothesis bounds the sequence numbers by 2^63 (Go int). *)
From verif Require Import lib.Base model.C24_F64 model.C24_StoreSpec model.C29
  proofs.C29_proofs proofs.C29_sim.
Open Scope Z_scope.

(* The composed model refines the specification: every walk, with or without
   de-duplication, under every interleaving of additions, returns exactly what
   the position cursor over the visit list of the session's view returns. *)
Theorem C29_walk_refines_spec : forall pre mid p dedup w,
  (N.of_nat (length pre) + N.of_nat (length mid) + N.of_nat (evcount w) + 2 < two63)%N ->
  scenario pre mid p dedup w
  = pos_run (visit_list (session_view pre mid) p dedup) (-1) (map snd w).
Proof. exact scenario_refines_spec. Qed.
Print Assumptions C29_walk_refines_spec.

(* k steps back return the k newest matching commands of the view, newest first
   (whatever is added meanwhile). *)
Theorem C29_walk_back_visits_matches_newest_first : forall pre mid p w,
  (N.of_nat (length pre) + N.of_nat (length mid) + N.of_nat (evcount w) + 2 < two63)%N ->
  forall k, map snd w = repeat MPrev k ->
  (k <= length (filter (hmatch p) (session_view pre mid)))%nat ->
  scenario pre mid p false w
  = map OCmd (firstn k (rev (filter (hmatch p) (session_view pre mid)))).
Proof. exact walk_back_newest_first. Qed.
Print Assumptions C29_walk_back_visits_matches_newest_first.

(* Whatever a walk returns is a matching command of the session's view: commands
   added by other sessions after the session start (and anything added after the
   cursor was created) never appear, in any walk. *)
Theorem C29_concurrent_adds_invisible : forall pre mid p w,
  (N.of_nat (length pre) + N.of_nat (length mid) + N.of_nat (evcount w) + 2 < two63)%N ->
  forall dedup c, In (OCmd c) (scenario pre mid p dedup w) ->
  In c (session_view pre mid) /\ hmatch p c = true.
Proof. exact concurrent_adds_invisible. Qed.
Print Assumptions C29_concurrent_adds_invisible.

(* With de-duplication (the stack model), k steps back return the first k entries
   of the newest-first list reduced to first occurrences ... *)
Theorem C29_dedup_first_occurrence_only : forall pre mid p w,
  (N.of_nat (length pre) + N.of_nat (length mid) + N.of_nat (evcount w) + 2 < two63)%N ->
  forall k, map snd w = repeat MPrev k ->
  (k <= length (dedup_first [] (rev (filter (hmatch p) (session_view pre mid)))))%nat ->
  scenario pre mid p true w
  = map OCmd (firstn k (dedup_first [] (rev (filter (hmatch p) (session_view pre mid))))).
Proof. exact walk_back_dedup. Qed.
Print Assumptions C29_dedup_first_occurrence_only.

(* ... and that list has every text once, contains only entries of the plain
   list, and has an entry for every text of the plain list ([dedup_first] keeps an
   entry iff no earlier = more recent entry has its text). *)
Theorem C29_dedup_list_first_occurrences : forall l,
  NoDup (map fst (dedup_first [] l))
  /\ (forall c, In c (dedup_first [] l) -> In c l)
  /\ (forall c, In c l -> exists c', In c' (dedup_first [] l) /\ fst c' = fst c).
Proof. exact dedup_first_summary. Qed.
Print Assumptions C29_dedup_list_first_occurrences.

(* Walking forward retraces: after k steps back, j <= k steps forward return the
   entries k-2, k-3, ..., 0 and then end of history at the newest end. *)
Theorem C29_forward_retraces : forall pre mid p w,
  (N.of_nat (length pre) + N.of_nat (length mid) + N.of_nat (evcount w) + 2 < two63)%N ->
  forall dedup k j, map snd w = repeat MPrev k ++ repeat MNext j ->
  (1 <= k <= length (visit_list (session_view pre mid) p dedup))%nat -> (j <= k)%nat ->
  scenario pre mid p dedup w
  = map OCmd (firstn k (visit_list (session_view pre mid) p dedup))
    ++ firstn j (map OCmd (rev (firstn (k - 1) (visit_list (session_view pre mid) p dedup))) ++ [OEnd]).
Proof. exact forward_retraces. Qed.
Print Assumptions C29_forward_retraces.

(* Stepping back past the oldest entry reports end of history and keeps
   reporting it however often repeated; stepping forward at the newest end
   likewise. *)
Theorem C29_end_of_history_both_ends : forall pre mid p w,
  (N.of_nat (length pre) + N.of_nat (length mid) + N.of_nat (evcount w) + 2 < two63)%N ->
  forall dedup j,
  (map snd w = repeat MPrev (length (visit_list (session_view pre mid) p dedup) + j) ->
   scenario pre mid p dedup w
   = map OCmd (visit_list (session_view pre mid) p dedup) ++ repeat OEnd j)
  /\ (map snd w = repeat MNext j -> scenario pre mid p dedup w = repeat OEnd j).
Proof. exact end_of_history_both_ends. Qed.
Print Assumptions C29_end_of_history_both_ends.

(* Without a database (histutil.NewHybridStore(nil)) the store is the in-memory
   one: every walk of its cursor refines the same specification. *)
Theorem C29_mem_walk_refines_spec : forall cmds p ms,
  mem_run (mem_cursor cmds p) ms = pos_run (visit_list cmds p false) (-1) ms.
Proof. exact mem_cursor_walk. Qed.
Print Assumptions C29_mem_walk_refines_spec.

(* Non-vacuity: a stored history with a deletion, a session command, a command
   of another session added during the walk; prefix "e"; with de-duplication. *)
Example C29_example_walk :
  scenario [OAddCmd [101%N]; OAddCmd [108%N]; OAddCmd [101%N; 99%N]; ODelCmd 2; OAddCmd [101%N]]
           [ESess [101%N; 99%N]] [101%N] true
           [([], MPrev); ([EOther [101%N; 120%N]], MPrev); ([], MPrev); ([], MNext); ([], MNext); ([], MNext)]
  = [OCmd ([101%N; 99%N], 5); OCmd ([101%N], 4); OEnd; OCmd ([101%N], 4); OCmd ([101%N; 99%N], 5); OEnd].
Proof. vm_compute. reflexivity. Qed.

Example C29_example_oracle :
  check_C29 [([101%N], 1); ([101%N; 99%N], 3); ([101%N], 4)] [([101%N; 99%N], 5)] [101%N] true
    [MPrev; MPrev; MPrev; MNext; MNext; MNext]
    [OCmd ([101%N; 99%N], 5); OCmd ([101%N], 4); OEnd; OCmd ([101%N], 4); OCmd ([101%N; 99%N], 5); OEnd] = true.
Proof. vm_compute. reflexivity. Qed.
