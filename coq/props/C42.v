(* C42 -- Redirections route bytes and values exactly as specified.
   Property theorems only; every proof is [exact <lemma>]. *)
From verif Require Import lib.Base model.C42_Ports model.C42 proofs.C42_proofs.
Open Scope nat_scope.

(* > truncates, >> appends, <> opens for reading and writing without truncating
   (bytes overwrite in place from offset 0), < gives a descriptor that cannot be
   written: for every file system, path, prior content and byte string. *)
Theorem C42_truncate_vs_append_vs_rdwr :
  forall s p m i s1 b,
    open_file s p (makeFlag m) = Some (i, s1) ->
    match m with
    | MRead => write_bytes s1 (Some (HOfd i)) b = Exc EIO s1 /\ content s1 p = content s p
    | MWrite => exists s2, write_bytes s1 (Some (HOfd i)) b = Ok s2 /\ fs_get (s_fs s2) p = Some b
    | MAppend => exists s2, write_bytes s1 (Some (HOfd i)) b = Ok s2
                            /\ fs_get (s_fs s2) p = Some (content s p ++ b)
    | MRdWr => exists s2, write_bytes s1 (Some (HOfd i)) b = Ok s2
                          /\ fs_get (s_fs s2) p = Some (b ++ skipn (length b) (content s p))
    end.
Proof. exact truncate_vs_append_vs_rdwr. Qed.
Print Assumptions C42_truncate_vs_append_vs_rdwr.

(* n>&m: afterwards fd n and fd m hold the very port that m held before (the
   same file object, hence the same offset), for every table and state. *)
Theorem C42_dup_shares_port :
  forall objs x md n m x',
    exec_redir Impl objs x (mkRedir (Some (FdNum (Z.of_nat n))) md (SFd (FdNum (Z.of_nat m)))) = ROk x' ->
    exists p, tget (fs_T x) m = Some p /\ tget (fs_T x') n = Some p /\ tget (fs_T x') m = Some p.
Proof. exact dup_shares_port. Qed.
Print Assumptions C42_dup_shares_port.

(* n>&- installs the closed port; writing a value to it raises (and writing
   bytes fails) in every state. *)
Theorem C42_closed_port_value_write_raises :
  forall objs x dst md n x',
    eval_dst (mkRedir dst md SClose) = Some (Z.of_nat n) ->
    exec_redir Impl objs x (mkRedir dst md SClose) = ROk x' ->
    tget (fs_T x') n = Some closed_port
    /\ forall s v b, write_value s (p_chan closed_port) v = Exc EValueOut s
                     /\ write_bytes s (p_file closed_port) b = Exc EIO s.
Proof.
  exact (fun objs x dst md n x' Hd H =>
           conj (close_installs_closed_port objs x dst md n x' Hd H) closed_port_writes).
Qed.
Print Assumptions C42_closed_port_value_write_raises.

(* Invalid file descriptors raise an exception.
   FULL STATEMENT (false for the code as it is, see the _refuted theorems):
     forall objs x r, (the destination of r is negative, or its source is &v with
       v negative, or v names an absent port) ->
       exists x', exec_redir Impl objs x r = RExc EInvalidFD x'.
   Proved: the part for source fds >= 0 naming absent ports (both flavours), and
   the full statement for the reference semantics. *)
Theorem C42_invalid_fd_raises_partial :
  forall fl objs x r d v,
    eval_dst r = Some (Z.of_nat d) ->
    r_src r = SFd (FdNum (Z.of_nat v)) ->
    tget (fs_T x) v = None ->
    exists x', exec_redir fl objs x r = RExc EInvalidFD x'.
Proof. exact invalid_src_fd_raises. Qed.
Print Assumptions C42_invalid_fd_raises_partial.

Theorem C42_invalid_fd_raises_in_reference_semantics :
  forall objs x r,
    (exists dz, eval_dst r = Some dz /\ (dz < 0)%Z)
    \/ (exists dz z, eval_dst r = Some dz /\ (0 <= dz)%Z /\ r_src r = SFd (FdNum z) /\ (z < 0)%Z) ->
    exists x', exec_redir Spec objs x r = RExc EInvalidFD x'.
Proof. exact spec_negative_fd_raises. Qed.
Print Assumptions C42_invalid_fd_raises_in_reference_semantics.

(* echo hi -1>f : growAccess indexes the port table with -1 and the process dies *)
Theorem C42_invalid_fd_raises_negative_dst_refuted :
  exists objs x r, eval_dst r = Some (-1)%Z /\ exec_redir Impl objs x r = RCrash.
Proof. exact negative_dst_refuted. Qed.
Print Assumptions C42_invalid_fd_raises_negative_dst_refuted.

(* echo hi >&-2 : fm.ports[-2] *)
Theorem C42_invalid_fd_raises_negative_src_refuted :
  exists objs x r, r_src r = SFd (FdNum (-2)) /\ exec_redir Impl objs x r = RCrash.
Proof. exact negative_src_refuted. Qed.
Print Assumptions C42_invalid_fd_raises_negative_src_refuted.

(* nop >&-1 : the invalid fd -1 is silently taken as "close", no exception *)
Theorem C42_invalid_fd_raises_minus_one_refuted :
  exists x', exec_redir Impl [] x0 (mkRedir None MWrite (SFd (FdNum (-1)))) = ROk x'
             /\ tget (fs_T x') 1 = Some closed_port.
Proof. exact minus_one_src_fd_closes. Qed.
Print Assumptions C42_invalid_fd_raises_minus_one_refuted.

(* a destination fd beyond the table makes the table dst+1 entries long: there
   is no upper bound on what one redirection allocates *)
Theorem C42_huge_fd_allocates :
  forall objs x r d x',
    eval_dst r = Some (Z.of_nat d) -> exec_redir Impl objs x r = ROk x' ->
    length (fs_T x) <= d -> length (fs_T x') = S d.
Proof. exact huge_fd_allocates. Qed.
Print Assumptions C42_huge_fd_allocates.

(* the reference semantics never panics in a redirection *)
Theorem C42_reference_redirection_never_crashes :
  forall objs x r, exec_redir Spec objs x r <> RCrash.
Proof. exact spec_redir_never_crashes. Qed.
Print Assumptions C42_reference_redirection_never_crashes.

(* the oracle evaluated on the implementation's observations is sound *)
Theorem C42_oracle_sound :
  forall fs0 env extra p o, check_C42 fs0 env extra p o = true -> Spec_C42 fs0 env extra p o.
Proof. exact check_C42_sound. Qed.
Print Assumptions C42_oracle_sound.

(* non-vacuity: the language reference's example  f >log 2>&1  *)
From Coq Require Import String.
Example C42_reference_example :
  observe Impl [None] [] []
    (PForm (Form (CBlock [Form (CEcho (hx "6f7574"%string)) [];
                          Form (CEcho (hx "657272"%string)) [mkRedir None MWrite (SFd (FdNum 2))]])
                 [mkRedir None MWrite (SFile 0); mkRedir (Some (FdNum 2)) MWrite (SFd (FdNum 1))]))
  = Some (mkObs false None [Some (hx "6f75740a6572720a"%string)] [[]; []] [[]; []] [] 0%Z).
Proof. vm_compute. reflexivity. Qed.
