(* C42 -- Redirections route bytes and values exactly as specified.
   Property theorems only; every proof is [exact <lemma>]. *)
From verif Require Import lib.Base model.C42_Ports model.C42 model.C40 proofs.C42_proofs
  proofs.C40_balance.
Open Scope nat_scope.

(* > truncates, >> appends, <> opens for reading and writing without truncating
   (bytes overwrite in place from offset 0), < gives a descriptor that cannot be
   written: for every file system, path, prior content and byte string. *)
Theorem C42_truncate_vs_append_vs_rdwr :
  forall s p m i s1 b,
    open_file s p (makeFlag m) = Some (i, s1) ->
    match m with
    | MRead => write_bytes s1 (Some (HOfd i)) b = Exc EIO s1 /\ content s1 p = content s p
    | MWrite => exists s2, write_bytes s1 (Some (HOfd i)) b = Ok s2 /\ fs_get (s_fs s2) p = Some b
    | MAppend => exists s2, write_bytes s1 (Some (HOfd i)) b = Ok s2
                            /\ fs_get (s_fs s2) p = Some (content s p ++ b)
    | MRdWr => exists s2, write_bytes s1 (Some (HOfd i)) b = Ok s2
                          /\ fs_get (s_fs s2) p = Some (b ++ skipn (length b) (content s p))
    end.
Proof. exact truncate_vs_append_vs_rdwr. Qed.
Print Assumptions C42_truncate_vs_append_vs_rdwr.

(* n>&m: afterwards fd n and fd m hold the very port that m held before (the
   same file object, hence the same offset), for every table and state. *)
Theorem C42_dup_shares_port :
  forall objs x md n m x',
    exec_redir Impl objs x (mkRedir (Some (FdNum (Z.of_nat n))) md (SFd (FdNum (Z.of_nat m)))) = ROk x' ->
    exists p, tget (fs_T x) m = Some p /\ tget (fs_T x') n = Some p /\ tget (fs_T x') m = Some p.
Proof. exact dup_shares_port. Qed.
Print Assumptions C42_dup_shares_port.

(* n>&- installs the closed port; writing a value to it raises (and writing
   bytes fails) in every state. *)
Theorem C42_closed_port_value_write_raises :
  forall objs x dst md n x',
    eval_dst (mkRedir dst md SClose) = Some (Z.of_nat n) ->
    exec_redir Impl objs x (mkRedir dst md SClose) = ROk x' ->
    tget (fs_T x') n = Some closed_port
    /\ forall s v b, write_value s (p_chan closed_port) v = Exc EValueOut s
                     /\ write_bytes s (p_file closed_port) b = Exc EIO s.
Proof.
  exact (fun objs x dst md n x' Hd H =>
           conj (close_installs_closed_port objs x dst md n x' Hd H) closed_port_writes).
Qed.
Print Assumptions C42_closed_port_value_write_raises.

(* Invalid file descriptors raise an exception: a negative destination, a
   source below -1 (-1 itself means close, see below), a source naming an absent
   port -- for every table and state
   (full since the fix fdddbae; before it the first two panicked). *)
Theorem C42_invalid_fd_raises :
  forall objs x r,
    (exists dz, eval_dst r = Some dz /\ (dz < 0)%Z)
    \/ (exists dz z, eval_dst r = Some dz /\ (0 <= dz)%Z /\ r_src r = SFd (FdNum z) /\ (z < -1)%Z)
    \/ (exists d v, eval_dst r = Some (Z.of_nat d) /\ r_src r = SFd (FdNum (Z.of_nat v))
                    /\ tget (fs_T x) v = None) ->
    exists x', exec_redir Impl objs x r = RExc EInvalidFD x'.
Proof. exact invalid_fd_raises. Qed.
Print Assumptions C42_invalid_fd_raises.

(* the same in the reference semantics *)
Theorem C42_invalid_fd_raises_in_reference_semantics :
  forall objs x r,
    (exists dz, eval_dst r = Some dz /\ (dz < 0)%Z)
    \/ (exists dz z, eval_dst r = Some dz /\ (0 <= dz)%Z /\ r_src r = SFd (FdNum z) /\ (z < -1)%Z) ->
    exists x', exec_redir Spec objs x r = RExc EInvalidFD x'.
Proof. exact spec_negative_fd_raises. Qed.
Print Assumptions C42_invalid_fd_raises_in_reference_semantics.

(* characterisation (not a defect): the source fd -1 is what evalForFd yields for
   "-", so n>&-1 behaves exactly like n>&- (close), in both flavours *)
Theorem C42_minus_one_source_means_close :
  forall fl objs x dst md,
    exec_redir fl objs x (mkRedir dst md (SFd (FdNum (-1)))) =
    exec_redir fl objs x (mkRedir dst md SClose).
Proof. exact minus_one_src_is_close. Qed.
Print Assumptions C42_minus_one_source_means_close.

(* Routing.  Executing rs1 ++ [r] is executing rs1 and then r (left to right);
   r reroutes exactly its destination fd, to what its source designates in the
   table left by rs1 (a freshly opened file, the port another fd holds at that
   moment, the closed port, a file object), and leaves every other fd as rs1 left
   it.  By induction on the list this fixes the port behind every fd after any
   redirection list; bytes and values written to fd n go to that port's file and
   channel by definition of the writers (write_bytes / write_value on tget T n). *)
Theorem C42_redir_routes :
  forall objs rs1 r x x1 x2,
    exec_redirs Impl objs x rs1 = ROk x1 ->
    exec_redir Impl objs x1 r = ROk x2 ->
    exec_redirs Impl objs x (rs1 ++ [r]) = ROk x2
    /\ exists d p, eval_dst r = Some (Z.of_nat d)
                   /\ tget (fs_T x2) d = Some p
                   /\ designates objs x1 r p
                   /\ forall i, i <> d -> tget (fs_T x2) i = tget (fs_T x1) i.
Proof. exact redir_routes. Qed.
Print Assumptions C42_redir_routes.

(* Files opened by a redirection are closed when the form finishes: for every
   redirection list, every body of the statement language of model/C40.v, every
   initial table with at least two ports and every state, on the normal exit and
   on every exception exit (a failing redirection, a failing or interrupted
   body): every file description created since form entry is closed, and no
   other handle changed its open/closed status. *)
Theorem C42_opened_files_closed_at_form_end :
  forall fuel T rs body s s',
    2 <= length T ->
    (form_of (run fuel) T [] None rs body s = Ok s'
     \/ exists k, form_of (run fuel) T [] None rs body s = Exc k s') ->
    (forall i, length (s_ofds s) <= i -> handle_open s' (HOfd i) = false)
    /\ (forall h, handle_open s' h = handle_open s h)
    /\ live_fds s' = live_fds s.
Proof. exact opened_files_closed_at_form_end. Qed.
Print Assumptions C42_opened_files_closed_at_form_end.

(* ... but a file may be closed too early.  FULL STATEMENT of routing at the
   level of bytes (false for the code as it is): after any successful redirection
   list, bytes written to an fd whose port holds a file opened by the form reach
   that file.  Witness: { echo out; echo err >&2 } >f0 2>&1 >f1 -- fd 2 still
   holds the port of f0, which the third redirection closed. *)
Theorem C42_routed_file_stays_open_refuted :
  exists o, observe Impl [None; None] [] []
      (PForm (Form (CBlock [Form (CEcho [111%N]) [];
                            Form (CEcho [101%N]) [mkRedir None MWrite (SFd (FdNum 2))]])
                   [mkRedir None MWrite (SFile 0); mkRedir (Some (FdNum 2)) MWrite (SFd (FdNum 1));
                    mkRedir None MWrite (SFile 1)])) = Some o
    /\ ob_exc o = Some EIO
    /\ check_C42 [None; None] [] []
      (PForm (Form (CBlock [Form (CEcho [111%N]) [];
                            Form (CEcho [101%N]) [mkRedir None MWrite (SFd (FdNum 2))]])
                   [mkRedir None MWrite (SFile 0); mkRedir (Some (FdNum 2)) MWrite (SFd (FdNum 1));
                    mkRedir None MWrite (SFile 1)])) o = false.
Proof. exact routed_file_closed_early. Qed.
Print Assumptions C42_routed_file_stays_open_refuted.

(* echo w | slurp <f : the epilogue of a pipeline stage signals the writer through
   whatever port 0 is by then; with fd 0 redirected the process dies *)
Theorem C42_pipe_reader_stdin_redirect_refuted :
  observe Impl [Some []] [] []
    (PPipe (Form (CEcho [119%N]) []) (Form CSlurp [mkRedir None MRead (SFile 0)]))
  = Some (mkObs true None [] [] [] [] 0%Z).
Proof. exact pipe_reader_stdin_redirect_crashes. Qed.
Print Assumptions C42_pipe_reader_stdin_redirect_refuted.

(* a destination fd beyond the table makes the table dst+1 entries long: there
   is no upper bound on what one redirection allocates *)
Theorem C42_huge_fd_allocates :
  forall objs x r d x',
    eval_dst r = Some (Z.of_nat d) -> exec_redir Impl objs x r = ROk x' ->
    length (fs_T x) <= d -> length (fs_T x') = S d.
Proof. exact huge_fd_allocates. Qed.
Print Assumptions C42_huge_fd_allocates.

(* no single redirection panics (either flavour) *)
Theorem C42_redirection_never_crashes :
  forall fl objs x r, exec_redir fl objs x r <> RCrash.
Proof. exact redir_never_crashes. Qed.
Print Assumptions C42_redirection_never_crashes.

(* the oracle evaluated on the implementation's observations is sound *)
Theorem C42_oracle_sound :
  forall fs0 env extra p o, check_C42 fs0 env extra p o = true -> Spec_C42 fs0 env extra p o.
Proof. exact check_C42_sound. Qed.
Print Assumptions C42_oracle_sound.

(* non-vacuity: the language reference's example  f >log 2>&1  *)
From Coq Require Import String.
Example C42_reference_example :
  observe Impl [None] [] []
    (PForm (Form (CBlock [Form (CEcho (hx "6f7574"%string)) [];
                          Form (CEcho (hx "657272"%string)) [mkRedir None MWrite (SFd (FdNum 2))]])
                 [mkRedir None MWrite (SFile 0); mkRedir (Some (FdNum 2)) MWrite (SFd (FdNum 1))]))
  = Some (mkObs false None [Some (hx "6f75740a6572720a"%string)] [[]; []] [[]; []] [] 0%Z).
Proof. vm_compute. reflexivity. Qed.
