(* C21 — tmp, with and defer restore and clean up on every exit path.
   Theorems about the reference interpreter (model/C15_Interp.v); every proof is
   [exact <lemma>]. *)
From verif Require Import lib.Base model.C15_Syntax model.C15_Values model.C15_Interp model.C21
  proofs.C21_proofs proofs.C21_trace.

(* The restores collected by a list of assignments — complete or cut short by
   a failing assignment — applied most recent first to ANY later state of the
   same size (whatever the body did, however it was left) give every assigned
   variable the value it had before the first assignment, and nothing else
   changes.  Reverse order is what makes this true when one variable is
   assigned twice. *)
Theorem C21_restores_undo_assignments : forall ts s vs s' rs st,
  assign_all s ts vs [] = (s', rs, st) ->
  forall s3, length (st_store s3) = length (st_store s) ->
  forall b, cell (apply_restores s3 rs) b = if touched rs b then cell s b else cell s3 b.
Proof. exact restores_undo_assignments. Qed.
Print Assumptions C21_restores_undo_assignments.

(* ------------------------------------------------------------------ *)
(* Trace theorems.  The interpreter keeps a ghost event log (no influence on
   evaluation): GEnter/GExit f for closure call f, GReg/GRun f d for a tmp
   restore or defer callback d registered / performed by frame f, GWAssign /
   GWRestore w d for `with` instance w.  [gl] is the log (most recent first),
   [evs_of id] the events carrying one id, [gn s] the next fresh id; WF holds
   of the start state and is preserved.  Proved by induction over the
   fuel-indexed evaluation with a log invariant (proofs/C21_trace.v:
   eval_good), so the statements hold for every body — nesting tmp, with,
   defer, loops, try and calls arbitrarily — and every exit path. *)

Theorem C21_start_state_wf : forall b, WF (start_state b).
Proof. intros b. split; unfold gf, gw, gn; simpl; lia. Qed.
Print Assumptions C21_start_state_wf.

(* defer / tmp: the run events of a closure call are exactly its registered
   entries, each once, in reverse registration order, all after the last
   registration and before the call's return event. *)
Theorem C21_defers_once_reverse_trace :
  forall n args rest opts body cenv isfn vals sopts inp s,
  WF s ->
  distribute rest (length args) vals <> None -> bind_opts opts sopts <> None ->
  let r := eval (S n) (TCall (VClos args rest opts body cenv isfn) vals sopts inp) s in
  finished r = true ->
  exists new regs,
    gl (fst r) = new ++ gl s
    /\ rev (evs_of (gn s) new)
       = [GEnter (gn s)] ++ map (GReg (gn s)) regs ++ map (GRun (gn s)) (rev regs) ++ [GExit (gn s)].
Proof. exact defers_once_reverse_trace. Qed.
Print Assumptions C21_defers_once_reverse_trace.

(* with: restore events = reverse of the assignment events of that `with` —
   also when a later assignment or the body fails: rs is exactly what was
   assigned. *)
Theorem C21_with_restores_reverse_trace : forall n assigns body inp s,
  WF s ->
  let r := eval (S n) (TCmd (CWith assigns body) inp) s in
  finished r = true ->
  exists new rs,
    gl (fst r) = new ++ gl s
    /\ rev (evs_of (gn s) new)
       = map (GWAssign (gn s)) (rev rs) ++ map (GWRestore (gn s)) rs.
Proof. exact with_restores_reverse_trace. Qed.
Print Assumptions C21_with_restores_reverse_trace.

(* tmp: every restore registered in a frame is performed in the exit segment of
   that closure call, on every exit path ... *)
Theorem C21_tmp_restores_at_fn_exit_trace :
  forall n args rest opts body cenv isfn vals sopts inp s,
  WF s ->
  distribute rest (length args) vals <> None -> bind_opts opts sopts <> None ->
  let r := eval (S n) (TCall (VClos args rest opts body cenv isfn) vals sopts inp) s in
  finished r = true ->
  exists new regs,
    gl (fst r) = new ++ gl s
    /\ rev (evs_of (gn s) new)
       = ([GEnter (gn s)] ++ map (GReg (gn s)) regs) ++ map (GRun (gn s)) (rev regs) ++ [GExit (gn s)]
    /\ forall a v, In (GReg (gn s) (DRestore a v)) new ->
         In (DRestore a v) regs /\ In (GRun (gn s) (DRestore a v)) (map (GRun (gn s)) (rev regs)).
Proof. exact tmp_restores_at_fn_exit_trace. Qed.
Print Assumptions C21_tmp_restores_at_fn_exit_trace.

(* ... and not earlier: whatever is evaluated while frame f is running (nested
   blocks are closure calls with their own ids) adds under the id f nothing but
   registrations — no restore, no callback, no return. *)
Theorem C21_no_run_before_frame_exit : forall n t s,
  WF s -> finished (eval n t s) = true ->
  exists new, gl (fst (eval n t s)) = new ++ gl s
    /\ forall e, In e new -> tag e = gf s -> exists d, e = GReg (gf s) d.
Proof. exact no_run_before_frame_exit. Qed.
Print Assumptions C21_no_run_before_frame_exit.

(* the body's exception wins over a deferred one; a deferred exception surfaces
   only if the body succeeded (return counts as success for fn) *)
Theorem C21_exception_precedence :
  forall n args rest opts body cenv isfn vals sopts inp s vals' obs s1 e1,
  distribute rest (length args) vals = Some vals' ->
  bind_opts opts sopts = Some obs ->
  alloc_all s (combine args vals' ++ obs) cenv = (s1, e1) ->
  let rb := eval n (TChunk body) (enter_frame (set_frame s1 e1 [] true)) in
  let r := eval (S n) (TCall (VClos args rest opts body cenv isfn) vals sopts inp) s in
  finished r = true ->
  finished rb = true
  /\ (forall k p, snd rb = Exc k p -> (k = KReturn -> isfn = false) -> snd r = Exc k p)
  /\ (forall k p, snd r = Exc k p ->
        (forall k' p', snd rb = Exc k' p' -> k' = KReturn /\ isfn = true) ->
        snd (run_defers (eval n) (g_next (st_ghost s1)) (st_defers (fst rb))
                        (set_defers (fst rb) []) None) = Exc k p).
Proof. exact exception_precedence. Qed.
Print Assumptions C21_exception_precedence.

(* ------------------------------------------------------------------ *)
(* One-step characterisations (for an arbitrary runner). *)

(* with: after successful assignments, for every finished outcome o' of the
   body (normal, exception, break, continue, return) the collected restores
   are applied and the outcome is the body's. *)
Theorem C21_with_restores_reverse : forall run assigns body inp s s1 vs s3 o',
  with_assigns run assigns (enter_with (set_wrest s [])) = (s1, Done vs) ->
  call_block run body (leave_with (set_wrest s1 (st_wrest s)) (g_wid (st_ghost s))) = (s3, o') ->
  finished_o o' = true ->
  step_cmd run (CWith assigns body) inp s
  = (with_undo (g_next (st_ghost s)) (st_wrest s1) s3, norm o').
Proof. exact with_restores_reverse. Qed.
Print Assumptions C21_with_restores_reverse.

(* with: an assignment raised — the body is not run and what was assigned so
   far is restored. *)
Theorem C21_with_partial_assign_restored : forall run assigns body inp s s1 k p,
  with_assigns run assigns (enter_with (set_wrest s [])) = (s1, Exc k p) ->
  step_cmd run (CWith assigns body) inp s
  = (with_undo (g_next (st_ghost s)) (st_wrest s1)
       (leave_with (set_wrest s1 (st_wrest s)) (g_wid (st_ghost s))), Exc k p).
Proof. exact with_partial_assign_restored. Qed.
Print Assumptions C21_with_partial_assign_restored.

(* The closure call: however the body ends, the frame's deferred list (tmp
   restores and defer callbacks) is run exactly once, after the body; fn turns
   return into success first; a deferred exception shows only if the body
   succeeded. *)
Theorem C21_closure_runs_defers_once :
  forall run args rest opts body cenv isfn vals sopts s vals' obs s1 e1 s3 o,
  distribute rest (length args) vals = Some vals' ->
  bind_opts opts sopts = Some obs ->
  alloc_all s (combine args vals' ++ obs) cenv = (s1, e1) ->
  run (TChunk body) (enter_frame (set_frame s1 e1 [] true)) = (s3, o) ->
  finished_o o = true ->
  call_closure run args rest opts body cenv isfn vals sopts s
  = let o1 := match o with
               | Exc KReturn _ => if isfn then Done [] else o
               | _ => norm o
               end in
    let fid := g_next (st_ghost s1) in
    settle (run_defers run fid (st_defers s3) (set_defers s3 []) None) (fun s4 o' =>
      (leave_frame (set_frame s4 (st_env s) (st_defers s) (st_infn s)) fid (g_frame (st_ghost s)),
       match o1 with
       | Done _ => norm o'
       | _ => o1
       end)).
Proof. exact closure_runs_defers_once. Qed.
Print Assumptions C21_closure_runs_defers_once.

(* tmp: a frame that registered only tmp restores ends — on every exit path —
   with its restores applied to the body's final store. *)
Theorem C21_tmp_restores_at_fn_exit :
  forall run args rest opts body cenv isfn vals sopts s vals' obs s1 e1 s3 o,
  distribute rest (length args) vals = Some vals' ->
  bind_opts opts sopts = Some obs ->
  alloc_all s (combine args vals' ++ obs) cenv = (s1, e1) ->
  run (TChunk body) (enter_frame (set_frame s1 e1 [] true)) = (s3, o) ->
  finished_o o = true ->
  (forall d, In d (st_defers s3) -> exists a v, d = DRestore a v) ->
  st_store (fst (call_closure run args rest opts body cenv isfn vals sopts s))
  = st_store (apply_restores s3 (st_defers s3)).
Proof. exact tmp_restores_at_fn_exit. Qed.
Print Assumptions C21_tmp_restores_at_fn_exit.

(* The deferred list is consumed front to back — most recently registered
   first — each entry exactly once; only the first exception is kept. *)
Theorem C21_defers_once_reverse : forall run fid,
  (forall s first, run_defers run fid [] s first
     = match first with None => ret s [] | Some (k, p) => throw s k p end)
  /\ (forall a v r s first,
       run_defers run fid (DRestore a v :: r) s first
       = run_defers run fid r (emit (store_at s a v) [GRun fid (DRestore a v)]) first)
  /\ (forall f r s first,
       run_defers run fid (DCall f :: r) s first
       = settle (run (TCall f [] [] []) (emit s [GRun fid (DCall f)])) (fun s' o =>
           run_defers run fid r s'
             match first, o with
             | None, Exc k p => Some (k, p)
             | _, _ => first
             end)).
Proof. exact defers_once_reverse. Qed.
Print Assumptions C21_defers_once_reverse.

(* A deferred callback that succeeds does not alter the result: the rest of the
   list is processed from its final state with the same pending exception. *)
Theorem C21_defer_success_contributes_nothing : forall run fid f r s first s' vs,
  run (TCall f [] [] []) (emit s [GRun fid (DCall f)]) = (s', Done vs) ->
  run_defers run fid (DCall f :: r) s first = run_defers run fid r s' first.
Proof. exact defer_success_contributes_nothing. Qed.
Print Assumptions C21_defer_success_contributes_nothing.

(* A frame whose deferred callbacks all succeed reports no deferred exception,
   so the closure call ends with the body's own outcome. *)
Theorem C21_defers_all_succeed_keep_outcome : forall run fid ds s,
  (forall d, In d ds -> match d with
                        | DRestore _ _ => True
                        | DCall f => forall s0, exists s1 vs, run (TCall f [] [] []) s0 = (s1, Done vs)
                        end) ->
  exists s', run_defers run fid ds s None = ret s' [].
Proof. exact defers_all_succeed_keep_outcome. Qed.
Print Assumptions C21_defers_all_succeed_keep_outcome.

(* defer registers at the front of the frame's list *)
Theorem C21_defer_registers_front : forall run f s,
  st_infn s = true ->
  (exists a r o b c i, f = VClos a r o b c i) ->
  apply_builtin run BDefer [f] [] [] s
  = ret (emit (set_defers s (DCall f :: st_defers s)) [GReg (g_frame (st_ghost s)) (DCall f)]) [].
Proof. exact defer_registers_front. Qed.
Print Assumptions C21_defer_registers_front.

(* the body's exception masks every deferred exception *)
Theorem C21_defer_exception_masked_by_body :
  forall run args rest opts body cenv vals sopts s vals' obs s1 e1 s3 k p,
  distribute rest (length args) vals = Some vals' ->
  bind_opts opts sopts = Some obs ->
  alloc_all s (combine args vals' ++ obs) cenv = (s1, e1) ->
  run (TChunk body) (enter_frame (set_frame s1 e1 [] true)) = (s3, Exc k p) ->
  finished_o (snd (call_closure run args rest opts body cenv false vals sopts s)) = true ->
  snd (call_closure run args rest opts body cenv false vals sopts s) = Exc k p.
Proof. exact defer_exception_masked_by_body. Qed.
Print Assumptions C21_defer_exception_masked_by_body.

(* ---- non-vacuity ---- *)
Definition S1 (l : list N) : value := VStr l.
Definition evt (l : list (list N)) : value := VList (map S1 l).

(* [B 1 fn] [R 1 7] [R 1 8] [D 1 8] [D 1 7]: reverse order, accepted;
   registration order, rejected *)
Example C21_example_oracle_defers :
  check_C21 [evt [[66]; [49]; [102; 110]]; evt [[82]; [49]; [55]]; evt [[82]; [49]; [56]];
             evt [[81]; [49]]; evt [[68]; [49]; [56]]; evt [[68]; [49]; [55]]]%N = true
  /\ check_C21 [evt [[66]; [49]; [102; 110]]; evt [[82]; [49]; [55]]; evt [[82]; [49]; [56]];
             evt [[81]; [49]]; evt [[68]; [49]; [55]]; evt [[68]; [49]; [56]]]%N = false
  /\ check_C21 [evt [[66]; [49]; [102; 110]]; evt [[82]; [49]; [55]]; evt [[81]; [49]]]%N = false.
Proof. vm_compute. repeat split; reflexivity. Qed.

(* [E 1 a] ... [X 1 b]: a variable that was not restored is rejected *)
Example C21_example_oracle_restore :
  check_C21 [evt [[69]; [49]; [97]]; evt [[88]; [49]; [97]]]%N = true
  /\ check_C21 [evt [[69]; [49]; [97]]; evt [[88]; [49]; [98]]]%N = false.
Proof. vm_compute. split; reflexivity. Qed.

(* for x [a b] { defer { put d }; put $x }   ==>  a d b d *)
Example C21_example_defer_in_loop :
  let p := [[CFor true 0%N (EList [EStr [97%N]; EStr [98%N]])
               [[CBuiltin BDefer [ELam [] None [] [[CBuiltin BPut [EStr [100%N]] []]]] []];
                [CBuiltin BPut [EVar 0%N] []]] None]] in
  outputs (run_program default_fuel true p) = [VStr [97%N]; VStr [100%N]; VStr [98%N]; VStr [100%N]].
Proof. vm_compute. reflexivity. Qed.

(* the ghost trace of  { defer { put a }; tmp-free body; defer { put b } } :
   frame 2 registers two callbacks and runs them in reverse order before returning
   (frames 3 and 4 are the callbacks' own calls) *)
Example C21_example_trace :
  let cb x := ELam [] None [] [[CBuiltin BPut [EStr [x]] []]] in
  let p := [[CCall (ELam [] None [] [[CBuiltin BDefer [cb 97%N] []]; [CBuiltin BDefer [cb 98%N] []]]) [] []]] in
  let r := run_program default_fuel true p in
  map (fun e => match e with
                | GEnter f => (0, f) | GExit f => (1, f) | GReg f _ => (2, f)
                | GRun f _ => (3, f) | GWAssign f _ => (4, f) | GWRestore f _ => (5, f)
                end) (rev (evs_of 2 (g_log (st_ghost (fst r)))))
  = [(0, 2); (2, 2); (2, 2); (3, 2); (3, 2); (1, 2)]%nat
  /\ outputs r = [VStr [98%N]; VStr [97%N]].
Proof. vm_compute. split; reflexivity. Qed.

(* var x = a; with [x = b] [x = c] { put $x }; put $x   ==>  c a *)
Example C21_example_with_twice :
  let p := [[CVar [(false, 0%N)] (Some [EStr [97%N]])];
            [CWith [([((false, 0%N), [])], [EStr [98%N]]); ([((false, 0%N), [])], [EStr [99%N]])]
                   [[CBuiltin BPut [EVar 0%N] []]]];
            [CBuiltin BPut [EVar 0%N] []]] in
  outputs (run_program default_fuel true p) = [VStr [99%N]; VStr [97%N]].
Proof. vm_compute. reflexivity. Qed.
