(* C06 — Lists are immutable sequences that behave like arrays at every length.
   Property theorems only; every proof is [exact <lemma>].  The model
   (model/C06.v) follows pkg/persistent/vector/vector.go with the bit width as
   a parameter; [cb] is chunkBits as generated from the Go source. *)
From Coq Require Import ZArith List.
From verif Require Import lib.Base model.C06 proofs.C06_defs proofs.C06_tree proofs.C06_inv
  proofs.C06_vec proofs.C06_hist proofs.C06_iter proofs.C06_final proofs.C06_sound.
Import ListNotations.

(* the generated width is admissible *)
Theorem C06_width_ok : (1 <= cb)%Z.
Proof. exact cb_ge1. Qed.
Print Assumptions C06_width_ok.

(* ---- invariant and refinement of every *vector operation, any width >= 1 ---- *)
Theorem C06_inv_empty : forall b, (1 <= b)%Z -> Inv b empty /\ abs b empty = [].
Proof. exact inv_empty. Qed.
Print Assumptions C06_inv_empty.

(* Index(i) = the i-th element of the abstract list, "not there" outside 0..len-1 *)
Theorem C06_index_refines : forall b, (1 <= b)%Z -> forall v i, Inv b v ->
  index b v i = Ok (l_index (abs b v) i).
Proof. exact index_ref. Qed.
Print Assumptions C06_index_refines.

(* Conj never fails, keeps the invariant and appends (covers: tail not full, tail
   pushed into the tree, new root when the tree is full — at every height) *)
Theorem C06_conj_refines : forall b, (1 <= b)%Z -> forall v x, Inv b v ->
  exists w, conj b v x = Ok w /\ Inv b w /\ abs b w = abs b v ++ [x].
Proof. exact conj_ref. Qed.
Print Assumptions C06_conj_refines.

(* Assoc: replaces for 0 <= i < len, appends for i = len, nil otherwise *)
Theorem C06_assoc_refines : forall b, (1 <= b)%Z -> forall v i x, Inv b v ->
  match l_assoc (abs b v) i x with
  | Some l' => exists w, assoc b v i x = Ok (Some w) /\ Inv b w /\ abs b w = l'
  | None => assoc b v i x = Ok None
  end.
Proof. exact assoc_ref. Qed.
Print Assumptions C06_assoc_refines.

(* Pop: nil on the empty vector, otherwise removes the last element (covers: tail
   shrinks, last leaf becomes the tail, the tree loses a level) *)
Theorem C06_pop_refines : forall b, (1 <= b)%Z -> forall v, Inv b v ->
  match l_pop (abs b v) with
  | Some l' => exists w, pop b v = Ok (Some w) /\ Inv b w /\ abs b w = l'
  | None => pop b v = Ok None
  end.
Proof. exact pop_ref. Qed.
Print Assumptions C06_pop_refines.

(* the iterator over [bgn, en) yields exactly that range of the abstract list
   (never panics, never "cannot advance"); MarshalJSON order is this order *)
Theorem C06_iter_is_abs : forall b, (1 <= b)%Z -> forall v bgn en, Inv b v ->
  (0 <= bgn <= en)%Z -> (en <= count v)%Z ->
  iterate_range b v bgn en = Ok (firstn (Z.to_nat (en - bgn)) (skipn (Z.to_nat bgn) (abs b v))).
Proof. exact iter_ref. Qed.
Print Assumptions C06_iter_is_abs.

(* ---- one operation on a vector or a slice view (slices of slices included),
   or through the vals entry points: same result as on the plain list ---- *)
Theorem C06_operation_refines : forall b, (1 <= b)%Z -> forall x o,
  VInv b x ->
  vabs_out b (m_apply b x o) = s_apply (vabs b x) o /\ out_inv (Inv b) (m_apply b x o).
Proof. exact apply_refines_b. Qed.
Print Assumptions C06_operation_refines.

(* ---- histories over the version store: for EVERY history (any earlier version
   may be the target of any operation; no length bound) every outcome (new list,
   rejection, element, iteration) equals the outcome of the same operation on
   plain lists ---- *)
Theorem C06_history_refines_list : forall b, (1 <= b)%Z -> forall ops,
  map (vabs_out b) (run (m_apply b) [Some (Vec empty)] ops) = run s_apply [Some []] ops.
Proof. exact history_refines_list_b. Qed.
Print Assumptions C06_history_refines_list.

(* no operation of any history panics (nil dereference, failed type assertion,
   "cannot advance") or exhausts the iteration fuel *)
Theorem C06_no_panic : forall b, (1 <= b)%Z -> forall ops,
  ~ In XPanic (run (m_apply b) [Some (Vec empty)] ops) /\
  ~ In XFuel (run (m_apply b) [Some (Vec empty)] ops).
Proof. exact no_panic_b. Qed.
Print Assumptions C06_no_panic.

(* the requests of the former subsub-oob counterexample (slice of a slice with
   bounds outside the slice) are rejected *)
Theorem C06_subsub_bounds_rejected :
  run (m_apply cb) [Some (Vec empty)] subsub_witness
  = [XVec (Vec (mkVec 6 0 ANil (zrange 6 0))); XVec (Sub (mkVec 6 0 ANil (zrange 6 0)) 2 5); XRejected; XRejected].
Proof. exact subsub_bounds_rejected. Qed.
Print Assumptions C06_subsub_bounds_rejected.

(* persistence: reading (Index / iteration) any existing version gives the same
   result however many operations on whatever versions happen in between *)
Theorem C06_old_versions_unchanged : forall b st ops1 ops2 o,
  (op_target o < length (store_after (m_apply b) st ops1))%nat ->
  last (run (m_apply b) st (ops1 ++ [o])) XMissing =
  last (run (m_apply b) st (ops1 ++ ops2 ++ [o])) XMissing.
Proof. exact (fun b => old_versions_unchanged (m_apply b)). Qed.
Print Assumptions C06_old_versions_unchanged.

(* the oracle used on the implementation's observations is sound: if it accepts,
   every observation agrees with the outcome of the same history on plain lists *)
Theorem C06_oracle_sound : forall steps, check_C06 steps = true ->
  Forall2 obs_agrees (run s_apply [Some []] (map fst steps)) (map snd steps).
Proof. exact check_C06_sound. Qed.
Print Assumptions C06_oracle_sound.

(* non-vacuity: a history crossing both height changes, with slices of slices *)
Example C06_nonvacuous :
  nth 6 (run (m_apply cb) [Some (Vec empty)]
    [OConjRange 0 0 1057; OPop 1; OPopN 2 1000; OSub 1 30 70; OSub 4 1 5; OAssoc 5 4 (AVal 9); OIter 6; OIter 1]) XMissing
     = XRead [AVal 31; AVal 32; AVal 33; AVal 34; AVal 9].
Proof. exact nonvacuous_example. Qed.
