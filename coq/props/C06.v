(* C06 — placeholder while the proofs are being written *)
From verif Require Import lib.Base model.C06.
Example C06_smoke : judge1 (mkCase []) = 0%N.
Proof. reflexivity. Qed.
