(* C15 — Core language programs evaluate as the language reference specifies.
   The reference interpreter is model/C15_Interp.v; agreement of Elvish with it
   is decided case by case by C15.judge1.  The theorems below say that the
   reference is well defined and has the structural properties the language
   reference promises.  Property theorems only; every proof is [exact <lemma>]. *)
From verif Require Import lib.Base model.C15_Syntax model.C15_Values model.C15_Interp model.C15
  proofs.C15_proofs.

(* The interpreter is a function of program, state and fuel. *)
Theorem C15_interp_deterministic : forall fuel t s r1 r2,
  eval fuel t s = r1 -> eval fuel t s = r2 -> r1 = r2.
Proof. exact interp_deterministic. Qed.
Print Assumptions C15_interp_deterministic.

(* More fuel never changes a result that is not OutOfFuel ... *)
Theorem C15_interp_fuel_mono : forall n m t s r,
  eval n t s = r -> snd r <> OutOfFuel -> (n <= m)%nat -> eval m t s = r.
Proof. exact interp_fuel_mono. Qed.
Print Assumptions C15_interp_fuel_mono.

(* ... so the result of a program does not depend on the fuel. *)
Theorem C15_interp_fuel_independent : forall n m t s,
  snd (eval n t s) <> OutOfFuel -> snd (eval m t s) <> OutOfFuel -> eval n t s = eval m t s.
Proof. exact interp_fuel_independent. Qed.
Print Assumptions C15_interp_fuel_independent.

(* try ... finally: whenever the command finishes, the finally block has run to
   completion after the try/catch/else part, whatever that part's outcome. *)
Theorem C15_finally_always_runs : forall run body catch els fin inp s r,
  step_cmd run (CTry body catch els (Some fin)) inp s = r ->
  finished r = true ->
  exists s2 o rf,
    finished_o o = true
    /\ rf = call_block run fin s2 /\ finished rf = true
    /\ fst r = fst rf
    /\ snd r = match snd rf with Exc k p => Exc k p | _ => norm o end.
Proof. exact finally_always_runs. Qed.
Print Assumptions C15_finally_always_runs.

(* break/continue are caught by the nearest loop (for, each, while), return by
   the nearest fn and not by a plain lambda, and no capture boundary swallows
   an exception: ( ) re-raises it, ?( ) yields it as a value. *)
Theorem C15_flow_exceptions_caught_at : forall run,
  (forall a v items body els it s s2 p,
     call_block run body (store_at s a v) = (s2, Exc KBreak p) ->
     for_loop run a (v :: items) body els it s = ret s2 [])
  /\ (forall a v items body els it s s2 p,
     call_block run body (store_at s a v) = (s2, Exc KContinue p) ->
     for_loop run a (v :: items) body els it s = for_loop run a items body els true s2)
  /\ (forall f v items s s2 p,
     run (TCall f [v] [] []) s = (s2, Exc KBreak p) -> each_loop run f (v :: items) s = ret s2 [])
  /\ (forall f v items s s2 p,
     run (TCall f [v] [] []) s = (s2, Exc KContinue p) ->
     each_loop run f (v :: items) s = each_loop run f items s2)
  /\ (forall cond body els it s s1 vs s2 p,
     run (TExpr cond) s = (s1, Done vs) -> forallb truthy vs = true ->
     call_block run body s1 = (s2, Exc KBreak p) ->
     step run (TWhile cond body els it) s = ret s2 [])
  /\ (forall cond body els it s s1 vs s2 p,
     run (TExpr cond) s = (s1, Done vs) -> forallb truthy vs = true ->
     call_block run body s1 = (s2, Exc KContinue p) ->
     step run (TWhile cond body els it) s = run (TWhile cond body els true) s2)
  /\ (forall body cenv isfn s s3 p,
     run (TChunk body) (enter_frame (set_frame s cenv [] true)) = (s3, Exc KReturn p) ->
     st_defers s3 = [] ->
     snd (call_closure run [] None [] body cenv isfn [] [] s)
     = if isfn then Done [] else Exc KReturn p)
  /\ (forall c s s' k p,
     run (TChunk c) (set_out s []) = (s', Exc k p) ->
     step_expr run (ECapture c) s = (set_out s' (st_out s), Exc k p))
  /\ (forall c s s' k p,
     run (TChunk c) s = (s', Exc k p) -> step_expr run (EExcCapture c) s = ret s' [VExc k p]).
Proof. exact flow_exceptions_caught_at. Qed.
Print Assumptions C15_flow_exceptions_caught_at.

(* Lexical scoping: calling a closure evaluates its body in the environment of
   its definition site extended by its parameters, never in the caller's, and
   gives the caller its own environment back. *)
Theorem C15_scoping_lexical : forall run args rest opts body cenv isfn vals sopts s vals' obs,
  distribute rest (length args) vals = Some vals' ->
  bind_opts opts sopts = Some obs ->
  exists s1 e1,
    alloc_all s (combine args vals' ++ obs) cenv = (s1, e1)
    /\ call_closure run args rest opts body cenv isfn vals sopts s
       = settle (run (TChunk body) (enter_frame (set_frame s1 e1 [] true))) (fun s3 o =>
           let o1 := match o with
                     | Exc KReturn _ => if isfn then Done [] else o
                     | _ => norm o
                     end in
           settle (run_defers run (g_next (st_ghost s1)) (st_defers s3) (set_defers s3 []) None) (fun s4 o' =>
             (leave_frame (set_frame s4 (st_env s) (st_defers s) (st_infn s))
                          (g_next (st_ghost s1)) (g_frame (st_ghost s)),
              match o1 with Done _ => norm o' | _ => o1 end))).
Proof. exact scoping_lexical. Qed.
Print Assumptions C15_scoping_lexical.

(* ---- non-vacuity: the interpreter runs real programs ---- *)
(* var a = [1 2]; set a[0] a[1] = x y; put $a   ==>  [x y] by the reference *)
Definition prog_multi : chunk :=
  [[CVar [(false, 0%N)] (Some [EList [EStr [49%N]; EStr [50%N]]])];
   [CSet [((false, 0%N), [EStr [48%N]]); ((false, 0%N), [EStr [49%N]])] [EStr [120%N]; EStr [121%N]]];
   [CBuiltin BPut [EVar 0%N] []]].

Example C15_example_reference_multi :
  outputs (run_program default_fuel false prog_multi) = [VList [VStr [120%N]; VStr [121%N]]].
Proof. vm_compute. reflexivity. Qed.

(* the Go implementation's behaviour (faithful mode) differs: [1 y] — recorded
   as known finding multi-elem-lvalue-same-var *)
Example C15_example_faithful_multi :
  outputs (run_program default_fuel true prog_multi) = [VList [VStr [49%N]; VStr [121%N]]].
Proof. vm_compute. reflexivity. Qed.

(* for x [a b] { try { put $x; break } finally { put f } }; put end   ==>  a f end *)
Example C15_example_break_finally :
  let p := [[CFor true 0%N (EList [EStr [97%N]; EStr [98%N]])
               [[CTry [[CBuiltin BPut [EVar 0%N] []]; [CBuiltin BBreak [] []]] None None
                      (Some [[CBuiltin BPut [EStr [102%N]] []]])]] None];
            [CBuiltin BPut [EStr [101%N]] []]] in
  let r := run_program default_fuel false p in
  outputs r = [VStr [97%N]; VStr [102%N]; VStr [101%N]] /\ snd r = Done [].
Proof. vm_compute. split; reflexivity. Qed.

(* the oracle rejects a wrong observation *)
Example C15_example_oracle_rejects :
  judge1 (mkCase prog_multi [VList [VStr [49%N]; VStr [121%N]]] VOk) = 2%N
  /\ judge1 (mkCase prog_multi [VList [VStr [120%N]; VStr [121%N]]] VOk) = 0%N.
Proof. vm_compute. split; reflexivity. Qed.
