(* C01 — Parsing is total and lossless for every source text.
   Property theorems only; every proof is [exact <lemma>]. *)
From verif Require Import lib.Base lib.Utf8 model.C01_Parse model.C01 proofs.C01_proofs.

(* The oracle evaluated on what parse.Parse returned is sound for the
   specification of a lossless tree with errors inside the source. *)
Theorem C01_oracle_sound : forall src t errs,
  check_C01 src t errs = true -> Spec_C01 src t errs.
Proof. exact check_C01_sound. Qed.
Print Assumptions C01_oracle_sound.
