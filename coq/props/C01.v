(* C01 — Parsing is total and lossless for every source text.
   Property theorems only; every proof is [exact <lemma>] (or a one-line
   combination of lemmas). The model is model/C01_Parse.v. *)
From verif Require Import lib.Base lib.Utf8 model.C01_Parse model.C01
  proofs.C01_proofs proofs.C01_Utf8_proofs proofs.C01_Parse_proofs proofs.C01_Total_proofs proofs.C01_sweep.

(* The oracle evaluated on what parse.Parse returned is sound for the
   specification of a lossless tree with all error ranges inside the source. *)
Theorem C01_oracle_sound : forall src t errs,
  check_C01 src t errs = true -> Spec_C01 src t errs.
Proof. exact check_C01_sound. Qed.
Print Assumptions C01_oracle_sound.

(* UTF-8 forward/backward width: for every byte string, at every position
   reached by decoding forward from 0, decoding the last rune of the text up
   to the end of the rune decoded forward gives the same width. *)
Theorem C01_next_backup_id : forall src p, boundary src p -> p < length src ->
  snd (decode_last_rune (firstn (p + snd (decode_rune (skipn p src))) src))
  = snd (decode_rune (skipn p src)).
Proof. exact next_backup. Qed.
Print Assumptions C01_next_backup_id.

(* ... hence parser.backup undoes parser.next in every state the parser can
   be in (position on a rune boundary; overEOF > 0 only at the end). *)
Theorem C01_backup_undoes_next : forall src ps,
  pos ps <= length src -> boundary src (pos ps) -> (0 < overEOF ps -> pos ps = length src) ->
  backup src (snd (next src ps)) = ps.
Proof. exact next_backup_state. Qed.
Print Assumptions C01_backup_undoes_next.

(* Losslessness, all source texts (incl. invalid UTF-8), all Unicode tables,
   every fuel that suffices: the tree returned by the model starts at 0, every
   node lies inside the source, each node's text is the slice of its range,
   children tile their parent exactly and in order, the leaves concatenate to
   the source up to the root's end, text after the root is reported by an error
   there, and every error range is inside the source. *)
Theorem C01_parse_tiled : forall is_print src fuel t es,
  parse_fuel is_print src fuel = Some (t, es) -> Spec_C01 src t es.
Proof. exact parse_spec. Qed.
Print Assumptions C01_parse_tiled.

Theorem C01_parse_errors_in_range : forall is_print src fuel t es,
  parse_fuel is_print src fuel = Some (t, es) -> errs_in_range src es.
Proof. exact parse_errors_in_range. Qed.
Print Assumptions C01_parse_errors_in_range.

(* a Redir node with a left operand: range and text agree ("a 2>b") *)
Example C01_example_redir_with_left :
  match parse_model pr0 redir_example with
  | Some (t, es) => check_C01 redir_example t es = true /\ es = []
  | None => False
  end.
Proof. exact redir_example_ok. Qed.

(* Per-loop progress, unbounded: in every reachable parser state of every
   source, each leaf loop (spaces/comments/continuations, redirection sign,
   bareword, variable name, wildcard, single- and double-quoted strings, the
   variable primary) terminates within its fuel S(len src): every iteration
   consumes at least one byte or exits. *)
Theorem C01_leaf_loops_total : forall is_print src ps, SI src ps ->
  (forall b nl, exists r, parseSpacesInner src b ps nl = Some r)
  /\ (exists q, redirSignLoop src (lfuel src) ps = Some q)
  /\ (forall ctx, exists q, barewordLoop is_print src (lfuel src) ctx ps = Some q)
  /\ (exists q, varNameLoop is_print src (lfuel src) ps = Some q)
  /\ (exists q, starLoop src (lfuel src) ps = Some q)
  /\ (exists q, singleQuotedInner src (lfuel src) ps = Some q)
  /\ (exists q, doubleQuotedInner src (lfuel src) ps = Some q)
  /\ (exists q, variable is_print src ps = Some q).
Proof. exact leaf_loops_total. Qed.
Print Assumptions C01_leaf_loops_total.

(* Progress of the node parsers, unbounded (every source, table and fuel
   level): a Primary, Indexing, Compound and the Compound loop consume at least
   one byte when the next rune can start a primary; a MapPair when the next
   rune is an ampersand; a Redir when it is a redirection sign.  These are the
   facts each loop of the grammar needs to consume input in every iteration. *)
Theorem C01_node_progress : forall is_print src fuel,
  Prog is_print src (parsers is_print src fuel).
Proof. exact parsers_prog. Qed.
Print Assumptions C01_node_progress.

(* Totality, unbounded: for every source text (incl. invalid UTF-8) and every
   Unicode table the model returns within its fuel FUELK*(len+1) -- no
   OutOfFuel -- and what it returns is a lossless tree with all errors in range. *)
Theorem C01_parse_total : forall is_print src,
  exists t es, parse_model is_print src = Some (t, es).
Proof. exact parse_total. Qed.
Print Assumptions C01_parse_total.

Theorem C01_parse_total_and_lossless : forall is_print src,
  exists t es, parse_model is_print src = Some (t, es) /\ Spec_C01 src t es.
Proof. exact parse_total_lossless. Qed.
Print Assumptions C01_parse_total_and_lossless.

(* non-vacuity: the model parses a pipeline with a lambda without errors into
   a tree accepted by the oracle *)
Example C01_example :
  match parse_model pr0 example_src with
  | Some (t, es) => check_C01 example_src t es = true /\ es = []
  | None => False
  end.
Proof. exact example_pipeline. Qed.
