(* C40 -- Finished evaluations leave no file descriptors or goroutines behind.
   Property theorems only; every proof is [exact <lemma>]. *)
From verif Require Import lib.Base model.C42_Ports model.C40 proofs.C40_proofs.
Open Scope nat_scope.

(* the oracle evaluated on the runner's census is sound: no growth of the number
   of open descriptors or of goroutines over all repetitions, and no crash *)
Theorem C40_oracle_sound : forall c, check_C40 c = true -> Spec_C40 c.
Proof. exact check_C40_sound. Qed.
Print Assumptions C40_oracle_sound.
