(* C40 -- Finished evaluations leave no file descriptors or goroutines behind.
   Property theorems only; every proof is [exact <lemma>]. *)
From verif Require Import lib.Base model.C42_Ports model.C40 proofs.C42_proofs proofs.C40_proofs
  proofs.C40_ledger proofs.C40_form proofs.C40_balance.
Open Scope nat_scope.

(* The ledger is balanced.  For every program of the modelled constructs (forms
   with any redirection list, pipelines of any length with redirections on every
   stage, output captures, each over the inputs, peach, run-parallel, try, failing
   commands and verif:cancel at every position, nested to any depth), every
   initial port table with at least stdin and stdout, every state, and every exit
   path -- normal, exception, interruption (a cancelled context makes every later
   pipeline return the interrupt exception) --: when evaluation returns, every
   handle (open file description, pipe end) has the open/closed status it had at
   entry or did not exist at entry and is closed, so the number of open
   descriptors is unchanged, and as many goroutines have been joined as were
   spawned.  (Crash and out-of-fuel results are not exit paths of a finished
   evaluation.) *)
Theorem C40_ledger_balanced :
  forall fuel T body s s',
    2 <= length T ->
    (run_prog fuel T body s = Ok s' \/ exists k, run_prog fuel T body s = Exc k s') ->
    live_fds s' = live_fds s /\ live_gor s' = live_gor s
    /\ forall h, handle_open s' h = handle_open s h.
Proof. exact ledger_balanced. Qed.
Print Assumptions C40_ledger_balanced.

(* one lemma per construct: a form with any redirections and any pre-owned ports
   (this is what a pipeline stage is) closes exactly the handles it owned at
   entry, on every exit path, and every file it opened *)
Theorem C40_form_closes_what_it_owns :
  forall runf, (forall T c s, 2 <= length T -> okx (ext s) (runf T c s)) ->
  forall T F0 pin rs body s,
    2 <= length T ->
    (forall h, heldP T F0 h -> closable h = true) ->
    (forall d, fo_file (nth d F0 fop0) = true -> exists p, tget T d = Some p) ->
    okx (closes (heldb T F0) s) (form_of runf T F0 pin rs body s).
Proof. exact form_closes. Qed.
Print Assumptions C40_form_closes_what_it_owns.

(* a pipeline closes every pipe end it created, whichever stages fail or fail to
   start (a stage whose redirections throw still gets its epilogue) *)
Theorem C40_pipeline_closes_its_pipes :
  forall runf, (forall T c s, 2 <= length T -> okx (ext s) (runf T c s)) ->
  forall T, 2 <= length T ->
  forall sts acc s, okx (closes (cin None) s) (stages_of runf T sts None acc s).
Proof.
  exact (fun runf HP T HT sts acc s => stages_closes runf HP T HT sts None acc s (or_intror eq_refl)).
Qed.
Print Assumptions C40_pipeline_closes_its_pipes.

(* output capture: the pipe and both goroutines are gone afterwards, also when
   the captured code throws *)
Theorem C40_capture_balanced :
  forall runf, (forall T c s, 2 <= length T -> okx (ext s) (runf T c s)) ->
  forall T body s, 2 <= length T -> okx (ext s) (capture_of runf T body s).
Proof. exact capture_ext. Qed.
Print Assumptions C40_capture_balanced.

(* the census: equal handle status means equal counts *)
Theorem C40_ext_means_same_census :
  forall s s', ext s s' -> live_fds s' = live_fds s /\ live_gor s' = live_gor s.
Proof. exact ext_live. Qed.
Print Assumptions C40_ext_means_same_census.

(* the one unbalanced path of the code is outside the model and the property's
   quantifier: pipelineOp.exec returns at once when os.Pipe fails, leaving the
   stages already started to finish by themselves (environmental failure). *)

(* the oracle evaluated on the runner's census is sound: no growth of the number
   of open descriptors or of goroutines over all repetitions, and no crash *)
Theorem C40_oracle_sound : forall c, check_C40 c = true -> Spec_C40 c.
Proof. exact check_C40_sound. Qed.
Print Assumptions C40_oracle_sound.

(* non-vacuity: a pipeline with a failing middle stage and a redirected form
   runs to an exception in the model, with the ledger balanced *)
Example C40_example :
  observe40 false [Some [120%N; 10%N]]
    [SPipe [([], [SEcho [97%N]]); ([], [SFail]); ([], [SNop])];
     SForm [mkRedir None MWrite (SFile 1)] [SCapture [SEcho [98%N]; SFail]]]
  = Some (mkMobs OExc 0 0 4 2).
Proof. vm_compute. reflexivity. Qed.
