(* C05 — Typed numbers survive to-string/num and every documented literal parses.
   Property theorems only; every proof is [exact <lemma>].
   [pf], [fmtF], [fmtE] stand for strconv.ParseFloat(s, 64) (None on any error),
   strconv.FormatFloat(f, 'f', -1, 64) and FormatFloat(f, 'e', -1, 64); the
   contract on them ([contract_S], proofs/C05_float_proofs.v; [pf]'s domain in
   the rejection theorems) is an explicit premise, never an axiom, and is
   evaluated on every sampled float by the judge. *)
From Coq Require Import String.
From verif Require Import lib.Base model.C05 proofs.C05_proofs proofs.C05_reject_proofs
  proofs.C05_float_proofs proofs.C05_literal_proofs proofs.C05_examples.

(* Every integer z, of any size: the decimal text of its canonical
   representation parses back to exactly that representation (int inside the
   64-bit range, big.Int outside).  In particular decimal output never takes
   the 0x/0o/0b or legacy-octal paths of base-0 parsing. *)
Theorem C05_int_roundtrip : forall pf fmtF fmtE z,
  parse_num pf (to_string fmtF fmtE (canon_int z)) = PNum (canon_int z).
Proof. exact int_roundtrip. Qed.
Print Assumptions C05_int_roundtrip.

(* Every rational in lowest terms with denominator > 1, of any size. *)
Theorem C05_rat_roundtrip : forall pf fmtF fmtE n d, canonical (NRat n d) = true ->
  parse_num pf (to_string fmtF fmtE (NRat n d)) = PNum (NRat n d).
Proof. exact rat_roundtrip. Qed.
Print Assumptions C05_rat_roundtrip.

(* Every float64 pattern that is not a NaN, under contract S: whatever notation
   formatFloat64 picks and whether or not it appends ".0", the text is never
   read as an integer or rational and comes back bit-identical (so -0.0 keeps
   its sign, infinities and subnormals survive). *)
Theorem C05_float_roundtrip : forall pf fmtF fmtE, contract_S pf fmtF fmtE ->
  forall b, is_nan b = false ->
  parse_num pf (formatFloat64 fmtF fmtE b) = PNum (NFloat b).
Proof. exact float_roundtrip. Qed.
Print Assumptions C05_float_roundtrip.

Theorem C05_nan_roundtrip : forall pf fmtF fmtE, contract_S pf fmtF fmtE ->
  forall b, is_nan b = true ->
  exists b', parse_num pf (formatFloat64 fmtF fmtE b) = PNum (NFloat b') /\ is_nan b' = true.
Proof. exact nan_roundtrip. Qed.
Print Assumptions C05_nan_roundtrip.

(* The documented guarantee in one statement: for every typed number x (in
   canonical representation), num (to-string x) is x with the same exactness. *)
Theorem C05_roundtrip : forall pf fmtF fmtE, contract_S pf fmtF fmtE ->
  forall x, canonical x = true ->
  check_roundtrip x (parse_num pf (to_string fmtF fmtE x)) = true.
Proof. exact roundtrip. Qed.
Print Assumptions C05_roundtrip.

(* What the round-trip oracle means. *)
Theorem C05_roundtrip_oracle_sound : forall x y, check_roundtrip x y = true ->
  exists v, y = PNum v /\
  match x, v with
  | NInt a, NInt b | NBig a, NBig b => a = b
  | NRat n d, NRat n' d' => n = n' /\ d = d'
  | NFloat a, NFloat b => a = b \/ (is_nan a = true /\ is_nan b = true)
  | _, _ => False
  end.
Proof. exact check_roundtrip_sound. Qed.
Print Assumptions C05_roundtrip_oracle_sound.

(* Whatever num accepts, it returns in canonical form: int only inside the int
   range, big.Int only outside, rationals in lowest terms with denominator > 1. *)
Theorem C05_canonical_output : forall pf,
  (forall s b, pf s = Some b -> pf_domain_ok s = true /\ (b < 2 ^ 64)%N) ->
  forall s v, parse_num pf s = PNum v -> canonical v = true.
Proof. exact canonical_output. Qed.
Print Assumptions C05_canonical_output.

(* Documented integer literals: optional '-', decimal without leading zeros or
   0x/0o/0b (either case) followed by digits of that base in either case, with
   underscores between digits — any length.  num yields exactly the value. *)
Theorem C05_literal_value_int : forall pf neg l, wf_nat l = true ->
  parse_num pf (render (LInt neg l)) = PNum (canon_int (signed neg (nat_value l))).
Proof. exact literal_value_int. Qed.
Print Assumptions C05_literal_value_int.

(* Documented rational literals a/b of two such integers, b non-zero: the
   exact value in lowest terms, an integer when the denominator divides. *)
Theorem C05_literal_value_rat : forall pf neg n d,
  wf_nat n = true -> wf_nat d = true -> nat_value d <> 0%N ->
  parse_num pf (render (LRat neg n d)) =
  PNum (canon_rat (signed neg (nat_value n)) (Z.of_N (nat_value d))).
Proof. exact literal_value_rat. Qed.
Print Assumptions C05_literal_value_rat.

(* All documented literals at once, floats and +Inf/-Inf/NaN included: under
   the contract that ParseFloat returns the correctly rounded binary64
   ([rne_bits], executable) of a decimal/scientific literal, num yields what
   the property demands.  Float literals whose rounded value is an infinity are
   outside the property's domain (see checks/C05.md). *)
Theorem C05_literal_value : forall pf, contract_L pf ->
  forall l, wf_lit l = true -> out_of_range l = false ->
  check_literal l (parse_num pf (render l)) = true.
Proof. exact literal_value. Qed.
Print Assumptions C05_literal_value.

(* Strings of the stated non-number grammar (empty; a byte outside
   [0-9A-Za-z_+-./]; no decimal digit and not inf/infinity/nan; a/b whose b is
   empty or has a byte that is no letter, digit or underscore) are rejected. *)
Theorem C05_non_number_rejected : forall pf,
  (forall s b, pf s = Some b -> pf_domain_ok s = true /\ (b < 2 ^ 64)%N) ->
  forall s, non_number s = true -> parse_num pf s = PNil.
Proof. exact non_number_rejected. Qed.
Print Assumptions C05_non_number_rejected.

(* non-vacuity: concrete instances computed through the model *)
Example C05_example_octal_is_not_decimal_output :
  parse_num (fun _ => None) (hx "30373535"%string) = PNum (NInt 493)          (* "0755" *)
  /\ dec_Z 755 = hx "373535"%string
  /\ parse_num (fun _ => None) (hx "2d315f302f306231305f30"%string) = PNum (NRat (-5) 2)  (* "-1_0/0b10_0" *)
  /\ parse_num (fun _ => None) (hx "39323233333732303336383534373735383038"%string) = PNum (NBig 9223372036854775808)
  /\ non_number (hx "312f2d32"%string) = true                                  (* "1/-2" *)
  /\ rne_bits false 1 (-1) = 4591870180066957722%N.                     (* 0.1 *)
Proof. exact example_values. Qed.
