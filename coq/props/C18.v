(* C18 — Pipelines deliver data exactly once, in order, and never deadlock.
   Property theorems only; every proof is [exact <lemma>].

   The first group is stated for the generic pipeline LTS of lib/C18_Lts.v:
   ANY number of stages n, ANY stage automaton (L, want, cont) — so in
   particular every program of the stage DSL —, ANY capacities >= 1, and ALL
   schedules ([reachable] is closed under every step of every stage).  The
   second group is about the DSL instance of model/C18.v, whose value-channel
   capacity is pkg/eval's pipelineChanBufferSize. *)
From verif Require Import lib.Base lib.C18_Lts model.C18 proofs.C18_lts_proofs proofs.C18_proofs
  proofs.C18_det_proofs.
Open Scope nat_scope.

Section Generic.
  Variable L : Type.
  Variable want : L -> action.
  Variable cont : L -> result -> L.
  Variable n : nat.
  Variable cap : band -> nat.
  Variable init : nat -> L.
  Hypothesis cap_pos : forall b, 1 <= cap b.
  Notation reachable := (reachable L want cont n cap init).
  Notation step := (step L want cont n cap).
  Notation fire := (fire L want cont n cap).

  (* Exactly once, in order: on each band of each link, what stage k+1 has
     received is a prefix of what stage k has written. *)
  Theorem C18_fifo_prefix : forall s k b, reachable s -> S k < n ->
    exists rest, sents b (hist (stg s k)) = gots b (hist (stg s (S k))) ++ rest.
  Proof. exact (fifo_prefix L want cont n cap init). Qed.

  (* A stage that saw the end of a band has received everything that was
     written to it, and the writer has exited (so nothing will be added). *)
  Theorem C18_read_to_end_sees_all : forall s k b, reachable s -> S k < n ->
    eof_on b (hist (stg s (S k))) = true ->
    gots b (hist (stg s (S k))) = sents b (hist (stg s k)) /\ fin (stg s k) <> None.
  Proof. exact (read_to_end_sees_all L want cont n cap init). Qed.

  Theorem C18_exited_stage_frozen : forall s s' j, step s s' ->
    fin (stg s j) <> None -> stg s' j = stg s j.
  Proof. exact (exited_stage_frozen L want cont n cap). Qed.

  Theorem C18_hist_monotone : forall s s' j, step s s' ->
    exists ext, hist (stg s' j) = hist (stg s j) ++ ext.
  Proof. exact (hist_monotone L want cont n cap). Qed.

  (* No deadlock, full characterisation: a reachable state in which some stage
     is still running either has an enabled step or contains a cross-band wait
     (a reader waiting on one band only, its writer blocked on the other, full,
     band). *)
  Theorem C18_progress_or_cross_band : forall s, reachable s -> ~ all_done L n s ->
    can_move L want cont n cap s \/ cross_band_wait L want n cap s.
  Proof. exact (progress_or_cross_band L want cont n cap init cap_pos). Qed.

  (* Hence: when every receive is the merged receive of Frame.IterateInputs
     (which all `Inputs`-taking builtins use), there is no deadlock at all. *)
  Theorem C18_progress_merged_partial : forall s,
    (forall l b, want l <> WRecv (Only b)) ->
    reachable s -> ~ all_done L n s -> can_move L want cont n cap s.
  Proof. exact (progress_merged L want cont n cap init cap_pos). Qed.

  (* A stage that exits without reading all its input never makes the earlier
     stage hang: a writer whose reader has exited can always take its step (it
     observes reader-gone, or the buffer still has room). *)
  Theorem C18_writer_released_by_reader_gone : forall s k b x, reachable s -> S k < n ->
    fin (stg s (S k)) <> None -> fin (stg s k) = None -> want (loc (stg s k)) = WSend b x ->
    exists c s', fire k c s = Some s'.
  Proof. exact (writer_released_by_reader_gone L want cont n cap init). Qed.

  (* The pipeline finishes exactly when all its stages have finished, with the
     composed exception; a finished pipeline does nothing more. *)
  Theorem C18_completes_when_stages_complete : forall s : state L,
    all_done L n s <->
    result_state L n s = Some (make_pipeline_error (mask (exits L n s))).
  Proof. exact (completes_when_stages_complete L n). Qed.

  Theorem C18_finished_pipeline_is_terminal : forall s : state L,
    all_done L n s -> ~ can_move L want cont n cap s.
  Proof. exact (finished_pipeline_is_terminal L want cont n cap). Qed.

  (* The acceptor used on the implementation's observations admits every
     outcome the LTS can end in … *)
  Theorem C18_allowed_outcome_complete : forall s, reachable s -> all_done L n s ->
    allowed_outcome L want cont n init (obs_of L n s) = true.
  Proof. exact (allowed_outcome_complete L want cont n cap init). Qed.

  (* … and only outcomes that satisfy the property on observables. *)
  Theorem C18_allowed_outcome_sound : forall o,
    allowed_outcome L want cont n init o = true -> Spec_obs n o.
  Proof. exact (allowed_outcome_sound L want cont n init). Qed.

  Theorem C18_oracle_sound : forall o, check_obs n o = true -> Spec_obs n o.
  Proof. exact (check_obs_sound n). Qed.
End Generic.
Print Assumptions C18_fifo_prefix.
Print Assumptions C18_read_to_end_sees_all.
Print Assumptions C18_exited_stage_frozen.
Print Assumptions C18_hist_monotone.
Print Assumptions C18_progress_or_cross_band.
Print Assumptions C18_progress_merged_partial.
Print Assumptions C18_writer_released_by_reader_gone.
Print Assumptions C18_completes_when_stages_complete.
Print Assumptions C18_finished_pipeline_is_terminal.
Print Assumptions C18_allowed_outcome_complete.
Print Assumptions C18_allowed_outcome_sound.
Print Assumptions C18_oracle_sound.

(* ---- the pipeline exception: pipelineOp.exec's filter + MakePipelineError ---- *)

(* reader-gone of a stage that is not the last one is never reported … *)
Theorem C18_reader_gone_not_reported : forall es k,
  S k < length es -> nth k es None = Some ReaderGone -> forall e, ~ reports (mask es) k e.
Proof. exact reader_gone_not_reported. Qed.
Print Assumptions C18_reader_gone_not_reported.

(* … every other exception of every stage is reported, at its position … *)
Theorem C18_other_exceptions_all_reported : forall es k e,
  nth k es None = Some e -> (e <> ReaderGone \/ S k = length es) -> reports (mask es) k e.
Proof. exact other_exceptions_all_reported. Qed.
Print Assumptions C18_other_exceptions_all_reported.

(* … nothing is reported that no stage threw, and no exception at all iff
   nothing is reportable. *)
Theorem C18_nothing_else_reported : forall es k e,
  reports (mask es) k e -> nth k es None = Some e.
Proof. exact nothing_else_reported. Qed.
Print Assumptions C18_nothing_else_reported.

Theorem C18_no_exception_iff : forall es,
  make_pipeline_error (mask es) = FNone <-> forall k e, ~ reports (mask es) k e.
Proof. exact no_exception_iff. Qed.
Print Assumptions C18_no_exception_iff.

(* ---- the DSL instance ---- *)

(* The unrestricted statement (does not hold, see C18_cross_band_wait_can_block;
   such pipelines are outside the property's quantifier):
     forall p capB s, 1 <= capB -> preachable p capB s -> ~ pdone p s ->
       can_move lstate want cont (length p) (caps capB) s.
   Restricted to pipelines in which a reader that waits on one band only has a
   writer that never writes on the other band: *)
Theorem C18_progress_partial : forall p capB s,
  no_cross_band p = true -> 1 <= capB -> preachable p capB s -> ~ pdone p s ->
  can_move lstate want cont (length p) (caps capB) s.
Proof. exact dsl_progress. Qed.
Print Assumptions C18_progress_partial.

(* `put (range 33) | read-line`: the reader waits for a line, the writer is
   blocked on the full value channel, nobody can move. *)
Theorem C18_cross_band_wait_can_block :
  exists p capB s, 1 <= capB /\ preachable p capB s /\ ~ pdone p s /\
                   ~ can_move lstate want cont (length p) (caps capB) s.
Proof. exact cross_band_wait_can_block. Qed.
Print Assumptions C18_cross_band_wait_can_block.

Theorem C18_dsl_allowed_complete : forall p capB s,
  1 <= capB -> preachable p capB s -> pdone p s -> allowed p (pobs p s) = true.
Proof. exact dsl_allowed_complete. Qed.
Print Assumptions C18_dsl_allowed_complete.


(* ---- early exits never make earlier stages hang ---- *)

(* For every pipeline of the DSL without single-band reads — producers, `each`
   filters/forwarders/sinks, the band filters only-values / only-bytes, throwers,
   stages that leave at once, in any order and number — every reachable state in
   which a stage is still running can move: whatever exits early, nobody hangs.
   (Before /repo f37fd5c this was false for only-values / only-bytes, which joined
   their drain goroutine after reader-gone: `range 1000 | only-values | nop` hung;
   finding class band-filter-joins-drain-before-early-exit, status fixed.) *)
Theorem C18_early_exit_never_hangs : forall p capB s,
  no_recv1 p = true -> 1 <= capB -> preachable p capB s -> ~ pdone p s ->
  can_move lstate want cont (length p) (caps capB) s.
Proof. exact early_exit_never_hangs. Qed.
Print Assumptions C18_early_exit_never_hangs.

(* Read-to-end pipelines are deterministic.  When every stage has the shape
   `sends ; each {forward what the filter keeps} ; sends` (det_pipeline), two
   finished runs — whatever the schedules, whatever the byte-pipe capacities —
   agree on everything every stage received and wrote on each band, and no stage
   ends with an exception.  (Stage 0's `each` sees the empty input at once, so a
   plain producer is the special case with nothing after the drain.) *)
Theorem C18_deterministic_when_read_to_end : forall dp capB1 capB2 s1 s2,
  1 <= capB1 -> 1 <= capB2 ->
  preachable (det_pipeline dp) capB1 s1 -> pdone (det_pipeline dp) s1 ->
  preachable (det_pipeline dp) capB2 s2 -> pdone (det_pipeline dp) s2 ->
  forall k, k < length dp ->
    fin (stg s1 k) = Some None /\ fin (stg s2 k) = Some None /\
    forall b, gots b (hist (stg s1 k)) = gots b (hist (stg s2 k)) /\
              sents b (hist (stg s1 k)) = sents b (hist (stg s2 k)).
Proof. exact deterministic_when_read_to_end. Qed.
Print Assumptions C18_deterministic_when_read_to_end.

(* … and what they agree on is the data-flow function of the pipeline. *)
Theorem C18_read_to_end_flow : forall dp capB,
  1 <= capB -> forall s, preachable (det_pipeline dp) capB s -> pdone (det_pipeline dp) s ->
  forall k, k < length (det_pipeline dp) ->
    fin (stg s k) = Some None /\
    forall b, gots b (hist (stg s k)) = flow_in dp k b /\
              sents b (hist (stg s k)) = flow_out dp k b.
Proof. exact det_flow. Qed.
Print Assumptions C18_read_to_end_flow.

(* ---- non-vacuity: runs of concrete pipelines under concrete schedules ---- *)
Definition ex_p1 : pipeline :=
  [ [ISend V 1%N; ISend B 2%N; ISend V 3%N; ISend V 4%N];
    [IDrain (FMod 2%N 1%N) None; ISend V 9%N];
    [IDrain FNo None] ].

(* completes, the acceptor admits the outcome, the last stage got 4 then 9 on
   the value band and 2 on the byte band, no exception *)
Example C18_ex_filter_runs :
  match prun ex_p1 2 (auto_sched ex_p1 2 false 100 (init_state lstate (init ex_p1))) with
  | Some s => all_doneb lstate 3 s && allowed ex_p1 (pobs ex_p1 s)
              && list_eqb N.eqb (gots V (hist (stg s 2))) [4%N; 9%N]
              && list_eqb N.eqb (gots B (hist (stg s 2))) [2%N]
              && final_eqb (o_final (pobs ex_p1 s)) FNone
  | None => false
  end = true.
Proof. vm_compute. reflexivity. Qed.

(* an early-exiting reader: the writer observes reader-gone, nothing is reported *)
Definition ex_p2 : pipeline := [ repeat (ISend V 7%N) 40; [IRecv1 V] ].
Example C18_ex_reader_gone_runs :
  match prun ex_p2 1 (auto_sched ex_p2 1 true 100 (init_state lstate (init ex_p2))) with
  | Some s => all_doneb lstate 2 s && allowed ex_p2 (pobs ex_p2 s)
              && has_gone (hist (stg s 0))
              && oexn_eqb (nth 0 (exits lstate 2 s) None) (Some ReaderGone)
              && final_eqb (o_final (pobs ex_p2 s)) FNone
  | None => false
  end = true.
Proof. vm_compute. reflexivity. Qed.

(* two throwers and an unreported reader-gone: a pipeline error with OK in
   the other positions *)
Definition ex_p3 : pipeline :=
  [ repeat (ISend B 5%N) 3; [IThrow 101%N]; [IDrain FAll None]; [IThrow 103%N] ].
Example C18_ex_two_exceptions :
  match prun ex_p3 1 (auto_sched ex_p3 1 true 100 (init_state lstate (init ex_p3))) with
  | Some s => all_doneb lstate 4 s && allowed ex_p3 (pobs ex_p3 s)
              && final_eqb (o_final (pobs ex_p3 s))
                   (FMulti [None; Some (Fail 101%N); None; Some (Fail 103%N)])
  | None => false
  end = true.
Proof. vm_compute. reflexivity. Qed.

(* `range 34 | only-values | nop`: completes under the schedule that blocked it
   before the repair (last stage leaves, the filter is told reader-gone) and the
   producer observes reader-gone; nothing is reported *)
Example C18_ex_band_filter_early_exit :
  let s0 := init_state lstate (init p_filter) in
  match prun p_filter 1 [(2, true); (0, true); (1, true); (1, false)] with
  | Some s1 =>
    match run_sched lstate want cont 3 (caps 1) (auto_sched p_filter 1 false 200 s1) s1 with
    | Some s => all_doneb lstate 3 s && allowed_outcome lstate want cont 3 (init p_filter) (pobs p_filter s)
                && no_recv1 p_filter && has_gone (hist (stg s 0)) && has_gone (hist (stg s 1))
                && final_eqb (o_final (pobs p_filter s)) FNone
    | None => false
    end
  | None => false
  end = true.
Proof. vm_compute. reflexivity. Qed.
