(* C32 -- The editor event loop handles events serially and never loses a redraw.
   Property theorems only; every proof is [exact <lemma>].

   [run init ts = Some s] ranges over ALL finite traces of the transition-system
   model of pkg/cli/loop.go: environment steps (Input / Redraw / Return, from
   any number of goroutines) are enabled in every loop state, so every
   interleaving of every schedule is a trace; there is no bound on length.
   [proj ts] is the observable part of a trace (requests at their atomic points,
   callback entries/exits, the result of Run, and "the loop is blocked"). *)
From verif Require Import lib.Base gen.Consts model.C32 proofs.C32_proofs proofs.C32_spec proofs.C32_live.
Open Scope nat_scope.

(* ---- the property, for every trace of the model ---- *)

(* All clauses of the property at once, stated on positions of the trace only
   (see Spec_C32 in proofs/C32_spec.v): arrival order, one callback at a time,
   no event and no redraw request left unserved when the loop blocks, a full
   request served by a full redraw, first Return wins, exactly one final redraw
   which is the last callback. *)
Theorem C32_model_satisfies_property : forall ts s,
  run init ts = Some s -> Spec_C32 (proj ts).
Proof. exact model_satisfies_spec. Qed.
Print Assumptions C32_model_satisfies_property.

(* Events: in every reachable state, enqueued = handled ++ buffer content (so
   events are handled in arrival order, none lost, none duplicated), and the
   buffer never exceeds inputChSize. *)
Theorem C32_events_serial_in_order : forall ts s, run init ts = Some s ->
  inputs (proj ts) = handled (proj ts) ++ inq s /\ length (inq s) <= cap.
Proof. exact events_serial_in_order. Qed.
Print Assumptions C32_events_serial_in_order.

(* No two callbacks overlap, in any trace. *)
Theorem C32_callbacks_never_overlap : forall ts s a o1 b o2 c,
  run init ts = Some s -> proj ts = a ++ o1 :: b ++ o2 :: c ->
  is_start o1 = true -> is_start o2 = true -> exists o, In o b /\ is_end o = true.
Proof. exact callbacks_never_overlap. Qed.
Print Assumptions C32_callbacks_never_overlap.

(* A redraw request is never lost: in every reachable state, for every request
   in the trace, a redraw has started after it, or the loop has committed to
   return, or the token is still in redrawCh, or the loop is on its way to a
   redraw that needs no further request, or a Redraw call is still in flight
   (invoked, token not yet sent).  [Req f o]: o is Redraw(f) as a whole-call
   step or as an invocation whose two halves (set flag; send token) are
   separate steps. *)
Theorem C32_redraw_not_lost : forall ts s a o f b,
  run init ts = Some s -> proj ts = a ++ o :: b -> Req f o ->
  (exists o, In o b /\ is_redraw_start o = true) \/
  returning (pcs s) <> None \/ tok s = true \/ before_redraw (pcs s) = true \/ in_flight s.
Proof. exact redraw_not_lost. Qed.
Print Assumptions C32_redraw_not_lost.

(* ... and with loop_progress (below) a loop that is blocked has served all of
   them: the trace-level form. *)
Theorem C32_redraw_served_when_blocked : forall ts s a o f b c,
  run init ts = Some s -> proj ts = a ++ o :: b ++ OQuiesce :: c -> Req f o -> Served f b.
Proof. exact redraw_served_when_blocked. Qed.
Print Assumptions C32_redraw_served_when_blocked.

(* A requested full redraw is never downgraded: for every Redraw(true) in the
   trace, a FULL redraw has started after it, or the loop has committed to
   return, or the extracted flag is about to be drawn, or redrawFull is set and
   (the token is present, or the loop will extract it, or the call that set it
   still holds the mutex and will send the token), or the call has not started. *)
Theorem C32_full_not_downgraded : forall ts s a o b,
  run init ts = Some s -> proj ts = a ++ o :: b -> Req true o ->
  (exists o, In o b /\ is_full_start o = true) \/
  returning (pcs s) <> None \/ pcs s = PExtracted true \/
  (full s = true /\ (tok s = true \/ before_extract (pcs s) = true \/ mid s <> None)) \/
  pendf s <> 0.
Proof. exact full_not_downgraded. Qed.
Print Assumptions C32_full_not_downgraded.

(* The loop is never stuck: unless Run has returned or the loop sits in its
   select with no event, token or return pending, the loop itself can step --
   provided no Redraw call holds the mutex between its halves, and such a call
   can always finish. *)
Theorem C32_loop_progress : forall s,
  is_returned (pcs s) = false -> loop_idle s = false -> mid s = None ->
  exists l s', loop_label l = true /\ step s l = Some s'.
Proof. exact loop_progress. Qed.
Print Assumptions C32_loop_progress.

Theorem C32_redraw_call_progress : forall s f, mid s = Some f ->
  exists s', step s (Tau TRSecond) = Some s' /\ mid s' = None.
Proof. exact redraw_call_progress. Qed.
Print Assumptions C32_redraw_call_progress.

(* Every step of the loop itself strictly decreases a measure of the pending
   work (10 per token / queued event / pending return, plus the distance to the
   select), for every resolution of the select: without further requests the
   loop cannot run forever ... *)
Theorem C32_loop_steps_decrease : forall s l s',
  loop_label l = true -> step s l = Some s' -> measure s' < measure s.
Proof. exact loop_step_decreases. Qed.
Print Assumptions C32_loop_steps_decrease.

(* ... and it reaches, within [measure s] steps, a state where it is blocked
   with nothing pending or has returned. *)
Theorem C32_loop_settles : forall s, mid s = None ->
  exists ts s', (forall l, In l ts -> loop_label l = true) /\ length ts <= measure s /\
                run s ts = Some s' /\ settled s' = true.
Proof. exact loop_settles. Qed.
Print Assumptions C32_loop_settles.

(* In a blocked loop, every redraw request of the trace has been followed by a
   redraw start, every full request by a full redraw start. *)
Theorem C32_blocked_all_served : forall ts s a o f b,
  run init ts = Some s -> quiescent s = true -> proj ts = a ++ o :: b -> Req f o ->
  exists o, In o b /\ (if f then is_full_start o else is_redraw_start o) = true.
Proof. exact blocked_all_served. Qed.
Print Assumptions C32_blocked_all_served.

(* The value the loop commits to is that of the first Return of the trace. *)
Theorem C32_first_return_wins : forall ts s r,
  run init ts = Some s -> returning (pcs s) = Some r ->
  exists a1 a2, proj ts = a1 ++ EReturn r :: a2 /\ forall o, In o a1 -> is_return o = false.
Proof. exact first_return_wins. Qed.
Print Assumptions C32_first_return_wins.

(* The number of final redraws started is 0 until the loop enters its final
   redraw and exactly 1 from then on (in particular when Run has returned). *)
Theorem C32_exactly_one_final_redraw : forall ts s, run init ts = Some s ->
  count_final (proj ts) =
  (match pcs s with PFinalRedrawing _ | PFinalDone _ | PReturned _ => 1 | _ => 0 end).
Proof. exact exactly_one_final_redraw. Qed.
Print Assumptions C32_exactly_one_final_redraw.

(* ---- why Redraw sets the flag before it sends the token ---- *)

(* With the two halves of Redraw swapped (token first and outside the mutex,
   then lock and set the flag -- [run_ord true]) a Redraw(true) is lost: there
   is a run in which the call completes, the loop blocks with nothing pending,
   redrawFull is left set, and no full redraw started after the request; the
   oracle rejects its observable trace. *)
Theorem C32_swapped_redraw_loses_full :
  exists ts s,
    run_ord true init ts = Some s /\ quiescent s = true /\ full s = true /\
    proj ts = [CRedrawStart false; CRedrawEnd; ERedrawCall true;
               CRedrawStart false; CRedrawEnd; OQuiesce] /\
    check_C32 (proj ts) = false.
Proof. exact swapped_redraw_loses_full. Qed.
Print Assumptions C32_swapped_redraw_loses_full.

(* The same steps are not a run of the model of the code, and the acceptor
   rejects that observable trace. *)
Theorem C32_code_order_rejects_swapped_witness :
  run init swapped_witness = None /\
  accepts [CRedrawStart false; CRedrawEnd; ERedrawCall true;
           CRedrawStart false; CRedrawEnd; OQuiesce] = false.
Proof. exact code_order_rejects_swapped_witness. Qed.
Print Assumptions C32_code_order_rejects_swapped_witness.

(* The whole-call step used for unstaged requests is exactly the invocation
   followed by the two halves. *)
Theorem C32_redraw_atomic_is_two_halves : forall s f, mid s = None ->
  step s (Obs (ERedraw f)) = run s [Obs (ERedrawCall f); Tau (TRFirst f); Tau TRSecond].
Proof. exact redraw_atomic_is_two_halves. Qed.
Print Assumptions C32_redraw_atomic_is_two_halves.

(* ---- the tie to the recorded traces ---- *)

(* The acceptor run on a recorded trace is sound: an accepted trace is the
   observable projection of a run of the model. *)
Theorem C32_acceptor_sound : forall os,
  accepts os = true -> exists ts s, run init ts = Some s /\ proj ts = os.
Proof. exact accepts_sound. Qed.
Print Assumptions C32_acceptor_sound.

(* The acceptor admits only property-satisfying behaviour. *)
Theorem C32_accepted_traces_satisfy_property : forall os,
  accepts os = true -> Spec_C32 os.
Proof. exact accepted_satisfy_spec. Qed.
Print Assumptions C32_accepted_traces_satisfy_property.

(* The decidable oracle evaluated on the recorded traces implies the Prop-level
   property, and every model trace passes it. *)
Theorem C32_oracle_sound : forall os, check_C32 os = true -> Spec_C32 os.
Proof. exact check_C32_sound. Qed.
Print Assumptions C32_oracle_sound.

Theorem C32_model_traces_pass_oracle : forall ts s,
  run init ts = Some s -> check_C32 (proj ts) = true.
Proof. exact model_traces_pass_oracle. Qed.
Print Assumptions C32_model_traces_pass_oracle.

(* ---- non-vacuity ---- *)
(* a run with a handled event, a full redraw request made while drawing, and a return *)
Example C32_example_accepted :
  accepts [CRedrawStart false; EInput 1; ERedraw true; CRedrawEnd; CHandleStart 1; CHandleEnd;
           CRedrawStart true; CRedrawEnd; CRedrawStart false; CRedrawEnd; OQuiesce;
           EReturn 7; EReturn 8; CFinalStart false; CFinalEnd; CReturned 7]%N = true
  /\ check_C32 [CRedrawStart false; EInput 1; ERedraw true; CRedrawEnd; CHandleStart 1; CHandleEnd;
           CRedrawStart true; CRedrawEnd; CRedrawStart false; CRedrawEnd; OQuiesce;
           EReturn 7; EReturn 8; CFinalStart false; CFinalEnd; CReturned 7]%N = true.
Proof. split; vm_compute; reflexivity. Qed.

(* a staged trace: the loop is queued at the mutex when Redraw(true) is invoked *)
Example C32_example_staged_accepted :
  accepts [CRedrawStart false; CRedrawEnd; OQuiesce; EInput 1; CHandleStart 1; CHandleEnd;
           ERedrawCall true; CRedrawStart false; CRedrawEnd; CRedrawStart true; CRedrawEnd;
           OQuiesce]%N = true.
Proof. vm_compute; reflexivity. Qed.

(* the oracle rejects: a downgraded full redraw, a lost redraw, events out of
   order, the second Return winning, a missing final redraw, overlapping callbacks *)
Example C32_example_rejected :
  check_C32 [CRedrawStart false; ERedraw true; CRedrawEnd; CRedrawStart false; CRedrawEnd; OQuiesce] = false
  /\ check_C32 [CRedrawStart false; ERedraw false; CRedrawEnd; OQuiesce] = false
  /\ check_C32 [EInput 1; EInput 2; CRedrawStart false; CRedrawEnd; CHandleStart 2]%N = false
  /\ check_C32 [EReturn 1; EReturn 2; CRedrawStart false; CRedrawEnd; CFinalStart false; CFinalEnd; CReturned 2]%N = false
  /\ check_C32 [EReturn 1; CRedrawStart false; CRedrawEnd; CReturned 1]%N = false
  /\ check_C32 [EInput 1; CRedrawStart false; CHandleStart 1]%N = false.
Proof. vm_compute; repeat split; reflexivity. Qed.
