(* C32 -- The editor event loop handles events serially and never loses a redraw.
   Property theorems only; every proof is [exact <lemma>].

   [run init ts = Some s] ranges over ALL finite traces of the transition-system
   model of pkg/cli/loop.go: environment steps (Input / Redraw / Return, from
   any number of goroutines) are enabled in every loop state, so every
   interleaving of every schedule is a trace; there is no bound on length.
   [proj ts] is the observable part of a trace (requests at their atomic points,
   callback entries/exits, the result of Run, and "the loop is blocked"). *)
From verif Require Import lib.Base gen.Consts model.C32 proofs.C32_proofs proofs.C32_spec proofs.C32_live.
Open Scope nat_scope.

(* ---- the property, for every trace of the model ---- *)

(* All clauses of the property at once, stated on positions of the trace only
   (see Spec_C32 in proofs/C32_spec.v): arrival order, one callback at a time,
   no event and no redraw request left unserved when the loop blocks, a full
   request served by a full redraw, first Return wins, exactly one final redraw
   which is the last callback. *)
Theorem C32_model_satisfies_property : forall ts s,
  run init ts = Some s -> Spec_C32 (proj ts).
Proof. exact model_satisfies_spec. Qed.
Print Assumptions C32_model_satisfies_property.

(* Events: in every reachable state, enqueued = handled ++ buffer content (so
   events are handled in arrival order, none lost, none duplicated), and the
   buffer never exceeds inputChSize. *)
Theorem C32_events_serial_in_order : forall ts s, run init ts = Some s ->
  inputs (proj ts) = handled (proj ts) ++ inq s /\ length (inq s) <= cap.
Proof. exact events_serial_in_order. Qed.
Print Assumptions C32_events_serial_in_order.

(* No two callbacks overlap, in any trace. *)
Theorem C32_callbacks_never_overlap : forall ts s a o1 b o2 c,
  run init ts = Some s -> proj ts = a ++ o1 :: b ++ o2 :: c ->
  is_start o1 = true -> is_start o2 = true -> exists o, In o b /\ is_end o = true.
Proof. exact callbacks_never_overlap. Qed.
Print Assumptions C32_callbacks_never_overlap.

(* A redraw request is never lost: in every reachable state, for every request
   in the trace, a redraw has started after it, or the loop has committed to
   return, or the token is still in redrawCh, or the loop is on its way to a
   redraw that needs no further request. *)
Theorem C32_redraw_not_lost : forall ts s a f b,
  run init ts = Some s -> proj ts = a ++ ERedraw f :: b ->
  (exists o, In o b /\ is_redraw_start o = true) \/
  returning (pcs s) <> None \/ tok s = true \/ before_redraw (pcs s) = true.
Proof. exact redraw_not_lost. Qed.
Print Assumptions C32_redraw_not_lost.

(* ... and with loop_progress (below) a loop that is blocked has served all of
   them: the trace-level form. *)
Theorem C32_redraw_served_when_blocked : forall ts s a f b c,
  run init ts = Some s -> proj ts = a ++ ERedraw f :: b ++ OQuiesce :: c -> Served f b.
Proof. exact redraw_served_when_blocked. Qed.
Print Assumptions C32_redraw_served_when_blocked.

(* A requested full redraw is never downgraded: for every Redraw(true) in the
   trace, a FULL redraw has started after it, or the loop has committed to
   return, or the extracted flag is about to be drawn, or redrawFull is still
   set and will be extracted. *)
Theorem C32_full_not_downgraded : forall ts s a b,
  run init ts = Some s -> proj ts = a ++ ERedraw true :: b ->
  (exists o, In o b /\ is_full_start o = true) \/
  returning (pcs s) <> None \/ pcs s = PExtracted true \/
  (full s = true /\ (tok s = true \/ before_extract (pcs s) = true)).
Proof. exact full_not_downgraded. Qed.
Print Assumptions C32_full_not_downgraded.

(* The loop is never stuck: unless Run has returned or the loop sits in its
   select with no event, token or return pending, the loop itself can step. *)
Theorem C32_loop_progress : forall s,
  is_returned (pcs s) = false -> quiescent s = false ->
  exists l s', loop_label l = true /\ step s l = Some s'.
Proof. exact loop_progress. Qed.
Print Assumptions C32_loop_progress.

(* Every step of the loop itself strictly decreases a measure of the pending
   work (10 per token / queued event / pending return, plus the distance to the
   select), for every resolution of the select: without further requests the
   loop cannot run forever ... *)
Theorem C32_loop_steps_decrease : forall s l s',
  loop_label l = true -> step s l = Some s' -> measure s' < measure s.
Proof. exact loop_step_decreases. Qed.
Print Assumptions C32_loop_steps_decrease.

(* ... and it reaches, within [measure s] steps, a state where it is blocked
   with nothing pending or has returned. *)
Theorem C32_loop_settles : forall s,
  exists ts s', (forall l, In l ts -> loop_label l = true) /\ length ts <= measure s /\
                run s ts = Some s' /\ settled s' = true.
Proof. exact loop_settles. Qed.
Print Assumptions C32_loop_settles.

(* In a blocked loop, every redraw request of the trace has been followed by a
   redraw start, every full request by a full redraw start. *)
Theorem C32_blocked_all_served : forall ts s a f b,
  run init ts = Some s -> quiescent s = true -> proj ts = a ++ ERedraw f :: b ->
  exists o, In o b /\ (if f then is_full_start o else is_redraw_start o) = true.
Proof. exact blocked_all_served. Qed.
Print Assumptions C32_blocked_all_served.

(* The value the loop commits to is that of the first Return of the trace. *)
Theorem C32_first_return_wins : forall ts s r,
  run init ts = Some s -> returning (pcs s) = Some r ->
  exists a1 a2, proj ts = a1 ++ EReturn r :: a2 /\ forall o, In o a1 -> is_return o = false.
Proof. exact first_return_wins. Qed.
Print Assumptions C32_first_return_wins.

(* The number of final redraws started is 0 until the loop enters its final
   redraw and exactly 1 from then on (in particular when Run has returned). *)
Theorem C32_exactly_one_final_redraw : forall ts s, run init ts = Some s ->
  count_final (proj ts) =
  (match pcs s with PFinalRedrawing _ | PFinalDone _ | PReturned _ => 1 | _ => 0 end).
Proof. exact exactly_one_final_redraw. Qed.
Print Assumptions C32_exactly_one_final_redraw.

(* ---- the tie to the recorded traces ---- *)

(* The acceptor run on a recorded trace is sound: an accepted trace is the
   observable projection of a run of the model. *)
Theorem C32_acceptor_sound : forall os,
  accepts os = true -> exists ts s, run init ts = Some s /\ proj ts = os.
Proof. exact accepts_sound. Qed.
Print Assumptions C32_acceptor_sound.

(* The acceptor admits only property-satisfying behaviour. *)
Theorem C32_accepted_traces_satisfy_property : forall os,
  accepts os = true -> Spec_C32 os.
Proof. exact accepted_satisfy_spec. Qed.
Print Assumptions C32_accepted_traces_satisfy_property.

(* The decidable oracle evaluated on the recorded traces implies the Prop-level
   property, and every model trace passes it. *)
Theorem C32_oracle_sound : forall os, check_C32 os = true -> Spec_C32 os.
Proof. exact check_C32_sound. Qed.
Print Assumptions C32_oracle_sound.

Theorem C32_model_traces_pass_oracle : forall ts s,
  run init ts = Some s -> check_C32 (proj ts) = true.
Proof. exact model_traces_pass_oracle. Qed.
Print Assumptions C32_model_traces_pass_oracle.

(* ---- non-vacuity ---- *)
(* a run with a handled event, a full redraw request made while drawing, and a return *)
Example C32_example_accepted :
  accepts [CRedrawStart false; EInput 1; ERedraw true; CRedrawEnd; CHandleStart 1; CHandleEnd;
           CRedrawStart true; CRedrawEnd; CRedrawStart false; CRedrawEnd; OQuiesce;
           EReturn 7; EReturn 8; CFinalStart false; CFinalEnd; CReturned 7]%N = true
  /\ check_C32 [CRedrawStart false; EInput 1; ERedraw true; CRedrawEnd; CHandleStart 1; CHandleEnd;
           CRedrawStart true; CRedrawEnd; CRedrawStart false; CRedrawEnd; OQuiesce;
           EReturn 7; EReturn 8; CFinalStart false; CFinalEnd; CReturned 7]%N = true.
Proof. split; vm_compute; reflexivity. Qed.

(* the oracle rejects: a downgraded full redraw, a lost redraw, events out of
   order, the second Return winning, a missing final redraw, overlapping callbacks *)
Example C32_example_rejected :
  check_C32 [CRedrawStart false; ERedraw true; CRedrawEnd; CRedrawStart false; CRedrawEnd; OQuiesce] = false
  /\ check_C32 [CRedrawStart false; ERedraw false; CRedrawEnd; OQuiesce] = false
  /\ check_C32 [EInput 1; EInput 2; CRedrawStart false; CRedrawEnd; CHandleStart 2]%N = false
  /\ check_C32 [EReturn 1; EReturn 2; CRedrawStart false; CRedrawEnd; CFinalStart false; CFinalEnd; CReturned 2]%N = false
  /\ check_C32 [EReturn 1; CRedrawStart false; CRedrawEnd; CReturned 1]%N = false
  /\ check_C32 [EInput 1; CRedrawStart false; CHandleStart 1]%N = false.
Proof. vm_compute; repeat split; reflexivity. Qed.
