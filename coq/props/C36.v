(* C36 — The Markdown formatter preserves meaning and is idempotent.
   Property theorems only; every proof is [exact <lemma>].
   Proved: safety of the modelled escaping decisions and of the greedy line
   breaking of fmt.go.  HTML preservation, idempotence and the link-tail round
   trip are validated on every run on the implementation's output
   (checks/C36.md); they are not theorems. *)
From Coq Require Import String.
From verif Require Import lib.Base model.C35_Bal model.C35_Inline model.C36 proofs.C36_proofs.

(* The fence chosen by codeFences is safe for every info string and content:
   it consists of at least 3 backticks or tildes, no content line can be read as
   its closing fence (it is longer than every run of the fence byte in the
   content), the opening line starts with it, and a backtick fence never
   carries a backtick in its info string. *)
Theorem C36_code_fence_safe : forall info lines,
  fence_safe info lines (fst (code_fences info lines)) (snd (code_fences info lines)) = true.
Proof. exact code_fence_safe. Qed.
Print Assumptions C36_code_fence_safe.

(* escapeText (modelled dispatch table): removing the backslash escapes gives
   the text back (a non-breaking space is written as its entity), and no
   unescaped bracket, star, backtick, backslash or less-than sign remains.
   Partial: underscore and ampersand are left unescaped in contexts where the
   inline parser cannot treat them as markup (intraword underscore, ampersand
   that starts no character reference); that those contexts are inert is
   covered by the sampled HTML-preservation check, not by this theorem. *)
Theorem C36_escaped_text_is_inert_partial : forall s, esc_text_ok s (escape_text s) = true.
Proof. exact escaped_text_is_inert. Qed.
Print Assumptions C36_escaped_text_is_inert_partial.

(* Reflow line breaking (greedy model, lines whose start needs no escaping):
   the words come out in order, none lost or added ... *)
Theorem C36_reflow_preserves_words : forall maxw spans, concat (reflow maxw [] 0 spans) = spans.
Proof. exact reflow_preserves_words. Qed.
Print Assumptions C36_reflow_preserves_words.

(* ... and every line fits the width unless it is a single unbreakable span. *)
Theorem C36_reflow_fits_or_unbreakable : forall maxw spans,
  Forall (fun l => (line_width l <= maxw)%nat \/ List.length l = 1%nat) (reflow maxw [] 0 spans).
Proof. exact reflow_fits_or_unbreakable. Qed.
Print Assumptions C36_reflow_fits_or_unbreakable.

(* non-vacuity and link-tail round trips on planted hard cases (destination with
   spaces / unbalanced parentheses / leading angle bracket, titles with every
   kind of quote, character references, newlines): parse (format d t) = (d, t) *)
Example C36_example_link_tail_roundtrip :
  forallb (fun p => tail_roundtrip (fst p) (snd p) (format_link_tail (fst p) (snd p)))
    [ (hx "612062", hx "74");                 (* "a b", "t" *)
      (hx "28", hx "2227");                   (* "(", both quotes *)
      (hx "3c78", hx "222728");               (* "<x", quote apostrophe paren *)
      (hx "", hx "74");                       (* empty destination with title *)
      (hx "26616d703b", hx "2623343b0a5c");   (* "&amp;", "&#4;\n\" *)
      (hx "75287629", hx "") ] = true.
Proof. vm_compute. reflexivity. Qed.

Example C36_example_fence :
  code_fences (hx "61") [hx "60606060"; hx "7e7e7e"] = (hx "606060606061", hx "6060606060")
  /\ code_fences (hx "7e60") [hx "7e7e7e"] = (hx "7e7e7e7e207e60", hx "7e7e7e7e").
Proof. vm_compute. split; reflexivity. Qed.

Example C36_example_reflow :
  reflow 7 [] 0 [hx "6161"; hx "6262"; hx "6363636363636363"; hx "64"] =
  [[hx "6161"; hx "6262"]; [hx "6363636363636363"]; [hx "64"]].
Proof. vm_compute. reflexivity. Qed.
