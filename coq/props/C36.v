(* C36 — The Markdown formatter preserves meaning and is idempotent.
   Property theorems only; every proof is [exact <lemma>].
   Proved: safety of the modelled escaping decisions and of the greedy line
   breaking of fmt.go.  HTML preservation, idempotence and the link-tail round
   trip are validated on every run on the implementation's output
   (checks/C36.md); they are not theorems. *)
From Coq Require Import String.
From verif Require Import lib.Base model.C35_Bal model.C35_Inline model.C36 proofs.C36_proofs proofs.C36_inert proofs.C36_linktail.

(* The fence chosen by codeFences is safe for every info string and content:
   it consists of at least 3 backticks or tildes, no content line can be read as
   its closing fence (it is longer than every run of the fence byte in the
   content), the opening line starts with it, and a backtick fence never
   carries a backtick in its info string. *)
Theorem C36_code_fence_safe : forall info lines,
  fence_safe info lines (fst (code_fences info lines)) (snd (code_fences info lines)) = true.
Proof. exact code_fence_safe. Qed.
Print Assumptions C36_code_fence_safe.

(* escapeText (modelled dispatch table), for every rune text whose word flags are
   sane (no word rune is one of the special bytes): removing the backslash
   escapes gives the text back (a non-breaking space is written as its entity);
   no bracket, star, backtick, backslash or less-than sign is left unescaped; an
   underscore left unescaped has word runes on both sides in the OUTPUT, where
   canOpenCloseEmphasis (C35) gives it neither the right to open nor to close;
   an ampersand left unescaped starts no character reference in the OUTPUT
   (leadingCharRef of the output from there is empty), except the nbsp entity. *)
Theorem C36_escaped_text_is_inert : forall s, sane s = true ->
  esc_text_ok s (esc_text_w false s) = true.
Proof. exact escaped_text_is_inert. Qed.
Print Assumptions C36_escaped_text_is_inert.

(* Reflow line breaking (greedy model, lines whose start needs no escaping):
   the words come out in order, none lost or added ... *)
Theorem C36_reflow_preserves_words : forall maxw spans, concat (reflow maxw [] 0 spans) = spans.
Proof. exact reflow_preserves_words. Qed.
Print Assumptions C36_reflow_preserves_words.

(* ... and every line fits the width unless it is a single unbreakable span. *)
Theorem C36_reflow_fits_or_unbreakable : forall maxw spans,
  Forall (fun l => (line_width l <= maxw)%nat \/ List.length l = 1%nat) (reflow maxw [] 0 spans).
Proof. exact reflow_fits_or_unbreakable. Qed.
Print Assumptions C36_reflow_fits_or_unbreakable.

(* Link tails round-trip, for ALL destinations and titles (any bytes): the
   modelled parser applied to what the modelled formatter writes consumes all of
   it and returns exactly the destination and the title.  (formatLinkTail with
   escapeAmpersandBackslash, wrapAndEscapeLinkTitle, balancedParens,
   escapeNewLines against linkTailParser.parse with parseBackslash, parseCharRef,
   leadingCharRef, unescapeHTML.) *)
Theorem C36_link_tail_roundtrip : forall dest title,
  parse_link_tail (format_link_tail dest title) =
  TailOk (List.length (format_link_tail dest title)) dest title.
Proof. exact link_tail_roundtrip. Qed.
Print Assumptions C36_link_tail_roundtrip.

(* non-vacuity and link-tail round trips on planted hard cases (destination with
   spaces / unbalanced parentheses / leading angle bracket, titles with every
   kind of quote, character references, newlines): parse (format d t) = (d, t) *)
Example C36_example_link_tail_roundtrip :
  forallb (fun p => tail_roundtrip (fst p) (snd p) (format_link_tail (fst p) (snd p)))
    [ (hx "612062", hx "74");                 (* "a b", "t" *)
      (hx "28", hx "2227");                   (* "(", both quotes *)
      (hx "3c78", hx "222728");               (* "<x", quote apostrophe paren *)
      (hx "", hx "74");                       (* empty destination with title *)
      (hx "26616d703b", hx "2623343b0a5c");   (* "&amp;", "&#4;\n\" *)
      (hx "75287629", hx "") ] = true.
Proof. vm_compute. reflexivity. Qed.

Example C36_example_fence :
  code_fences (hx "61") [hx "60606060"; hx "7e7e7e"] = (hx "606060606061", hx "6060606060")
  /\ code_fences (hx "7e60") [hx "7e7e7e"] = (hx "7e7e7e7e207e60", hx "7e7e7e7e").
Proof. vm_compute. split; reflexivity. Qed.

Example C36_example_reflow :
  reflow 7 [] 0 [hx "6161"; hx "6262"; hx "6363636363636363"; hx "64"] =
  [[hx "6161"; hx "6262"]; [hx "6363636363636363"]; [hx "64"]].
Proof. vm_compute. reflexivity. Qed.
