(* C22 -- A module is evaluated at most once per interpreter and shared.
   Property theorems only; every proof is [exact <lemma>].

   Model (model/C22.v): Evaler.modules as a map key -> (module, namespace id)
   with fresh ids; files, bundled modules and lib dirs as an environment E;
   use / useFromFile / evalModule as coded (install before executing, delete
   on failure); a run is any sequence of top-level imports and flag switches
   on one evaler; what happens is recorded as a trace of events (body starts,
   body ends, evaluation failed, importer saw namespace n of module m).
   All theorems quantify over every environment E with distinct module
   identities (wf_env) -- any import graph, diamonds and cycles included --
   and every action sequence; there is no bound anywhere. *)
From verif Require Import lib.Base model.C22 proofs.C22_proofs proofs.C22_inv proofs.C22_trace
  proofs.C22_paths proofs.C22_ended.

(* Between two starts of the body of one module the earlier evaluation has
   failed: a module is evaluated at most once unless it failed, however many
   times and from however many places it is imported. *)
Theorem C22_evaluated_at_most_once_unless_failed : forall E acts,
  wf_env E ->
  forall pre m n' mid n post,
    trace_of E acts = pre ++ EStart m n' :: mid ++ EStart m n :: post ->
    In (EFailed m n') mid.
Proof. exact evaluated_at_most_once_unless_failed. Qed.
Print Assumptions C22_evaluated_at_most_once_unless_failed.

(* A module whose body ran to its end is never evaluated again, for the life
   of the evaler (it stays cached: only a failing evaluation deletes, and only
   its own key). *)
Theorem C22_completed_never_reevaluated : forall E acts,
  wf_env E ->
  forall pre m n post,
    trace_of E acts = pre ++ EEnd m n :: post -> forall n', ~ In (EStart m n') post.
Proof. exact completed_never_reevaluated. Qed.
Print Assumptions C22_completed_never_reevaluated.

(* The cache key is canonical: spellings that differ by "." elements, doubled
   slashes or "name/.." detours are cleaned to the same key; a lib-dir import
   [name] and a relative import [./name] from that directory share the key. *)
Theorem C22_key_dot_element_ignored : forall d x,
  clean_abs (d ++ SL :: DOT :: SL :: x) = clean_abs (d ++ SL :: x).
Proof. exact dot_element_ignored. Qed.
Print Assumptions C22_key_dot_element_ignored.

Theorem C22_key_double_slash_ignored : forall d x,
  clean_abs (d ++ SL :: SL :: x) = clean_abs (d ++ SL :: x).
Proof. exact double_slash_ignored. Qed.
Print Assumptions C22_key_double_slash_ignored.

Theorem C22_key_dotdot_cancels : forall d name x,
  proper name ->
  clean_abs (d ++ SL :: name ++ SL :: DOT :: DOT :: SL :: x) = clean_abs (d ++ SL :: x).
Proof. exact dotdot_cancels. Qed.
Print Assumptions C22_key_dotdot_cancels.

Theorem C22_lib_and_relative_same_key : forall (cx : ctx) d name,
  name <> [] -> join_path d name = rel_path cx (Some d) (DOT :: SL :: name).
Proof. exact lib_and_relative_same_key. Qed.
Print Assumptions C22_lib_and_relative_same_key.

(* A module whose evaluation fails is not remembered: after the failure no
   import returns the failed namespace ... *)
Theorem C22_failed_not_cached : forall E acts,
  wf_env E ->
  forall pre a imp spec m n post,
    trace_of E acts = pre ++ ESeen a imp spec m n :: post -> ~ In (EFailed m n) pre.
Proof. exact failed_not_cached_trace. Qed.
Print Assumptions C22_failed_not_cached.

(* ... because the failing evaluation leaves its key uncached, and an uncached
   key whose file exists is evaluated (again); a cached key is returned as it
   is, with no evaluation. *)
Theorem C22_failed_not_cached_step : forall cx u key org b s s' k,
  eval_module cx u key org b s = (s', Err k) -> lookup key (cache s') = None.
Proof. exact failed_not_cached_step. Qed.
Print Assumptions C22_failed_not_cached_step.

Theorem C22_uncached_is_evaluated : forall E cx u path b s,
  lookup path (cache s) = None -> lookup path (fs E) = Some b ->
  use_file E cx u path s = Some (eval_module cx u path (Some (dir_of path)) b s).
Proof. exact uncached_is_evaluated. Qed.
Print Assumptions C22_uncached_is_evaluated.

Theorem C22_cached_is_shared : forall E cx u path s v,
  lookup path (cache s) = Some v -> use_file E cx u path s = Some (s, Ok v).
Proof. exact cached_is_shared. Qed.
Print Assumptions C22_cached_is_shared.

(* Relative imports resolve against the importing file -- the directory of
   the module's own file, or of the script file -- and against the working
   directory for code that is not from a file (imp_dir), through
   filepath.Clean: what the importer got is the module stored at
   Clean(dir/spec). *)
Theorem C22_relative_resolves_against_importer : forall E acts,
  wf_env E ->
  forall a imp spec tm tn,
    In (ESeen a imp spec tm tn) (trace_of E acts) -> is_rel spec = true ->
    exists d b, imp_dir E acts a imp = Some d
                /\ lookup (clean_abs (d ++ SL :: spec)) (fs E) = Some b /\ b_id b = tm.
Proof. exact relative_resolves_against_importer. Qed.
Print Assumptions C22_relative_resolves_against_importer.

Theorem C22_relative_step : forall E cx f org spec s,
  is_rel spec = true ->
  use E cx (S f) org spec s =
  match use_file E cx (use E cx f)
          (clean_abs ((match org with Some d => d | None => cx_cwd cx end) ++ SL :: spec)) s with
  | Some x => x
  | None => (s, Err K_NOMOD)
  end.
Proof. exact relative_step. Qed.
Print Assumptions C22_relative_step.

(* All importers see the same namespace.
   FULL STATEMENT (false of the code, see C22_same_namespace_refuted):
     forall E acts, wf_env E -> SameNs (trace_of E acts)
   where SameNs tr says: any two importers that still hold what they imported
   (scripts, and module evaluations that ran to their end) and imported the
   same module hold the same namespace id.
   PROVED under the hypothesis that no evaluation that fails is imported while
   it is in progress, i.e. no failing module lies on an exercised import
   cycle. *)
Theorem C22_same_namespace_partial : forall E acts,
  wf_env E ->
  (forall pre m n mid post,
     trace_of E acts = pre ++ EStart m n :: mid ++ EFailed m n :: post ->
     forall a i sp, ~ In (ESeen a i sp m n) mid) ->
  forall a1 i1 sp1 a2 i2 sp2 m n1 n2,
    In (ESeen a1 i1 sp1 m n1) (trace_of E acts) ->
    In (ESeen a2 i2 sp2 m n2) (trace_of E acts) ->
    ImpLive (trace_of E acts) i1 -> ImpLive (trace_of E acts) i2 -> n1 = n2.
Proof. exact same_namespace_partial. Qed.
Print Assumptions C22_same_namespace_partial.

(* in particular whenever nothing fails *)
Theorem C22_same_namespace_no_failures : forall E acts,
  wf_env E -> (forall m n, ~ In (EFailed m n) (trace_of E acts)) -> SameNs (trace_of E acts).
Proof. exact same_namespace_no_failures. Qed.
Print Assumptions C22_same_namespace_no_failures.

(* The unrestricted statement is refuted by a two-module cycle: ma imports mb
   and then fails; mb imports ma.  mb stays cached holding ma's dropped
   namespace 0; the next import of ma creates namespace 2. *)
Theorem C22_same_namespace_refuted :
  exists E acts, wf_env E /\ ~ SameNs (trace_of E acts).
Proof. exact same_namespace_refuted. Qed.
Print Assumptions C22_same_namespace_refuted.

(* The model's [use] terminates on every import graph, cyclic ones included:
   fuel above the number of evaluable keys not yet cached is never exhausted,
   because evalModule installs the key before executing the body (each nested
   evaluation lowers that number, and whatever returns leaves earlier entries
   cached).  fuel_of E = files + bundled modules + 1 is what the judge uses. *)
Theorem C22_use_terminates_avail : forall E cx fuel org spec s,
  (avail E s < fuel)%nat -> snd (use E cx fuel org spec s) <> OOF.
Proof. exact use_terminates_avail. Qed.
Print Assumptions C22_use_terminates_avail.

Theorem C22_use_terminates : forall E cx org spec s,
  snd (use E cx (fuel_of E) org spec s) <> OOF.
Proof. exact use_terminates. Qed.
Print Assumptions C22_use_terminates.

(* Whatever was cached when an import starts is still cached, unchanged, when
   it returns (only the failing evaluation's own key is ever deleted). *)
Theorem C22_use_preserves_cache : forall E cx fuel org spec s k v,
  lookup k (cache s) = Some v ->
  lookup k (cache (fst (use E cx fuel org spec s))) = Some v.
Proof. exact use_preserves_cache. Qed.
Print Assumptions C22_use_preserves_cache.

(* The whole property for the model, outside the refuted class. *)
Theorem C22_model_satisfies_spec_partial : forall E acts,
  wf_env E -> NoFailingCycleMember (trace_of E acts) -> Spec_C22 E acts (trace_of E acts).
Proof. exact model_satisfies_spec_partial. Qed.
Print Assumptions C22_model_satisfies_spec_partial.

(* The oracle evaluated on the implementation's trace is sound for the same
   specification. *)
Theorem C22_oracle_sound : forall E acts tr,
  check_C22 E acts tr = true -> Spec_C22 E acts tr.
Proof. exact check_C22_sound. Qed.
Print Assumptions C22_oracle_sound.

(* non-vacuity: the oracle accepts a diamond and rejects the defect trace *)
Example C22_oracle_accepts_shared :
  check_C22 w_env [AUse w_w OCwd s_mb; AUse w_w OCwd s_ma]
            (trace_of w_env [AUse w_w OCwd s_mb; AUse w_w OCwd s_ma]) = true.
Proof. vm_compute. reflexivity. Qed.

Example C22_oracle_rejects_defect :
  check_C22 w_env w_acts (trace_of w_env w_acts) = false.
Proof. vm_compute. reflexivity. Qed.

Example C22_oracle_rejects_double_evaluation :
  check_C22 w_env [AUse w_w OCwd s_mb]
            [EStart 1 0; EStart 0 1; EStart 1 2; EEnd 1 2; EEnd 0 1; EEnd 1 0; EResult 0 0] = false.
Proof. vm_compute. reflexivity. Qed.
