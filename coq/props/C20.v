(* C20 -- peach and run-parallel run each task once; one-worker peach equals each.
   Property theorems only; every proof is [exact <lemma>].

   Model: coq/model/C20_Peach.v.  [reach c cb n s] = state s is reachable in the
   transition system of peach with dispatcher configuration c (worker bound,
   repairs), callback behaviour cb and n inputs, by ANY interleaving of the
   dispatcher, the workers and a context cancellation.  [pc s = DDone] = peach
   has returned.  [cancelled s = false] = no cancellation happened. *)
From verif Require Import lib.Base model.C20_Peach model.C20 proofs.C20_proofs proofs.C20_rp_proofs proofs.C20_oracle_proofs proofs.C20_p1_proofs.
From Coq Require Import Permutation.
Open Scope nat_scope.

(* the callback is entered at most once per input: every reachable state, every
   schedule, cancellation included *)
Theorem C20_at_most_once_per_input : forall c cb n s,
  reach c cb n s -> forall i, calls s i <= 1.
Proof. exact at_most_once_per_input. Qed.
Print Assumptions C20_at_most_once_per_input.

(* exactly once per input when no callback breaks or fails *)
Theorem C20_exactly_once_if_no_break_fail : forall c cb n s,
  reach c cb n s -> cancelled s = false -> pc s = DDone ->
  (forall i, i < n -> is_breaker (cb_kind (cb i)) = false) ->
  forall i, i < n -> calls s i = 1.
Proof. exact exactly_once_if_no_break_fail. Qed.
Print Assumptions C20_exactly_once_if_no_break_fail.

(* never more callbacks at once than the bound (no cancellation, or with the
   Acquire error honoured) *)
Theorem C20_bound_respected : forall c cb n s b,
  reach c cb n s -> fix_acqerr c = true \/ cancelled s = false ->
  bound c = Some b -> running n s <= b.
Proof. exact bound_respected. Qed.
Print Assumptions C20_bound_respected.

(* the output is exactly the union (as a multiset) of the outputs of the callbacks that ran *)
Theorem C20_outputs_are_union : forall c cb n s,
  reach c cb n s -> pc s = DDone ->
  Permutation (out s) (flat_map (fun i => if calls s i =? 0 then [] else cb_outs (cb i)) (seq 0 n)).
Proof. exact outputs_are_union. Qed.
Print Assumptions C20_outputs_are_union.

(* peach returns only after every started callback has finished *)
Theorem C20_returns_after_all_done : forall c cb n s,
  reach c cb n s -> pc s = DDone ->
  (forall i, i < n -> finished (st s i) = true) /\ running n s = 0.
Proof. intros c cb n s Hr Hd. split; [exact (returns_after_all_done c cb n s Hr Hd)|exact (returns_after_all_done_running c cb n s Hr Hd)]. Qed.
Print Assumptions C20_returns_after_all_done.

(* every exception of a callback that ran is in the returned error *)
Theorem C20_all_errors_reported : forall c cb n s,
  reach c cb n s -> pc s = DDone ->
  Permutation (errs s) (flat_map (fun i => if calls s i =? 0 then [] else fail_of (cb_kind (cb i))) (seq 0 n)).
Proof. exact all_errors_reported. Qed.
Print Assumptions C20_all_errors_reported.

(* the semaphore is never released below zero and the WaitGroup never goes
   negative (no cancellation, or with the Acquire error honoured) *)
Theorem C20_no_panic : forall c cb n s,
  reach c cb n s -> fix_acqerr c = true \/ cancelled s = false -> panicked s = false.
Proof. exact no_panic. Qed.
Print Assumptions C20_no_panic.

(* FULL STATEMENT (documented behaviour): with a bound of 1, peach behaves exactly
   like each -- [peach1_equiv_each_stmt c].  It is FALSE of the code as it is
   (the dispatcher tests broken before it blocks in Acquire): *)
Theorem C20_peach1_extra_callback_refuted : ~ peach1_equiv_each_stmt (faithful (Some 1)).
Proof. exact peach1_extra_callback_refuted. Qed.
Print Assumptions C20_peach1_extra_callback_refuted.

(* peach1_equiv_each for the REPAIRED dispatcher (fix_recheck = true):
     forall f, peach1_equiv_each_stmt (mkCfg (Some 1) true f)
   (same calls, same output sequence, same errors as each) is the stated goal.
   Proved in this round is the part the defect is about -- _partial, see
   checks/C20.md: with one worker and broken re-tested after Acquire, in every
   reachable state of every schedule, no callback has been entered for an input
   that comes after one whose callback broke or failed and returned (each does
   the same: it stops at the first break / failure). *)
Theorem C20_peach1_no_callback_after_break_repaired_partial : forall c cb n,
  bound c = Some 1 -> fix_recheck c = true ->
  forall s, reach c cb n s -> cancelled s = false ->
  forall i j, i < j -> posted (st s i) = true -> is_breaker (cb_kind (cb i)) = true ->
  calls s j = 0.
Proof. exact peach1_no_callback_after_break_repaired. Qed.
Print Assumptions C20_peach1_no_callback_after_break_repaired_partial.

(* run-parallel: when it has returned, every function was entered exactly once,
   has finished, and its exception is stored in its slot (all reported by
   MakePipelineError); for every number of functions, behaviour and schedule *)
Theorem C20_run_parallel_each_once : forall cb n s,
  rreach cb n s -> r_pc s = RDone ->
  forall i, i < n ->
    r_calls s i = 1 /\ r_st s i = RFinished /\ r_exc s i = exc_of (cb_kind (cb i)).
Proof. exact run_parallel_each_once. Qed.
Print Assumptions C20_run_parallel_each_once.

Theorem C20_run_parallel_no_panic : forall cb n s, rreach cb n s -> r_panicked s = false.
Proof. exact run_parallel_no_panic. Qed.
Print Assumptions C20_run_parallel_no_panic.

(* the oracles evaluated on the implementation's observations are sound *)
Theorem C20_oracle_sound_peach : forall b cbs o eo,
  check_peach b cbs o eo = true -> Spec_peach b cbs o eo.
Proof. exact check_peach_sound. Qed.
Print Assumptions C20_oracle_sound_peach.

Theorem C20_oracle_sound_runpar : forall fs o,
  check_runpar fs o = true -> Spec_runpar fs o.
Proof. exact check_runpar_sound. Qed.
Print Assumptions C20_oracle_sound_runpar.

(* non-vacuity: the witness schedule really ends in DDone with callback 1 entered *)
Example C20_example_witness_runs :
  match exec (faithful (Some 1)) w_cb 3 init w_sched with
  | Some s => calls s 0 = 1 /\ calls s 1 = 1 /\ calls s 2 = 0 /\ out s = [1%N; 101%N]
  | None => False
  end.
Proof. vm_compute. repeat split; reflexivity. Qed.

Example C20_example_each : e_out (each_pre w_cb 3) = [1%N] /\ e_m (each_pre w_cb 3) = 1.
Proof. vm_compute. split; reflexivity. Qed.
