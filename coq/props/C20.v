(* C20 -- peach and run-parallel run each task once; one-worker peach equals each.
   Property theorems only; every proof is [exact <lemma>].

   Model: coq/model/C20_Peach.v.  [reach c cb n s] = state s is reachable in the
   transition system of peach with dispatcher configuration c (worker bound,
   repairs), callback behaviour cb and n inputs, by ANY interleaving of the
   dispatcher, the workers and a context cancellation.  [pc s = DDone] = peach
   has returned.  [cancelled s = false] = no cancellation happened. *)
From verif Require Import lib.Base model.C20_Peach model.C20 proofs.C20_proofs proofs.C20_rp_proofs proofs.C20_oracle_proofs proofs.C20_p1_proofs proofs.C20_acc_proofs.
From Coq Require Import Permutation.
Open Scope nat_scope.

(* the callback is entered at most once per input: every reachable state, every
   schedule, cancellation included *)
Theorem C20_at_most_once_per_input : forall c cb n s,
  reach c cb n s -> forall i, calls s i <= 1.
Proof. exact at_most_once_per_input. Qed.
Print Assumptions C20_at_most_once_per_input.

(* exactly once per input when no callback breaks or fails *)
Theorem C20_exactly_once_if_no_break_fail : forall c cb n s,
  reach c cb n s -> cancelled s = false -> pc s = DDone ->
  (forall i, i < n -> is_breaker (cb_kind (cb i)) = false) ->
  forall i, i < n -> calls s i = 1.
Proof. exact exactly_once_if_no_break_fail. Qed.
Print Assumptions C20_exactly_once_if_no_break_fail.

(* never more callbacks at once than the bound (any configuration: no
   cancellation, or the Acquire error honoured -- as the code does now) *)
Theorem C20_bound_respected : forall c cb n s b,
  reach c cb n s -> fix_acqerr c = true \/ cancelled s = false ->
  bound c = Some b -> running n s <= b.
Proof. exact bound_respected. Qed.
Print Assumptions C20_bound_respected.

(* the output is exactly the union (as a multiset) of the outputs of the callbacks that ran *)
Theorem C20_outputs_are_union : forall c cb n s,
  reach c cb n s -> pc s = DDone ->
  Permutation (out s) (flat_map (fun i => if calls s i =? 0 then [] else cb_outs (cb i)) (seq 0 n)).
Proof. exact outputs_are_union. Qed.
Print Assumptions C20_outputs_are_union.

(* peach returns only after every started callback has finished *)
Theorem C20_returns_after_all_done : forall c cb n s,
  reach c cb n s -> pc s = DDone ->
  (forall i, i < n -> finished (st s i) = true) /\ running n s = 0.
Proof. intros c cb n s Hr Hd. split; [exact (returns_after_all_done c cb n s Hr Hd)|exact (returns_after_all_done_running c cb n s Hr Hd)]. Qed.
Print Assumptions C20_returns_after_all_done.

(* every exception of a callback that ran is in the returned error *)
Theorem C20_all_errors_reported : forall c cb n s,
  reach c cb n s -> pc s = DDone ->
  Permutation (errs s) (flat_map (fun i => if calls s i =? 0 then [] else fail_of (cb_kind (cb i))) (seq 0 n)).
Proof. exact all_errors_reported. Qed.
Print Assumptions C20_all_errors_reported.

(* the semaphore is never released below zero and the WaitGroup never goes
   negative (no cancellation, or with the Acquire error honoured) *)
Theorem C20_no_panic : forall c cb n s,
  reach c cb n s -> fix_acqerr c = true \/ cancelled s = false -> panicked s = false.
Proof. exact no_panic. Qed.
Print Assumptions C20_no_panic.

(* With a bound of 1, peach behaves exactly like each (documented behaviour), for
   every number of inputs, every callback behaviour and EVERY schedule: when it has
   returned (without cancellation) the same callbacks were run -- in particular
   nothing after a callback that broke or failed --, the outputs are the same
   SEQUENCE and the exceptions are the same.
   [peach1_equiv_each_stmt c] := forall cb n s, reach c cb n s -> pc s = DDone ->
     cancelled s = false -> (forall i, calls s i = each_calls cb n i)
     /\ out s = e_out (each_pre cb n) /\ errs s = e_errs (each_pre cb n).
   (Before the fix for finding peach1-break-before-last this was refuted.) *)
Theorem C20_peach1_equiv_each : peach1_equiv_each_stmt (faithful (Some 1)).
Proof. exact peach1_equiv_each. Qed.
Print Assumptions C20_peach1_equiv_each.

(* the same for any dispatcher configuration with one worker and the re-test *)
Theorem C20_peach1_equiv_each_general : forall c cb n,
  bound c = Some 1 -> fix_recheck c = true ->
  forall s, reach c cb n s -> pc s = DDone -> cancelled s = false ->
  (forall i, calls s i = each_calls cb n i)
  /\ out s = e_out (each_pre cb n) /\ errs s = e_errs (each_pre cb n).
Proof. exact peach1_equiv_each_proved. Qed.
Print Assumptions C20_peach1_equiv_each_general.

(* in every reachable state (not only at the end): no callback has been entered
   for an input after one whose callback broke or failed and returned *)
Theorem C20_peach1_no_callback_after_break : forall c cb n,
  bound c = Some 1 -> fix_recheck c = true ->
  forall s, reach c cb n s -> cancelled s = false ->
  forall i j, i < j -> posted (st s i) = true -> is_breaker (cb_kind (cb i)) = true ->
  calls s j = 0.
Proof. exact peach1_no_callback_after_break. Qed.
Print Assumptions C20_peach1_no_callback_after_break.

(* CHARACTERISATION (regression lemma, not a finding): the equivalence above
   depends on the worker recording broken BEFORE it gives its slot back.  In the
   variant with the two swapped ([exec_swapped], model/C20_Peach.v) this schedule
   ends with callback 1 entered although callback 0 broke; each runs callback 0 only. *)
Theorem C20_release_before_record_admits_extra_callback :
  exists s, exec_swapped (faithful (Some 1)) w_cb 3 init w_sched_swapped = Some s
    /\ pc s = DDone /\ cancelled s = false /\ panicked s = false
    /\ calls s 0 = 1 /\ calls s 1 = 1 /\ calls s 2 = 0
    /\ each_calls w_cb 3 1 = 0.
Proof. exact release_before_record_admits_extra_callback. Qed.
Print Assumptions C20_release_before_record_admits_extra_callback.

(* BOUND-k GENERALISATION of "nothing starts after a break": with at most k
   workers, for every schedule (no cancellation), the callback is never entered
   for an input that has k or more breaking / failing inputs before it -- a
   callback that broke or failed either still holds its slot or has set broken
   before giving the slot back, and the dispatcher re-tests broken after Acquire.
   [nbrk cb j] = number of inputs before j whose callback breaks or fails. *)
Theorem C20_peach_no_start_after_k_breakers : forall c cb n k,
  bound c = Some k -> fix_recheck c = true ->
  forall s, reach c cb n s -> cancelled s = false ->
  forall j, nbrk cb j >= k -> calls s j = 0.
Proof. exact peach_no_start_after_k_breakers. Qed.
Print Assumptions C20_peach_no_start_after_k_breakers.

(* COMPLETENESS OF THE ACCEPTOR: every terminal outcome of every schedule of the
   faithful model is accepted by [accepts_peach] -- the judge raises no false
   "model and implementation disagree" alarm for a behaviour the model has.
   The observation: per-input entry counts and output / errors when peach has
   returned, and the number of running callbacks at ANY earlier moment s0 of the
   same run (so also their maximum).  Bounds are >= 1 (parseNumWorkers). *)
Theorem C20_accepts_peach_complete : forall ko cbs,
  (forall k, ko = Some k -> 1 <= k) ->
  forall s0 s,
  reach (faithful ko) (cb_of cbs) (length cbs) s0 ->
  steps (faithful ko) (cb_of cbs) (length cbs) s0 s ->
  pc s = DDone -> cancelled s = false ->
  accepts_peach ko cbs
    (mkObs (map (calls s) (seq 0 (length cbs))) (running (length cbs) s0) (out s) (errs s) false) = true.
Proof. exact accepts_peach_complete. Qed.
Print Assumptions C20_accepts_peach_complete.

(* each itself: it runs input i iff i < n and no earlier callback broke or failed *)
Theorem C20_each_calls_spec : forall cb n i,
  each_calls cb n i = if (i <? n) && nbb cb i then 1 else 0.
Proof. exact each_calls_spec. Qed.
Print Assumptions C20_each_calls_spec.

(* under cancellation too (the Acquire error is honoured): bound and semaphore *)
Theorem C20_bound_respected_under_cancel : forall b cb n s k,
  reach (faithful b) cb n s -> b = Some k -> running n s <= k.
Proof. exact peach_bound_under_cancel. Qed.
Print Assumptions C20_bound_respected_under_cancel.

(* run-parallel: when it has returned, every function was entered exactly once,
   has finished, and its exception is stored in its slot (all reported by
   MakePipelineError); for every number of functions, behaviour and schedule *)
Theorem C20_run_parallel_each_once : forall cb n s,
  rreach cb n s -> r_pc s = RDone ->
  forall i, i < n ->
    r_calls s i = 1 /\ r_st s i = RFinished /\ r_exc s i = exc_of (cb_kind (cb i)).
Proof. exact run_parallel_each_once. Qed.
Print Assumptions C20_run_parallel_each_once.

Theorem C20_run_parallel_no_panic : forall cb n s, rreach cb n s -> r_panicked s = false.
Proof. exact run_parallel_no_panic. Qed.
Print Assumptions C20_run_parallel_no_panic.

(* the oracles evaluated on the implementation's observations are sound *)
Theorem C20_oracle_sound_peach : forall b cbs o eo,
  check_peach b cbs o eo = true -> Spec_peach b cbs o eo.
Proof. exact check_peach_sound. Qed.
Print Assumptions C20_oracle_sound_peach.

Theorem C20_oracle_sound_runpar : forall fs o,
  check_runpar fs o = true -> Spec_runpar fs o.
Proof. exact check_runpar_sound. Qed.
Print Assumptions C20_oracle_sound_runpar.

(* non-vacuity: the schedule that used to start one callback too many ends in
   DDone with only callback 0 entered *)
Example C20_example_witness_runs :
  match exec (faithful (Some 1)) w_cb 3 init w_sched with
  | Some s => pc s = DDone /\ calls s 0 = 1 /\ calls s 1 = 0 /\ calls s 2 = 0 /\ out s = [1%N] /\ held s = 0
  | None => False
  end.
Proof. vm_compute. repeat split; reflexivity. Qed.

Example C20_example_each : e_out (each_pre w_cb 3) = [1%N] /\ e_m (each_pre w_cb 3) = 1.
Proof. vm_compute. split; reflexivity. Qed.
