(* C31 — Terminal input decoding is total and lossless for plain text.
   Property theorems only; every proof is [exact <lemma>].
   Model: model/C31.v (readRune, readEvent and its helpers, over a byte source
   [list (Byte b | Timeout)] whose reads are logged with their timeouts). *)
From verif Require Import lib.Base lib.Utf8 model.C31 proofs.C31_proofs.
Open Scope Z_scope.

(* For every reader state (any finite stream, any bytes), readEvent returns an
   event or an error — the CSI parameter loop, whose fuel is |input| + 2,
   never runs out of fuel because every iteration but the last consumes an
   item. *)
Theorem C31_read_event_total : forall st,
  (exists e, fst (readEvent st) = REvent e) \/ (exists k, fst (readEvent st) = RErr k).
Proof. exact read_event_total. Qed.
Print Assumptions C31_read_event_total.

(* Each iteration of the CSI loop reads a rune: either that consumes an item,
   or the sequence ends; so |input| + 2 iterations always suffice. *)
Theorem C31_csi_loop_terminates : forall fuel r nums st,
  (length (rs_in st) + 2 <= fuel)%nat -> fst (csi_loop fuel r nums st) <> CsiFuel.
Proof. exact csi_loop_terminates. Qed.
Print Assumptions C31_csi_loop_terminates.

(* A call that does not report the end of input consumes at least one item,
   and the end of input is only reported when nothing is left. *)
Theorem C31_read_event_progress : forall st,
  if is_eof (fst (readEvent st)) then rs_in (snd (readEvent st)) = []
  else (length (rs_in (snd (readEvent st))) < length (rs_in st))%nat.
Proof. exact readEvent_progress. Qed.
Print Assumptions C31_read_event_progress.

(* Hence every finite stream is decoded by finitely many calls, each returning
   an event or an error (never "out of fuel", never the end of input before
   the end), each with a well-shaped read log, followed by the end of input. *)
Theorem C31_stream_fully_decoded : forall s,
  exists pre lg, run_all s = pre ++ [(RErr ErrEOF, lg)]
    /\ Forall (fun x => fst x <> ROutOfFuel /\ is_eof (fst x) = false /\ log_shape (snd x)) pre
    /\ log_shape lg.
Proof. exact stream_fully_decoded. Qed.
Print Assumptions C31_stream_fully_decoded.

(* "No escape sequence can make it block past its timeout": in the read log of
   any readEvent call, exactly the first read is issued without a timeout; all
   later reads carry keySeqTimeout or utf8SeqTimeout, which are finite and
   positive. *)
Theorem C31_only_first_read_blocks : forall s,
  exists later, rev (rs_log (snd (readEvent (mkR s [])))) = noTimeout :: later
    /\ Forall (fun t => (t = keySeqTimeout \/ t = utf8SeqTimeout) /\ 0 < t) later.
Proof. exact only_first_read_blocks. Qed.
Print Assumptions C31_only_first_read_blocks.

(* readRune decodes the UTF-8 encoding of every scalar value: whatever
   follows, whatever timeout the first read carries (gaps before the first
   byte are waited through when it has none). *)
Theorem C31_readrune_decodes_utf8 : forall r,
  valid_rune r = true ->
  forall t g rest lg, (g = 0%nat \/ t < 0) ->
  exists lg', readRune t (mkR (repeat Timeout g ++ map Byte (encode_rune r) ++ rest) lg)
              = (inl r, mkR rest lg').
Proof. exact readrune_decodes_utf8. Qed.
Print Assumptions C31_readrune_decodes_utf8.

(* Plain text is lossless: for every list of scalar values that are not
   control characters (a superset of the printable ones), delivered character
   by character with any gaps between characters, decoding the UTF-8 encoding
   event by event yields exactly one unmodified key event per character, in
   order, then the end of input. *)
Theorem C31_plain_text_lossless : forall rs : list (nat * N),
  Forall (fun gr => plain_rune (snd gr) = true) rs ->
  map fst (run_all (text_stream rs))
  = map (fun gr => REvent (EKey (mkKey (Z.of_N (snd gr)) 0))) rs ++ [RErr ErrEOF].
Proof. exact plain_text_lossless. Qed.
Print Assumptions C31_plain_text_lossless.

(* The oracle evaluated on the implementation's observations is sound for the
   property on observations (every call yields an event or an error; no read
   after the first of a call is issued without a timeout; plain text yields
   one key per character) ... *)
Theorem C31_oracle_sound : forall s txt o,
  check_C31 s txt o = true -> Spec_C31 s txt o.
Proof. exact check_C31_sound. Qed.
Print Assumptions C31_oracle_sound.

(* ... and what the model does satisfies it on every stream. *)
Theorem C31_model_satisfies_spec : forall s txt, Spec_C31 s txt (model_obs s).
Proof. exact model_satisfies_spec. Qed.
Print Assumptions C31_model_satisfies_spec.

(* Alt: ESC followed by an ASCII byte other than ESC, '[' and 'O' is that
   byte's key (with its Ctrl reading) plus Alt — the key is not dropped. *)
Theorem C31_alt_key_keeps_key : forall (b : N) rest,
  (b < 128)%N -> b <> 27%N -> b <> 91%N -> b <> 79%N ->
  fst (readEvent (mkR (Byte 27 :: Byte b :: rest) []))
  = REvent (EKey (key_or (ctrlModify (Z.of_N b)) Alt)).
Proof. exact alt_key_keeps_key. Qed.
Print Assumptions C31_alt_key_keeps_key.

(* ---- non-vacuity ---- *)
From Coq Require Import String.

(* ESC [ 1 ; 5 A is Ctrl-Up; the first read blocks, the five others do not *)
Example C31_ex_ctrl_up :
  run_all (flatten [Bs (hx "1b5b313b3541"%string)])
  = [(REvent (EKey (mkKey (-987) 4)), [-1; 10000000; 10000000; 10000000; 10000000; 10000000]);
     (RErr ErrEOF, [-1])].
Proof. vm_compute. reflexivity. Qed.

(* a truncated CSI followed by a gap is an error after which decoding goes on *)
Example C31_ex_truncated :
  map fst (run_all (flatten [Bs (hx "1b5b31"%string); Gap; Bs (hx "41"%string)]))
  = [RErr (ErrSeq IncompleteCSI); REvent (EKey (mkKey 65 0)); RErr ErrEOF].
Proof. vm_compute. reflexivity. Qed.

(* "aé中😀" with a gap before the third character *)
Example C31_ex_text :
  map fst (run_all (text_stream [(0%nat, 97%N); (0%nat, 233%N); (1%nat, 20013%N); (0%nat, 128512%N)]))
  = [REvent (EKey (mkKey 97 0)); REvent (EKey (mkKey 233 0)); REvent (EKey (mkKey 20013 0));
     REvent (EKey (mkKey 128512 0)); RErr ErrEOF].
Proof. vm_compute. reflexivity. Qed.

(* the oracle rejects a lost character, a blocking read inside a sequence and
   a call that yields neither event nor error *)
Example C31_ex_oracle_rejects :
  check_C31 (text_stream [(0%nat, 233%N)]) (Some [(0%nat, 233%N)])
            [(OEv (EKey (mkKey 195 0)), [-1]); (OEv (EKey (mkKey 169 0)), [-1]); (OErr ErrEOF, [-1])] = false
  /\ check_C31 [Byte 27; Byte 91] None [(OEv (EKey (mkKey 91 2)), [-1; 10000000; -1]); (OErr ErrEOF, [-1])] = false
  /\ check_C31 [Byte 27] None [(OBad, [-1]); (OErr ErrEOF, [-1])] = false.
Proof. vm_compute. repeat split. Qed.
