(* C30 -- Syntax highlighting never changes the text and is never stale
   (pkg/edit/highlight).  Property theorems only; every proof is [exact <lemma>]. *)
From verif Require Import lib.Base model.C30 proofs.C30_proofs proofs.C30_lts.
From Coq Require Import Permutation Sorting.Sorted.
Open Scope nat_scope.

(* ---- segment assembly (highlight.go) ---- *)

(* For every code, every theme, every way of styling commands and every raw
   region list whose regions lie inside the code (0 <= begin <= end <= len),
   with any sort meeting the contract of sort.Slice: the concatenated segment
   texts of the highlighted text are the code, byte for byte. *)
Theorem C30_assemble_content : forall sort th m (code : bytes) raw,
  sort_ok sort -> Forall (wf_region (length code)) raw ->
  spell (highlight_with sort th m code raw) = code.
Proof. exact assemble_content. Qed.
Print Assumptions C30_assemble_content.

(* The same for any region list that is already a chain (each region begins at
   or after the end of the one before). *)
Theorem C30_assemble_content_chain : forall th m (code : bytes) rs,
  chain 0 rs -> Forall (wf_region (length code)) rs ->
  spell (assemble th m code 0 rs) = code.
Proof. exact assemble_content_chain. Qed.
Print Assumptions C30_assemble_content_chain.

(* The immediate text and the late text consist of the same segment texts. *)
Theorem C30_late_text_same_segments : forall th m1 m2 (code : bytes) rs e,
  map s_text (assemble th m1 code e rs) = map s_text (assemble th m2 code e rs).
Proof. exact assemble_texts_mode. Qed.
Print Assumptions C30_late_text_same_segments.

(* ---- fixRegions (regions.go) ---- *)

(* The result of fixRegions consists of regions of the input, is pairwise
   disjoint and ordered by position, and is still ordered by the less function
   of the code. *)
Theorem C30_fix_regions_disjoint_sorted : forall sort, sort_ok sort ->
  forall len raw, Forall (wf_region len) raw ->
  let out := fixRegions_with sort raw in
  incl out raw /\ StronglySorted before out /\ StronglySorted leq out.
Proof. exact fix_regions_disjoint_sorted. Qed.
Print Assumptions C30_fix_regions_disjoint_sorted.

(* A region is dropped only because it begins before the end of a kept one. *)
Theorem C30_fix_regions_first_wins : forall sort, sort_ok sort ->
  forall raw x, In x raw -> ~ In x (fixRegions_with sort raw) ->
  exists k, In k (fixRegions_with sort raw) /\ r_begin x < r_end k.
Proof. exact fix_regions_first_wins. Qed.
Print Assumptions C30_fix_regions_first_wins.

(* The sort used for execution meets the contract assumed of sort.Slice. *)
Theorem C30_isort_meets_contract : sort_ok isort.
Proof. exact isort_ok. Qed.
Print Assumptions C30_isort_meets_contract.

(* ---- the Highlighter (highlighter.go): all interleavings ---- *)

(* In every state reachable by any interleaving of Get calls, late callbacks,
   sends, receives and invalidations, the cached styled text spells the cached
   code. *)
Theorem C30_cache_text_matches_code : forall now_of late_of has_late,
  (forall c, spell (now_of c) = c) -> (forall c, spell (late_of c) = c) ->
  forall s, reachable now_of late_of has_late s -> spell (h_styled s) = h_code s.
Proof. exact cache_text_matches_code. Qed.
Print Assumptions C30_cache_text_matches_code.

(* A late callback installs its result only when the cached code equals the
   code it was computed for (and its result is the late text of that code);
   otherwise it leaves the cache alone. *)
Theorem C30_late_only_for_own_code : forall now_of late_of has_late s i s' o c t,
  reachable now_of late_of has_late s -> nth_error (h_pend s) i = Some (c, t) ->
  step now_of late_of has_late s (ALate i) = Some (s', o) ->
  t = late_of c /\ o = [] /\ h_code s' = h_code s /\
  ((h_code s = c /\ h_styled s' = t) \/ (h_code s <> c /\ h_styled s' = h_styled s)).
Proof. exact late_only_for_own_code. Qed.
Print Assumptions C30_late_only_for_own_code.

(* Every Get in every reachable state returns the immediate or the late text
   of the code it was asked for, which spells that code. *)
Theorem C30_get_returns_own_code : forall now_of late_of has_late,
  (forall c, spell (now_of c) = c) -> (forall c, spell (late_of c) = c) ->
  forall s c fast s' o, reachable now_of late_of has_late s ->
  step now_of late_of has_late s (AGet c fast) = Some (s', o) ->
  exists t, o = [OGet c t] /\ own_text now_of late_of c t /\ spell t = c.
Proof. exact get_returns_own_code. Qed.
Print Assumptions C30_get_returns_own_code.

(* The whole property over the model: for every schedule, every text returned
   by Get spells the code it was requested for and is the immediate or late
   text of that very code, and the cache is consistent at the end -- with
   highlight as modelled, for any sort meeting the contract, any theme, any
   command lookup, and any region extraction that stays inside the code. *)
Theorem C30_highlighter_never_stale : forall sort th f (regions_of : bytes -> list region) has_late,
  sort_ok sort -> (forall c, Forall (wf_region (length c)) (regions_of c)) ->
  let now_of := fun c => highlight_with sort th Pending c (regions_of c) in
  let late_of := fun c => highlight_with sort th (Looked f) c (regions_of c) in
  forall acts s tr, run now_of late_of has_late h_init acts = Some (s, tr) ->
    check_C30_trace tr = true
    /\ (forall c t, In (OGet c t) tr -> spell t = c /\ own_text now_of late_of c t)
    /\ spell (h_styled s) = h_code s.
Proof. exact highlighter_never_stale. Qed.
Print Assumptions C30_highlighter_never_stale.

(* Late-update notifications: never more received than Gets made, and the
   channel never holds more than latesBufferSize tokens. *)
Theorem C30_notifications_bounded : forall now_of late_of has_late acts s tr,
  run now_of late_of has_late h_init acts = Some (s, tr) ->
  count_notify tr <= count_get tr /\ h_lates s <= lates_cap.
Proof. exact notifications_bounded. Qed.
Print Assumptions C30_notifications_bounded.

(* The re-check of the cached code in the late callback is necessary. *)
Theorem C30_recheck_needed :
  exists s s', reachable plain plain (fun _ => true) s
    /\ late_norecheck s 0 = Some s' /\ spell (h_styled s') <> h_code s'.
Proof. exact recheck_needed. Qed.
Print Assumptions C30_recheck_needed.

(* ---- oracles and acceptors evaluated on the implementation ---- *)

(* The oracle on one highlight call says what the property says. *)
Theorem C30_oracle_sound : forall (code : bytes) ret late,
  check_C30 code ret late = true ->
  spell ret = code /\ (forall t, late = Some t -> spell t = code).
Proof. exact oracle_C30_sound. Qed.
Print Assumptions C30_oracle_sound.

(* A recorded trace accepted by the acceptor shows, for every Get, the
   immediate or late text of the requested code, which spells it. *)
Theorem C30_acceptor_sound : forall now_of late_of has_late,
  (forall c, spell (now_of c) = c) -> (forall c, spell (late_of c) = c) ->
  forall tr, accepts now_of late_of has_late tr = true ->
  check_C30_trace tr = true
  /\ (forall c t, In (OGet c t) tr -> spell t = c /\ own_text now_of late_of c t).
Proof. exact acceptor_sound. Qed.
Print Assumptions C30_acceptor_sound.

(* The acceptor raises no false alarm on the model: it accepts the trace of
   every schedule of the transition system. *)
Theorem C30_lts_traces_accepted : forall now_of late_of has_late acts s tr,
  run now_of late_of has_late h_init acts = Some (s, tr) ->
  accepts now_of late_of has_late tr = true.
Proof. exact lts_traces_accepted. Qed.
Print Assumptions C30_lts_traces_accepted.

(* An observed result of the real fixRegions that the acceptor admits is the
   overlap removal of some sorted permutation of the input ... *)
Theorem C30_fix_accepts_sound : forall raw obs, fix_accepts raw obs = true ->
  exists p, Permutation p raw /\ StronglySorted leq p /\ remove_overlaps 0 p = obs.
Proof. exact fix_accepts_sound. Qed.
Print Assumptions C30_fix_accepts_sound.

(* ... and the text assembled from it spells the code. *)
Theorem C30_fix_accepts_content : forall th m (code : bytes) raw obs,
  regions_wf (length code) raw = true -> fix_accepts raw obs = true ->
  spell (assemble th m code 0 obs) = code.
Proof. exact fix_accepts_content. Qed.
Print Assumptions C30_fix_accepts_content.

(* ---- non-vacuity ---- *)

(* echo a: the semantic command region wins over the bareword below it *)
Example C30_ex_fix :
  fixRegions [mkRegion 0 4 Lexical [98%N]; mkRegion 0 4 Semantic [99%N]; mkRegion 5 6 Lexical [98%N]]
  = [mkRegion 0 4 Semantic [99%N]; mkRegion 5 6 Lexical [98%N]].
Proof. vm_compute. reflexivity. Qed.

(* the gap between two regions and the tail after the last are kept *)
Example C30_ex_assemble :
  map s_text (assemble (mkTheme [] [] []) NoLookup [1;2;3;4;5;6;7]%N 0
                [mkRegion 1 2 Lexical []; mkRegion 4 5 Lexical []])
  = [[1]; [2]; [3;4]; [5]; [6;7]]%N.
Proof. vm_compute. reflexivity. Qed.

(* Get a (slow), Get b, the late result for a arrives and is dropped, Get b *)
Example C30_ex_run :
  run plain plain (fun _ => true) h_init
      [AGet [97%N] false; AGet [98%N] true; ALate 0; AGet [98%N] true]
  = Some (mkH [98%N] (plain [98%N]) [] 0 0,
          [OGet [97%N] (plain [97%N]); OGet [98%N] (plain [98%N]); OGet [98%N] (plain [98%N])]).
Proof. vm_compute. reflexivity. Qed.

(* a stale text is rejected by the oracle and by the acceptor *)
Example C30_ex_stale_rejected :
  let tr := [OGet [97%N] (plain [97%N]); OGet [98%N] (plain [98%N]); OGet [98%N] (plain [97%N])] in
  check_C30_trace tr = false /\ accepts plain plain (fun _ => true) tr = false.
Proof. vm_compute. split; reflexivity. Qed.
