(* C11 — Exact arithmetic is mathematically exact and canonical.
   Property theorems only; every proof is [exact <lemma>].

   Vocabulary (proofs/C11_proofs.v):
     exact n      := n is not a float
     exactc n     := exact n and n is in Elvish's canonical form (machine int in
                     [-2^63, 2^63), big int outside, rational reduced with
                     denominator <> 1)
     good v q     := v is exact, canonical, and its value (qv v) is == q in Q
   [call c args step] is the model of the builtin c run through goFn.Call
   (arity, the Go function, vals.FromGo on every output).  qsum/qprod/Qpower/
   Qabs/Qfloor/... are plain rational arithmetic on Coq's Q. *)
From Coq Require Import QArith Qabs Qround Qpower.
From verif Require Import lib.Base model.C11_Num model.C11 proofs.C11_proofs proofs.C11_range.
Open Scope Z_scope.

(* + of any number (0..) of exact arguments is the exact sum, canonical *)
Theorem C11_add_exact : forall l, Forall exact l ->
  exists v, call CAdd l None = RVals [v] /\ good v (qsum (map qv l)).
Proof. exact add_exact. Qed.
Print Assumptions C11_add_exact.

(* - negates a single argument and otherwise subtracts the rest from the first *)
Theorem C11_sub_exact : forall a r, Forall exact (a :: r) ->
  exists v, call CSub (a :: r) None = RVals [v] /\
    good v (match r with [] => - qv a | _ => qv a - qsum (map qv r) end)%Q.
Proof. exact sub_exact. Qed.
Print Assumptions C11_sub_exact.

Theorem C11_mul_exact : forall l, Forall exact l ->
  exists v, call CMul l None = RVals [v] /\ good v (qprod (map qv l)).
Proof. exact mul_exact. Qed.
Print Assumptions C11_mul_exact.

(* any exact 0 among the divisors raises, whatever the other arguments are
   (exact or inexact) *)
Theorem C11_div_by_exact_zero_raises : forall a r,
  existsb is_int0 r = true -> call CDiv (a :: r) None = RErr EDivZero.
Proof. exact div_by_exact_zero_raises. Qed.
Print Assumptions C11_div_by_exact_zero_raises.

(* / on exact canonical arguments with no exact 0 among the divisors: the
   reciprocal of a single argument, otherwise the first divided by the product of
   the rest.  Together with C11_div_by_exact_zero_raises (some divisor is 0) and
   C11_exact_zero_rules (dividend exact 0, no divisor 0, result exact 0) this covers
   every call.  The one input excluded here, "/ 0", falls under the exact-zero rule
   as implemented (documentation ambiguous, see checks/C11.md, observations). *)
Theorem C11_div_exact : forall a r, Forall exactc (a :: r) ->
  existsb is_int0 r = false ->
  ~ (is_int0 a = true /\ r = []) ->
  exists v, call CDiv (a :: r) None = RVals [v] /\
    good v (match r with [] => / qv a | _ => qv a / qprod (map qv r) end)%Q.
Proof. exact div_exact. Qed.
Print Assumptions C11_div_exact.

(* % on exact integers: truncated remainder, exception for divisor 0 *)
Theorem C11_rem_exact : forall a b, exactc a -> exactc b ->
  is_exact_int a = true -> is_exact_int b = true ->
  (if is_int0 b then call CRem [a; b] None = RErr EDivZero
   else exists v, call CRem [a; b] None = RVals [v] /\ good v (Z.rem (to_big a) (to_big b) # 1)).
Proof. exact rem_exact. Qed.
Print Assumptions C11_rem_exact.

(* % on anything that is not an exact integer raises *)
Theorem C11_rem_nonint_raises : forall a b,
  is_exact_int a = false \/ is_exact_int b = false ->
  call CRem [a; b] None = RErr ENotExactInt.
Proof. exact rem_nonint_raises. Qed.
Print Assumptions C11_rem_nonint_raises.

(* math:pow with an exact base and any exact integer exponent (machine or big,
   positive or negative): base^exp, canonical - unless the base is 0 and the
   exponent negative, ... *)
Theorem C11_pow_exact : forall b e, exactc b -> exactc e -> is_exact_int e = true ->
  ~ (is_int0 b = true /\ to_big e < 0) ->
  exists v, call CPow [b; e] None = RVals [v] /\ good v (Qpower (qv b) (to_big e)).
Proof. exact pow_exact. Qed.
Print Assumptions C11_pow_exact.

(* ... in which case (0 to a negative power has no exact result) the command raises
   the divide-by-zero exception *)
Theorem C11_pow_zero_neg_raises : forall e, is_exact_int e = true -> to_big e < 0 ->
  call CPow [NInt 0; e] None = RErr EDivZero.
Proof. exact pow_zero_neg_raises. Qed.
Print Assumptions C11_pow_zero_neg_raises.

(* math:min (lt = true) / math:max (lt = false) of 1.. exact arguments *)
Theorem C11_minmax_exact : forall (lt : bool) a r, Forall exactc (a :: r) ->
  exists v, call (if lt then CMin else CMax) (a :: r) None = RVals [v] /\
    good v (fold_left (qpick lt) (map qv r) (qv a)).
Proof. exact minmax_exact. Qed.
Print Assumptions C11_minmax_exact.

(* math:abs, including -2^63 whose absolute value needs a big int *)
Theorem C11_abs_exact : forall n, exactc n ->
  exists v, call CAbs [n] None = RVals [v] /\ good v (Qabs (qv n)).
Proof. exact abs_exact. Qed.
Print Assumptions C11_abs_exact.

(* math:floor ceil trunc round (half away from zero) round-to-even, against
   Qfloor / Qceiling / q_trunc / q_round / q_round_even on Q *)
Theorem C11_rounding_exact : forall md n, exactc n ->
  exists v, call (rcmd md) [n] None = RVals [v] /\ good v (rspec md (qv n) # 1).
Proof. exact rounding_exact. Qed.
Print Assumptions C11_rounding_exact.

(* range on exact canonical arguments of every representation (machine ints, big
   ints, rationals, mixed), ascending (start <= end, step > 0, default 1) and
   descending (start > end, step < 0, default -1):
     range_ok up s e st vs :=
       (forall k < length vs, nth k vs is exact, canonical and == s + k*st,
                              and s + k*st is before the end (< e ascending, > e descending))
       /\ s + (length vs)*st has reached the end (>= e ascending, <= e descending)
   i.e. the emitted list is start + k*step for exactly the k in range, nothing at or
   past the end, in canonical form; the command terminates (never ROutOfFuel) -
   including machine-int runs that pass 2^63-1 or -2^63, where the Go loop leaves
   instead of wrapping. *)
Theorem C11_range_exact : forall ns ne ostep,
  exactc ns -> exactc ne -> (forall n, ostep = Some n -> exactc n) ->
  let s := qv ns in let e := qv ne in
  let up := Qle_bool s e in
  let st := match ostep with Some n => qv n | None => qdef up end in
  sgn_ok up st ->
  exists vs, call CRange [ns; ne] ostep = RVals vs /\ range_ok up s e st vs.
Proof. exact range_exact. Qed.
Print Assumptions C11_range_exact.

(* with one argument the start is the machine int 0 *)
Theorem C11_range_one_arg : forall ne ostep,
  call CRange [ne] ostep = call CRange [NInt 0; ne] ostep.
Proof. exact range_one_arg. Qed.
Print Assumptions C11_range_one_arg.

(* the documented exact-zero rules hold with inexact arguments too *)
Theorem C11_exact_zero_rules :
  (forall l, existsb is_int0 l = true -> existsb is_inf l = false ->
     call CMul l None = RVals [NInt 0])
  /\ (forall a r, is_int0 a = true -> existsb is_int0 r = false ->
     call CDiv (a :: r) None = RVals [NInt 0]).
Proof. split; [exact mul_exact_zero_rule|exact div_exact_zero_rule]. Qed.
Print Assumptions C11_exact_zero_rules.

(* canonical form: machine int iff it fits, big int otherwise, rational only
   when reduced and not an integer *)
Theorem C11_result_canonical : forall v q, good v q ->
  match v with
  | NInt z => min_int <= z <= max_int
  | NBig z => ~ (min_int <= z <= max_int)
  | NRat r => Qred r = r /\ Qden r <> 1%positive
  | NFloat _ => False
  end.
Proof. exact result_canonical. Qed.
Print Assumptions C11_result_canonical.

(* the oracle evaluated on the implementation's observations implies the
   Prop-level specification; and what the theorems above establish ([good])
   passes the oracle's value test *)
Theorem C11_oracle_sound : forall c args step obs,
  check_C11 c args step obs = true -> Spec_C11 c args step obs.
Proof. exact check_C11_sound. Qed.
Print Assumptions C11_oracle_sound.

Theorem C11_good_passes_oracle : forall v q, good v q -> val_good v q.
Proof. exact good_val_good. Qed.
Print Assumptions C11_good_passes_oracle.

(* non-vacuity *)
Example C11_ex_add : call CAdd [NInt 9223372036854775807; NInt 1] None = RVals [NBig 9223372036854775808].
Proof. reflexivity. Qed.
Example C11_ex_mix : call CAdd [NRat (1#3); NRat (2#3); NBig 9223372036854775808; NInt (-1)] None
  = RVals [NBig 9223372036854775808].
Proof. vm_compute. reflexivity. Qed.
Example C11_ex_range : call CRange [NInt 9223372036854775800; NInt 9223372036854775807] (Some (NInt 5))
  = RVals [NInt 9223372036854775800; NInt 9223372036854775805].
Proof. vm_compute. reflexivity. Qed.
Example C11_ex_range_down : call CRange [NInt (-9223372036854775800); NInt (-9223372036854775808)] (Some (NInt (-5)))
  = RVals [NInt (-9223372036854775800); NInt (-9223372036854775805)]
  /\ call CRange [NRat (9#10)] (Some (NRat (3#10))) = RVals [NInt 0; NRat (3#10); NRat (3#5)].
Proof. split; vm_compute; reflexivity. Qed.
Example C11_ex_oracle_rejects :
  check_C11 CAdd [NInt 1; NInt 1] None (RVals [NBig 2]) = false
  /\ check_C11 CPow [NInt 0; NInt (-1)] None RPanic = false
  /\ check_C11 CPow [NInt 0; NInt (-1)] None (call CPow [NInt 0; NInt (-1)] None) = true
  /\ check_C11 CDiv [NInt 0] None (RVals [NInt 0]) = true.
Proof. repeat split; vm_compute; reflexivity. Qed.
