(* C11 — exact arithmetic is mathematically exact and canonical. *)
From Coq Require Import QArith Qabs Qround.
From verif Require Import lib.Base model.C11_Num model.C11 proofs.C11_proofs.
Open Scope Z_scope.

Theorem C11_pow_zero_neg_panics : call CPow [NInt 0; NInt (-1)] None = RPanic.
Proof. exact pow_zero_neg_panics. Qed.
Print Assumptions C11_pow_zero_neg_panics.
