(* C08 — values that are eq are the same map key. *)
From verif Require Import lib.Base model.C08_Value model.C08 proofs.C08_proofs.

Theorem C08_equal_hash_refuted : exists a b, equal a b = true /\ hash a <> hash b.
Proof. exact equal_hash_refuted_w. Qed.
Print Assumptions C08_equal_hash_refuted.
