(* C08 — Values that are eq are the same map key.
   Property theorems only; every proof is [exact <lemma>].
   Model: model/C08_Value.v (equal = vals.Equal, hash = vals.Hash in uint32
   arithmetic), hm_* = a hash table with the Equal/Hash interface.
   wf v : float patterns are 64-bit and map keys are pairwise not Equal. *)
From verif Require Import lib.Base model.C08_Value model.C08.
From verif Require Import proofs.C08_Value_proofs proofs.C08_proofs.
Open Scope N_scope.

(* The property: Equal values hash identically — for all well-formed values of
   any size and nesting: numbers of all four representations (+0.0 and -0.0
   included, since vals.Hash hashes the canonical zero), strings, lists, maps
   whatever their insertion order, functions. *)
Theorem C08_equal_hash : forall a b,
  wf a -> wf b -> equal a b = true -> hash a = hash b.
Proof. exact equal_hash. Qed.
Print Assumptions C08_equal_hash.

(* two Equal floats have the same bits or are both zeros *)
Theorem C08_equal_float_bits : forall x y,
  x < 2 ^ 64 -> y < 2 ^ 64 -> equal (VFloat x) (VFloat y) = true ->
  x = y \/ (f_is_zero x = true /\ f_is_zero y = true).
Proof. exact equal_float_bits. Qed.
Print Assumptions C08_equal_float_bits.

(* Map level, for any hash table that looks a key up in the bucket of its hash
   and compares with Equal: eq keys give identical lookup, dissoc and assoc
   results, for maps of every size. *)
Theorem C08_eq_keys_same_slot : forall a b m v,
  wf a -> wf b -> equal a b = true -> keys_wf m ->
  hm_find a m = hm_find b m /\
  hm_dissoc a m = hm_dissoc b m /\
  map snd (hm_assoc a v m) = map snd (hm_assoc b v m) /\
  length (hm_assoc a v m) = length (hm_assoc b v m) /\
  (forall k, wf k -> hm_find k (hm_assoc a v m) = hm_find k (hm_assoc b v m)).
Proof. exact eq_keys_same_slot. Qed.
Print Assumptions C08_eq_keys_same_slot.

(* No history of assoc/dissoc ever produces a map holding two Equal keys. *)
Theorem C08_no_two_eq_keys : forall ops,
  (forall o, In o ops -> wf (op_key o)) -> no_eq_keys (hm_run ops).
Proof. exact no_two_eq_keys_wf. Qed.
Print Assumptions C08_no_two_eq_keys.

(* ... which needs nothing but "Equal implies equal hashes" of the keys used *)
Theorem C08_no_two_eq_keys_any_hash : forall U : value -> Prop,
  (forall x, U x -> wf x) -> hash_ok U ->
  forall ops, (forall o, In o ops -> U (op_key o)) -> no_eq_keys (hm_run ops).
Proof. exact no_two_eq_keys. Qed.
Print Assumptions C08_no_two_eq_keys_any_hash.

(* The oracles evaluated on the implementation's observations state the
   property. *)
Theorem C08_oracle_pair_sound : forall o, check_pair o = true -> Spec_pair o.
Proof. exact check_pair_sound. Qed.
Print Assumptions C08_oracle_pair_sound.

Theorem C08_oracle_map_sound : forall v o, check_map v o = true -> Spec_map v o.
Proof. exact check_map_sound. Qed.
Print Assumptions C08_oracle_map_sound.

(* what the model predicts for a pair passes the oracle *)
Theorem C08_model_pair_ok : forall a b, wf a -> wf b -> check_pair (model_pair a b) = true.
Proof. exact model_pair_ok. Qed.
Print Assumptions C08_model_pair_ok.

(* non-vacuity: differently built Equal values; bit-exact hashes as Go gives *)
Example C08_ex_rat : equal (VRat (mkrat 1 3)) (VRat (mkrat 5 15)) = true
  /\ hash (VRat (mkrat 1 3)) = 205097973 /\ hash (VRat (mkrat 5 15)) = 205097973.
Proof. vm_compute. auto. Qed.
Example C08_ex_signed_zero :
  equal (VFloat 0) (VFloat (2 ^ 63)) = true /\ hash (VFloat 0) = hash (VFloat (2 ^ 63))
  /\ length (hm_run [MAssoc (VFloat 0) 1%Z; MAssoc (VInt (2 ^ 30)) 2%Z; MAssoc (VFloat (2 ^ 63)) 3%Z]) = 2%nat.
Proof. vm_compute. auto. Qed.
Example C08_ex_map_order :
  let a := VMap [(VStr [97], VInt 1); (VStr [98], VList false [VBig (2 ^ 64)])] in
  let b := VMap [(VStr [98], VList true [VBig (2 ^ 64)]); (VStr [97], VInt 1)] in
  wf a /\ wf b /\ equal a b = true /\ hash a = hash b.
Proof. vm_compute. auto. Qed.
