(* C34 — Width handling fits text to the requested number of columns.
   Property theorems only; every proof is [exact <lemma>].

   Strings are lists of characters as a Go range loop sees them: chunks =
   (rune, the bytes it was decoded from).  width_chunks w sums the widths.
   The generic theorems hold for ANY width function w with the stated bounds;
   the _wcwidth versions instantiate w with the table-driven OfRune. *)
From verif Require Import lib.Base lib.Utf8 gen.Tables model.C34_width model.C34
  proofs.C34_proofs proofs.C34_builder proofs.C34_search proofs.C34_utf8 proofs.C34_utf8b proofs.C34_inst.
Open Scope Z_scope.

(* the generated combiningRanges table is strictly increasing, disjoint and
   well-formed (what the binary search of inRange relies on); re-proved from
   coq/gen/Tables.v on every run *)
Theorem C34_table_monotone : ranges_sorted wcwidth_combiningRanges = true.
Proof. exact table_monotone. Qed.
Print Assumptions C34_table_monotone.

(* sort.Search as used by wcwidth.inRange computes membership in one of the
   ranges, for EVERY sorted table and every rune; hence for the generated one *)
Theorem C34_in_range_correct : forall l r,
  ranges_sorted l = true -> in_range r l = in_range_lin r l.
Proof. exact in_range_correct. Qed.
Print Assumptions C34_in_range_correct.

Theorem C34_table_search : forall r,
  in_range r wcwidth_combiningRanges = in_range_lin r wcwidth_combiningRanges.
Proof. exact table_search. Qed.
Print Assumptions C34_table_search.

(* OfRune only returns 0, 1 or 2 *)
Theorem C34_of_rune_range : forall r, 0 <= of_rune r <= 2.
Proof. exact of_rune_range. Qed.
Print Assumptions C34_of_rune_range.

(* Trim: for every w >= 0, every string and every n >= 0 the result is the
   first k characters for some k, it is at most n wide, and every longer
   character-boundary prefix is wider than n *)
Theorem C34_trim_longest_prefix : forall (w : N -> Z),
  (forall r, 0 <= w r) ->
  forall cs n, 0 <= n ->
  exists k, (k <= length cs)%nat /\ trim_chunks w cs 0 n = firstn k cs
    /\ width_chunks w (trim_chunks w cs 0 n) <= n
    /\ forall j, (k < j <= length cs)%nat -> width_chunks w (firstn j cs) > n.
Proof. exact trim_longest_prefix. Qed.
Print Assumptions C34_trim_longest_prefix.

Theorem C34_trim_longest_prefix_wcwidth : forall s n, 0 <= n ->
  exists k, (k <= length (chunks s))%nat
    /\ trim_bytes s n = bytes_of (firstn k (chunks s))
    /\ width_chunks of_rune (firstn k (chunks s)) <= n
    /\ forall j, (k < j <= length (chunks s))%nat -> width_chunks of_rune (firstn j (chunks s)) > n.
Proof. exact trim_longest_prefix_wcwidth. Qed.
Print Assumptions C34_trim_longest_prefix_wcwidth.

(* the trimmed string is a prefix of the string (byte level), and the
   characters of a string concatenate back to it *)
Theorem C34_trim_bytes_prefix : forall w s n, exists rest, s = trim_bytes_w w s n ++ rest.
Proof. exact trim_bytes_prefix. Qed.
Print Assumptions C34_trim_bytes_prefix.

Theorem C34_chunks_concat_back : forall s, bytes_of (chunks s) = s.
Proof. exact bytes_of_chunks. Qed.
Print Assumptions C34_chunks_concat_back.

(* Force: exactly n columns, for every n >= 0 (w >= 0, a space is 1 wide) *)
Theorem C34_force_exact_width : forall (w : N -> Z),
  (forall r, 0 <= w r) ->
  forall cs n, w 32%N = 1 -> 0 <= n -> width_chunks w (force_chunks w cs n) = n.
Proof. exact force_exact_width. Qed.
Print Assumptions C34_force_exact_width.

Theorem C34_force_exact_width_wcwidth : forall s n, 0 <= n ->
  width_chunks of_rune (force_chunks of_rune (chunks s) n) = n
  /\ force_bytes s n = bytes_of (force_chunks of_rune (chunks s) n).
Proof. exact force_exact_width_wcwidth. Qed.
Print Assumptions C34_force_exact_width_wcwidth.

(* Locality of utf8.DecodeRune: cutting a string at or after the end of its first
   character, and appending nothing or something that starts with ASCII, does
   not change the first character *)
Theorem C34_decode_stable : forall s r k m t,
  decode_rune s = (r, k) -> (1 <= k)%nat -> (k <= m)%nat -> ascii_or_nil t ->
  decode_rune (firstn m s ++ t) = (r, k).
Proof. exact decode_stable. Qed.
Print Assumptions C34_decode_stable.

(* hence, on the returned Go strings themselves (what wcwidth.Of reports for
   them): Trim's result fits, Force's result is exactly n wide *)
Theorem C34_trim_fits_bytes : forall (w : N -> Z), (forall r, 0 <= w r) ->
  forall s n, 0 <= n -> of_bytes_w w (trim_bytes_w w s n) <= n.
Proof. exact trim_bytes_fits. Qed.
Print Assumptions C34_trim_fits_bytes.

Theorem C34_force_exact_width_bytes : forall (w : N -> Z), (forall r, 0 <= w r) ->
  forall s n, w 32%N = 1 -> 0 <= n -> of_bytes_w w (force_bytes_w w s n) = n.
Proof. exact force_bytes_exact. Qed.
Print Assumptions C34_force_exact_width_bytes.

Theorem C34_trim_fits_wcwidth : forall s n, 0 <= n -> of_bytes (trim_bytes s n) <= n.
Proof. exact trim_fits_wcwidth. Qed.
Print Assumptions C34_trim_fits_wcwidth.

Theorem C34_force_exact_wcwidth : forall s n, 0 <= n -> of_bytes (force_bytes s n) = n.
Proof. exact force_exact_wcwidth. Qed.
Print Assumptions C34_force_exact_wcwidth.

(* The buffer builder: for every w with 0 <= w <= 2, w(space) = 1 and ^X cells
   at most 2 wide, WriteRuneSGR keeps the invariant "every line fits the width,
   Col is the width of the current line, 0 <= Indent, Indent + 2 <= Width" —
   from any state, with or without eager wrap *)
Theorem C34_write_rune_invariant : forall (w : N -> Z),
  (forall r, 0 <= w r) -> (forall r, w r <= 2) -> w 32%N = 1 ->
  (forall r, is_control r = true -> w 94%N + w (N.lxor r 64%N) <= 2) ->
  forall W b r style, Inv w W b -> Inv w W (write_rune w b r style).
Proof. exact Inv_write_rune. Qed.
Print Assumptions C34_write_rune_invariant.

Theorem C34_newline_invariant : forall (w : N -> Z),
  w 32%N = 1 ->
  forall W b, Inv w W b -> Inv w W (newline w b) /\ bCol (newline w b) = bIndent b.
Proof. exact Inv_newline. Qed.
Print Assumptions C34_newline_invariant.

(* the indentation rule of renderView establishes Indent + 2 <= Width *)
Theorem C34_indent_rule : forall W col, 2 <= W -> 0 <= col -> col * 2 < W -> col + 2 <= W.
Proof. exact indent_rule. Qed.
Print Assumptions C34_indent_rule.

(* lines_fit_width: the code area (renderView + truncateToHeight) at any width
   >= 2 and height >= 0, for every view: no line wider than width, no more than
   height lines *)
Theorem C34_lines_fit_width : forall (w : N -> Z),
  (forall r, 0 <= w r) -> (forall r, w r <= 2) -> w 32%N = 1 ->
  (forall r, is_control r = true -> w 94%N + w (N.lxor r 64%N) <= 2) ->
  forall v width height, 2 <= width -> 0 <= height ->
  lines_fit w (fLines (render_codearea w v width height)) width = true
  /\ height_ok (fLines (render_codearea w v width height)) height = true.
Proof. exact lines_fit_width. Qed.
Print Assumptions C34_lines_fit_width.

Theorem C34_lines_fit_width_wcwidth : forall v width height,
  2 <= width -> 0 <= height ->
  lines_fit of_rune (fLines (render_codearea of_rune v width height)) width = true
  /\ height_ok (fLines (render_codearea of_rune v width height)) height = true.
Proof. exact lines_fit_width_wcwidth. Qed.
Print Assumptions C34_lines_fit_width_wcwidth.

(* truncateToHeight on any buffer: keeps a sub-list of the lines, at most h of them *)
Theorem C34_truncate_height : forall f h (P : line -> Prop), 0 <= h ->
  Forall P (fLines f) ->
  Forall P (fLines (truncate_to_height f h))
  /\ Z.of_nat (length (fLines (truncate_to_height f h))) <= h.
Proof. exact truncate_lines. Qed.
Print Assumptions C34_truncate_height.

(* the line oracle is sound *)
Theorem C34_oracle_lines_sound : forall ls W,
  lines_fit of_rune ls W = true <-> Forall (fun l => line_width of_rune l <= W) ls.
Proof. exact lines_fit_sound. Qed.
Print Assumptions C34_oracle_lines_sound.

(* non-vacuity *)
From Coq Require Import Strings.String.
Example C34_trim_example : trim_bytes (hx "61e4b8ad62"%string) 2 = hx "61"%string
                           /\ force_bytes (hx "61e4b8ad62"%string) 2 = hx "6120"%string.
Proof. split; vm_compute; reflexivity. Qed.
