(* C19 -- interrupting evaluation at any moment is handled cleanly.
   Property theorems only; every proof is [exact <lemma>].

   Evaluation model: coq/model/C19.v ([eval_chunk ko c s]: the context is checked
   on entry of every pipeline and on exit of every chunk; [ko = Some k] = an
   asynchronous interrupt delivered at check number k; [FCancel] = a synchronous
   one; traces are newest-first).  peach: coq/model/C20_Peach.v. *)
From verif Require Import lib.Base model.C20_Peach model.C19 proofs.C20_proofs proofs.C19_proofs.
Open Scope nat_scope.

(* For every program and every interrupt moment: once the interrupt is delivered
   no pipeline body starts and nothing ticks -- this covers catch, finally and
   defer bodies, loop bodies and function bodies (induction over the evaluation):
   [good]: no start/tick is recorded after a synchronous cancel;
   [starts_before k]: every started pipeline passed a check before check k. *)
Theorem C19_no_pipeline_body_after_cancel : forall ko c,
  let s' := fst (run_prog ko c) in
  good (tr s') = true /\ (forall k, ko = Some k -> starts_before k (tr s') = true).
Proof. exact no_pipeline_body_after_cancel. Qed.
Print Assumptions C19_no_pipeline_body_after_cancel.

(* [good] means what it should *)
Theorem C19_good_sound : forall rt, good rt = true -> nothing_after_cancel rt.
Proof. exact good_sound. Qed.
Print Assumptions C19_good_sound.

(* Evaluation that ends with the context cancelled returns an exception; it
   returns normally only if it had finished before the interrupt was delivered
   (any program, synchronous or asynchronous interrupt) *)
Theorem C19_interrupted_unless_finished : forall ko c s s' e,
  eval_chunk ko c s = (s', e) -> is_cancelled ko s' = true -> e <> None.
Proof. exact interrupted_unless_finished. Qed.
Print Assumptions C19_interrupted_unless_finished.

(* FULL STATEMENT: the exception is the interrupt:
     forall c s s' e, eval_chunk None c s = (s', e) -> cz s' = true -> e = Some XInt.
   False of the faithful model: Closure.Call keeps the body's exception and drops
   the deferred call's, so { defer { verif:cancel }; fail x } returns x. *)
Theorem C19_interrupted_exception_refuted :
  exists c s' i, run_prog None c = (s', Some (XFail i)) /\ cz s' = true.
Proof. exact interrupted_exception_refuted. Qed.
Print Assumptions C19_interrupted_exception_refuted.

(* ... and true of EVERY program except that shape.  [defer_ok c] = c contains no
   closure { defer { d }; r } whose deferred call d can cancel (contains
   verif:cancel) while its body r can fail (contains fail); programs with any other
   use of defer are covered.  The hypothesis is exactly the complement of the
   recorded finding class sync-cancel-in-defer-of-failing-closure (the runner
   computes the same predicate), and the witness above violates it
   ([C19_refutation_witness_has_that_shape]). *)
Theorem C19_interrupted_exception_sync_partial : forall c s s' e,
  defer_ok c = true ->
  eval_chunk None c s = (s', e) -> cz s' = true -> e = Some XInt.
Proof. exact interrupted_exception_sync_ok. Qed.
Print Assumptions C19_interrupted_exception_sync_partial.

Theorem C19_refutation_witness_has_that_shape : defer_ok w_defer = false.
Proof. exact w_defer_not_ok. Qed.
Print Assumptions C19_refutation_witness_has_that_shape.

(* WHERE THE CANCELLATION POINTS ARE.  The model checks the context before each
   pipeline ([CCons]) and after each chunk ([CNil]), like pipelineOp.exec and
   chunkOp.exec; loops ([FWhile] with a pure value condition, [FEach]) have no
   check of their own.  The four theorems below hold for EVERY body, in particular
   the empty chunk, because the check after a chunk does not depend on the chunk
   having pipelines. *)

(* every chunk evaluation, also of an empty chunk, passes at least one check *)
Theorem C19_chunk_passes_a_check : forall c ko s s' e,
  eval_chunk ko c s = (s', e) -> clk s < clk s'.
Proof. exact chunk_passes_a_check. Qed.
Print Assumptions C19_chunk_passes_a_check.

(* a loop that completes k iterations passed at least k checks *)
Theorem C19_every_loop_iteration_passes_a_check : forall ko k b s s',
  (eval_form ko (FWhile k b) s = (s', None) -> clk s + k <= clk s')
  /\ (eval_form ko (FEach k b) s = (s', None) -> clk s + k <= clk s').
Proof. exact every_loop_iteration_passes_a_check. Qed.
Print Assumptions C19_every_loop_iteration_passes_a_check.

(* once the context is cancelled a loop runs no further iteration *)
Theorem C19_cancelled_loop_stops : forall ko k b s,
  is_cancelled ko s = true ->
  eval_form ko (FWhile (S k) b) s = (tickclk s, Some XInt).
Proof. exact cancelled_loop_stops. Qed.
Print Assumptions C19_cancelled_loop_stops.

(* liveness: a loop with at least as many iterations left as checks remain before
   the interrupt (so: any loop that would run forever) does not complete -- it
   returns an exception *)
Theorem C19_long_loop_is_interrupted : forall t k b s s' e,
  0 < k -> t <= clk s + k ->
  eval_form (Some t) (FWhile k b) s = (s', e) -> e <> None.
Proof. exact long_loop_is_interrupted. Qed.
Print Assumptions C19_long_loop_is_interrupted.

(* non-vacuity: an empty-body loop of 1000 iterations interrupted at check 5 *)
Example C19_example_empty_loop :
  run_prog (Some 5) (CCons (FWhile 1000 CNil) CNil) = (mkEs false 5 [EStart 1], Some XInt).
Proof. vm_compute. reflexivity. Qed.

(* the oracle evaluated on the recorded trace is sound *)
Theorem C19_oracle_sound : forall ot r,
  check_sync ot r = true ->
  nothing_after_cancel (rev ot) /\ (has_cancel ot = true -> r = RInt).
Proof. exact check_sync_sound. Qed.
Print Assumptions C19_oracle_sound.

(* Bounded peach under cancellation, for every input count, bound, callback
   behaviour, EVERY schedule and every cancellation moment: never more callbacks
   at once than the bound, and the semaphore is never released below zero (no Go
   panic).  The Acquire error is honoured: no worker starts without a token.
   (Before the fix for finding peach-bounded-cancel both were refuted.) *)
Theorem C19_peach_bound_under_cancel : forall b cb n s k,
  reach (faithful b) cb n s -> b = Some k -> running n s <= k.
Proof. exact peach_bound_under_cancel. Qed.
Print Assumptions C19_peach_bound_under_cancel.

Theorem C19_sema_never_negative : forall b cb n s,
  reach (faithful b) cb n s -> panicked s = false.
Proof. exact sema_never_negative. Qed.
Print Assumptions C19_sema_never_negative.

(* for any dispatcher configuration the bound holds as long as no cancellation happened *)
Theorem C19_peach_bound_without_cancel : forall c cb n s b,
  reach c cb n s -> cancelled s = false -> bound c = Some b ->
  running n s <= b /\ panicked s = false.
Proof.
  intros c cb n s b Hr Hc Hb. split;
  [exact (bound_respected c cb n s b Hr (or_intror Hc) Hb)|exact (no_panic c cb n s Hr (or_intror Hc))].
Qed.
Print Assumptions C19_peach_bound_without_cancel.

(* non-vacuity: a program that cancels in the middle *)
Example C19_example_cancel_in_try :
  run_prog None (CCons (FTry (CCons FCancel (CCons (FTick 1) CNil)) false CNil true (CCons (FTick 2) CNil))
                   (CCons (FTick 3) CNil))
  = (mkEs true 4 [ECancel; EStart 2; EStart 1], Some XInt).
Proof. vm_compute. reflexivity. Qed.
