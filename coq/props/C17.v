(* C17 — No program can crash the interpreter.
   Property theorems only; every proof is [exact <lemma>].
   The models (model/C17.v) follow the Go code including its defects, with an
   explicit [Panic] outcome at every unguarded index, slice, division,
   allocation, nil dereference and type assertion of the modelled mechanisms.
   Crashes inside builtins whose logic is not modelled, and Go memory safety,
   are outside these theorems: they are only searched for (checks/C17.md). *)
From verif Require Import lib.Base lib.Utf8 model.C17 proofs.C17_proofs proofs.C17_gofn_proofs
  proofs.C17_subseq_proofs.
Open Scope Z_scope.

(* goFn.Call, for every Go signature NewGoFn accepts, every argument list and
   every set of options: no panic — not from its own "impossible" branch or
   indexing, not from scanOptions' "unreachable", not from reflect.Value.Call's
   argument count/type checks, not from the return-value slicing. *)
Theorem C17_gofn_call_no_panic : forall ps variadic fields rets g args opts,
  new_gofn ps variadic = Some g -> (variadic = true -> ps <> []) ->
  NoDup (map fst opts) ->
  is_panic (gofn_call ps variadic fields rets g args opts) = false.
Proof. exact gofn_call_no_panic. Qed.
Print Assumptions C17_gofn_call_no_panic.

(* scanOptions: both panic("unreachable") sites are unreachable (pigeonhole on
   the distinct option names). *)
Theorem C17_scan_options_no_panic : forall fields raw,
  NoDup (map fst raw) -> is_panic (scan_options fields raw) = false.
Proof. exact scan_options_no_panic. Qed.
Print Assumptions C17_scan_options_no_panic.

(* Closure.Call: once the arity check has passed, every args[i], args[a:b],
   slots[i] and OptDefaults[i] is in range, for every parameter list with or
   without a rest parameter, every argument list and every set of options. *)
Theorem C17_closure_call_slices_in_bounds :
  forall (A : Type) nnames rest optnames (defaults : list A) nnew args given,
  0 <= nnames -> (rest = -1 \/ 0 <= rest < nnames) -> 0 <= nnew ->
  zlen optnames <= zlen defaults ->
  is_panic (closure_call nnames rest optnames defaults nnew args given) = false.
Proof. exact @closure_call_slices_in_bounds. Qed.
Print Assumptions C17_closure_call_slices_in_bounds.

(* Port table.  Any sequence of redirections on any starting table, with any
   destination and source fds -- negative ones included (they are the
   invalid-fd exception) -- does not panic, as long as the destination is below
   the allocation limit.  The full statement without that bound is false:
   growAccess allocates fd+1 slots (C17_port_huge_fd_refuted, a known finding). *)
Theorem C17_port_table_no_panic_partial : forall limit rs st,
  2 <= limit -> Forall (redir_ok limit) rs -> is_panic (redirs_exec limit st rs) = false.
Proof. intros limit rs st. exact (redirs_exec_no_panic limit rs st). Qed.
Print Assumptions C17_port_table_no_panic_partial.

(* negative fds are exceptions, not crashes *)
Theorem C17_port_negative_dst_is_exception : forall limit st z m s,
  z < 0 -> redir_exec limit st (mkRedir (Some (FdNum z)) m s) = Err EInvalidFD.
Proof. exact port_negative_dst_is_exception. Qed.
Print Assumptions C17_port_negative_dst_is_exception.

Theorem C17_port_huge_fd_refuted :
  exists limit st r, 2 <= limit /\ redir_exec limit st r = Panic PMakeSlice.
Proof. exact port_huge_fd_refuted. Qed.
Print Assumptions C17_port_huge_fd_refuted.

(* A whole pipeline form (redirections, then the end-of-form bookkeeping of
   pipelineOp.exec).  Proved for forms that, when their input is a pipe, do not
   redirect fd 0; refuted otherwise (`echo a | cat <file`; a known finding). *)
Theorem C17_form_no_panic_partial : forall limit ip op rs,
  2 <= limit -> Forall (redir_ok limit) rs ->
  (ip = true -> Forall leaves_stdin rs) ->
  is_panic (form_exec limit ip op rs) = false.
Proof. exact form_exec_no_panic_partial. Qed.
Print Assumptions C17_form_no_panic_partial.

Theorem C17_pipeline_stdin_redirect_refuted :
  exists limit rs, 2 <= limit /\ Forall (redir_ok limit) rs
                   /\ form_exec limit true false rs = Panic PNilDeref.
Proof. exact pipeline_stdin_redirect_refuted. Qed.
Print Assumptions C17_pipeline_stdin_redirect_refuted.

Theorem C17_pipeline_stdin_close_refuted :
  exists limit rs, 2 <= limit /\ Forall (redir_ok limit) rs
                   /\ form_exec limit true false rs = Panic PCloseClosed.
Proof. exact pipeline_stdin_close_refuted. Qed.
Print Assumptions C17_pipeline_stdin_close_refuted.

(* Frame.Port (used by file:is-tty): every index, negative ones included *)
Theorem C17_frame_port_no_panic : forall ports i, is_panic (frame_port ports i) = false.
Proof. exact frame_port_no_panic. Qed.
Print Assumptions C17_frame_port_no_panic.

(* math:pow with exact operands: every base and exponent *)
Theorem C17_pow_no_panic : forall bn bd e, 0 < bd -> is_panic (pow_exact bn bd e) = false.
Proof. exact pow_no_panic. Qed.
Print Assumptions C17_pow_no_panic.

Theorem C17_pow_zero_neg_is_exception : forall bd e, e < 0 -> pow_exact 0 bd e = Err EBadValue.
Proof. exact pow_zero_neg_is_exception. Qed.
Print Assumptions C17_pow_zero_neg_is_exception.

(* strutil.HasSubseq (edit:match-subseq): every candidate and seed, as byte
   strings -- valid UTF-8 or not (uses the width lemma of the decoder) *)
Theorem C17_has_subseq_no_panic : forall s t, is_panic (go_has_subseq s t) = false.
Proof. exact go_has_subseq_no_panic. Qed.
Print Assumptions C17_has_subseq_no_panic.

(* randint with two machine-int bounds: neither rand.Intn nor big.Int.Rand is
   handed a non-positive bound, also when high - low overflows the machine int *)
Theorem C17_randint_no_panic : forall low high,
  int64 low -> int64 high -> is_panic (randint_small low high) = false.
Proof. exact randint_small_no_panic. Qed.
Print Assumptions C17_randint_no_panic.

(* the oracle demands exactly "ended normally or with an Elvish exception" *)
Theorem C17_oracle_sound : forall (A : Type) (o : obs A), check_C17 o = true -> o <> OCrash.
Proof. exact @check_C17_sound. Qed.
Print Assumptions C17_oracle_sound.

(* an observation that agrees with a non-panicking model outcome satisfies it *)
Theorem C17_agreement_transfers : forall (A B : Type) (eqv : A -> B -> bool) (m : res A) (o : obs B),
  agree eqv m o = true -> is_panic m = false -> check_C17 o = true.
Proof. exact @agree_no_panic. Qed.
Print Assumptions C17_agreement_transfers.

(* non-vacuity: the models accept, reject and bind as the Go code does *)
Example C17_ex_gofn_accepts :
  match new_gofn [GFrame; GOptsStruct; GString; GInt] true with
  | Some g => gofn_call [GFrame; GOptsStruct; GString; GInt] true test_fields [RStrs 2; RErrNil] g
                [VStrOther; VStrInt; VInt] [(1%N, VStrInt)]
  | None => Panic PImpossible
  end = Ok (mkCallObs 2 2).
Proof. reflexivity. Qed.

Example C17_ex_gofn_arity :
  match new_gofn [GString; GInputs] false with
  | Some g => gofn_call [GString; GInputs] false test_fields [] g [] []
  | None => Panic PImpossible
  end = Err (EArity 1 2 0).
Proof. reflexivity. Qed.

Example C17_ex_closure_rest :
  map binding_vals (match closure_call 3 1 [] [] 0 [10%N; 11%N; 12%N; 13%N; 14%N] [] with
                    | Ok b => b | _ => [] end)
  = [[10%N]; [11%N; 12%N; 13%N]; [14%N]].
Proof. reflexivity. Qed.

Example C17_ex_redirs :
  match form_exec 1000 false false
          [mkRedir (Some (FdNum 5)) MWrite (SrcFileOk 1%N); mkRedir None MWrite (SrcFd (FdNum 5))] with
  | Ok st => fst st | _ => [] end
  = [Some (POrig 0%N); Some (PFile 1%N); Some (POrig 2%N); None; None; Some (PFile 1%N)].
Proof. reflexivity. Qed.

Example C17_ex_pow : pow_exact 2 3 (-3) = Ok (27, 8).
Proof. reflexivity. Qed.

(* the inputs that used to crash HasSubseq *)
Example C17_ex_subseq :
  go_has_subseq [255%N] [255%N] = Ok true
  /\ go_has_subseq [97%N; 195%N] [239%N; 191%N; 189%N] = Ok true.
Proof. exact has_subseq_former_witnesses. Qed.
