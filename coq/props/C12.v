(* C12 — inexact arithmetic follows IEEE-754 after the documented conversion. *)
From Coq Require Import QArith Floats.SpecFloat.
From verif Require Import lib.Base model.C11_Num model.C12 proofs.C12_proofs.
Open Scope Z_scope.

Theorem C12_to_f64_big_is_inf : forall z, in_int z = false -> to_f64 (NBig z) = S754_infinity (z <? 0).
Proof. exact to_f64_big_is_inf. Qed.
Print Assumptions C12_to_f64_big_is_inf.
