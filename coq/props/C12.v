(* C12 — Inexact arithmetic follows IEEE-754 after the documented conversion.
   Property theorems only; every proof is [exact <lemma>].

   binary64 = Coq's Floats.SpecFloat with prec 53, emax 1024 (fadd = SFadd, ...;
   that these ARE the IEEE-754 operations is the standard library's
   specification, not re-proved here).  to_f64 is the model of
   vals.ConvertToFloat64; has_inexact l := some element of l is a float. *)
From Coq Require Import QArith Floats.SpecFloat.
From verif Require Import lib.Base model.C11_Num model.C12 proofs.C11_proofs proofs.C12_dyadic proofs.C12_proofs proofs.C12_roundtrip.
Open Scope Z_scope.

(* + with a float among the arguments: every argument converted, then a left
   fold of IEEE addition from +0 *)
Theorem C12_add_float_fold : forall l, has_inexact l ->
  call CAdd l None = RVals [NFloat (fold_left fadd (map to_f64 l) fzero)].
Proof. exact add_float_fold. Qed.
Print Assumptions C12_add_float_fold.

(* * likewise from 1, unless the documented exact-zero rule applies *)
Theorem C12_mul_float_fold : forall l, has_inexact l ->
  existsb is_int0 l && negb (existsb is_inf l) = false ->
  call CMul l None = RVals [NFloat (fold_left fmul (map to_f64 l) fone)].
Proof. exact mul_float_fold. Qed.
Print Assumptions C12_mul_float_fold.

(* - negates a single argument, otherwise folds from the first argument *)
Theorem C12_sub_float_fold : forall a r, has_inexact (a :: r) ->
  call CSub (a :: r) None =
  RVals [NFloat (match r with [] => fopp (to_f64 a) | _ => fold_left fsub (map to_f64 r) (to_f64 a) end)].
Proof. exact sub_float_fold. Qed.
Print Assumptions C12_sub_float_fold.

(* / inverts a single argument (1/x), otherwise folds from the first argument;
   no argument is an exact 0 (those cases are the exact-zero rules of C11) *)
Theorem C12_div_float_fold : forall a r, has_inexact (a :: r) ->
  existsb is_int0 (a :: r) = false ->
  call CDiv (a :: r) None =
  RVals [NFloat (match r with [] => fdiv fone (to_f64 a) | _ => fold_left fdiv (map to_f64 r) (to_f64 a) end)].
Proof. exact div_float_fold. Qed.
Print Assumptions C12_div_float_fold.

(* for argument lists of floats the model's result passes the oracle, i.e. the
   code's evaluation order is the one the property states *)
Theorem C12_float_arith_meets_oracle : forall c l, In c [CAdd; CSub; CMul; CDiv] ->
  all_float l -> l <> [] -> check_C12 c l (call c l None) = true.
Proof. exact float_arith_meets_oracle. Qed.
Print Assumptions C12_float_arith_meets_oracle.

(* floor ceil trunc round round-to-even and abs of a float are the float
   functions; inexact-num is the conversion *)
Theorem C12_round_float : forall md f, call (rcmd md) [NFloat f] None = RVals [NFloat (f_round md f)].
Proof. exact round_float. Qed.
Print Assumptions C12_round_float.

Theorem C12_abs_float : forall f, call CAbs [NFloat f] None = RVals [NFloat (fabs f)].
Proof. exact abs_float. Qed.
Print Assumptions C12_abs_float.

Theorem C12_inexact_num_conv : forall n, call CInexactNum [n] None = RVals [NFloat (to_f64 n)].
Proof. exact inexact_num_conv. Qed.
Print Assumptions C12_inexact_num_conv.

(* the rounding functions return integers (for every valid finite double) *)
Theorem C12_rounding_fn_integral : forall md f, fvalid f = true -> f_is_finite f = true ->
  exists z, (f_to_Q (f_round md f) == z # 1)%Q.
Proof. exact rounding_fn_integral. Qed.
Print Assumptions C12_rounding_fn_integral.

(* integers outside the signed 64-bit range become the infinity of their sign *)
Theorem C12_to_f64_big_is_inf : forall z, in_int z = false -> to_f64 (NBig z) = S754_infinity (z <? 0).
Proof. exact to_f64_big_is_inf. Qed.
Print Assumptions C12_to_f64_big_is_inf.

(* integers of magnitude up to 2^53 convert exactly *)
Theorem C12_to_f64_int_exact_below_2p53 : forall z, Z.abs z <= 9007199254740992 ->
  (f_to_Q (to_f64 (NInt z)) == z # 1)%Q.
Proof. exact to_f64_int_exact_below_2p53. Qed.
Print Assumptions C12_to_f64_int_exact_below_2p53.

(* exact-num of a finite float: an exact canonical number whose value is the
   float's binary value m*2^e; Inf/NaN raise *)
Theorem C12_exact_num_value : forall f, f_is_finite f = true ->
  exists v, call CExactNum [NFloat f] None = RVals [v] /\ good v (f_to_Q f).
Proof. exact exact_num_value. Qed.
Print Assumptions C12_exact_num_value.

Theorem C12_exact_num_nonfinite : forall f, f_is_finite f = false ->
  call CExactNum [NFloat f] None = RErr ENotFinite.
Proof. exact exact_num_nonfinite. Qed.
Print Assumptions C12_exact_num_nonfinite.

(* the conversion of an exactly representable number is exact: whenever
   mx*2^ex = m*2^e (dy_eq) and (m, e) is a canonical binary64 mantissa/exponent pair
   (bounded), rounding mx*2^ex to the nearest double gives exactly that double.
   (f_of_dyadic is what the model's int->double and rational->double conversions end
   in.)  Proved on SpecFloat by integer reasoning only. *)
Theorem C12_conversion_exact_on_representable : forall s mx ex m e,
  bounded prec emax m e = true -> dy_eq mx ex m e ->
  f_of_dyadic s mx ex = S754_finite s m e.
Proof. exact f_of_dyadic_exact. Qed.
Print Assumptions C12_conversion_exact_on_representable.

(* exact-num then inexact-num gives EVERY finite double back, bit for bit, with
   exactly the two exceptions the documentation implies:
   - f = -0.0 (exact numbers have no negative zero: the result is +0.0);
   - fits_int64 f = false, i.e. f = (-1)^s * m * 2^e with e >= 0 whose (integer) value
     lies outside [-2^63, 2^63): exact-num gives a big integer and inexact-num of it is
     the infinity of its sign (C12_roundtrip_outside_int64). *)
Theorem C12_exact_inexact_roundtrip : forall f,
  fvalid f = true -> f_is_finite f = true -> f <> S754_zero true -> fits_int64 f = true ->
  exists v, call CExactNum [NFloat f] None = RVals [v]
    /\ call CInexactNum [v] None = RVals [NFloat f].
Proof. exact exact_inexact_roundtrip. Qed.
Print Assumptions C12_exact_inexact_roundtrip.

Theorem C12_roundtrip_outside_int64 : forall s m e, 0 <= e -> in_int (smant s m * 2 ^ e) = false ->
  to_f64 (normalize_rat (f_to_Q (S754_finite s m e))) = S754_infinity s.
Proof. exact roundtrip_outside_int64. Qed.
Print Assumptions C12_roundtrip_outside_int64.

(* math:min / math:max with a float among the arguments: every argument converted,
   then a left fold of Go's math.Min / math.Max (f_min / f_max: -Inf/+Inf first, then
   NaN, then signed zeros) from the first argument.  math:pow with an inexact argument
   is Go's math.Pow, which is not an IEEE-754 basic operation; it is outside the
   property and the model (RUnmodelled). *)
Theorem C12_minmax_float_fold : forall (lt : bool) a r, has_inexact (a :: r) ->
  call (if lt then CMin else CMax) (a :: r) None =
  RVals [NFloat (fold_left (if lt then f_min else f_max) (map to_f64 r) (to_f64 a))].
Proof. exact minmax_float_fold. Qed.
Print Assumptions C12_minmax_float_fold.

(* the oracle evaluated on the implementation's observations implies the
   Prop-level specification *)
Theorem C12_oracle_sound : forall c args obs, check_C12 c args obs = true -> Spec_C12 c args obs.
Proof. exact check_C12_sound. Qed.
Print Assumptions C12_oracle_sound.

(* non-vacuity: 0.1 + 0.2, 2^53 + 1, 2^63, 1/3, signed zeros, evaluation order *)
Example C12_ex_01_02 : call CAdd [NFloat (fb 4591870180066957722); NFloat (fb 4596373779694328218)] None
  = RVals [NFloat (fb 4599075939470750516)].
Proof. vm_compute. reflexivity. Qed.
Example C12_ex_conv :
  to_f64 (NInt 9007199254740993) = fb 4845873199050653696
  /\ to_f64 (NBig 9223372036854775808) = S754_infinity false
  /\ to_f64 (NRat (1#3)) = fb 4599676419421066581
  /\ is_nearest (1#3) (fb 4599676419421066581) = true
  /\ is_nearest (1#3) (fb 4599676419421066582) = false.
Proof. repeat split; vm_compute; reflexivity. Qed.
Example C12_ex_order :
  call CAdd [NFloat (fb 4846369599423283200); NFloat (fb 4607182418800017408); NFloat (fb 14069741636278059008)] None
  <> call CAdd [NFloat (fb 4846369599423283200); NFloat (fb 14069741636278059008); NFloat (fb 4607182418800017408)] None.
Proof. vm_compute. discriminate. Qed.
Example C12_ex_roundtrip :
  call CInexactNum [NRat (3602879701896397 # 36028797018963968)] None = RVals [NFloat (fb 4591870180066957722)]
  /\ call CExactNum [NFloat (fb 4591870180066957722)] None = RVals [NRat (3602879701896397 # 36028797018963968)]
  /\ fits_int64 (fb 5055640609639927018) = false.
Proof. repeat split; vm_compute; reflexivity. Qed.
Example C12_ex_neg_zero :
  call CSub [NFloat (fb 0)] None = RVals [NFloat (S754_zero true)]
  /\ call CAdd [NFloat (S754_zero true)] None = RVals [NFloat (S754_zero false)]
  /\ check_C12 CSub [NFloat (fb 0)] (RVals [NFloat (S754_zero false)]) = false.
Proof. repeat split; vm_compute; reflexivity. Qed.
