(* C44 — The language server answers every request and maps positions exactly.
   Property theorems only; every proof is [exact <lemma>].

   Vocabulary (model/C44.v, proofs/C44_proofs.v):
   - items_of s        the runes of s with their byte widths, as "for i, r := range s" yields them;
   - items_of s = pre ++ post   cuts s at the rune boundary of byte offset [wsum pre];
   - boundary s o      o is such an offset;
   - pos_of_prefix rs  the specified LSP position after the runes rs: line = number of line
                       breaks (\r\n, lone \r, lone \n count once each), character = UTF-16 code
                       units after the last line-break character;
   - inside_crlf pre post   the cut lies between the \r and the \n of a pair;
   - ends_crlf rs      rs ends with \r\n (the cut lies right after a pair; only used to name an input class). *)
From verif Require Import lib.Base lib.Utf8 model.C44 proofs.C44_proofs.

(* The range loop is modelled with fuel = len(s): it never runs out (every rune
   is at least one byte wide and the widths add up to the length). *)
Theorem C44_range_loop_covers_text : forall s,
  wsum (items_of s) = length s /\ Forall (fun it => (1 <= snd it)%nat) (items_of s).
Proof. exact (fun s => conj (wsum_items_of s) (items_of_widths s)). Qed.
Print Assumptions C44_range_loop_covers_text.

(* to_idx_total: for every text and every position (past the end of a line or of
   the text, negative, inside a CRLF pair, between surrogate halves, ...) the
   result is an offset in [0, len] on a rune boundary. *)
Theorem C44_to_idx_total : forall s p,
  boundary s (lspPositionToIdx s p) /\ (lspPositionToIdx s p <= length s)%nat.
Proof. exact (fun s p => conj (to_idx_total s p) (to_idx_in_range s p)). Qed.
Print Assumptions C44_to_idx_total.

(* from_idx_total: for every text and every offset (negative, past the end, inside
   a rune) the result is the specified position of some rune boundary, with
   non-negative line and character. *)
Theorem C44_from_idx_total : forall s idx,
  (exists pre post, items_of s = pre ++ post /\
     lspPositionFromIdx s idx = pos_of_prefix (runes pre)) /\
  (0 <= pline (lspPositionFromIdx s idx))%Z /\ (0 <= pchar (lspPositionFromIdx s idx))%Z.
Proof. exact (fun s idx => conj (from_idx_total s idx) (from_idx_nonneg s idx)). Qed.
Print Assumptions C44_from_idx_total.

(* at every rune boundary lspPositionFromIdx is exactly the specified position *)
Theorem C44_from_idx_exact : forall s pre post, items_of s = pre ++ post ->
  lspPositionFromIdx s (Z.of_nat (wsum pre)) = pos_of_prefix (runes pre).
Proof. exact from_idx_exact. Qed.
Print Assumptions C44_from_idx_exact.

(* utf16_units_counted: characters are UTF-16 code units (1 per BMP rune, 2 per
   astral rune) since the last line-break character; lines are line breaks with
   CRLF counted once. *)
Theorem C44_utf16_units_counted : forall s pre post, items_of s = pre ++ post ->
  pchar (lspPositionFromIdx s (Z.of_nat (wsum pre))) = units_of (last_line (runes pre))
  /\ pline (lspPositionFromIdx s (Z.of_nat (wsum pre))) = count_breaks (runes pre).
Proof. exact utf16_units_counted. Qed.
Print Assumptions C44_utf16_units_counted.

(* from_to_roundtrip: every rune boundary that is not strictly inside a \r\n pair
   and its position round-trip (boundaries right after a pair included). *)
Theorem C44_from_to_roundtrip : forall s pre post, items_of s = pre ++ post ->
  inside_crlf (runes pre) (runes post) = false ->
  lspPositionToIdx s (lspPositionFromIdx s (Z.of_nat (wsum pre))) = wsum pre.
Proof. exact from_to_roundtrip. Qed.
Print Assumptions C44_from_to_roundtrip.

(* the position of such a boundary maps to exactly that boundary *)
Theorem C44_to_idx_exact : forall s pre post, items_of s = pre ++ post ->
  inside_crlf (runes pre) (runes post) = false ->
  lspPositionToIdx s (pos_of_prefix (runes pre)) = wsum pre.
Proof. exact to_idx_exact. Qed.
Print Assumptions C44_to_idx_exact.

(* the other round trip (position -> offset -> position) holds for every exact
   position, also the position of a boundary inside a pair *)
Theorem C44_to_from_roundtrip : forall s pre post, items_of s = pre ++ post ->
  lspPositionFromIdx s (Z.of_nat (lspPositionToIdx s (pos_of_prefix (runes pre))))
  = pos_of_prefix (runes pre).
Proof. exact to_from_roundtrip. Qed.
Print Assumptions C44_to_from_roundtrip.

(* The oracles evaluated on the implementation's observations mean what the
   property says. *)
Theorem C44_oracle_to_idx_sound : forall s p obs,
  check_to_idx s p obs = true -> Spec_to_idx s p obs.
Proof. exact check_to_idx_sound. Qed.
Print Assumptions C44_oracle_to_idx_sound.

Theorem C44_oracle_from_idx_sound : forall s idx obs,
  check_from_idx s idx obs = true -> Spec_from_idx s idx obs.
Proof. exact check_from_idx_sound. Qed.
Print Assumptions C44_oracle_from_idx_sound.

(* The model meets the oracles for every text, position and offset. *)
Theorem C44_from_idx_meets_oracle : forall s idx,
  check_from_idx s idx (lspPositionFromIdx s idx) = true.
Proof. exact from_idx_meets_oracle. Qed.
Print Assumptions C44_from_idx_meets_oracle.

Theorem C44_to_idx_meets_oracle : forall s p,
  check_to_idx s p (Z.of_nat (lspPositionToIdx s p)) = true.
Proof. exact to_idx_meets_oracle. Qed.
Print Assumptions C44_to_idx_meets_oracle.

(* every_request_answered: for every history of requests from every state of the
   documents map, each request yields exactly one outcome, a reply or one of the
   two error kinds ... *)
Theorem C44_every_request_answered : forall rs m,
  length (snd (run_session m rs)) = length rs /\
  Forall (fun o => o_reply o = ROk \/ o_reply o = RErr InvalidParams \/ o_reply o = RErr MethodNotFound)
         (snd (run_session m rs)).
Proof. exact every_request_answered. Qed.
Print Assumptions C44_every_request_answered.

(* ... namely: opens/changes reply and publish; hover/completion on an unknown
   document give InvalidParams, on a known one a reply computed at an offset that
   is a rune boundary inside the document (what np.Find and complete.Complete are
   handed); unknown methods give MethodNotFound. *)
Theorem C44_handler_answers : forall m r, Answer m r (snd (handle m r)).
Proof. exact handle_answer. Qed.
Print Assumptions C44_handler_answers.

(* the documents map holds the latest text of each document of the history *)
Theorem C44_documents_latest : forall rs m u,
  lookup u (fst (run_session m rs)) = latest u rs (lookup u m).
Proof. exact documents_latest. Qed.
Print Assumptions C44_documents_latest.

(* diagnostics_are_parse_errors: an open/change publishes, for that document, one
   range per parse error in order, whose ends are the specified positions of the
   error's offsets wherever those are rune boundaries; other requests publish
   nothing. *)
Theorem C44_diagnostics_are_parse_errors : forall m r u t pe,
  r = DidOpen u t pe \/ r = DidChange u t pe ->
  exists ds, o_diags (snd (handle m r)) = Some (u, ds) /\
    length ds = length pe /\
    (forall k f e, nth_error pe k = Some (f, e) ->
       exists d, nth_error ds k = Some d /\
         (forall pre post, items_of t = pre ++ post -> Z.of_nat (wsum pre) = f ->
            fst d = pos_of_prefix (runes pre)) /\
         (forall pre post, items_of t = pre ++ post -> Z.of_nat (wsum pre) = e ->
            snd d = pos_of_prefix (runes pre))).
Proof. exact diagnostics_are_parse_errors. Qed.
Print Assumptions C44_diagnostics_are_parse_errors.

Theorem C44_no_spurious_diagnostics : forall m r,
  is_update r = false -> o_diags (snd (handle m r)) = None.
Proof. exact no_spurious_diagnostics. Qed.
Print Assumptions C44_no_spurious_diagnostics.

(* the session oracle means: one reply per call and none per notification; every
   publication carries the converted parse-error ranges of the document's latest
   text; every open/change is followed by a publication *)
Theorem C44_session_oracle_sound : forall evs alive,
  check_session evs alive = true -> alive = true /\ Spec_events [] evs.
Proof. exact session_oracle_sound. Qed.
Print Assumptions C44_session_oracle_sound.

Theorem C44_diag_oracle_sound : forall t pe obs, check_diag t pe obs = true ->
  length pe = length obs /\
  (forall p, In p pe -> exists o, In o obs /\ Spec_range t p o) /\
  (forall o, In o obs -> exists p, In p pe /\ Spec_range t p o).
Proof. exact check_diag_sound. Qed.
Print Assumptions C44_diag_oracle_sound.

(* for every history (requests and notifications) the behaviour of the handler
   model passes the session oracle and its own correspondence check *)
Theorem C44_model_session_meets_oracle : forall rs,
  check_session (model_events [] rs) true = true.
Proof. exact model_session_meets_oracle. Qed.
Print Assumptions C44_model_session_meets_oracle.

Theorem C44_model_session_corresponds : forall rs m, corr_events m (model_events m rs) = true.
Proof. exact model_session_corresponds. Qed.
Print Assumptions C44_model_session_corresponds.

(* burst_last_publication: updates handled back to back publish in update order
   (synchronously, one handler at a time), so for every arrival order the model
   allows, the last publication a client receives for a document has the ranges of
   the document's latest parse errors. *)
Theorem C44_burst_last_publication : forall u ups order, ups <> [] ->
  In order (burst_orders u ups) -> check_burst u ups order = true.
Proof. exact burst_last_publication. Qed.
Print Assumptions C44_burst_last_publication.

(* ---- non-vacuity ---- *)
From Coq Require Import String.
(* "a😀\r\né": offsets 0 1 5 6 7 9; the position after 😀 is character 3 *)
Example C44_ex_astral_units :
  lspPositionFromIdx (hx "61f09f98800d0ac3a9"%string) 5 = mkPos 0 3
  /\ lspPositionToIdx (hx "61f09f98800d0ac3a9"%string) (mkPos 0 2) = 5%nat   (* between the surrogate halves *)
  /\ lspPositionToIdx (hx "61f09f98800d0ac3a9"%string) (mkPos 0 99) = 7%nat  (* past the end of the line *)
  /\ lspPositionFromIdx (hx "61f09f98800d0ac3a9"%string) 7 = mkPos 1 0
  /\ lspPositionToIdx (hx "61f09f98800d0ac3a9"%string) (mkPos 1 0) = 7%nat.  (* line start after \r\n *)
Proof. vm_compute. repeat split. Qed.

Example C44_ex_session :
  snd (run_session [] [DidOpen (hx "75"%string) (hx "2421"%string) [(1, 2)%Z];
                       Hover (hx "75"%string) (mkPos 0 1); Hover (hx "76"%string) (mkPos 0 0); UnknownMethod])
  = [mkOut ROk (Some (hx "75"%string, [(mkPos 0 1, mkPos 0 2)])) None;
     mkOut ROk None (Some (hx "2421"%string, 1%nat));
     mkOut (RErr InvalidParams) None None;
     mkOut (RErr MethodNotFound) None None].
Proof. vm_compute. reflexivity. Qed.
