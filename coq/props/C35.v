(* C35 placeholder while the runner is brought up *)
From verif Require Import lib.Base model.C35.
