(* C35 — Markdown rendering is total and agrees with CommonMark on the supported
   subset.  Property theorems only; every proof is [exact <lemma>].
   What is proved here covers termination and well-formedness of the modelled
   kernels of pkg/md and the soundness of the oracles evaluated on the
   implementation's output; agreement with CommonMark itself is validated
   differentially on every run (checks/C35.md), it is not a theorem. *)
From Coq Require Import String.
From verif Require Import lib.Base model.C35_Bal model.C35_Inline model.C35 proofs.C35_proofs proofs.C35_naive proofs.C35_codespan proofs.C35_inline.

(* The delimiter-stack loop of processEmphasis terminates on every delimiter
   stack: the measure (remaining delimiter text + entries still to scan)
   decreases in every iteration, so the model never runs out of fuel. *)
Theorem C35_processEmphasis_terminates : forall ents, process_emphasis ents <> None.
Proof. exact process_emphasis_terminates. Qed.
Print Assumptions C35_processEmphasis_terminates.

(* The inline parser of the model (main loop of inlineParser.render for the
   covered constructs -- text, backslash escapes, character references, code
   spans, emphasis runs, soft and hard line breaks -- followed by
   processEmphasis and the merging of buffer.ops) terminates on every input:
   every iteration of the main loop moves the position forward by at least one
   byte (inline_step_progress), so the fuel length+1 is never exhausted.
   Brackets and angle brackets are not covered (treated as text by the model). *)
Theorem C35_inline_total : forall text, render_inline text <> None.
Proof. exact inline_total. Qed.
Print Assumptions C35_inline_total.

Theorem C35_inline_step_consumes : forall text pos, (pos < snd (inline_step text pos))%nat.
Proof. exact inline_step_progress. Qed.
Print Assumptions C35_inline_step_consumes.

(* The opener lower bounds (openersBottom, indexed by delimiter kind, length
   mod 3 and whether the closer can also open) are only an optimisation: on every
   delimiter stack whose identities increase along the stack and whose closers
   are star or underscore runs (what the inline parser builds), the model computes
   exactly what the loop that searches the whole stack for every closer computes.
   A wrong or missing dimension of the table in the implementation therefore
   shows up as a broken correspondence on the stacks where it matters. *)
Theorem C35_openers_bottom_is_only_an_optimisation : forall ents fuel,
  Sorted.StronglySorted lt (dids ents) -> right_ok ents ->
  pe fuel [] ents [] = pe_naive fuel [] ents.
Proof. exact openers_bottom_only_optimises. Qed.
Print Assumptions C35_openers_bottom_is_only_an_optimisation.

Theorem C35_runner_stacks_are_sorted : forall ds,
  Sorted.StronglySorted lt (dids (build_entries ds)).
Proof. exact build_entries_sorted. Qed.
Print Assumptions C35_runner_stacks_are_sorted.

(* For every delimiter stack, the emphasis start/end operations emitted are
   balanced and properly nested, strong with strong and plain with plain. *)
Theorem C35_emphasis_well_nested : forall ents l,
  process_emphasis ents = Some l ->
  bal_check Bool.eqb [] (map otok_tok (flatten l)) = true.
Proof. exact emphasis_well_nested. Qed.
Print Assumptions C35_emphasis_well_nested.

(* canOpenCloseEmphasis is the table of its documentation comment, for every
   combination of categories of the neighbouring runes. *)
Theorem C35_flanking_is_documented_table : forall us sp pp sn pn,
  sp && pp = false -> sn && pn = false ->
  can_open_close us sp pp sn pn =
  (table_open us (cat sp pp) (cat sn pn), table_close us (cat sp pp) (cat sn pn)).
Proof. exact flank_table. Qed.
Print Assumptions C35_flanking_is_documented_table.

(* Code spans, the full rule: started at a byte that is no backtick (the parser
   starts right after the opening run), findBacktickRun returns the FIRST
   maximal backtick run of exactly the opener's length: the run at j has length
   k exactly (so the byte after it is no backtick), the byte before it is no
   backtick, and no position between i and j starts such a run. *)
Theorem C35_codespan_closer_is_first_exact_run : forall s k i j,
  (1 <= k)%nat -> bt_at s i = false -> findBacktickRun s k i = Some j ->
  (i <= j)%nat /\ is_run s k j /\ forall p, (i <= p < j)%nat -> ~ is_run s k p.
Proof. exact codespan_first_exact_run. Qed.
Print Assumptions C35_codespan_closer_is_first_exact_run.

(* parseLinkTail: the scan of a bare destination consumes input in every
   iteration, the fuel (length + 1) is never exhausted. *)
Theorem C35_parseLinkTail_total : forall text, parse_link_tail text <> TailFuel.
Proof. exact parse_link_tail_total. Qed.
Print Assumptions C35_parseLinkTail_total.

(* escapeHTML: no raw angle bracket or double quote survives, and decoding the
   four references gives the input back. *)
Theorem C35_html_escape_safe : forall s, escape_safe s (escape_html s) = true.
Proof. exact html_escape_safe. Qed.
Print Assumptions C35_html_escape_safe.

(* The line splitter loses nothing: the lines are newline-free and joining
   them (plus the final newline, if any) gives the text back. *)
Theorem C35_line_split_lossless : forall s, check_lines s (split_lines s) = true.
Proof. exact line_split_lossless. Qed.
Print Assumptions C35_line_split_lossless.

(* Container blocks: whatever sequence of open / closeBlocks(keep) / leaf steps
   the block parser performs, with the final closeBlocks(0), the emitted
   start/end operations are balanced and closed innermost first. *)
Theorem C35_blocks_closed_lifo : forall steps, Bal (run_blocks steps []).
Proof. exact blocks_closed_lifo. Qed.
Print Assumptions C35_blocks_closed_lifo.

(* The oracles evaluated on the implementation's observations are sound: a
   sequence accepted by the stack checker is balanced (used for HTML tags,
   emphasis operations and container operations), and accepted HTML output
   lexes into a balanced tag sequence with escaped text. *)
Theorem C35_balance_oracle_sound : forall (K : Type) (eqb : K -> K -> bool),
  (forall x y, eqb x y = true <-> x = y) ->
  forall ts, bal_check eqb [] ts = true -> Bal ts.
Proof. exact (@bal_check_sound). Qed.
Print Assumptions C35_balance_oracle_sound.

Theorem C35_html_wf_oracle_sound : forall out, html_wf out = true -> WellFormedHTML out.
Proof. exact html_wf_sound. Qed.
Print Assumptions C35_html_wf_oracle_sound.

(* non-vacuity: a delimiter stack with rule-of-3 interplay (the runs of
   "*foo**bar*", all four delimiters able to open and close... the inner ones)
   and a strong/plain nesting ("***a* b**") *)
Example C35_example_emphasis :
  let d id n o c := EDelim (mkDelim id 42 n n o c) in
  option_map flatten (process_emphasis [d 0%nat 3%nat true false; EItem (IText 1 1); d 2%nat 1%nat false true;
                                        EItem (IText 3 1); d 4%nat 2%nat false true])
  = Some [OStart true; OStart false; OText 1 1; OEnd false; OText 3 1; OEnd true]
  /\ option_map flatten (process_emphasis [d 0%nat 1%nat true false; EItem (IText 1 1); d 2%nat 2%nat true true;
                                           EItem (IText 3 1); d 4%nat 1%nat false true])
  = Some [OStart false; OText 1 1; OText 2 2; OText 3 1; OEnd false].
Proof. vm_compute. split; reflexivity. Qed.

Example C35_example_wf :
  html_wf (hx "3c703e3c656d3e6120266c743b3c2f656d3e3c6272202f3e3c2f703e0a"%string) = true   (* <p><em>a &lt;</em><br /></p> *)
  /\ html_wf (hx "3c703e3c656d3e613c2f703e3c2f656d3e"%string) = false.                        (* <p><em>a</p></em> *)
Proof. vm_compute. split; reflexivity. Qed.
