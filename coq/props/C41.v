(* C41 -- String and regex builtins satisfy their algebraic laws
   (pkg/mods/str, pkg/mods/re).  Property theorems only; every proof is
   [exact <lemma>].  Go's regexp engine is not modelled: the regex theorems
   hold for every match list that satisfies the FindAllIndex contract
   [wf_matches]. *)
From verif Require Import lib.Base lib.Utf8 model.C41 proofs.C41_proofs proofs.C41_agree.

(* ---- join after split ---- *)

(* For all strings s and all separators (the empty one too, where the split is
   per rune and even invalid bytes survive), with any max option that lets
   something out: joining the split with the same separator gives s back. *)
Theorem C41_join_split : forall max sep s, max <> 0%Z -> join sep (str_split max sep s) = s.
Proof. exact join_split. Qed.
Print Assumptions C41_join_split.

(* the same for the underlying SplitN model with any fuel and any limit, so the
   law does not depend on the fuel being enough *)
Theorem C41_join_splitn_any_fuel : forall f k sep s, join sep (splitn_fuel f k sep s) = s.
Proof. exact join_splitn. Qed.
Print Assumptions C41_join_splitn_any_fuel.

(* the fuel the wrapper passes is enough: more fuel never changes the pieces *)
Theorem C41_split_fuel_enough : forall f g k sep s, sep <> [] ->
  (length s < f)%nat -> (length s < g)%nat -> splitn_fuel f k sep s = splitn_fuel g k sep s.
Proof. exact splitn_fuel_enough. Qed.
Print Assumptions C41_split_fuel_enough.

(* empty separator, no limit, valid UTF-8: one piece per code point *)
Theorem C41_split_empty_sep_per_rune : forall max s, (max < 0)%Z -> valid s = true ->
  str_split max [] s = map encode_rune (decode_all s).
Proof. exact split_empty_sep_per_rune. Qed.
Print Assumptions C41_split_empty_sep_per_rune.

(* str:replace without a limit is split by old, joined by new *)
Theorem C41_replace_is_join_split : forall max old new s, (max < 0)%Z -> old <> [] ->
  str_replace max old new s = join new (str_split max old s).
Proof. exact str_replace_is_join_split. Qed.
Print Assumptions C41_replace_is_join_split.

(* ---- code points and bytes ---- *)

Theorem C41_codepoints_roundtrip : forall s, valid s = true ->
  from_codepoints (to_codepoints s) = ROk s.
Proof. exact codepoints_roundtrip. Qed.
Print Assumptions C41_codepoints_roundtrip.

(* the other direction, with the validity range from-codepoints enforces: a
   result exists only when every number is in 0..0x10FFFF and no surrogate, and
   then it is valid UTF-8 whose code points are the numbers *)
Theorem C41_from_codepoints_roundtrip : forall nums b, from_codepoints nums = ROk b ->
  to_codepoints b = nums /\ valid b = true
  /\ Forall (fun n => (0 <= n <= Z.of_N MaxRune)%Z /\ is_surrogate (Z.to_N n) = false) nums.
Proof. exact from_codepoints_ok. Qed.
Print Assumptions C41_from_codepoints_roundtrip.

Theorem C41_from_codepoints_rejects_surrogates : forall n, (55296 <= n <= 57343)%Z ->
  from_codepoints [n] = RBadValue.
Proof. exact from_codepoints_surrogate. Qed.
Print Assumptions C41_from_codepoints_rejects_surrogates.

Theorem C41_from_codepoints_rejects_out_of_range : forall n, (n < 0 \/ 1114111 < n)%Z ->
  from_codepoints [n] = ROutOfRange.
Proof. exact from_codepoints_out_of_range. Qed.
Print Assumptions C41_from_codepoints_rejects_out_of_range.

Theorem C41_utf8_bytes_roundtrip : forall s, Forall (fun b => (b < 256)%N) s -> valid s = true ->
  from_utf8_bytes (to_utf8_bytes s) = ROk s.
Proof. exact utf8_bytes_roundtrip. Qed.
Print Assumptions C41_utf8_bytes_roundtrip.

Theorem C41_from_utf8_bytes_roundtrip : forall nums b, from_utf8_bytes nums = ROk b ->
  to_utf8_bytes b = nums /\ valid b = true /\ Forall (fun n => (0 <= n <= 255)%Z) nums.
Proof. exact from_utf8_bytes_ok. Qed.
Print Assumptions C41_from_utf8_bytes_roundtrip.

(* ---- re:quote ---- *)

(* QuoteMeta s lies in the literal fragment, and the language it denotes under
   the fragment semantics is exactly {s} *)
Theorem C41_quote_matches_literally : forall s,
  exists r, parse_lit (quote_meta s) = Some r /\ forall w, seq_matches r w <-> w = s.
Proof. exact quote_matches_literally. Qed.
Print Assumptions C41_quote_matches_literally.

Theorem C41_quote_injective : forall s t, quote_meta s = quote_meta t -> s = t.
Proof. exact quote_meta_injective. Qed.
Print Assumptions C41_quote_injective.

(* what lit_matches reports for a non-empty literal are occurrences of it *)
Theorem C41_literal_matches_are_occurrences : forall f off w t a b,
  In (a, b) (occ_fuel f off w t) ->
  (off <= a)%nat /\ b = (a + length w)%nat /\ (b <= off + length t)%nat
  /\ slice t (a - off) (b - off) = w.
Proof. exact occ_fuel_sound. Qed.
Print Assumptions C41_literal_matches_are_occurrences.

(* ---- find / split / replace agree on the match positions ---- *)

(* For every match list satisfying the contract (whatever engine produced it)
   and every max: re:split as the Go loop computes it is the gaps between the
   matches find reports (those not ending at offset 0, max-1 of them at most,
   the last gap left out when the last used match starts at the end). *)
Theorem C41_find_split_agree : forall max p s ms, wf_matches s ms = true ->
  re_split max p s ms = re_split_spec max p s ms.
Proof. exact re_split_is_spec. Qed.
Print Assumptions C41_find_split_agree.

(* re:replace is the gaps interleaved with the replacements (literal or
   expanded template), for every match list *)
Theorem C41_find_replace_agree : forall repl tpl s ms,
  re_replace_lit repl s ms = weave (gaps s (map pos_of ms) 0) (map (fun _ => repl) ms)
  /\ re_replace_tpl tpl s ms
     = weave (gaps s (map pos_of ms) 0) (map (fun m => expand tpl s (m_groups m)) ms).
Proof. exact (fun repl tpl s ms => conj (re_replace_lit_spec repl s ms) (re_replace_tpl_spec tpl s ms)). Qed.
Print Assumptions C41_find_replace_agree.

(* both together, under the name the design uses *)
Theorem C41_find_replace_split_agree : forall max p repl tpl s ms,
  wf_matches s (map pos_of ms) = true ->
  re_split max p s (map pos_of ms) = re_split_spec max p s (map pos_of ms)
  /\ re_replace_lit repl s ms = re_replace_spec s (map pos_of ms) (map (fun _ => repl) ms)
  /\ re_replace_tpl tpl s ms
     = re_replace_spec s (map pos_of ms) (map (fun m => expand tpl s (m_groups m)) ms).
Proof.
  exact (fun max p repl tpl s ms W => conj (re_split_is_spec max p s _ W)
           (conj (re_replace_lit_spec repl s ms) (re_replace_tpl_spec tpl s ms))).
Qed.
Print Assumptions C41_find_replace_split_agree.

(* replacing every match by its own text gives the text back: the gaps and the
   matches tile the text *)
Theorem C41_gaps_and_matches_tile : forall s ms, wf_matches s ms = true ->
  weave (gaps s ms 0) (map (fun m => slice s (fst m) (snd m)) ms) = s.
Proof. exact (fun s ms W => weave_texts s (length s) ms 0 None eq_refl W eq_refl). Qed.
Print Assumptions C41_gaps_and_matches_tile.

(* replace by a constant = split joined by the constant, away from the two
   places where split deliberately drops a piece *)
Theorem C41_replace_is_join_of_split : forall repl p s ms,
  wf_matches s (map pos_of ms) = true ->
  Forall (fun m => m_e m <> 0%nat /\ m_s m <> length s) ms ->
  re_replace_lit repl s ms = join repl (re_split (-1) p s (map pos_of ms)).
Proof. exact replace_is_join_of_split. Qed.
Print Assumptions C41_replace_is_join_of_split.

(* ---- prefix, suffix, trim ---- *)

Theorem C41_prefix_suffix_defs : forall s p,
  (has_prefix s p = true <-> exists t, s = p ++ t)
  /\ (has_suffix s p = true <-> exists t, s = t ++ p)
  /\ (has_prefix s p = true -> p ++ trim_prefix s p = s)
  /\ (has_prefix s p = false -> trim_prefix s p = s)
  /\ (has_suffix s p = true -> trim_suffix s p ++ p = s)
  /\ (has_suffix s p = false -> trim_suffix s p = s).
Proof.
  exact (fun s p => conj (has_prefix_iff s p) (conj (has_suffix_iff s p)
    (conj (proj1 (trim_prefix_def s p)) (conj (proj2 (trim_prefix_def s p))
    (conj (proj1 (trim_suffix_def s p)) (proj2 (trim_suffix_def s p))))))).
Qed.
Print Assumptions C41_prefix_suffix_defs.

(* str:index: the first occurrence, or none *)
Theorem C41_index_def : forall s sub,
  (forall m, index s sub = Some m ->
     (m <= length s)%nat /\ has_prefix (skipn m s) sub = true
     /\ forall j, (j < m)%nat -> has_prefix (skipn j s) sub = false)
  /\ (index s sub = None -> forall j, (j <= length s)%nat -> has_prefix (skipn j s) sub = false).
Proof. exact (fun s sub => conj (index_some s sub) (index_none s sub)). Qed.
Print Assumptions C41_index_def.

(* on valid UTF-8 the Go loops (forward DecodeRune, backward DecodeLastRune)
   remove exactly the leading / trailing code points in the cutset; trim-space
   does so for the White_Space code points *)
Theorem C41_trim_defs : forall s cut, valid s = true ->
  trim_left s cut = trim_left_spec (in_cutset cut) s
  /\ trim_right s cut = trim_right_spec (in_cutset cut) s
  /\ trim s cut = trim_both_spec (in_cutset cut) s
  /\ trim_space s = trim_both_spec is_space s.
Proof. exact trim_valid. Qed.
Print Assumptions C41_trim_defs.

(* DecodeLastRune finds the rune a string ends with, whatever precedes it *)
Theorem C41_decode_last_encode : forall t r, valid_rune r = true ->
  decode_last (t ++ encode_rune r) = (r, rune_len r).
Proof. exact decode_last_encode. Qed.
Print Assumptions C41_decode_last_encode.

(* ---- repeat ---- *)

(* str:repeat, for all s and n: a negative count and a count whose product with
   len(s) does not fit an int are refused with the bad-value exception;
   otherwise the result is n copies (so its length is n * len(s)). *)
Theorem C41_repeat : forall s n,
  ((n < 0)%Z -> str_repeat s n = RBadValue)
  /\ ((0 <= n)%Z -> (two63 <= Z.of_nat (length s) * n)%Z -> str_repeat s n = RBadValue)
  /\ ((0 <= n)%Z -> (Z.of_nat (length s) * n < two63)%Z ->
       str_repeat s n = ROk (repeat_n (Z.to_nat n) s)
       /\ length (repeat_n (Z.to_nat n) s) = (Z.to_nat n * length s)%nat).
Proof.
  exact (fun s n => conj (str_repeat_negative s n) (conj (str_repeat_too_large s n)
           (fun H1 H2 => conj (str_repeat_fits s n H1 H2) (repeat_n_length _ s)))).
Qed.
Print Assumptions C41_repeat.

(* no Go panic escapes str:repeat *)
Theorem C41_repeat_never_panics : forall s n,
  (exists b, str_repeat s n = ROk b) \/ str_repeat s n = RBadValue.
Proof. exact str_repeat_never_panics. Qed.
Print Assumptions C41_repeat_never_panics.

Theorem C41_repeat_add : forall n m s, repeat_n (n + m) s = repeat_n n s ++ repeat_n m s.
Proof. exact repeat_n_add. Qed.
Print Assumptions C41_repeat_add.

(* ---- the oracle and the model ---- *)

Theorem C41_oracle_sound : forall c, oracle c = true -> Spec_C41 c.
Proof. exact oracle_sound. Qed.
Print Assumptions C41_oracle_sound.

(* the model's observations pass the oracle for all inputs *)
Theorem C41_model_split_ok : forall max sep s,
  oracle (CSplit max sep s (str_split max sep s) (ROk (join sep (str_split max sep s)))) = true.
Proof. exact model_split_ok. Qed.
Print Assumptions C41_model_split_ok.

Theorem C41_model_affix_ok : forall s p,
  oracle (CAffix s p (has_prefix s p) (has_suffix s p) (trim_prefix s p) (trim_suffix s p)
            (index_z s p)) = true.
Proof. exact model_affix_ok. Qed.
Print Assumptions C41_model_affix_ok.

Theorem C41_model_trim_ok : forall s cut,
  oracle (CTrim s cut (trim_left s cut) (trim_right s cut) (trim s cut) (trim_space s)) = true.
Proof. exact model_trim_ok. Qed.
Print Assumptions C41_model_trim_ok.

Theorem C41_model_codepoints_ok : forall s,
  oracle (CCodepoints s (to_codepoints s) (from_codepoints (to_codepoints s))) = true.
Proof. exact model_codepoints_ok. Qed.
Print Assumptions C41_model_codepoints_ok.

Theorem C41_model_from_codepoints_ok : forall nums,
  oracle (CFromCp nums (from_codepoints nums)
            (match from_codepoints nums with ROk b => to_codepoints b | _ => [] end)) = true.
Proof. exact model_from_cp_ok. Qed.
Print Assumptions C41_model_from_codepoints_ok.

Theorem C41_model_bytes_ok : forall s, Forall (fun b => (b < 256)%N) s ->
  oracle (CBytes s (to_utf8_bytes s) (from_utf8_bytes (to_utf8_bytes s))) = true.
Proof. exact model_bytes_ok. Qed.
Print Assumptions C41_model_bytes_ok.

(* for every match list satisfying the contract (and agreeing with the literal
   semantics when the pattern is in the fragment): the model's find-with-max,
   split and replace pass the oracle *)
Theorem C41_model_regex_ok : forall p t max repl tpl full,
  wf_matches t (map pos_of full) = true -> texts_ok t full = true ->
  (forall r, parse_lit p = Some r -> map pos_of full = lit_matches (denote r) t) ->
  oracle (CRegex p t max repl tpl full (firstn_max max (map pos_of full))
            (re_split (-1) p t (map pos_of full)) (re_split max p t (map pos_of full))
            (re_replace_lit repl t full) (re_replace_tpl tpl t full)) = true.
Proof. exact model_regex_ok. Qed.
Print Assumptions C41_model_regex_ok.

(* ---- sequences of re: calls ---- *)

(* The answer to a re: call depends on its own arguments only: in any two
   sequences of calls (whatever ran before, whatever runs after, whatever
   options earlier calls on the same pattern used) the same call gets the same
   answer, namely the function run_call of its arguments and of the match list
   of an engine compiled afresh with the call's own flags. *)
Theorem C41_call_depends_on_own_arguments_only : forall engine pre1 post1 pre2 post2 c,
  nth_error (run_seq engine (pre1 ++ c :: post1)) (length pre1)
  = nth_error (run_seq engine (pre2 ++ c :: post2)) (length pre2)
  /\ nth_error (run_seq engine (pre1 ++ c :: post1)) (length pre1)
     = Some (run_call c (fresh_of engine c)).
Proof.
  exact (fun engine pre1 post1 pre2 post2 c =>
    conj (call_independent_of_history engine pre1 post1 pre2 post2 c) (run_seq_nth engine pre1 c post1)).
Qed.
Print Assumptions C41_call_depends_on_own_arguments_only.

Theorem C41_run_seq_app : forall engine a b,
  run_seq engine (a ++ b) = run_seq engine a ++ run_seq engine b.
Proof. exact run_seq_app. Qed.
Print Assumptions C41_run_seq_app.

(* for every engine whose match lists satisfy the contract, the model's answers
   to every sequence of calls pass the oracle *)
Theorem C41_model_seq_ok : forall engine cs,
  (forall c, In c cs -> fresh_ok c (fresh_of engine c) = true) ->
  oracle (CSeq (map (fun c => mkStep c (fresh_of engine c) (run_call c (fresh_of engine c))) cs)) = true.
Proof. exact model_seq_ok. Qed.
Print Assumptions C41_model_seq_ok.

(* ---- non-vacuity ---- *)

Example C41_ex_split : str_split (-1) [44]%N [97; 44; 98; 44]%N = [[97]; [98]; []]%N.
Proof. vm_compute. reflexivity. Qed.
Example C41_ex_split_max : str_split 2 [44]%N [97; 44; 98; 44; 99]%N = [[97]; [98; 44; 99]]%N.
Proof. vm_compute. reflexivity. Qed.
Example C41_ex_quote : quote_meta [97; 46; 42]%N = [97; 92; 46; 92; 42]%N.
Proof. vm_compute. reflexivity. Qed.
(* re:split ":" "a:" = [a; empty]; with the empty pattern the leading empty match is skipped *)
Example C41_ex_re_split : re_split (-1) [58]%N [97; 58]%N [(1, 2)%nat] = [[97]; []]%N
  /\ re_split (-1) [] [97; 98]%N [(0, 0); (1, 1); (2, 2)]%nat = [[97]; [98]]%N.
Proof. vm_compute. split; reflexivity. Qed.
Example C41_ex_wf : wf_matches [97; 98]%N [(0, 0); (1, 1); (2, 2)]%nat = true
  /\ wf_matches [97; 98]%N [(0, 1); (1, 1)]%nat = false.
Proof. vm_compute. split; reflexivity. Qed.
Example C41_ex_expand :
  expand [36; 49; 45; 36; 123; 49; 125; 120; 36; 36; 36; 49; 120]%N [97; 98]%N [(0, 2); (1, 2)]%Z
  = [98; 45; 98; 120; 36]%N.
Proof. vm_compute. reflexivity. Qed.
Example C41_ex_trim : trim_right [97; 195; 169; 255]%N [255]%N = [97; 195; 169]%N
  /\ trim [195; 169; 97; 195; 169]%N [195; 169]%N = [97]%N.
Proof. vm_compute. split; reflexivity. Qed.
Example C41_ex_from_codepoints : from_codepoints [55296]%Z = RBadValue
  /\ from_codepoints [1114112]%Z = ROutOfRange /\ from_codepoints [233]%Z = ROk [195; 169]%N.
Proof. vm_compute. repeat split; reflexivity. Qed.
(* pattern a|ab on ab: a fresh leftmost-first engine finds [0,1); an answer [0,2)
   (what a shared regexp switched to leftmost-longest would give) is flagged *)
Example C41_ex_seq_flags_stale_longest :
  let c := mkCall OpFind [97; 124; 97; 98]%N [97; 98]%N (-1) [] false false in
  let fresh := Some [mkM 0 1 [97]%N [(0, 1)%Z]] in
  oracle (CSeq [mkStep c fresh (XMatches [mkM 0 1 [97]%N [(0, 1)%Z]])]) = true
  /\ judge1 (CSeq [mkStep c fresh (XMatches [mkM 0 2 [97; 98]%N [(0, 2)%Z]])]) = 2%N.
Proof. vm_compute. split; reflexivity. Qed.
