(* C41 -- String and regex builtins satisfy their algebraic laws.
   Property theorems only; every proof is [exact <lemma>]. *)
From verif Require Import lib.Base lib.Utf8 model.C41 proofs.C41_proofs.

Theorem C41_has_prefix_def : forall s p, has_prefix s p = true <-> exists t, s = p ++ t.
Proof. exact has_prefix_iff. Qed.
Print Assumptions C41_has_prefix_def.
