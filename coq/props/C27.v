(* C27 -- Daemon activation yields one live daemon per socket.
   Property theorems only; every proof is [exact <lemma>].
   Process spawning, unix sockets and flock are MODELLED (model/C27.v). *)
From verif Require Import lib.Base model.C27 proofs.C27_proofs proofs.C27_serial proofs.C27_oracle proofs.C27_refuted.
Open Scope nat_scope.

(* EVERY interleaving (any number of shells, concurrent starts, stale socket,
   outdated daemon, crashes, all timeouts): a shell whose Activate returned
   without error holds a connection to a daemon that is inside its serve loop.
   (The only other way out of Activate is SErr.) *)
Theorem C27_activation_result : forall st0 ls st s d,
  initial st0 -> run st0 ls = Some st ->
  nth_error (ss st) s = Some (SConn d) -> pc_of st d = DServe.
Proof. exact activation_result. Qed.
Print Assumptions C27_activation_result.

(* EVERY interleaving: after any further step of any process, a client that is
   still connected still has its daemon inside the serve loop. *)
Theorem C27_serves_while_clients : forall st0 ls st l st' s d,
  initial st0 -> run st0 ls = Some st -> step st l = Some st' ->
  nth_error (ss st) s = Some (SConn d) -> nth_error (ss st') s = Some (SConn d) ->
  pc_of st d = DServe /\ pc_of st' d = DServe.
Proof. exact serves_while_clients. Qed.
Print Assumptions C27_serves_while_clients.

(* ---- serialized schedules ([srun]: a shell starts Activate, or closes its client,
   only when no other shell is inside Activate and no daemon is starting up or
   exiting; crashes and all timeouts may happen at any time; any number of shells;
   with or without a stale socket; no outdated daemon).

   FULL statements (false of the faithful model, see the _refuted theorems below):
     forall st0 ls st, initial st0 -> run st0 ls = Some st ->
       (forall d1 d2, pc_of st d1 = DServe -> pc_of st d2 = DServe -> d1 = d2)
       /\ (forall s d, nth_error (ss st) s = Some (SConn d) -> lock st = Some d /\ db_of st d = true)
       /\ (forall d, pc_of st d = DExit1 \/ pc_of st d = DExit3 -> sock st = SkOwned d \/ sock st = SkNone). *)

Theorem C27_one_daemon_per_socket_partial : forall n stale ls st,
  srun (init n stale) ls = Some st ->
  (forall d1 d2, pc_of st d1 = DServe -> pc_of st d2 = DServe -> d1 = d2) /\
  (forall d, pc_of st d = DServe -> sock st = SkOwned d /\ lock st = Some d /\ db_of st d = true).
Proof. exact one_daemon_per_socket. Qed.
Print Assumptions C27_one_daemon_per_socket_partial.

Theorem C27_connected_daemon_owns_db_partial : forall n stale ls st s d,
  srun (init n stale) ls = Some st -> nth_error (ss st) s = Some (SConn d) ->
  pc_of st d = DServe /\ lock st = Some d /\ db_of st d = true /\ sock st = SkOwned d.
Proof. exact connected_daemon_owns_db. Qed.
Print Assumptions C27_connected_daemon_owns_db_partial.

Theorem C27_exit_removes_only_own_socket_partial : forall n stale ls st d,
  srun (init n stale) ls = Some st -> (pc_of st d = DExit1 \/ pc_of st d = DExit3) ->
  sock st = SkOwned d \/ sock st = SkNone.
Proof. exact exit_removes_only_own_socket. Qed.
Print Assumptions C27_exit_removes_only_own_socket_partial.

(* the stale-socket branch of Activate removes the path only when no daemon is alive *)
Theorem C27_shell_removes_only_stale_partial : forall n stale ls st s d,
  srun (init n stale) ls = Some st -> nth_error (ss st) s = Some SRemove -> pc_of st d = DDead.
Proof. exact shell_removes_only_stale. Qed.
Print Assumptions C27_shell_removes_only_stale_partial.

Theorem C27_serialized_is_a_schedule : forall ls st st',
  srun st ls = Some st' -> run st ls = Some st'.
Proof. exact srun_run. Qed.
Print Assumptions C27_serialized_is_a_schedule.

(* non-vacuity: a serialized schedule with a stale socket in which two shells end
   up connected to the same daemon, then both leave and the daemon is gone *)
Example C27_serialized_nonvacuous :
  exists st, srun (init 2 true)
    [LBegin 0; LLstat 0; LDial 0; LRemove 0; LSpawn 0; LListen 0; LOpenDB 0; LPollLstat 0; LPollDial 0;
     LBegin 1; LLstat 1; LDial 1] = Some st
  /\ nth_error (ss st) 0 = Some (SConn 0) /\ nth_error (ss st) 1 = Some (SConn 0).
Proof. eexists. split; [vm_compute; reflexivity|split; reflexivity]. Qed.

(* The acceptor evaluated on the observations of real processes is sound for the
   Prop-level statement (listeners = path owner, activation result, clients stay served). *)
Theorem C27_oracle_sound : forall s0 tr, check_C27 s0 tr = true -> Spec_C27 s0 tr.
Proof. exact check_C27_sound. Qed.
Print Assumptions C27_oracle_sound.

Theorem C27_oracle_one_listener : forall s p q,
  ListenersOk s -> In (p, true) (sn_daemons s) -> In (q, true) (sn_daemons s) -> p = q.
Proof. exact listeners_unique. Qed.
Print Assumptions C27_oracle_one_listener.

(* Concurrent shells with a stale socket: the full statements are FALSE of the
   faithful model (DESIGN section 7 item 14). *)
Theorem C27_connected_daemon_owns_db_refuted :
  exists ls st, run (init 2 true) ls = Some st /\ conn_without_db st = true.
Proof. exact stale_conn_without_db. Qed.
Print Assumptions C27_connected_daemon_owns_db_refuted.

Theorem C27_one_daemon_per_socket_refuted :
  exists ls st, run (init 2 true) ls = Some st /\ two_serving st = true.
Proof. exact stale_two_serving. Qed.
Print Assumptions C27_one_daemon_per_socket_refuted.

Theorem C27_exit_removes_only_own_socket_refuted :
  exists ls st, run (init 2 true) ls = Some st /\ foreign_unlink st = true.
Proof. exact stale_foreign_unlink. Qed.
Print Assumptions C27_exit_removes_only_own_socket_refuted.

(* One shell, an outdated daemon, nothing concurrent on the shell side: the old
   daemon is signalled, removes the path (os.Remove), the shell sees the path gone
   and spawns the successor, which binds the path; then the old daemon's
   listener.Close unlinks the path again -- the successor's socket. *)
Theorem C27_upgrade_exit_removes_only_own_socket_refuted :
  exists ls st, run (init_old 1) ls = Some st /\ foreign_unlink st = true.
Proof. exact upgrade_foreign_unlink. Qed.
Print Assumptions C27_upgrade_exit_removes_only_own_socket_refuted.

Theorem C27_upgrade_one_daemon_per_socket_refuted :
  exists ls st, run (init_old 1) ls = Some st /\ serving_unreachable st = true.
Proof. exact upgrade_serving_unreachable. Qed.
Print Assumptions C27_upgrade_one_daemon_per_socket_refuted.

(* No stale socket, no outdated daemon: the last client leaves while another shell
   starts (the schedule is not serialized): the exiting daemon unlinks the path of
   the daemon the new shell has just spawned. *)
Theorem C27_exit_race_removes_only_own_socket_refuted :
  exists ls st, run (init 2 false) ls = Some st /\ foreign_unlink st = true.
Proof. exact exit_race_foreign_unlink. Qed.
Print Assumptions C27_exit_race_removes_only_own_socket_refuted.
