(* C27 -- Daemon activation yields one live daemon per socket.
   Property theorems only; every proof is [exact <lemma>].
   Process spawning, unix sockets and flock are MODELLED (model/C27.v). *)
From verif Require Import lib.Base model.C27 proofs.C27_proofs proofs.C27_oracle proofs.C27_refuted.
Open Scope nat_scope.

(* EVERY interleaving (any number of shells, concurrent starts, stale socket,
   outdated daemon, crashes, all timeouts): a shell whose Activate returned
   without error holds a connection to a daemon that is inside its serve loop.
   (The only other way out of Activate is SErr.) *)
Theorem C27_activation_result : forall st0 ls st s d,
  initial st0 -> run st0 ls = Some st ->
  nth_error (ss st) s = Some (SConn d) -> pc_of st d = DServe.
Proof. exact activation_result. Qed.
Print Assumptions C27_activation_result.

(* The acceptor evaluated on the observations of real processes is sound for the
   Prop-level statement (listeners = path owner, activation result, clients stay served). *)
Theorem C27_oracle_sound : forall s0 tr, check_C27 s0 tr = true -> Spec_C27 s0 tr.
Proof. exact check_C27_sound. Qed.
Print Assumptions C27_oracle_sound.

Theorem C27_oracle_one_listener : forall s p q,
  ListenersOk s -> In (p, true) (sn_daemons s) -> In (q, true) (sn_daemons s) -> p = q.
Proof. exact listeners_unique. Qed.
Print Assumptions C27_oracle_one_listener.

(* Concurrent shells with a stale socket: the full statements are FALSE of the
   faithful model (DESIGN section 7 item 14). *)
Theorem C27_connected_daemon_owns_db_refuted :
  exists ls st, run (init 2 true) ls = Some st /\ conn_without_db st = true.
Proof. exact stale_conn_without_db. Qed.
Print Assumptions C27_connected_daemon_owns_db_refuted.

Theorem C27_one_daemon_per_socket_refuted :
  exists ls st, run (init 2 true) ls = Some st /\ two_serving st = true.
Proof. exact stale_two_serving. Qed.
Print Assumptions C27_one_daemon_per_socket_refuted.

Theorem C27_exit_removes_only_own_socket_refuted :
  exists ls st, run (init 2 true) ls = Some st /\ foreign_unlink st = true.
Proof. exact stale_foreign_unlink. Qed.
Print Assumptions C27_exit_removes_only_own_socket_refuted.
