(* C03 — Quoted strings evaluate back to the exact original string.
   Property theorems only; every proof is [exact <lemma>].

   Everything is stated over model/C03.v (the model of pkg/parse/quote.go and of
   the string-literal reader of pkg/parse/parse.go) for EVERY byte string s
   (invalid UTF-8, control bytes, quotes, metacharacters included; the only
   hypothesis is that the list elements are bytes, < 256), for EVERY table
   is_print (Go's unicode.IsPrint), with no length bound.

   The text after the word, t, is end of input or starts with a rune that
   cannot start a primary in the context (white space, ; | & ) ] } ... ; this
   excludes an opening bracket, which would index the word). *)
From verif Require Import lib.Base lib.Utf8 lib.Utf8_proofs model.C03 proofs.C03_proofs.
Open Scope N_scope.

(* The general form (Quote = QuoteAs s Bareword; QuoteAs with any preferred
   type) followed by a terminator is read, in every expression context
   (argument, map key, command head, braced element), as exactly one word: one
   primary of the announced type whose value is exactly s, with t left over and
   no parse error. *)
Theorem C03_quote_parses_back : forall (is_print : N -> bool) s pref ctx t,
  Forall (fun b => b < 256) s ->
  match peek t with None => True | Some r => starts_primary is_print r ctx = false end ->
  read_compound is_print ctx (fst (QuoteAs is_print s pref) ++ t)
  = COk [(snd (QuoteAs is_print s pref), s)] t.
Proof. exact quote_parses_back. Qed.
Print Assumptions C03_quote_parses_back.

(* ... and that single word is a string literal (cmpd.StringLiteral) which
   evaluates (compile_value.go, literalValues) to exactly s. *)
Theorem C03_quote_single_word : forall (is_print : N -> bool) s pref ctx t,
  Forall (fun b => b < 256) s ->
  match peek t with None => True | Some r => starts_primary is_print r ctx = false end ->
  exists ty,
    read_compound is_print ctx (fst (QuoteAs is_print s pref) ++ t) = COk [(ty, s)] t
    /\ string_literal [(ty, s)] = Some s /\ eval_compound [(ty, s)] = Some s.
Proof. exact quote_single_word. Qed.
Print Assumptions C03_quote_single_word.

(* The command-name form in command position (CmdExpr) is one string-literal
   word whose value is s. *)
Theorem C03_quote_cmd_parses_back : forall (is_print : N -> bool) s t,
  Forall (fun b => b < 256) s ->
  match peek t with None => True | Some r => starts_primary is_print r CCmd = false end ->
  exists ty,
    read_compound is_print CCmd (QuoteCommandName is_print s ++ t) = COk [(ty, s)] t
    /\ string_literal [(ty, s)] = Some s.
Proof. exact quote_cmd_single_word. Qed.
Print Assumptions C03_quote_cmd_parses_back.

(* The variable-name form after a dollar sign (code 36) is one Variable primary
   whose name is exactly s. *)
Theorem C03_quote_var_parses_back : forall (is_print : N -> bool) s ctx t,
  Forall (fun b => b < 256) s ->
  match peek t with None => True | Some r => starts_primary is_print r ctx = false end ->
  read_compound is_print ctx (36 :: QuoteVariableName is_print s ++ t) = COk [(TVar, s)] t.
Proof. exact quote_var_parses_back. Qed.
Print Assumptions C03_quote_var_parses_back.

(* Double quoting alone round-trips for every byte string, whatever follows the
   closing quote (this is the form every unprintable or invalid input takes). *)
Theorem C03_double_quote_roundtrip : forall (is_print : N -> bool) ctx s t,
  Forall (fun b => b < 256) s ->
  read_primary is_print ctx (quote_double is_print s ++ t) = POk TDouble s t.
Proof. exact read_primary_double. Qed.
Print Assumptions C03_double_quote_roundtrip.

(* rtohex / hexToDigit: n hex digits written for v are read back as v. *)
Theorem C03_hex_roundtrip : forall n v t, v < pow16 n ->
  read_hex n (rtohex v n ++ t) 0 = Some (v, t).
Proof. exact hex_roundtrip. Qed.
Print Assumptions C03_hex_roundtrip.

(* The quoted text is valid UTF-8 (the parser assumes this of its input), for
   all three functions. *)
Theorem C03_quote_valid_utf8 : forall (is_print : N -> bool) s pref ctx,
  valid (fst (quote_as is_print s pref ctx)) = true.
Proof. exact quote_as_valid. Qed.
Print Assumptions C03_quote_valid_utf8.

Theorem C03_quote_var_valid_utf8 : forall (is_print : N -> bool) s,
  valid (QuoteVariableName is_print s) = true.
Proof. exact quote_var_valid. Qed.
Print Assumptions C03_quote_var_valid_utf8.

(* The oracle evaluated on the implementation's observations means what the
   property says: at a position the property speaks about, the observation is
   exactly (the string s). *)
Theorem C03_oracle_sound : forall f p s o,
  in_property f p = true -> check_C03 f p s o = true -> o = EStr s.
Proof. exact check_C03_sound. Qed.
Print Assumptions C03_oracle_sound.

(* The model satisfies the oracle for all inputs: what the judge predicts for
   the implementation (quote with f, use at position p before a terminator) is
   the observation (the string s). *)
Theorem C03_model_satisfies_oracle : forall (pr : N -> bool) f p s suffix,
  in_property f p = true -> Forall (fun b => b < 256) s ->
  match peek suffix with None => True | Some r => starts_primary pr r (pos_ctx p) = false end ->
  model_use pr p (fst (model_quote pr f s)) suffix = Some (EStr s)
  /\ check_C03 f p s (EStr s) = true.
Proof. exact model_satisfies_oracle_full. Qed.
Print Assumptions C03_model_satisfies_oracle.

(* UTF-8 (lib/Utf8.v): decoding an encoded valid rune, whatever follows, and
   re-encoding a decoded sequence (every valid decoding is canonical). *)
Theorem C03_utf8_decode_encode : forall r, valid_rune r = true ->
  forall t, decode_rune (encode_rune r ++ t) = (r, rune_len r).
Proof. exact decode_encode. Qed.
Print Assumptions C03_utf8_decode_encode.

Theorem C03_utf8_valid_decode_is_canonical : forall s r w,
  decode_rune s = (r, w) -> s <> [] -> (r <> RuneError \/ w <> 1%nat) ->
  encode_rune r = firstn w s.
Proof. exact encode_decode. Qed.
Print Assumptions C03_utf8_valid_decode_is_canonical.

Theorem C03_utf8_encode_all_decode_all : forall s, valid s = true ->
  encode_all (decode_all s) = s.
Proof. exact encode_all_decode_all. Qed.
Print Assumptions C03_utf8_encode_all_decode_all.

(* ---- non-vacuity: the reader is not an accept-everything function ---- *)
From Coq Require Import String.
Definition ex_table := mk_is_print [(233, true); (65533, true); (160, false)].

(* [a b] quoted is single-quoted and reads back; unquoted it is two words *)
Example C03_ex_space :
  Quote ex_table (hx "612062"%string) = hx "2761206227"%string
  /\ read_compound ex_table CNormal (hx "2761206227"%string) = COk [(TSingle, hx "612062"%string)] []
  /\ read_compound ex_table CNormal (hx "612062"%string) = COk [(TBare, [97])] (hx "2062"%string).
Proof. vm_compute. repeat split. Qed.

(* a leading tilde must be quoted: unquoted it is a Tilde primary plus a bareword *)
Example C03_ex_tilde :
  Quote ex_table (hx "7e61"%string) = hx "277e6127"%string
  /\ read_compound ex_table CNormal (hx "7e61"%string) = COk [(TTilde, [126]); (TBare, [97])] [].
Proof. vm_compute. repeat split. Qed.

(* invalid UTF-8, a control byte, NBSP (unprintable) and U+FFFD: double quotes
   with \x, \n, \u escapes, read back byte for byte; [a=b] is a bareword in
   command position only *)
Example C03_ex_escapes :
  read_compound ex_table CLHS (Quote ex_table (hx "ff0ac2a0efbfbd22"%string) ++ [61])
    = COk [(TDouble, hx "ff0ac2a0efbfbd22"%string)] [61]
  /\ QuoteCommandName ex_table (hx "613d62"%string) = hx "613d62"%string
  /\ Quote ex_table (hx "613d62"%string) = hx "27613d6227"%string
  /\ read_compound ex_table CLHS (hx "613d62"%string) = COk [(TBare, [97])] (hx "3d62"%string).
Proof. vm_compute. repeat split. Qed.
