(* C23 — Wildcard expansion yields exactly the matching paths.
   Property theorems only; every proof is [exact <lemma>].

   Vocabulary (model/C23.v, proofs/C23_*.v):
     dec                 utf8.DecodeRuneInString (lib/Utf8.decode_rune)
     Matches st segs n   declarative matching of one path element: Lit = its bytes,
                         ? = one rune accepted by the wildcard's matchers, * and **
                         = any run of accepted runes; while nothing of the name has
                         been consumed (st) a wildcard may consume a leading '.'
                         only if it carries match-hidden
     ElemSpec segs n     Matches true segs n, and n does not start with '.' when
                         segs starts with a wildcard without match-hidden
     ElemSpec0           the same without the per-wildcard dot rule (first-segment
                         rule only; this is what the code implements)
     PathSpec fs segs dir e   declarative expansion over a file system (lstat /
                         readdir as functions): literal elements are followed with
                         Lstat, the last element is matched against the directory,
                         an element before a Slash is matched against the
                         sub-directories, and ** is either * or "* / **"
     glob / pattern_glob / doGlob      the model of the Go code
     ref_glob / ref_pattern_glob       the reference enumeration used by the oracle *)
From verif Require Import lib.Base lib.Utf8 model.C23
  proofs.C23_proofs proofs.C23_glob_proofs proofs.C23_top_proofs proofs.C23_more_proofs
  proofs.C23_nodup_proofs proofs.C23_tree_proofs proofs.C23_blocked_proofs.
Open Scope nat_scope.

(* ---- the oracle's reference matcher decides the specification ---- *)

Theorem C23_reference_matcher_spec : forall segs name,
  ref_elem dec segs name = true <-> ElemSpec segs name.
Proof. exact ref_elem_iff. Qed.
Print Assumptions C23_reference_matcher_spec.

(* whenever the reference enumeration terminates within its fuel it yields
   exactly the specified paths (any file system, any pattern) *)
Theorem C23_reference_glob_spec : forall fs fuel segs l,
  ref_pattern_glob fuel fs segs = Some l ->
  forall e, In e l <-> TopSpec (PathSpec fs) segs e.
Proof. exact ref_pattern_glob_spec. Qed.
Print Assumptions C23_reference_glob_spec.

(* the generic enumeration: for EVERY element matcher m, glob_gen m yields
   exactly PathMatches instantiated with m (all file systems, patterns, fuels) *)
Theorem C23_glob_enumeration_sound : forall fs m fuel segs dir l,
  glob_gen m fuel fs segs dir = Some l ->
  forall e, In e l -> PathMatches fs (fun s n => m s n = true) segs dir e.
Proof. exact glob_gen_sound. Qed.
Print Assumptions C23_glob_enumeration_sound.

Theorem C23_glob_enumeration_complete : forall fs m segs dir e,
  PathMatches fs (fun s n => m s n = true) segs dir e ->
  forall fuel l, glob_gen m fuel fs segs dir = Some l -> In e l.
Proof. exact glob_gen_complete. Qed.
Print Assumptions C23_glob_enumeration_complete.

(* ---- matchElement ---- *)

(* full statement (FALSE for the code, see C23_match_element_sound_refuted):
     forall segs name, matchElement dec segs name = true -> ElemSpec segs name *)
Theorem C23_match_element_sound_weak : forall segs name,
  no_empty_lit segs ->
  matchElement dec segs name = true -> ElemSpec0 segs name.
Proof. exact (match_element_sound_weak dec). Qed.
Print Assumptions C23_match_element_sound_weak.

Theorem C23_match_element_sound_partial : forall segs name,
  no_empty_lit segs ->
  Forall wild_hidden segs \/ Forall no_hidden_star segs ->
  matchElement dec segs name = true -> ElemSpec segs name.
Proof. exact (match_element_sound_partial dec). Qed.
Print Assumptions C23_match_element_sound_partial.

Theorem C23_match_element_sound_refuted :
  exists segs name, matchElement dec segs name = true /\ ~ ElemSpec segs name.
Proof. exact match_element_sound_refuted. Qed.
Print Assumptions C23_match_element_sound_refuted.

(* full statement (FALSE for the code, see C23_match_element_complete_refuted):
     forall segs name, ElemSpec segs name -> matchElement dec segs name = true *)
Theorem C23_match_element_complete_partial : forall segs name,
  Forall (complete_seg dec) segs ->
  ElemSpec segs name -> matchElement dec segs name = true.
Proof. exact match_element_complete_partial. Qed.
Print Assumptions C23_match_element_complete_partial.

(* the literal condition of complete_seg holds for ASCII literals (and for every
   literal made of whole valid runes) *)
Theorem C23_ascii_literals_aligned : forall d,
  Forall (fun c => (c < 128)%N) d -> complete_seg dec (Lit d).
Proof. exact ascii_lit_aligned. Qed.
Print Assumptions C23_ascii_literals_aligned.

(* a larger class: every star that is followed by another star is either followed
   by an unrestricted star, or pinned by a literal whose first rune its class
   rejects (chain_ok over the chunks of the element); there the greedy matcher
   and the reference matcher are the same function *)
Theorem C23_match_element_complete_blocked_partial : forall segs name,
  chain_ok dec (chunks segs) -> ElemSpec segs name -> matchElement dec segs name = true.
Proof. exact match_element_complete_blocked. Qed.
Print Assumptions C23_match_element_complete_blocked_partial.

Theorem C23_greedy_agrees_with_reference_partial : forall segs name,
  chain_ok dec (chunks segs) -> no_empty_lit segs ->
  Forall wild_hidden segs \/ Forall no_hidden_star segs ->
  matchElement dec segs name = ref_elem dec segs name.
Proof. exact greedy_agrees_with_reference. Qed.
Print Assumptions C23_greedy_agrees_with_reference_partial.

Example C23_ex_blocked_class :
  chain_ok dec (chunks [Wild (wSet 99); Lit [100%N]; Wild (wSet 101); Lit [102%N]]).
Proof. exact blocked_example. Qed.

Theorem C23_match_element_complete_refuted :
  exists segs name, ElemSpec segs name /\ matchElement dec segs name = false.
Proof. exact match_element_complete_refuted. Qed.
Print Assumptions C23_match_element_complete_refuted.

(* ---- glob ---- *)

(* full statement (FALSE for the code, see C23_glob_sound_refuted):
     forall fs fuel segs l, pattern_glob fuel fs segs = Some l ->
       forall e, In e l -> TopSpec (PathSpec fs) segs e *)
Theorem C23_glob_sound_weak : forall fs fuel segs dir l,
  Forall seg_no_empty_lit segs ->
  glob fuel fs segs dir = Some l -> forall e, In e l -> PathSpec0 fs segs dir e.
Proof. exact glob_sound_weak. Qed.
Print Assumptions C23_glob_sound_weak.

Theorem C23_glob_sound_partial : forall fs fuel segs dir l,
  Forall seg_no_empty_lit segs -> hidden_uniform segs ->
  glob fuel fs segs dir = Some l -> forall e, In e l -> PathSpec fs segs dir e.
Proof. exact glob_sound_partial. Qed.
Print Assumptions C23_glob_sound_partial.

Theorem C23_glob_sound_refuted :
  exists fs segs l e, pattern_glob 8 fs segs = Some l /\ In e l /\ ~ TopSpec (PathSpec fs) segs e.
Proof. exact glob_sound_refuted. Qed.
Print Assumptions C23_glob_sound_refuted.

(* full statement (FALSE for the code, see C23_glob_complete_refuted):
     forall fs fuel segs l, pattern_glob fuel fs segs = Some l ->
       forall e, TopSpec (PathSpec fs) segs e -> In e l *)
Theorem C23_glob_complete_partial : forall fs fuel segs dir l,
  Forall (complete_seg dec) segs ->
  glob fuel fs segs dir = Some l -> forall e, PathSpec fs segs dir e -> In e l.
Proof. exact glob_complete_partial. Qed.
Print Assumptions C23_glob_complete_partial.

Theorem C23_glob_complete_refuted :
  exists fs segs l e, pattern_glob 8 fs segs = Some l /\ TopSpec (PathSpec fs) segs e /\ ~ In e l.
Proof. exact glob_complete_refuted. Qed.
Print Assumptions C23_glob_complete_refuted.

(* full statement (FALSE for the code, see C23_glob_nodup_refuted):
     forall fs fuel segs l, fs_ok fs -> Forall lit_ok segs ->
       pattern_glob fuel fs segs = Some l -> NoDup (map fst l)
   proved for patterns with at most one ** (fs_ok: ReadDir yields distinct names
   without slashes; lit_ok: literals contain no slash, as built by glob.Parse and
   stringToSegments) *)
Theorem C23_glob_nodup_single_starstar : forall fs fuel segs l, fs_ok fs ->
  Forall lit_ok segs -> count_ss segs <= 1 ->
  pattern_glob fuel fs segs = Some l -> NoDup (map fst l).
Proof. exact glob_nodup_single_starstar. Qed.
Print Assumptions C23_glob_nodup_single_starstar.

Theorem C23_glob_nodup_refuted :
  exists fs segs l, pattern_glob 8 fs segs = Some l /\ ~ NoDup (map fst l).
Proof. exact glob_nodup_refuted. Qed.
Print Assumptions C23_glob_nodup_refuted.

(* ---- the executed instance (file system computed from a well-formed tree) ---- *)

(* ReadDir contract: distinct slash-free names *)
Theorem C23_tree_fs_ok : forall wd, wf_tree (w_root wd) = true -> fs_ok (tree_fs wd).
Proof. exact tree_fs_ok. Qed.
Print Assumptions C23_tree_fs_ok.

(* fuel: any file system with a bounded rank that decreases along directory
   entries; length segs * (H+1) + rank suffices *)
Theorem C23_glob_fuel_ranked : forall fs m rk H, ranked fs rk H ->
  forall fuel segs dir, dir_ok dir -> length segs * S H + rk dir < fuel ->
  exists l, glob_gen m fuel fs segs dir = Some l.
Proof. exact glob_fuel_ranked. Qed.
Print Assumptions C23_glob_fuel_ranked.

(* the judge's fuel (fuel_of) is sufficient for every pattern, every element
   matcher and every well-formed tree: the out-of-fuel result never occurs *)
Theorem C23_glob_fuel_sufficient : forall wd, wf_tree (w_root wd) = true ->
  forall m segs, exists l, pattern_glob_gen m (fuel_of wd segs) (tree_fs wd) segs = Some l.
Proof. exact glob_fuel_sufficient. Qed.
Print Assumptions C23_glob_fuel_sufficient.

Theorem C23_executed_instance_nodup : forall wd segs, wf_tree (w_root wd) = true ->
  exists l, pattern_glob (fuel_of wd segs) (tree_fs wd) segs = Some l /\
            (Forall lit_ok segs -> count_ss segs <= 1 -> NoDup (map fst l)).
Proof. exact executed_instance_nodup. Qed.
Print Assumptions C23_executed_instance_nodup.

(* ---- doGlob ---- *)

Theorem C23_nomatch_raises_unless_ok : forall fuel fs g o, doGlob fuel fs g = Some o ->
  exists l, pattern_glob fuel fs (g_segs g) = Some l /\
  let kept := filter (fun e : entry => negb (mem (fst e) (g_buts g)) && type_ok_impl (g_type g) (snd e)) l in
  (o = ONoMatch <-> kept = [] /\ g_nomatch_ok g = false) /\
  (o <> ONoMatch -> o = OPaths (map fst kept)).
Proof. exact nomatch_raises_unless_ok. Qed.
Print Assumptions C23_nomatch_raises_unless_ok.

Theorem C23_but_type_filter : forall fuel fs g vs, doGlob fuel fs g = Some (OPaths vs) ->
  exists l, pattern_glob fuel fs (g_segs g) = Some l /\
  forall p, In p vs <-> exists k, In (p, k) l /\ ~ In p (g_buts g) /\ type_ok_impl (g_type g) k = true.
Proof. exact but_type_filter. Qed.
Print Assumptions C23_but_type_filter.

(* the documented type:regular ("symbolic links are considered to be regular
   files") differs from the implemented one *)
Theorem C23_type_regular_symlink_refuted :
  exists k, type_ok_doc (Some false) k = true /\ type_ok_impl (Some false) k = false.
Proof. exact type_regular_symlink_refuted. Qed.
Print Assumptions C23_type_regular_symlink_refuted.

(* ---- non-vacuity ---- *)
Example C23_ex_doc_star_cc :
  matchElement dec [Wild wStar; Lit [46; 99; 99]%N] [102; 111; 111; 46; 99; 99]%N = true
  /\ ref_elem dec [Wild wStar; Lit [46; 99; 99]%N] [102; 111; 111; 46; 99; 99]%N = true
  /\ ref_elem dec [Wild (mkWild Question false []); Lit [120]%N] [46; 120]%N = false.
Proof. vm_compute. repeat split. Qed.

Example C23_ex_glob :
  pattern_glob 8 (tree_fs wit_world) [Wild wSS; Lit [120%N]] =
  Some [([120; 47; 120]%N, KFile); ([120%N], KDir)].
Proof. vm_compute. reflexivity. Qed.
