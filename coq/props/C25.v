(* C25 — History survives a crash at any point.
   Property theorems only; every proof is [exact <lemma>].

   Vocabulary: [ptrace cs h] = the events (TxStart, TxReturn, Ack result) of a
   process that runs the operations h one after the other on the bucket state
   cs (model/C24.v: the store layer over the bbolt bucket model); a kill point is
   any prefix [tr] of that trace (between transactions, inside one, between the
   return of db.Update and the acknowledgement).  [recovered] is contract B
   (bbolt + kernel, modelled, not proved): a reopened database shows exactly the
   first [recovered tr] transactions, at least the returned and at most the
   started ones.  [R cs ss]: the bucket state cs represents the specification
   state ss (proofs/C24_proofs.v); it holds for a new database (R_init). *)
From verif Require Import lib.Base model.C24_F64 model.C24_StoreSpec model.C24 model.C25
  proofs.C24_proofs proofs.C24_more proofs.C25_proofs proofs.C25_exact proofs.C25_sorted.
From Coq Require Import Floats.SpecFloat.
Open Scope N_scope.

(* For every history, every kill point and every recovery choice allowed by
   contract B: the reopened database is the specification's state after a prefix
   of the attempted operations that contains every acknowledged one; the
   acknowledged results are the specification's; what the reopened store shows
   through its API (next sequence number, full listing, directory listing) is
   what the specification shows in that state; and the reopened state again
   represents a specification state, so the statement applies to the next
   process and the next kill. *)
Theorem C25_crash_prefix : forall recovered,
  (forall tr, (returned tr <= recovered tr)%nat) ->
  (forall tr, (recovered tr <= started tr)%nat) ->
  forall cs ss h tr,
  R cs ss -> s_seq ss + N.of_nat (length h) < two63 ->
  is_prefix tr (ptrace cs h) ->
  let k := recovered tr in
  (length (acks tr) <= k <= length h)%nat
  /\ acks tr = firstn (length (acks tr)) (spec_run isort_desc ss h)
  /\ R (reopen recovered cs h tr) (spec_exec isort_desc ss (firstn k h))
  /\ dump_c (reopen recovered cs h tr) = dump_s (spec_exec isort_desc ss (firstn k h)).
Proof. exact crash_prefix. Qed.
Print Assumptions C25_crash_prefix.

(* the same for a database that was new (bucket sequence seq0) when the process started *)
Theorem C25_crash_prefix_fresh_db : forall recovered,
  (forall tr, (returned tr <= recovered tr)%nat) ->
  (forall tr, (recovered tr <= started tr)%nat) ->
  forall seq0 h tr,
  seq0 + N.of_nat (length h) < two63 ->
  is_prefix tr (ptrace (conc_init seq0) h) ->
  exists k, (length (acks tr) <= k <= length h)%nat
  /\ acks tr = firstn (length (acks tr)) (spec_run isort_desc (spec_init seq0) h)
  /\ dump_c (reopen recovered (conc_init seq0) h tr)
     = dump_s (spec_exec isort_desc (spec_init seq0) (firstn k h)).
Proof. exact crash_prefix_fresh_db. Qed.
Print Assumptions C25_crash_prefix_fresh_db.

(* Every number an AddCmd returns after the reopening (any later history h2) is
   larger than every number acknowledged before the kill.  This needs the
   bucket sequence to be advanced in the same transaction as the Put, which is
   how AddCmd is written. *)
Theorem C25_seq_after_reopen_fresh : forall recovered,
  (forall tr, (returned tr <= recovered tr)%nat) ->
  (forall tr, (recovered tr <= started tr)%nat) ->
  forall cs ss h tr h2,
  R cs ss -> s_seq ss + N.of_nat (length h) + N.of_nat (length h2) < two63 ->
  is_prefix tr (ptrace cs h) ->
  forall z z', In z (adds h (acks tr)) ->
    In z' (adds h2 (conc_run isort_desc (reopen recovered cs h tr) h2)) -> (z < z')%Z.
Proof. exact seq_after_reopen_fresh. Qed.
Print Assumptions C25_seq_after_reopen_fresh.

(* ... and across any number of kills: the processes of [runs] follow each
   other, each started on what the previous one left and killed at its own
   point; a number returned in a later run (acknowledged or not) is larger than
   every number acknowledged in an earlier run. *)
Theorem C25_seq_fresh_across_crashes : forall recovered,
  (forall tr, (returned tr <= recovered tr)%nat) ->
  (forall tr, (recovered tr <= started tr)%nat) ->
  forall runs cs ss,
  R cs ss -> s_seq ss + N.of_nat (total_ops runs) < two63 ->
  killed_runs recovered cs runs ->
  fresh_chain (map (fun r => adds (fst r) (acks (snd r))) runs)
              (run_results recovered cs runs).
Proof. exact seq_fresh_across_crashes. Qed.
Print Assumptions C25_seq_fresh_across_crashes.

(* The acceptor used on the real store's observations admits only what the
   property allows. *)
Theorem C25_crash_ok_sound : forall st h acked obs,
  crash_ok st h acked obs = true ->
  exists st' k, (length acked <= k <= length h)%nat
    /\ st' = spec_exec isort_desc st (firstn k h)
    /\ Forall2 res_ok (dump_s st') [d_seq obs; d_cmds obs; d_dirs obs].
Proof. exact crash_ok_sound. Qed.
Print Assumptions C25_crash_ok_sound.

(* ... and exactly that: whenever the observed dump shows the state after some
   prefix containing the acknowledged operations, the acceptor accepts (the
   run-time oracle demands the property and nothing more). *)
Theorem C25_crash_ok_exact : forall st h acked obs,
  crash_ok st h acked obs = true <->
  exists st' k, (length acked <= k <= length h)%nat
    /\ st' = spec_exec isort_desc st (firstn k h)
    /\ Forall2 res_ok (dump_s st') [d_seq obs; d_cmds obs; d_dirs obs].
Proof. exact crash_ok_exact. Qed.
Print Assumptions C25_crash_ok_exact.

(* ... and it admits the behaviours of the model: whatever the kill point and
   the recovery choice, the acknowledged results and the dump of the reopened
   bucket state are accepted, provided no directory score of the reopened state
   is NaN.  (With a NaN score — reachable only through an AddDir whose factor is
   NaN or infinite — Go's sort.Sort and the specification's listing order are
   both unspecified and the oracle's "descending order" test has no meaning.)
   The proof shows that the insertion sort executing the model yields a
   descending listing: binary64 "not less than" is transitive on non-NaN values
   (case analysis through SFcompare, proofs/C25_sorted.v). *)
Theorem C25_crash_ok_complete : forall recovered,
  (forall tr, (returned tr <= recovered tr)%nat) ->
  (forall tr, (recovered tr <= started tr)%nat) ->
  forall cs ss h tr,
  R cs ss -> s_seq ss + N.of_nat (length h) < two63 ->
  is_prefix tr (ptrace cs h) ->
  (forall e, In e (s_dirs (spec_exec isort_desc ss (firstn (recovered tr) h))) -> snd e <> S754_nan) ->
  crash_ok ss h (acks tr) (dump_of (dump_c (reopen recovered cs h tr))) = true.
Proof. exact crash_ok_complete_nonan. Qed.
Print Assumptions C25_crash_ok_complete.

(* binary64 "not less than" is transitive on non-NaN values *)
Theorem C25_not_less_transitive : forall a b c : f64,
  a <> S754_nan -> b <> S754_nan -> c <> S754_nan ->
  fltb a b = false -> fltb b c = false -> fltb a c = false.
Proof. exact fltb_false_trans. Qed.
Print Assumptions C25_not_less_transitive.

(* The oracle on a whole case (rounds of kill + reopen, then operations run to
   completion) is sound for the property stated on the observations. *)
Theorem C25_oracle_sound : forall c, check_C25 c = true ->
  CrashSpec (spec_init (c_seq0 c)) [] (c_rounds c) (c_tail c).
Proof. exact check_C25_sound. Qed.
Print Assumptions C25_oracle_sound.

(* Non-vacuity.  Three AddCmd, two acknowledged. *)
Definition ex_ops : list op := [OAddCmd [97]; OAddCmd [98]; OAddCmd [99]].
Definition ex_dump (seq : Z) (l : list (bytes * Z)) : dump := mkDump (RInt seq) (RCmds l) (RDirs []).

(* accepted: the state after two or after three operations *)
Example C25_example_accept :
  crash_ok (spec_init 0) ex_ops [RInt 1; RInt 2] (ex_dump 3 [([97], 1%Z); ([98], 2%Z)]) = true
  /\ crash_ok (spec_init 0) ex_ops [RInt 1; RInt 2] (ex_dump 4 [([97], 1%Z); ([98], 2%Z); ([99], 3%Z)]) = true.
Proof. vm_compute. split; reflexivity. Qed.

(* rejected: an acknowledged command is missing; the bucket sequence advanced
   without its command (NextSequence committed apart from the Put); a command
   without its sequence advance *)
Example C25_example_reject :
  crash_ok (spec_init 0) ex_ops [RInt 1; RInt 2] (ex_dump 2 [([97], 1%Z)]) = false
  /\ crash_ok (spec_init 0) ex_ops [RInt 1; RInt 2] (ex_dump 4 [([97], 1%Z); ([98], 2%Z)]) = false
  /\ crash_ok (spec_init 0) ex_ops [RInt 1; RInt 2] (ex_dump 3 [([97], 1%Z); ([98], 2%Z); ([99], 3%Z)]) = false.
Proof. vm_compute. repeat split; reflexivity. Qed.

(* the freshness part of the oracle: after a kill with 1 and 2 acknowledged, a
   reopened store that hands out 2 again is rejected *)
Example C25_example_reused_number :
  check_C25 (mkCase 0 [mkRound [OAddCmd [97]; OAddCmd [98]; ODelCmd 2] [RInt 1; RInt 2; ROk]
                               (ex_dump 3 [([97], 1%Z)])]
                    [(OAddCmd [99], RInt 3)]) = true
  /\ check_C25 (mkCase 0 [mkRound [OAddCmd [97]; OAddCmd [98]; ODelCmd 2] [RInt 1; RInt 2; ROk]
                               (ex_dump 3 [([97], 1%Z)])]
                    [(OAddCmd [99], RInt 2)]) = false.
Proof. vm_compute. split; reflexivity. Qed.
