(* C16 — Code with static errors never runs, and the static check agrees.
   Property theorems only; every proof is [exact <lemma>].

   The model (model/C16.v) is the phase structure of Evaler.Eval, Check, CheckTree
   and of the -compileonly branch of shell.script, for ANY parser, compiler and
   execution function (Section parameters), any evaler state, any source and any
   EvalCfg.Global.  All theorems below are therefore unbounded. *)
From verif Require Import lib.Base model.C16 proofs.C16_proofs.
From verif Require Import model.C16_static proofs.C16_static_proofs.

Section Statements.
  Variables source tree sns op modname perr cerr eff : Type.
  Variable parse : source -> tree * option perr.
  Variable compile : sns -> sns -> list modname -> tree -> (op * sns) * option cerr.
  Variable exec : op -> N -> list eff * bool.
  Notation EvalM := (Eval source tree sns op modname perr cerr eff parse compile exec).
  Notation CheckM := (Check source tree sns op modname perr cerr eff parse compile).
  Notation run_seqM := (run_seq source tree sns op modname perr cerr eff parse compile exec).

  (* If Eval returns a parse or compilation error, the trace contains no effect of
     the code (no output, no variable write, no file ...), ev.global was never
     assigned, and the evaler is exactly as it was: same global namespace object,
     same static view, same builtin, same modules. *)
  Theorem C16_static_error_no_effects : forall ev src cfg,
    is_static (eo_result (EvalM ev src cfg)) = true ->
    effects_of (eo_trace (EvalM ev src cfg)) = []
    /\ set_globals_of (eo_trace (EvalM ev src cfg)) = []
    /\ eo_ev (EvalM ev src cfg) = ev.
  Proof. exact (static_error_no_effects source tree sns op modname perr cerr eff parse compile exec). Qed.

  (* Conversely code without a static error runs exactly once, after a successful
     compile: the effects in the trace are exactly those of that execution. *)
  Theorem C16_no_static_error_runs_once : forall ev src cfg,
    is_static (eo_result (EvalM ev src cfg)) = false ->
    exists o tmpl,
      compile (ev_builtin ev) (cfg_static sns modname ev cfg) [] (fst (parse src)) = ((o, tmpl), None)
      /\ effects_of (eo_trace (EvalM ev src cfg)) = fst (exec o (ev_next ev))
      /\ eo_result (EvalM ev src cfg) = RRan (snd (exec o (ev_next ev))).
  Proof. exact (no_static_error_runs_once source tree sns op modname perr cerr eff parse compile exec). Qed.

  (* Under the stated hypothesis that the error result of compile does not depend
     on the module-name argument (it only feeds autofix suggestions): Check reports
     a parse or compilation error exactly when Eval in the same context (default
     global, or a cfg.Global with the same static view) returns one. *)
  Theorem C16_check_iff_eval_static_error :
    (forall b g m1 m2 t, snd (compile b g m1 t) = snd (compile b g m2 t)) ->
    forall ev src cfg,
    same_context sns modname ev cfg ->
    (check_reports_error (CheckM ev src) = true
     <-> is_static (eo_result (EvalM ev src cfg)) = true).
  Proof. exact (check_iff_eval_static_error source tree sns op modname perr cerr eff parse compile exec). Qed.

  (* ... and it reports the same error: a parse error of Eval is the parse error of
     Check; a compilation error of Eval is the compilation error of Check, which
     then has no parse error. *)
  Theorem C16_check_same_error :
    (forall b g m1 m2 t, snd (compile b g m1 t) = snd (compile b g m2 t)) ->
    forall ev src cfg,
    same_context sns modname ev cfg ->
    (forall e, eo_result (EvalM ev src cfg) = RParseErr e <-> fst (fst (CheckM ev src)) = Some e)
    /\ (forall e, eo_result (EvalM ev src cfg) = RCompileErr e <->
                  fst (fst (CheckM ev src)) = None /\ snd (fst (CheckM ev src)) = Some e).
  Proof. exact (check_same_error source tree sns op modname perr cerr eff parse compile exec). Qed.

  (* elvish -compileonly exits with status 2 exactly when evaluation in the same
     context reports a static error *)
  Theorem C16_compileonly_exit_iff_static :
    (forall b g m1 m2 t, snd (compile b g m1 t) = snd (compile b g m2 t)) ->
    forall ev src cfg,
    same_context sns modname ev cfg ->
    (compileonly_exit source tree sns op modname perr cerr eff parse compile ev src = 2%Z
     <-> is_static (eo_result (EvalM ev src cfg)) = true).
  Proof. exact (compileonly_exit_iff_static source tree sns op modname perr cerr eff parse compile exec). Qed.

  (* Every path through Eval leaves ev.mu free: the lock trace is accepted by the
     RWMutex discipline (Lock only when free, Unlock only by the holder, ev.global
     assigned only under the write lock, code executed only while the mutex is
     free) and ends in the free state; Lock and Unlock each occur at most once, and
     exactly once iff parsing succeeded. *)
  Theorem C16_mutex_balanced : forall ev src cfg,
    let tr := eo_trace (EvalM ev src cfg) in
    lock_run LFree tr = Some LFree
    /\ count_ev is_lock tr = count_ev is_unlock tr
    /\ (count_ev is_lock tr <= 1)%nat
    /\ (count_ev is_lock tr = 1%nat <-> snd (parse src) = None).
  Proof. exact (mutex_balanced source tree sns op modname perr cerr eff parse compile exec). Qed.

  Theorem C16_check_lock_balanced : forall ev src,
    lock_run LFree (snd (CheckM ev src)) = Some LFree
    /\ effects_of (snd (CheckM ev src)) = [] /\ set_globals_of (snd (CheckM ev src)) = [].
  Proof. exact (check_lock_balanced source tree sns op modname perr cerr eff parse compile). Qed.

  (* ev.global is assigned at most once per Eval, only with the default global,
     only when there was no static error, and then to the freshly prepared *Ns *)
  Theorem C16_global_assigned_only_after_compile : forall ev src cfg,
    match set_globals_of (eo_trace (EvalM ev src cfg)) with
    | [] => True
    | [i] => cfg = None /\ is_static (eo_result (EvalM ev src cfg)) = false /\ i = ev_next ev
    | _ => False
    end.
  Proof. exact (global_assigned_only_after_compile source tree sns op modname perr cerr eff parse compile exec). Qed.

  (* With the default global, Global() returns the same object afterwards exactly
     when Eval reported a static error (identities below the allocator mark). *)
  Theorem C16_global_same_iff_static : forall ev src,
    wf sns modname ev ->
    (ev_global (eo_ev (EvalM ev src None)) = ev_global ev
     <-> is_static (eo_result (EvalM ev src None)) = true).
  Proof. exact (global_same_iff_static source tree sns op modname perr cerr eff parse compile exec). Qed.

  (* With an explicit cfg.Global the evaler's own global is never touched *)
  Theorem C16_custom_global_keeps_evaler_global : forall ev src g,
    ev_global (eo_ev (EvalM ev src (Some g))) = ev_global ev
    /\ ev_gstatic (eo_ev (EvalM ev src (Some g))) = ev_gstatic ev
    /\ set_globals_of (eo_trace (EvalM ev src (Some g))) = [].
  Proof. exact (custom_global_keeps_evaler_global source tree sns op modname perr cerr eff parse compile exec). Qed.

  (* A read-eval loop of any length: the sources that have a static error (at the
     point where they are evaluated) are as if they had never been submitted —
     same final evaler, same effects, same assignments of ev.global. *)
  Theorem C16_repl_static_errors_skipped : forall ev srcs,
    let vs := valid_only source tree sns op modname perr cerr eff parse compile exec ev srcs in
    snd (run_seqM ev srcs) = snd (run_seqM ev vs)
    /\ effects_of (seq_trace sns modname perr cerr eff (run_seqM ev srcs))
       = effects_of (seq_trace sns modname perr cerr eff (run_seqM ev vs))
    /\ set_globals_of (seq_trace sns modname perr cerr eff (run_seqM ev srcs))
       = set_globals_of (seq_trace sns modname perr cerr eff (run_seqM ev vs))
    /\ Forall (fun r => is_static r = false) (seq_results sns modname perr cerr eff (run_seqM ev vs)).
  Proof. exact (repl_static_errors_skipped source tree sns op modname perr cerr eff parse compile exec). Qed.

  Theorem C16_repl_lock_balanced : forall ev srcs,
    lock_run LFree (seq_trace sns modname perr cerr eff (run_seqM ev srcs)) = Some LFree.
  Proof. exact (repl_lock_balanced source tree sns op modname perr cerr eff parse compile exec). Qed.

  (* evaluating the same erroneous source again gives the same answer *)
  Theorem C16_static_error_idempotent : forall ev src cfg,
    is_static (eo_result (EvalM ev src cfg)) = true ->
    EvalM (eo_ev (EvalM ev src cfg)) src cfg = EvalM ev src cfg.
  Proof. exact (static_error_idempotent source tree sns op modname perr cerr eff parse compile exec). Qed.
End Statements.

Print Assumptions C16_static_error_no_effects.
Print Assumptions C16_no_static_error_runs_once.
Print Assumptions C16_check_iff_eval_static_error.
Print Assumptions C16_check_same_error.
Print Assumptions C16_compileonly_exit_iff_static.
Print Assumptions C16_mutex_balanced.
Print Assumptions C16_check_lock_balanced.
Print Assumptions C16_global_assigned_only_after_compile.
Print Assumptions C16_global_same_iff_static.
Print Assumptions C16_custom_global_keeps_evaler_global.
Print Assumptions C16_repl_static_errors_skipped.
Print Assumptions C16_repl_lock_balanced.
Print Assumptions C16_static_error_idempotent.

(* The hypothesis of the agreement theorems is necessary: with a compiler whose
   error depends on the module names, Check reports an error and Eval does not. *)
Theorem C16_check_iff_eval_needs_module_hypothesis :
  exists (parse : unit -> unit * option unit) (exec : unit -> N -> list unit * bool) (ev : evaler unit unit),
    check_reports_error (Check unit unit unit unit unit unit unit unit parse bad_compile ev tt) = true
    /\ is_static (eo_result (Eval unit unit unit unit unit unit unit unit parse bad_compile exec ev tt None)) = false.
Proof. exact check_iff_eval_needs_module_hypothesis. Qed.
Print Assumptions C16_check_iff_eval_needs_module_hypothesis.

(* The oracle evaluated on the implementation's observations is sound for the
   property as a proposition. *)
Theorem C16_oracle_sound : forall o, check_C16 o = true -> Spec_C16 o.
Proof. exact check_C16_sound. Qed.
Print Assumptions C16_oracle_sound.

(* The observation predicted by the model passes the oracle for every reference
   input (any parse result, compile result, effects, mode, with/without
   -compileonly). *)
Theorem C16_model_meets_oracle : forall c, check_C16 (predict c) = true.
Proof. exact model_meets_oracle. Qed.
Print Assumptions C16_model_meets_oracle.

(* A case accepted by the judge satisfies the specification. *)
Theorem C16_judge_accepts_sound : forall c, judge1 c = 0%N -> Spec_C16 (c_obs c).
Proof. exact judge_accepts_sound. Qed.
Print Assumptions C16_judge_accepts_sound.

(* Supporting model of Go slices (model/C16_static.v): compile clones the static
   view of the global namespace before the compiler adds/deletes names, so no
   array that existed before — ev.global.infos in particular — is written, for
   every sequence of adds and deletes and every growth policy of append ... *)
Theorem C16_compile_clone_protects_caller : forall slacks h g ops a,
  (a < length h)%nat ->
  C16_static.arr (fst (C16_static.compile_ns true slacks h g ops)) a = C16_static.arr h a.
Proof. exact C16_static_proofs.clone_protects_caller. Qed.
Print Assumptions C16_compile_clone_protects_caller.

(* ... and without the clone one [var a] over an existing global [a] already
   marks the caller's variable deleted, error or not. *)
Theorem C16_without_clone_global_is_mutated :
  exists slacks h g ops, (C16_static.s_arr g < length h)%nat /\
    C16_static.view (fst (C16_static.compile_ns false slacks h g ops)) g <> C16_static.view h g.
Proof. exact C16_static_proofs.without_clone_global_is_mutated. Qed.
Print Assumptions C16_without_clone_global_is_mutated.

(* Non-vacuity *)
Example C16_ex_static_error_after_effects :
  let c := mkCase 0 [] [(30, 42)] [mkEff 0 [] None (Some [104;105])] false true
                  (mkObs KCompile [(30, 42)] [] true [] [(30, 42)] [] (Some (2%Z, [(30, 42)]))) in
  judge1 c = 0 /\ o_effects (predict c) = [] /\ o_kind (predict c) = KCompile.
Proof. exact ex_static_error_after_effects. Qed.

Example C16_ex_valid_code_runs :
  let c := mkCase 0 [] [] [mkEff 0 [] None (Some [104;105])] false false
                  (mkObs KOk [] [mkEff 0 [] None (Some [104;105])] false [] [] [] None) in
  judge1 c = 0 /\ o_global_same (predict c) = false.
Proof. exact ex_valid_code_runs. Qed.

Example C16_ex_oracle_rejects :
  check_C16 (mkObs KCompile [(1, 2)] [mkEff 0 [] None (Some [104])] true [] [(1, 2)] [] None) = false
  /\ check_C16 (mkObs KCompile [(1, 2)] [] false [] [(1, 2)] [] None) = false
  /\ check_C16 (mkObs KCompile [(1, 2)] [] true [] [] [] None) = false
  /\ check_C16 (mkObs KOk [] [] false [] [(1, 2)] [] None) = false
  /\ check_C16 (mkObs KParse [(1, 2)] [] true [(1, 2)] [] [] (Some (0%Z, []))) = false.
Proof. exact ex_oracle_rejects. Qed.
