(* C09 — eq is an equivalence and compare is a consistent total preorder.
   Property theorems only; every proof is [exact <lemma>].
   Model: model/C08_Value.v: equal = vals.Equal, cmp = vals.Cmp,
   cmp_total rk = vals.CmpTotal with rk the (arbitrary, fixed) order of the Go
   type descriptors.  wf v: float patterns are 64-bit, map keys pairwise not
   Equal.  TransAt f a b c: if f a b and f b c are both in {<,=} (or both in
   {>,=}) then f a c is their composition (= only if both are =). *)
From verif Require Import lib.Base model.C08_Value model.C09.
From verif Require Import proofs.C08_Value_proofs proofs.C09_float_proofs proofs.C09_proofs.
Open Scope N_scope.

(* ---- eq is an equivalence, except on values holding NaN ---- *)
Theorem C09_equal_refl : forall a, wf a -> has_nan a = false -> equal a a = true.
Proof. exact equal_refl. Qed.
Print Assumptions C09_equal_refl.

(* NaN and containers holding NaN are Equal to nothing, themselves included *)
Theorem C09_equal_nan_never : forall a b, has_nan a = true -> equal a b = false.
Proof. exact equal_nan_never. Qed.
Print Assumptions C09_equal_nan_never.

Theorem C09_equal_sym : forall a b, wf a -> wf b -> equal a b = true -> equal b a = true.
Proof. exact equal_sym. Qed.
Print Assumptions C09_equal_sym.

Theorem C09_equal_trans : forall a b c, wf a -> wf b -> wf c ->
  equal a b = true -> equal b c = true -> equal a c = true.
Proof. exact equal_trans. Qed.
Print Assumptions C09_equal_trans.

(* ---- compare ---- *)
(* 0 for eq values *)
Theorem C09_cmp_eq_of_equal : forall a b, equal a b = true -> cmp a b = OEq.
Proof. exact cmp_eq_of_equal. Qed.
Print Assumptions C09_cmp_eq_of_equal.

(* antisymmetric: compare and compare &total, any rank of the types *)
Theorem C09_cmp_antisym : forall rk tot a b,
  wf a -> wf b -> cmpg rk tot a b = flip (cmpg rk tot b a).
Proof. exact cmpg_antisym. Qed.
Print Assumptions C09_cmp_antisym.

(* transitive, for values whose numbers are all exact (int, big int, rational,
   mixed freely), lists and all other values included *)
Theorem C09_cmp_trans_exact : forall a b c, wf a -> wf b -> wf c ->
  nums_all is_exact a = true -> nums_all is_exact b = true -> nums_all is_exact c = true ->
  TransAt cmp a b c.
Proof. exact cmp_trans_exact. Qed.
Print Assumptions C09_cmp_trans_exact.

(* ... and for values whose numbers are all floats (NaN lowest, -0 = +0) *)
Theorem C09_cmp_trans_inexact : forall a b c, wf a -> wf b -> wf c ->
  nums_all is_float a = true -> nums_all is_float b = true -> nums_all is_float c = true ->
  TransAt cmp a b c.
Proof. exact cmp_trans_inexact. Qed.
Print Assumptions C09_cmp_trans_inexact.

(* FULL STATEMENT: forall wf a b c, TransAt cmp a b c — false when exact and
   inexact numbers meet: 2^53+1 ~ 2^53.0 ~ 2^53 but 2^53+1 > 2^53 *)
Theorem C09_cmp_trans_refuted :
  exists a b c, wf a /\ wf b /\ wf c /\ cmp a b = OEq /\ cmp b c = OEq /\ cmp a c = OGt.
Proof. exact cmp_trans_refuted_w. Qed.
Print Assumptions C09_cmp_trans_refuted.

(* the documented per-type orders (numbers by mathematical value with NaN equal
   to NaN and below all other numbers, strings by bytes, booleans false-first,
   lists lexicographically): compare answers what the specification spec_cmp
   says, for all values whose numbers are all exact or all inexact *)
Theorem C09_cmp_is_spec : forall a b o,
  same_exactness a b -> spec_cmp a b = Some o -> cmp a b = o.
Proof. exact cmp_is_spec. Qed.
Print Assumptions C09_cmp_is_spec.

(* in particular every pair of float64 values (finite, +-0, +-Inf, NaN, any
   64-bit pattern): compareFloat is the documented order; its core is that
   the real values f_to_Q are ordered exactly as the keys f_key *)
Theorem C09_cmp_float_is_spec : forall x y,
  spec_cmp (VFloat x) (VFloat y) = Some (cmp (VFloat x) (VFloat y)).
Proof. exact cmp_float_pair_is_spec. Qed.
Print Assumptions C09_cmp_float_is_spec.

Theorem C09_float_value_order : forall x y,
  QArith_base.Qcompare (f_to_Q x) (f_to_Q y) = Z.compare (f_key x) (f_key y).
Proof. exact f_to_Q_compare. Qed.
Print Assumptions C09_float_value_order.

(* transitivity stated on the documented order itself *)
Theorem C09_spec_trans_inexact : forall a b c o1 o2 o3 o,
  wf a -> wf b -> wf c ->
  nums_all is_float a = true -> nums_all is_float b = true -> nums_all is_float c = true ->
  spec_cmp a b = Some o1 -> spec_cmp b c = Some o2 -> spec_cmp a c = Some o3 ->
  comp o1 o2 = Some o -> o3 = o.
Proof. exact spec_trans_inexact. Qed.
Print Assumptions C09_spec_trans_inexact.

Theorem C09_spec_trans_exact : forall a b c o1 o2 o3 o,
  wf a -> wf b -> wf c ->
  nums_all is_exact a = true -> nums_all is_exact b = true -> nums_all is_exact c = true ->
  spec_cmp a b = Some o1 -> spec_cmp b c = Some o2 -> spec_cmp a c = Some o3 ->
  comp o1 o2 = Some o -> o3 = o.
Proof. exact spec_trans_exact. Qed.
Print Assumptions C09_spec_trans_exact.

(* the three recorded mixed-compare classes, pinned down: an exact number that
   meets a float is rounded by ConvertToFloat64 first and then compared as a
   float, so the answer is the documented order of the ROUNDED value *)
Theorem C09_mixed_compare_is_float_rounding : forall a y,
  is_exact a = true ->
  cmp a (VFloat y) = cmp (VFloat (to_f64 a)) (VFloat y) /\
  cmp (VFloat y) a = cmp (VFloat y) (VFloat (to_f64 a)).
Proof. exact mixed_compare_is_float_rounding. Qed.
Print Assumptions C09_mixed_compare_is_float_rounding.

Theorem C09_mixed_compare_spec_of_rounded : forall a y,
  is_exact a = true ->
  spec_cmp (VFloat (to_f64 a)) (VFloat y) = Some (cmp a (VFloat y)).
Proof. exact mixed_compare_spec_of_rounded. Qed.
Print Assumptions C09_mixed_compare_spec_of_rounded.

(* FULL STATEMENT: C09_cmp_is_spec for all numbers — false: 2^64 vs 1e30 and +Inf
   (big ints outside int64 are compared as infinities), 1/3 vs the float next
   to it (rationals are rounded first) *)
Theorem C09_cmp_bigint_inf_refuted :
  exists a b, spec_cmp a b = Some OLt /\ cmp a b = OGt /\
              spec_cmp a (VFloat f_pos_inf) = Some OLt /\ cmp a (VFloat f_pos_inf) = OEq.
Proof. exact cmp_bigint_inf_refuted_w. Qed.
Print Assumptions C09_cmp_bigint_inf_refuted.

Theorem C09_cmp_rat_rounded_refuted :
  exists a b, spec_cmp a b = Some OGt /\ cmp a b = OEq.
Proof. exact cmp_rat_rounded_refuted_w. Qed.
Print Assumptions C09_cmp_rat_rounded_refuted.

(* ---- compare &total ---- *)
Theorem C09_cmp_total_never_unc : forall rk a b, cmp_total rk a b <> OUn.
Proof. exact cmp_total_never_unc. Qed.
Print Assumptions C09_cmp_total_never_unc.

(* agrees with compare wherever compare is defined (within each comparable
   type), for all values: plain and sliced lists are one type *)
Theorem C09_cmp_total_agrees : forall rk a b,
  cmp a b <> OUn -> cmp_total rk a b = cmp a b.
Proof. exact cmp_total_agrees. Qed.
Print Assumptions C09_cmp_total_agrees.

(* a transitive total preorder that groups values by type: for every injective
   order rk of the types, transitive
   on values whose numbers are all exact resp. all floats *)
Theorem C09_cmp_total_trans_exact : forall rk a b c,
  injective rk -> wf a -> wf b -> wf c ->
  nums_all is_exact a = true -> nums_all is_exact b = true -> nums_all is_exact c = true ->
  TransAt (cmp_total rk) a b c.
Proof. exact cmp_total_trans_exact. Qed.
Print Assumptions C09_cmp_total_trans_exact.

Theorem C09_cmp_total_trans_inexact : forall rk a b c,
  injective rk -> wf a -> wf b -> wf c ->
  nums_all is_float a = true -> nums_all is_float b = true -> nums_all is_float c = true ->
  TransAt (cmp_total rk) a b c.
Proof. exact cmp_total_trans_inexact. Qed.
Print Assumptions C09_cmp_total_trans_inexact.

(* ---- the oracle evaluated on the implementation's observations states the
   property ---- *)
Theorem C09_oracle_sound : forall rk vs E C T,
  check_proj rk vs E C T = true -> Spec_proj rk (fun i => nth i vs VNil) E C T.
Proof. exact check_proj_sound. Qed.
Print Assumptions C09_oracle_sound.

(* non-vacuity *)
Example C09_ex_orders :
  cmp (VList false [VInt 1; VRat (mkrat 1 2)]) (VList true [VInt 1; VBig (2 ^ 70)]) = OLt
  /\ cmp_total rk0 (VList true [VStr [97]]) (VList false [VStr [97]]) = OEq
  /\ cmp (VStr [97]) (VStr [97; 0]) = OLt /\ cmp (VBool false) (VBool true) = OLt
  /\ cmp (VFloat 9221120237041090560) (VFloat f_neg_inf) = OLt   (* NaN < -Inf *)
  /\ cmp (VInt 1) (VStr [49]) = OUn /\ cmp_total rk0 (VInt 1) (VStr [49]) = OLt.
Proof. vm_compute. auto 10. Qed.
