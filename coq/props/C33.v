(* C33 — Styled text stays normalised and keeps its content.
   Property theorems only; every proof is [exact <lemma>].

   Normal t  :=  no segment of t has an empty text and no two adjacent segments
   have the same style (the empty text is the empty list; Go's nil flag is a
   separate observation).  content t := the concatenated segment texts. *)
From verif Require Import lib.Base model.C34_width model.C33
  proofs.C33_proofs proofs.C33_proofs2 proofs.C33_proofs3 proofs.C33_glue
  model.C33_styledown proofs.C33_sd_flat proofs.C33_sd_table proofs.C33_sd_round
  proofs.C33_sd_main proofs.C33_sd_inst proofs.C33_sd_short.
Open Scope Z_scope.

(* The decidable normal form used by the oracle is the proposition Normal. *)
Theorem C33_normalb_spec : forall t, normalb t = true <-> Normal t.
Proof. exact normalb_spec. Qed.
Print Assumptions C33_normalb_spec.

(* The oracle, evaluated on what the implementation returned, implies: every
   returned Text is in normal form and an empty one is Go-nil. *)
Theorem C33_oracle_normal_sound : forall o rs,
  check_C33 o rs = true ->
  (forall s ts, o <> OpStyleSeg s ts) ->
  Forall (fun r => Normal (snd r) /\ (snd r = [] -> fst r = true)) rs.
Proof. exact check_normal_sound. Qed.
Print Assumptions C33_oracle_normal_sound.

Theorem C33_oracle_content_sound : forall rs e,
  content_is rs e = true -> exists flag t, rs = [(flag, t)] /\ content t = e.
Proof. exact content_is_sound. Qed.
Print Assumptions C33_oracle_content_sound.

(* Construction: T *)
Theorem C33_T_normal : forall s ts, Normal (T s ts) /\ content (T s ts) = s.
Proof. exact T_normal. Qed.
Print Assumptions C33_T_normal.

(* Concatenation through the TextBuilder (ui.Concat), any number of texts *)
Theorem C33_builder_normal : forall ts,
  Forall Normal ts ->
  Normal (concat_texts ts) /\ content (concat_texts ts) = flat_map content ts.
Proof. exact builder_normal. Qed.
Print Assumptions C33_builder_normal.

(* every single WriteText keeps the builder invariant and appends the content *)
Theorem C33_write_text_invariant : forall tb t,
  BInv tb -> Normal t ->
  BInv (write_text tb t)
  /\ content (b_result (write_text tb t)) = content (b_result tb) ++ content t.
Proof. exact write_text_invariant. Qed.
Print Assumptions C33_write_text_invariant.

(* Partition at ANY indices (also unsorted / out of range): all parts normal,
   and they concatenate back to the original *)
Theorem C33_partition_normal_and_concat_back : forall t idxs,
  Normal t ->
  Forall Normal (partition t idxs) /\ flat_map content (partition t idxs) = content t.
Proof. exact partition_normal_and_concat_back. Qed.
Print Assumptions C33_partition_normal_and_concat_back.

(* for non-decreasing indices inside the text, part j has i_j - i_(j-1) bytes *)
Theorem C33_partition_part_lengths : forall t idxs,
  nondecreasing_from 0 idxs = true -> last idxs 0 <= blen (content t) ->
  part_lengths_ok 0 idxs (partition t idxs) = true.
Proof. exact partition_part_lengths. Qed.
Print Assumptions C33_partition_part_lengths.

(* SplitByRune (sep = string(r), never empty): all parts normal — even when t
   is not — and joining their contents with the separator gives the original *)
Theorem C33_split_concat_back : forall sep t,
  sep <> [] ->
  Forall Normal (split_text sep t)
  /\ join_bytes sep (map content (split_text sep t)) = content t.
Proof. exact split_concat_back. Qed.
Print Assumptions C33_split_concat_back.

(* strings.Split itself joins back *)
Theorem C33_split_bytes_join : forall sep x, sep <> [] -> join_bytes sep (split_bytes sep x) = x.
Proof. exact split_bytes_join. Qed.
Print Assumptions C33_split_bytes_join.

(* TrimWcwidth, for ANY string width function ofb and trimming function trimb
   with the contract of wcwidth.Of / wcwidth.Trim: the content is a prefix and
   the summed segment width fits *)
Theorem C33_trim_prefix_width : forall (ofb : bytes -> Z) (trimb : bytes -> Z -> bytes),
  (forall x, 0 <= ofb x) ->
  (forall x n, exists rest, x = trimb x n ++ rest) ->
  (forall x n, 0 <= n -> ofb (trimb x n) <= n) ->
  forall t n,
    (exists rest, content t = content (trim_text_g ofb trimb t n) ++ rest)
    /\ (0 <= n -> text_width_g ofb (trim_text_g ofb trimb t n) <= n).
Proof. exact trim_prefix_width. Qed.
Print Assumptions C33_trim_prefix_width.

(* ... and for the executed instance (wcwidth.Of / wcwidth.Trim over the width
   table; the contract is discharged by the C34 theorems) *)
Theorem C33_trim_prefix_width_wcwidth : forall t n,
  (exists rest, content t = content (trim_text t n) ++ rest)
  /\ (0 <= n -> text_width (trim_text t n) <= n).
Proof. exact trim_prefix_width_wcwidth. Qed.
Print Assumptions C33_trim_prefix_width_wcwidth.

(* TrimWcwidth keeps the normal form (after the repair
   checks/C33.fixes/trim-budget-ends-at-segment-start.diff), for any width and
   trimming functions whatsoever *)
Theorem C33_trim_normal : forall (ofb : bytes -> Z) (trimb : bytes -> Z -> bytes) t n,
  Normal t -> Normal (trim_text_g ofb trimb t n).
Proof. exact trim_normal. Qed.
Print Assumptions C33_trim_normal.

(* Restyling keeps content and segment count *)
Theorem C33_restyle_content : forall t ts,
  content (style_text t ts) = content t /\ length (style_text t ts) = length t.
Proof. exact restyle_content. Qed.
Print Assumptions C33_restyle_content.

(* FULL STATEMENT (false, see C33_restyle_normal_refuted; the behaviour is pinned by
   the existing test pkg/ui TestStyleText "Multiple segments", so it stays a finding):
     forall t ts, Normal t -> Normal (style_text t ts).
   Proved instead: normal form is kept by every styling that does not identify
   two different styles, e.g. any sequence of toggles. *)
Theorem C33_restyle_normal_partial : forall t ts,
  (forall s1 s2, apply_styling s1 ts = apply_styling s2 ts -> s1 = s2) ->
  Normal t -> Normal (style_text t ts).
Proof. exact restyle_normal_partial. Qed.
Print Assumptions C33_restyle_normal_partial.

Theorem C33_restyle_toggles_injective : forall ts,
  forallb is_toggle ts = true ->
  forall s1 s2, apply_styling s1 ts = apply_styling s2 ts -> s1 = s2.
Proof. exact toggles_injective. Qed.
Print Assumptions C33_restyle_toggles_injective.

Theorem C33_restyle_normal_refuted :
  exists t ts, normalb t = true /\ normalb (style_text t ts) = false.
Proof. exact restyle_normal_refuted. Qed.
Print Assumptions C33_restyle_normal_refuted.

(* StyleText of the empty text is nil (repair checks/C33.fixes/restyle-empty-text.diff) *)
Theorem C33_restyle_nil : forall ts, run_op (OpStyleText [] ts) = [(true, [])].
Proof. exact restyle_nil. Qed.
Print Assumptions C33_restyle_nil.

(* Text.Concat / RConcat go through the builder *)
Theorem C33_text_concat_text_normal : forall t t2,
  Normal t -> Normal t2 ->
  Normal (text_concat_text t t2) /\ content (text_concat_text t t2) = content t ++ content t2.
Proof. exact text_concat_text_normal. Qed.
Print Assumptions C33_text_concat_text_normal.

Theorem C33_text_concat_str_normal : forall t rhs,
  Normal t ->
  Normal (text_concat_str t rhs) /\ content (text_concat_str t rhs) = content t ++ rhs.
Proof. exact text_concat_str_normal. Qed.
Print Assumptions C33_text_concat_str_normal.

Theorem C33_text_rconcat_str_normal : forall lhs t,
  Normal t ->
  Normal (text_rconcat_str lhs t) /\ content (text_rconcat_str lhs t) = lhs ++ content t.
Proof. exact text_rconcat_str_normal. Qed.
Print Assumptions C33_text_rconcat_str_normal.

(* Text.Concat with ANY Segment, also one with an empty text
   (repair checks/C33.fixes/text-concat-empty-segment.diff) *)
Theorem C33_text_concat_segment_normal : forall t sg,
  Normal t ->
  Normal (text_concat_seg t sg) /\ content (text_concat_seg t sg) = content t ++ snd sg.
Proof. exact text_concat_seg_normal. Qed.
Print Assumptions C33_text_concat_segment_normal.

(* Segment.Concat / RConcat (repair checks/C33.fixes/segment-concat-empty-or-same-style.diff):
   for ANY segment (empty text, any style) the result is normal and has the
   concatenated content *)
Theorem C33_segment_concat_str_normal : forall sg rhs,
  Normal (seg_concat_str sg rhs) /\ content (seg_concat_str sg rhs) = snd sg ++ rhs.
Proof. exact seg_concat_str_normal. Qed.
Print Assumptions C33_segment_concat_str_normal.

Theorem C33_segment_concat_seg_normal : forall sg sg2,
  Normal (seg_concat_seg sg sg2) /\ content (seg_concat_seg sg sg2) = snd sg ++ snd sg2.
Proof. exact seg_concat_seg_normal. Qed.
Print Assumptions C33_segment_concat_seg_normal.

Theorem C33_segment_concat_text_normal : forall sg t,
  Normal t ->
  Normal (seg_concat_text sg t) /\ content (seg_concat_text sg t) = snd sg ++ content t.
Proof. exact seg_concat_text_normal. Qed.
Print Assumptions C33_segment_concat_text_normal.

Theorem C33_segment_rconcat_str_normal : forall lhs sg,
  Normal (seg_rconcat_str lhs sg) /\ content (seg_rconcat_str lhs sg) = lhs ++ snd sg.
Proof. exact seg_rconcat_str_normal. Qed.
Print Assumptions C33_segment_rconcat_str_normal.

(* ------------------------------------------------------------------ *)
(* Styledown (pkg/ui/styledown; model/C33_styledown.v, on runes).
   Go naming: derender = Text -> markup (Derender), render = markup -> Text (Render).

   Representable w t  :=  Normal t,  every newline of t lies in a segment with
   the default style,  every other character has a width other than 0.
   (That every style has a style character is the success of derender.) *)

(* The round trip, for ANY width function w >= 0 and ANY parseStyleCharDef with
   the stated contract, any styleDefs, any number of lines and segments, empty
   lines, with or without a trailing newline: if Derender succeeds on a
   representable Text, Render of its markup succeeds and gives the same Text. *)
Theorem C33_styledown_roundtrip :
  forall (w : N -> Z) (parse_def : list N -> option (N * list styling)),
  (forall r, 0 <= w r) ->
  w NL <> 1 ->
  (forall c ats, lookup c builtin_chars = Some ats -> w c = 1) ->
  W w no_eol <> 0 ->
  (forall l c ats, parse_def l = Some (c, ats) -> w c = 1 /\ In c l) ->
  parse_def no_eol = None ->
  forall t defs m,
    Representable w t ->
    derender w parse_def t defs = Ok m ->
    render w parse_def m = Ok t.
Proof. exact styledown_roundtrip. Qed.
Print Assumptions C33_styledown_roundtrip.

(* ... for the executed instance: the table-driven wcwidth.OfRune and any
   observed parse table that passes the contract check of the judge *)
Theorem C33_styledown_roundtrip_wcwidth : forall tbl t defs m,
  table_wf tbl = true ->
  Representable of_rune t ->
  derender of_rune (table_parse tbl) t defs = Ok m ->
  render of_rune (table_parse tbl) m = Ok t.
Proof. exact styledown_roundtrip_wcwidth. Qed.
Print Assumptions C33_styledown_roundtrip_wcwidth.

(* Render on ARBITRARY markup: whenever it succeeds the Text is in normal form
   (render and derender are total functions of the model: every failure,
   including a style line that is too short, is the value Err) *)
Theorem C33_styledown_render_normal :
  forall (w : N -> Z) (parse_def : list N -> option (N * list styling)) s t,
  render w parse_def s = Ok t -> Normal t.
Proof. exact render_normal. Qed.
Print Assumptions C33_styledown_render_normal.

(* a style line that runs out under a character is the error value: the repaired
   Render tests len(style) < w before it slices style[:w]
   (checks/C33.fixes/styledown-parse-short-style-line.diff), so for this class
   of markup the Go code returns an error and neither reads past the slice nor
   panics; the runner reports any panic of Render as a direct violation *)
Theorem C33_styledown_short_style_line_error :
  forall (w : N -> Z) defs tb r txt sty,
  (length sty < Z.to_nat (w r))%nat ->
  render_line w defs tb (r :: txt) sty = Err.
Proof. exact render_line_short_style. Qed.
Print Assumptions C33_styledown_short_style_line_error.

(* the builder appends styled content character by character, and a normal
   Text is determined by it (used to conclude equality of Texts) *)
Theorem C33_normal_flat_injective : forall a b, Normal a -> Normal b -> flat a = flat b -> a = b.
Proof. exact normal_flat_inj. Qed.
Print Assumptions C33_normal_flat_injective.

(* SplitByRune('\n') can be undone when the newlines carry the default style *)
Theorem C33_split_newline_flat : forall t paste,
  PlainNL t -> fjoin (split_text_go [NL] t paste) = flat (b_result paste) ++ flat t.
Proof. exact split_text_go_flat. Qed.
Print Assumptions C33_split_newline_flat.

(* the round-trip oracle is sound *)
Theorem C33_styledown_oracle_sound : forall t markup back,
  check_round t markup back = true ->
  markup = None \/ exists flag, back = BackOk (flag, t) /\ Normal t /\ (t = [] -> flag = true).
Proof. exact check_round_sound. Qed.
Print Assumptions C33_styledown_oracle_sound.

(* non-vacuity *)
From Coq Require Import Strings.String.
Example C33_styledown_example :
  let t := [(sBold, [97; 22909]%N); (style0, [10; 98]%N)] in
  derender of_rune (table_parse []) t [] = Ok [97; 22909; 10; 42; 42; 42; 10; 98; 10; 32; 10; 10; 110; 111; 45; 101; 111; 108; 10]%N
  /\ render of_rune (table_parse []) [97; 22909; 10; 42; 42; 42; 10; 98; 10; 32; 10; 10; 110; 111; 45; 101; 111; 108; 10]%N = Ok t.
Proof. exact sd_example. Qed.
Example C33_oracle_accepts_partition :
  let o := OpPartition [(sBold, hx "6162"%string); (style0, hx "63"%string)] [1; 3] in
  check_C33 o (run_op o) = true.
Proof. exact oracle_accepts_partition. Qed.

Example C33_oracle_rejects_old_trim_result :
  check_C33 (OpTrim [(sBold, hx "61"%string); (style0, hx "e4b8ad"%string)] 2)
            [(false, [(sBold, hx "61"%string); (style0, [])])] = false.
Proof. exact oracle_rejects_old_trim_result. Qed.

Example C33_oracle_accepts_trim :
  let o := OpTrim [(sBold, hx "61"%string); (style0, hx "e4b8ad"%string)] 2 in
  check_C33 o (run_op o) = true.
Proof. exact oracle_accepts_trim. Qed.
