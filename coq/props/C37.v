(* C37 — Error positions point at the right lines and columns.
   Property theorems only; every proof is [exact <lemma>]. *)
From verif Require Import lib.Base model.C37 proofs.C37_proofs.

(* For every source text and every range inside it, what the model of
   diag.NewContext reports satisfies the full line/column specification:
   start identifies the first byte, end the last byte after dropping one
   trailing newline (or endCol = startCol - 1 when empty), and
   head ++ body ++ tail is the text of the lines containing the range. *)
Theorem C37_context_positions : forall src from to,
  (from <= to)%nat -> (to <= length src)%nat ->
  Spec_C37 src from to (getContextDetails src from to).
Proof. exact context_positions. Qed.
Print Assumptions C37_context_positions.

(* The oracle evaluated on the implementation's observations is sound for the
   same specification. *)
Theorem C37_oracle_sound : forall src from to d,
  check_C37 src from to d = true -> Spec_C37 src from to d.
Proof. exact check_C37_sound. Qed.
Print Assumptions C37_oracle_sound.

Theorem C37_describe_range_forms : forall d,
  (startLine d = endLine d -> (endCol d < startCol d)%Z ->
     describeRange d = FPoint (startLine d) (startCol d))
  /\ (startLine d = endLine d -> (startCol d <= endCol d)%Z ->
     describeRange d = FLine (startLine d) (startCol d) (endCol d))
  /\ (startLine d <> endLine d ->
     describeRange d = FMulti (startLine d) (startCol d) (endLine d) (endCol d)).
Proof. exact describe_range_forms. Qed.
Print Assumptions C37_describe_range_forms.

Theorem C37_empty_range_is_point : forall src from,
  (from <= length src)%nat ->
  describeRange (getContextDetails src from from) =
  FPoint (startLine (getContextDetails src from from)) (startCol (getContextDetails src from from)).
Proof. exact empty_range_is_point. Qed.
Print Assumptions C37_empty_range_is_point.
