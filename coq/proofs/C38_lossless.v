(* Proofs for C38, part 4: every argument list is the rendering of its reading
   (the reference tokenizer loses nothing), and the oracle is sound. *)
From verif Require Import lib.Base gen.Consts model.C38 proofs.C38_proofs.
Open Scope N_scope.

Lemma split_eq_join body : forall name oa, split_eq body = (name, oa) ->
  body = name ++ match oa with Some a => EQ :: a | None => [] end.
Proof.
  induction body as [|c body IH]; simpl; intros name oa H.
  - inversion H; reflexivity.
  - destruct (N.eqb c EQ) eqn:E.
    + inversion H; subst. apply N.eqb_eq in E; subst; reflexivity.
    + destruct (split_eq body) as [n o] eqn:S. inversion H; subst. simpl. f_equal. apply IH; reflexivity.
Qed.

Lemma lookup_long_name name specs sp : lookup_long name specs = Some sp -> s_long sp = name.
Proof.
  unfold lookup_long. destruct (is_nil name); [discriminate|]. intros H.
  apply find_some in H as [_ H]. apply str_eqb_eq in H; exact H.
Qed.

Lemma lookup_short_name r specs sp : lookup_short r specs = Some sp -> s_short sp = r.
Proof.
  unfold lookup_short. destruct (N.eqb r 0); [discriminate|]. intros H.
  apply find_some in H as [_ H]. apply N.eqb_eq in H; exact H.
Qed.

Definition pend_word (p : pend) : str :=
  match p with
  | PFlags => []
  | PAtt sp a => s_short sp :: a
  | PNeed sp => [s_short sp]
  | PUnk r a => r :: a
  end.

Lemma scan_shorts_join specs s :
  s = map s_short (fst (scan_shorts specs s)) ++ pend_word (snd (scan_shorts specs s)).
Proof.
  induction s as [|r s IH]; [reflexivity|]. cbn [scan_shorts].
  destruct (lookup_short r specs) as [sp|] eqn:L; [|reflexivity].
  apply lookup_short_name in L. destruct (s_arity sp).
  - destruct (scan_shorts specs s) as [fl p]. cbn in *. rewrite L. f_equal. exact IH.
  - destruct s; cbn; rewrite L; reflexivity.
  - cbn. rewrite L. reflexivity.
Qed.

Lemma render_cons it items : render (it :: items) = render_item it ++ render items.
Proof. reflexivity. Qed.

Section Lossless.
  Variable cv : conv.
  Variable specs : list ospec.

  Definition lossless_at (n : nat) : Prop :=
    forall args, (length args <= n)%nat -> forall stopped,
    render (tokenize cv specs stopped args) = args.

  Lemma render_tok_long n (IH : lossless_at n) d2 body rest : (length rest <= n)%nat ->
    render (tok_long cv specs d2 body rest) = (dashes d2 ++ body) :: rest.
  Proof.
    intros Hl. unfold tok_long. destruct (split_eq body) as [name oa] eqn:S.
    apply split_eq_join in S. destruct (lookup_long name specs) as [sp|] eqn:L.
    - apply lookup_long_name in L. destruct oa as [a|].
      + rewrite render_cons, (IH rest Hl). cbn [render_item app]. subst. reflexivity.
      + rewrite app_nil_r in S. destruct (arity_eqb (s_arity sp) ReqArg).
        * destruct rest as [|a rest'].
          -- cbn [render flat_map render_item app]. subst. reflexivity.
          -- assert (Hl' : (length rest' <= n)%nat) by (simpl in Hl; lia).
             rewrite render_cons, (IH rest' Hl'). cbn [render_item app]. subst. reflexivity.
        * rewrite render_cons, (IH rest Hl). cbn [render_item app]. subst. reflexivity.
    - rewrite render_cons, (IH rest Hl). destruct oa as [a|]; cbn [render_item app]; subst.
      + reflexivity.
      + rewrite app_nil_r. reflexivity.
  Qed.

  Lemma render_tok_short n (IH : lossless_at n) body rest : (length rest <= n)%nat ->
    render (tok_short cv specs body rest) = (DASH :: body) :: rest.
  Proof.
    intros Hl. unfold tok_short. pose proof (scan_shorts_join specs body) as J.
    destruct (scan_shorts specs body) as [fl p]. cbn [fst snd] in J.
    destruct p as [|sp a|sp|r a]; cbn [pend_word] in J.
    - rewrite render_cons, (IH rest Hl). cbn. rewrite J at 1. reflexivity.
    - rewrite render_cons, (IH rest Hl). cbn. rewrite J at 1. reflexivity.
    - destruct rest as [|a rest'].
      + cbn. rewrite J at 1. reflexivity.
      + assert (Hl' : (length rest' <= n)%nat) by (simpl in Hl; lia).
        rewrite render_cons, (IH rest' Hl'). cbn. rewrite J at 1. reflexivity.
    - rewrite render_cons, (IH rest Hl). cbn. rewrite J at 1. reflexivity.
  Qed.

  Lemma lossless_all n : lossless_at n.
  Proof.
    induction n as [|n IH]; intros args Hlen stopped.
    - destruct args; [reflexivity|simpl in Hlen; lia].
    - destruct args as [|w rest]; [reflexivity|].
      assert (Hl : (length rest <= n)%nat) by (simpl in Hlen; lia).
      rewrite tokenize_cons. destruct stopped.
      { rewrite render_cons, (IH rest Hl). reflexivity. }
      destruct (cv_dd cv && str_eqb w DD) eqn:Hdd.
      { apply andb_true_iff in Hdd as [_ E]. apply str_eqb_eq in E. subst.
        rewrite render_cons, (IH rest Hl). reflexivity. }
      destruct (prefix2 w && negb (str_eqb w DD)) eqn:H2.
      { apply andb_true_iff in H2 as [P _]. destruct w as [|a [|b body]]; try discriminate.
        cbn in P. apply andb_true_iff in P as [Pa Pb]. apply N.eqb_eq in Pa, Pb. subst.
        rewrite (render_tok_long n IH true _ rest Hl). reflexivity. }
      destruct (prefix1 w && negb (str_eqb w DD) && negb (str_eqb w D1)) eqn:H1.
      { apply andb_true_iff in H1 as [P _]. apply andb_true_iff in P as [P _].
        destruct w as [|a body]; try discriminate. cbn in P. apply N.eqb_eq in P. subst.
        destruct (cv_lo cv).
        - rewrite (render_tok_long n IH false _ rest Hl). reflexivity.
        - rewrite (render_tok_short n IH _ rest Hl). reflexivity. }
      rewrite render_cons, (IH rest Hl). reflexivity.
  Qed.

  (* every argument list is the rendering of its reading *)
  Lemma render_tokenize args stopped : render (tokenize cv specs stopped args) = args.
  Proof. apply (lossless_all (length args)). apply le_n. Qed.
End Lossless.

(* ---------- soundness of the oracle for Parse observations ---------- *)
Lemma opt_eqb_eq a b : opt_eqb a b = true <-> a = b.
Proof.
  unfold opt_eqb. destruct a as [s1 u1 l1 a1], b as [s2 u2 l2 a2]; cbn. split.
  - intros H. apply andb_true_iff in H as [H H4]. apply andb_true_iff in H as [H H3].
    apply andb_true_iff in H as [H1 H2]. apply spec_eqb_eq in H1. apply Bool.eqb_prop in H2, H3.
    apply str_eqb_eq in H4. congruence.
  - intros H; inversion H; subst. rewrite str_eqb_refl, !Bool.eqb_reflx.
    rewrite (proj2 (spec_eqb_eq s2 s2) eq_refl). reflexivity.
Qed.

Lemma errkind_eqb_eq a b : errkind_eqb a b = true <-> a = b.
Proof. destruct a, b; cbn; split; intros; congruence. Qed.

(* what the property demands of a Parse observation, as a proposition: the
   argument list is the rendering of an item sequence (its reading under the
   conventions), and the observed options, non-options and error kinds are
   those items' *)
Definition Spec_C38_parse (cv : conv) (specs : list ospec) (args : list str)
  (opts : list opt) (non : list str) (errs : list errkind) : Prop :=
  exists items, render items = args /\ items = tokenize cv specs false args
    /\ opts = flat_map item_opts items /\ non = flat_map item_non items /\ errs = ref_errs items.

Lemma check_C38_sound cs specs args opts non errs :
  longs_no_eq specs = true ->
  check_C38 cs specs args (ObsParse opts non errs) = true ->
  Spec_C38_parse (conv_of cs) specs args opts non errs.
Proof.
  intros Hne. unfold check_C38. rewrite Hne. cbn [negb].
  intros H. apply andb_true_iff in H as [H H3]. apply andb_true_iff in H as [H1 H2].
  exists (tokenize (conv_of cs) specs false args). split; [apply render_tokenize|].
  split; [reflexivity|]. repeat split.
  - apply (list_eqb_spec opt_eqb opt_eqb_eq). exact H1.
  - apply (list_eqb_spec str_eqb str_eqb_eq). exact H2.
  - apply (list_eqb_spec errkind_eqb errkind_eqb_eq). exact H3.
Qed.
