(* C24 — proofs, part 2: sequence numbers, listings, nearest match, directory
   scores, oracle soundness. *)
From verif Require Import lib.Base model.C24_F64 model.C24_StoreSpec model.C24 proofs.C24_proofs.
From Coq Require Import Floats.SpecFloat Sorting.Sorted Sorting.Permutation.
Open Scope N_scope.

Lemma two63_lt_two64 : two63 < two64.
Proof. reflexivity. Qed.

Section Runs.
  Variable sortf : list dir -> list dir.

  Lemma spec_step_seq ss o :
    s_seq (fst (spec_step sortf ss o))
    = match o with OAddCmd _ => wrap64 (s_seq ss + 1) | _ => s_seq ss end.
  Proof. destruct o; try reflexivity. cbn [spec_step]. unfold sp_add_dir. destruct d; reflexivity. Qed.

  Lemma adds_spec h : forall ss, s_seq ss + N.of_nat (length h) < two63 ->
    Forall (fun z => (Z.of_N (s_seq ss) < z)%Z) (adds h (spec_run sortf ss h))
    /\ StronglySorted Z.lt (adds h (spec_run sortf ss h)).
  Proof.
    pose proof two63_lt_two64 as H64.
    induction h as [|o h IH]; intros ss Hb; [split; constructor|].
    cbn [length] in Hb. rewrite Nat2N.inj_succ in Hb.
    cbn [spec_run]. pose proof (spec_step_seq ss o) as Hs.
    destruct (spec_step sortf ss o) as [ss' r] eqn:E. cbn [fst] in Hs.
    destruct o;
      try (cbn [adds]; rewrite <- Hs; apply IH; rewrite Hs; lia).
    (* AddCmd *)
    cbn [spec_step] in E. unfold sp_add in E. injection E as _ Er. subst r.
    rewrite wrap64_small in * by lia.
    rewrite to_int_small by lia. cbn [adds].
    destruct (IH ss' ltac:(rewrite Hs; lia)) as [IH1 IH2]. rewrite Hs in IH1.
    assert (HF : Forall (Z.lt (Z.of_N (s_seq ss + 1))) (adds h (spec_run sortf ss' h))).
    { eapply Forall_impl; [|exact IH1]. cbn beta. intros; lia. }
    split.
    - constructor; [lia|]. eapply Forall_impl; [|exact IH1]. cbn beta. intros; lia.
    - constructor; assumption.
  Qed.

  Lemma seq_strictly_increasing seq0 h : seq0 + N.of_nat (length h) < two63 ->
    StronglySorted Z.lt (adds h (conc_run sortf (conc_init seq0) h)).
  Proof.
    intros Hb. pose proof two63_lt_two64. rewrite store_refines_spec by lia.
    apply (adds_spec h (spec_init seq0)). exact Hb.
  Qed.

  Lemma ssorted_lt_nodup (l : list Z) : StronglySorted Z.lt l -> NoDup l.
  Proof. induction 1 as [|a l Hs IH Hf]; constructor; [|assumption].
    intros Hin. rewrite Forall_forall in Hf. specialize (Hf a Hin). lia. Qed.

  Lemma seq_never_reused seq0 h : seq0 + N.of_nat (length h) < two63 ->
    NoDup (adds h (conc_run sortf (conc_init seq0) h)).
  Proof. intros Hb. apply ssorted_lt_nodup, seq_strictly_increasing, Hb. Qed.

  (* an allocated number is larger than every number still in the log: deleting
     commands never frees a number for reuse *)
  Lemma add_is_fresh seq0 h t : seq0 + N.of_nat (length h) + 1 < two64 ->
    let st := spec_exec sortf (spec_init seq0) h in
    forall c, In c (s_log st) -> fst c < s_seq (fst (sp_add st t)).
  Proof.
    intros Hb st c Hc.
    assert (Hwf0 : wf (spec_init seq0)) by (split; [exact I|intros x []|cbn; lia]).
    destruct (wf_exec sortf h (spec_init seq0) Hwf0 ltac:(cbn; lia)) as [Hwf Hle].
    fold st in Hwf, Hle. cbn [spec_init s_seq] in Hle.
    unfold sp_add. cbn [fst s_seq]. rewrite wrap64_small by lia.
    pose proof (wf_le _ Hwf c Hc). lia.
  Qed.

  (* ---- listings ---- *)
  Lemma asc_sorted l : asc l -> (forall c, In c l -> fst c < two63) ->
    StronglySorted Z.lt (map snd (map out_cmd l)).
  Proof.
    induction l as [|c l IH]; intros Ha Hb; cbn [map]; [constructor|].
    destruct Ha as [Ha1 Ha2]. constructor.
    - apply IH; [assumption|]. intros; apply Hb; right; assumption.
    - apply Forall_forall. intros z Hz. rewrite map_map in Hz.
      apply in_map_iff in Hz as [d [<- Hd]]. unfold out_cmd. cbn [snd].
      rewrite !to_int_small by (apply Hb; (left; reflexivity) || (right; assumption)).
      specialize (Ha1 d Hd). lia.
  Qed.

  Lemma step_res_sorted ss o : wf ss -> s_seq ss < two63 ->
    res_sorted (snd (spec_step sortf ss o)).
  Proof.
    intros Hwf Hb. destruct o; cbn [spec_step snd];
      unfold sp_add, sp_del, sp_get, sp_next, sp_prev, sp_next_seq, sp_add_dir, sp_del_dir, sp_dirs;
      cbn [snd]; try exact I;
      try (match goal with |- res_sorted (match ?x with _ => _ end) => destruct x; exact I end).
    - unfold sp_range, res_sorted.
      apply asc_sorted; [apply asc_filter, (wf_asc _ Hwf)|].
      intros c Hc. apply filter_In in Hc as [Hc _]. pose proof (wf_le _ Hwf c Hc). lia.
    - destruct d; exact I.
  Qed.

  Lemma run_res_sorted h : forall ss, wf ss -> s_seq ss + N.of_nat (length h) < two63 ->
    Forall res_sorted (spec_run sortf ss h).
  Proof.
    pose proof two63_lt_two64 as H64.
    induction h as [|o h IH]; intros ss Hwf Hb; [constructor|].
    cbn [length] in Hb. rewrite Nat2N.inj_succ in Hb. cbn [spec_run].
    pose proof (step_res_sorted ss o Hwf ltac:(lia)) as Hr.
    pose proof (spec_step_wf sortf ss o Hwf ltac:(lia)) as [Hwf' Hs].
    destruct (spec_step sortf ss o) as [ss' r]. cbn [fst snd] in *.
    constructor; [assumption|]. apply IH; [assumption|]. destruct Hs as [->| ->]; lia.
  Qed.

  Lemma listing_sorted seq0 h : seq0 + N.of_nat (length h) < two63 ->
    Forall res_sorted (conc_run sortf (conc_init seq0) h).
  Proof.
    intros Hb. pose proof two63_lt_two64. rewrite store_refines_spec by lia.
    apply run_res_sorted; [|exact Hb]. split; [exact I|intros x []|cbn; lia].
  Qed.
End Runs.

(* ---- nearest match ---- *)
Lemma find_first_asc f l c : asc l -> find f l = Some c ->
  forall d, In d l -> f d = true -> fst c <= fst d.
Proof.
  induction l as [|a l IH]; simpl; intros Ha E d Hd Hf; [contradiction|]. destruct Ha as [H1 H2].
  destruct (f a) eqn:Efa.
  - injection E as <-. destruct Hd as [<-|Hd]; [lia|specialize (H1 d Hd); lia].
  - destruct Hd as [<-|Hd]; [congruence|]. eapply IH; eassumption.
Qed.

Lemma find_last_asc f l c : asc l -> find f (rev l) = Some c ->
  forall d, In d l -> f d = true -> fst d <= fst c.
Proof.
  induction l as [|a l IH]; simpl; intros Ha E d Hd Hf; [contradiction|]. destruct Ha as [H1 H2].
  rewrite find_app in E. destruct (find f (rev l)) as [c0|] eqn:E1.
  - injection E as <-. destruct Hd as [<-|Hd]; [|eapply IH; eauto].
    apply find_some in E1 as [Hin _]. apply in_rev in Hin. specialize (H1 _ Hin). lia.
  - simpl in E. destruct (f a) eqn:Efa; [|discriminate]. injection E as <-.
    destruct Hd as [<-|Hd]; [lia|].
    pose proof (find_none _ _ E1 d) as Hn. rewrite <- in_rev in Hn. rewrite (Hn Hd) in Hf. discriminate.
Qed.

Lemma next_is_least ss from p : asc (s_log ss) ->
  match sp_next ss from p with
  | RCmd t z => exists c, In c (s_log ss) /\ snd c = t /\ to_int (fst c) = z
      /\ u64 from <= fst c /\ has_prefix p t = true
      /\ forall d, In d (s_log ss) -> u64 from <= fst d -> has_prefix p (snd d) = true -> fst c <= fst d
  | RNoMatch => forall d, In d (s_log ss) -> u64 from <= fst d -> has_prefix p (snd d) = false
  | _ => False
  end.
Proof.
  intros Ha. unfold sp_next.
  match goal with |- context [find ?f ?l] => destruct (find f l) as [c|] eqn:E end.
  - cbv beta iota. pose proof (find_some _ _ E) as [Hin Hm]. apply filter_In in Hin as [Hin Hge].
    apply N.leb_le in Hge. exists c. repeat split; try assumption.
    intros d Hd Hge' Hm'.
    apply (find_first_asc _ _ _ (asc_filter _ _ Ha) E d); [|exact Hm'].
    apply filter_In. split; [assumption|apply N.leb_le; assumption].
  - cbv beta iota. intros d Hd Hge. apply (find_none _ _ E d). apply filter_In. split; [assumption|apply N.leb_le; assumption].
Qed.

Lemma prev_is_greatest ss upto p : asc (s_log ss) ->
  match sp_prev ss upto p with
  | RCmd t z => exists c, In c (s_log ss) /\ snd c = t /\ to_int (fst c) = z
      /\ fst c < u64 upto /\ has_prefix p t = true
      /\ forall d, In d (s_log ss) -> fst d < u64 upto -> has_prefix p (snd d) = true -> fst d <= fst c
  | RNoMatch => forall d, In d (s_log ss) -> fst d < u64 upto -> has_prefix p (snd d) = false
  | _ => False
  end.
Proof.
  intros Ha. unfold sp_prev.
  match goal with |- context [find ?f ?l] => destruct (find f l) as [c|] eqn:E end.
  - cbv beta iota. pose proof (find_some _ _ E) as [Hin Hm]. apply in_rev in Hin. apply filter_In in Hin as [Hin Hlt].
    apply N.ltb_lt in Hlt. exists c. repeat split; try assumption.
    intros d Hd Hlt' Hm'.
    apply (find_last_asc _ _ _ (asc_filter _ _ Ha) E d); [|exact Hm'].
    apply filter_In. split; [assumption|apply N.ltb_lt; assumption].
  - cbv beta iota. intros d Hd Hlt. apply (find_none _ _ E d). apply in_rev. rewrite rev_involutive.
    apply filter_In. split; [assumption|apply N.ltb_lt; assumption].
Qed.

Lemma reachable_asc sortf seq0 h : seq0 + N.of_nat (length h) < two64 ->
  asc (s_log (spec_exec sortf (spec_init seq0) h)).
Proof.
  intros Hb. assert (Hwf0 : wf (spec_init seq0)) by (split; [exact I|intros x []|cbn; lia]).
  destruct (wf_exec sortf h (spec_init seq0) Hwf0 Hb) as [Hwf _]. apply (wf_asc _ Hwf).
Qed.

(* ---- directory scores ---- *)
Lemma adddir_scores ss d f : d <> [] ->
  let ss' := fst (sp_add_dir ss d f) in
  (forall k, k <> d -> m_get k (s_dirs ss') = option_map q_decay (m_get k (s_dirs ss)))
  /\ m_get d (s_dirs ss')
     = Some (q_inc (match m_get d (s_dirs ss) with Some s => q_decay s | None => S754_zero false end) f).
Proof.
  intros Hd. unfold sp_add_dir. destruct d as [|d0 d]; [contradiction|]. cbn [fst s_dirs].
  change (decay_all (s_dirs ss)) with (mapv q_decay (s_dirs ss)). split.
  - intros k Hk. rewrite m_get_put_other by assumption. apply m_get_mapv.
  - rewrite m_get_put_same, m_get_mapv. destruct (m_get (d0 :: d) (s_dirs ss)); reflexivity.
Qed.

Lemma dirs_listing sortf ss bl : sort_contract sortf ->
  exists l, sp_dirs sortf ss bl = RDirs l /\ DescSorted l
    /\ Permutation l (filter (fun e => negb (mem_bytes (fst e) bl)) (s_dirs ss))
    /\ (forall e, In e l -> mem_bytes (fst e) bl = false).
Proof.
  intros Hc. unfold sp_dirs. eexists. split; [reflexivity|].
  destruct (Hc (filter (fun e => negb (mem_bytes (fst e) bl)) (s_dirs ss))) as [Hp Hs].
  split; [assumption|]. split; [assumption|].
  intros e He. apply (Permutation_in _ Hp) in He. apply filter_In in He as [_ He].
  apply negb_true_iff in He. assumption.
Qed.

(* ---- oracle soundness ---- *)
Lemma f64_eqb_eq a b : f64_eqb a b = true -> a = b.
Proof.
  destruct a, b; cbn; intros H; try discriminate; try reflexivity;
    try (apply Bool.eqb_prop in H; subst; reflexivity).
  apply andb_true_iff in H as [H H3]. apply andb_true_iff in H as [H1 H2].
  apply Bool.eqb_prop in H1. apply Pos.eqb_eq in H2. apply Z.eqb_eq in H3. subst. reflexivity.
Qed.

Lemma dir_eqb_eq a b : dir_eqb a b = true -> a = b.
Proof. destruct a, b. unfold dir_eqb. cbn [fst snd]. intros H. apply andb_true_iff in H as [H1 H2].
  apply bytes_eqb_spec in H1. apply f64_eqb_eq in H2. subst. reflexivity. Qed.

Lemma remove1_perm x l l' : remove1 x l = Some l' -> Permutation l (x :: l').
Proof.
  revert l'. induction l as [|y l IH]; cbn; intros l' H; [discriminate|].
  destruct (dir_eqb x y) eqn:E.
  - injection H as <-. apply dir_eqb_eq in E. subst. apply Permutation_refl.
  - destruct (remove1 x l) as [r|]; [|discriminate]. injection H as <-.
    eapply Permutation_trans; [apply perm_skip, IH; reflexivity|apply perm_swap].
Qed.

Lemma permb_perm a : forall b, permb a b = true -> Permutation a b.
Proof.
  induction a as [|x a IH]; intros b H; cbn in H.
  - destruct b; [constructor|discriminate].
  - destruct (remove1 x b) as [b'|] eqn:E; [|discriminate].
    apply Permutation_sym. eapply Permutation_trans; [apply remove1_perm; eassumption|].
    apply perm_skip, Permutation_sym, IH. assumption.
Qed.

Lemma desc_sortedb_sound l : desc_sortedb l = true -> DescSorted l.
Proof.
  induction l as [|a l IH]; cbn; intros H; [constructor|].
  apply andb_true_iff in H as [H1 H2]. constructor; [apply IH; assumption|].
  apply Forall_forall. intros b Hb. rewrite forallb_forall in H1. specialize (H1 b Hb).
  apply negb_true_iff in H1. assumption.
Qed.

Lemma cmdout_eqb_spec a b : cmdout_eqb a b = true <-> a = b.
Proof. destruct a, b. unfold cmdout_eqb. cbn [fst snd]. rewrite andb_true_iff, bytes_eqb_spec, Z.eqb_eq.
  split; [intros [-> ->]; reflexivity|intros H; injection H; auto]. Qed.

Lemma res_match_sound e o : res_match e o = true -> res_ok e o.
Proof.
  destruct e, o; cbn; intros H; try discriminate; try reflexivity.
  - apply Z.eqb_eq in H. subst. reflexivity.
  - apply bytes_eqb_spec in H. subst. reflexivity.
  - apply andb_true_iff in H as [H1 H2]. apply bytes_eqb_spec in H1. apply Z.eqb_eq in H2. subst. reflexivity.
  - apply (list_eqb_spec _ cmdout_eqb_spec) in H. subst. reflexivity.
  - apply andb_true_iff in H as [H1 H2]. split; [apply permb_perm|apply desc_sortedb_sound]; assumption.
Qed.

Lemma check_hist_sound h : forall st, check_hist st h = true ->
  Forall2 res_ok (spec_run isort_desc st (map fst h)) (map snd h).
Proof.
  induction h as [|[o r] h IH]; intros st H; cbn [map spec_run]; [constructor|].
  cbn [check_hist fst snd] in *. destruct (spec_step isort_desc st o) as [st' e].
  apply andb_true_iff in H as [H1 H2]. constructor; [apply res_match_sound; assumption|apply IH; assumption].
Qed.

Lemma check_C24_sound seq0 h : check_C24 seq0 h = true ->
  Forall2 res_ok (spec_run isort_desc (spec_init seq0) (map fst h)) (map snd h).
Proof. unfold check_C24. intros H. apply andb_true_iff in H as [H _]. apply check_hist_sound. assumption. Qed.
