(* C33 — proofs about the model of pkg/ui styled text. *)
From verif Require Import lib.Base lib.Utf8 model.C34_width model.C33.
Open Scope Z_scope.

(* ------------------------------------------------------------------ *)
(* style equality is decidable equality *)

Lemma color_eqb_spec (a b : color) : color_eqb a b = true <-> a = b.
Proof.
  destruct a as [a1 a2], b as [b1 b2]; unfold color_eqb; cbn [fst snd].
  rewrite andb_true_iff, !N.eqb_eq. split; [intros [-> ->]; reflexivity | intros E; inversion E; auto].
Qed.

Lemma ocolor_eqb_spec (a b : option color) : option_eqb color_eqb a b = true <-> a = b.
Proof.
  destruct a as [a|], b as [b|]; cbn [option_eqb]; try (split; [discriminate | discriminate]);
    try (split; reflexivity).
  rewrite color_eqb_spec. split; [intros ->; reflexivity | intros E; inversion E; reflexivity].
Qed.

Lemma booleqb_spec (a b : bool) : Bool.eqb a b = true <-> a = b.
Proof. split; [apply eqb_prop | intros ->; apply eqb_reflx]. Qed.

Lemma style_eqb_spec (a b : style) : style_eqb a b = true <-> a = b.
Proof.
  destruct a, b; unfold style_eqb; cbn.
  rewrite !andb_true_iff, !ocolor_eqb_spec, !booleqb_spec.
  split.
  - intros [[[[[[[-> ->] ->] ->] ->] ->] ->] ->]. reflexivity.
  - intros E; inversion E; subst. repeat split.
Qed.

Lemma style_eqb_refl a : style_eqb a a = true.
Proof. apply style_eqb_spec; reflexivity. Qed.

Lemma style_eqb_false (a b : style) : style_eqb a b = false <-> a <> b.
Proof.
  split.
  - intros E H. apply style_eqb_spec in H. congruence.
  - intros H. destruct (style_eqb a b) eqn:E; [apply style_eqb_spec in E; contradiction | reflexivity].
Qed.

(* ------------------------------------------------------------------ *)
(* the normal form as a proposition *)

Fixpoint Normal (t : text) : Prop :=
  match t with
  | [] => True
  | (s, x) :: r =>
    x <> [] /\ match r with [] => True | (s', _) :: _ => s <> s' end /\ Normal r
  end.

Lemma is_nil_false {A} (l : list A) : is_nil l = false <-> l <> [].
Proof. destruct l; cbn; split; congruence. Qed.
Lemma is_nil_true {A} (l : list A) : is_nil l = true <-> l = [].
Proof. destruct l; cbn; split; congruence. Qed.

Lemma normalb_spec t : normalb t = true <-> Normal t.
Proof.
  induction t as [|[s x] r IH]; cbn [normalb Normal]; [tauto|].
  rewrite !andb_true_iff, negb_true_iff, is_nil_false, IH.
  destruct r as [|[s' x'] r']; [tauto|].
  rewrite negb_true_iff, style_eqb_false. tauto.
Qed.

(* head style of a text, None when empty *)
Definition hd_style (t : text) : option style := match t with [] => None | (s, _) :: _ => Some s end.
Definition last_style (t : text) : option style :=
  match t with [] => None | _ => Some (fst (last_seg t)) end.

Lemma Normal_cons s x r :
  Normal ((s, x) :: r) <-> x <> [] /\ hd_style r <> Some s /\ Normal r.
Proof.
  cbn [Normal]. destruct r as [|[s' x'] r']; cbn [hd_style].
  - split; intros H; repeat split; try tauto; congruence.
  - split; intros (H1 & H2 & H3); (split; [exact H1 | split; [| exact H3]]);
      intros E; apply H2; congruence.
Qed.

Lemma last_seg_cons sg t : t <> [] -> last_seg (sg :: t) = last_seg t.
Proof. unfold last_seg. destruct t; [congruence | reflexivity]. Qed.

Lemma Normal_app a b :
  Normal (a ++ b) <->
  Normal a /\ Normal b /\ (a <> [] -> b <> [] -> last_style a <> hd_style b).
Proof.
  induction a as [|[s x] r IH].
  - cbn. split; [intros H; repeat split; auto; congruence | tauto].
  - rewrite <- app_comm_cons, !Normal_cons, IH.
    destruct r as [|[s' x'] r'].
    + destruct b as [|[sb xb] b'].
      * cbn. split; [intros (Hx & Hh & _); repeat split; auto; congruence
                    | intros ((Hx & _) & _); repeat split; auto; congruence].
      * cbn [app hd_style last_style last_seg last fst Normal].
        split.
        -- intros (Hx & Hh & _ & Hb & _).
           split; [split; [exact Hx | split; [congruence | exact I]]|].
           split; [exact Hb|]. intros _ _ E. apply Hh. congruence.
        -- intros ((Hx & _ & _) & Hb & Hl).
           split; [exact Hx|]. split; [intros E; apply Hl; congruence|].
           split; [exact I|]. split; [exact Hb|]. intros C; congruence.
    + assert (Hl : last_style ((s, x) :: (s', x') :: r') = last_style ((s', x') :: r')).
      { unfold last_style. rewrite last_seg_cons by congruence. reflexivity. }
      cbn [app hd_style].
      assert (N1 : (s, x) :: (s', x') :: r' <> []) by congruence.
      assert (N2 : (s', x') :: r' <> []) by congruence.
      assert (Hl' : last_style ((s, x) :: (s', x') :: r') <> hd_style b <->
                    last_style ((s', x') :: r') <> hd_style b).
      { split; intros H E; apply H; (etransitivity; [|exact E]); [symmetry|]; exact Hl. }
      tauto.
Qed.

Lemma Normal_single s x : Normal [(s, x)] <-> x <> [].
Proof. cbn. tauto. Qed.

Lemma last_style_snoc a sg : last_style (a ++ [sg]) = Some (fst sg).
Proof.
  unfold last_style, last_seg. destruct (a ++ [sg]) eqn:E.
  - destruct a; discriminate.
  - rewrite <- E, last_last. reflexivity.
Qed.

Lemma removelast_last_seg t : t <> [] -> removelast t ++ [last_seg t] = t.
Proof. intros H. symmetry. apply app_removelast_last. exact H. Qed.

Lemma Normal_last_nonempty t : Normal t -> t <> [] -> snd (last_seg t) <> [].
Proof.
  intros Hn Hne. rewrite <- (removelast_last_seg t Hne) in Hn.
  apply Normal_app in Hn. destruct Hn as (_ & Hl & _).
  destruct (last_seg t) as [s x]. cbn in *. tauto.
Qed.

(* ------------------------------------------------------------------ *)
(* content *)

Lemma content_app a b : content (a ++ b) = content a ++ content b.
Proof. unfold content. apply flat_map_app. Qed.

Lemma content_result tb : content (b_result tb) = content (b_segs tb) ++ b_text tb.
Proof.
  unfold b_result, b_is_empty.
  destruct (b_segs tb) eqn:E1; destruct (b_text tb) eqn:E2; cbn [is_nil andb];
    rewrite ?content_app; cbn; rewrite ?app_nil_r; reflexivity.
Qed.

Lemma content_write_text tb t :
  content (b_result (write_text tb t)) = content (b_result tb) ++ content t.
Proof.
  rewrite !content_result. unfold write_text.
  destruct t as [|[s0 x0] t1]; [cbn; rewrite app_nil_r; reflexivity|].
  set (tb1 := if style_eqb (b_style tb) s0 then _ else tb).
  set (t' := if style_eqb (b_style tb) s0 then t1 else _).
  assert (H1 : content (b_segs tb1) ++ b_text tb1 ++ content t'
               = content (b_segs tb) ++ b_text tb ++ content ((s0, x0) :: t1)).
  { subst tb1 t'. destruct (style_eqb (b_style tb) s0); cbn [b_segs b_text content flat_map snd];
      rewrite <- ?app_assoc; reflexivity. }
  transitivity (content (b_segs tb1) ++ b_text tb1 ++ content t');
    [| etransitivity; [exact H1 | apply app_assoc]].
  clear H1.
  destruct t' as [|sg t''] eqn:Et; [cbn; rewrite app_nil_r; reflexivity|].
  cbn [b_segs b_text]. rewrite <- Et.
  assert (Hne : t' <> []) by (rewrite Et; congruence).
  rewrite content_app.
  assert (Hs : content (if is_nil (b_text tb1) then b_segs tb1 else b_segs tb1 ++ [(b_style tb1, b_text tb1)])
               = content (b_segs tb1) ++ b_text tb1).
  { destruct (b_text tb1); cbn [is_nil]; [rewrite app_nil_r; reflexivity|].
    rewrite content_app. cbn. rewrite app_nil_r. reflexivity. }
  rewrite Hs, <- !app_assoc. do 2 f_equal.
  rewrite <- (removelast_last_seg t' Hne) at 3. rewrite content_app. cbn. rewrite app_nil_r. reflexivity.
Qed.

(* ------------------------------------------------------------------ *)
(* the builder invariant *)

Definition BInv (tb : builder) : Prop :=
  Normal (b_result tb) /\ (b_text tb = [] -> b_segs tb = []).

Lemma BInv_empty : BInv b_empty.
Proof. split; cbn; auto. Qed.

Lemma b_result_nonempty tb : b_text tb <> [] -> b_result tb = b_segs tb ++ [(b_style tb, b_text tb)].
Proof.
  intros H. unfold b_result, b_is_empty. destruct (b_text tb); [congruence|].
  cbn [is_nil]. rewrite andb_false_r. reflexivity.
Qed.

Lemma b_result_empty tb : b_text tb = [] -> b_segs tb = [] -> b_result tb = [].
Proof. intros H1 H2. unfold b_result, b_is_empty. rewrite H1, H2. reflexivity. Qed.

(* replacing the text of the last segment by another non-empty text keeps the normal form *)
Lemma Normal_snoc_retext a s x y : y <> [] -> Normal (a ++ [(s, x)]) -> Normal (a ++ [(s, y)]).
Proof.
  intros Hy H. apply Normal_app in H. destruct H as (Ha & _ & Hl).
  apply Normal_app. split; [exact Ha|]. split; [cbn; auto|].
  cbn [hd_style] in *. intros Hne _. apply Hl; [exact Hne | congruence].
Qed.

Lemma write_text_inv tb t : BInv tb -> Normal t -> BInv (write_text tb t).
Proof.
  intros [Hn Hz] Ht. unfold write_text.
  destruct t as [|[s0 x0] t1]; [split; assumption|].
  apply Normal_cons in Ht. destruct Ht as (Hx0 & Hhd & Ht1).
  destruct (style_eqb (b_style tb) s0) eqn:Em.
  - (* merged *)
    apply style_eqb_spec in Em.
    assert (Hne : b_text tb ++ x0 <> []) by (destruct (b_text tb); cbn; congruence).
    assert (Hpre : Normal (b_segs tb ++ [(s0, b_text tb ++ x0)])).
    { destruct (b_text tb) as [|c tx] eqn:Etx.
      - rewrite (Hz eq_refl). cbn. auto.
      - rewrite b_result_nonempty in Hn by congruence. rewrite Etx, Em in Hn.
        eapply Normal_snoc_retext; [|exact Hn]. cbn; congruence. }
    destruct t1 as [|sg t1'] eqn:Et1.
    + split.
      * rewrite b_result_nonempty by (cbn; exact Hne). cbn [b_segs b_style b_text]. rewrite Em. exact Hpre.
      * cbn [b_text]. intros E. contradiction.
    + rewrite <- Et1 in *. assert (Ht1ne : t1 <> []) by (rewrite Et1; congruence).
      cbn [b_segs b_style b_text].
      destruct (is_nil (b_text tb ++ x0)) eqn:En; [apply is_nil_true in En; contradiction|].
      split.
      * rewrite b_result_nonempty by (cbn [b_text]; apply Normal_last_nonempty; assumption).
        cbn [b_segs b_style b_text]. rewrite <- surjective_pairing, <- app_assoc, removelast_last_seg by assumption.
        rewrite Em. apply Normal_app. split; [exact Hpre|]. split; [exact Ht1|].
        intros _ _. rewrite last_style_snoc. cbn [fst]. congruence.
      * cbn [b_text]. intros E. exfalso. revert E. apply Normal_last_nonempty; assumption.
  - (* not merged *)
    apply style_eqb_false in Em.
    set (t := (s0, x0) :: t1). assert (Htn : Normal t) by (apply Normal_cons; auto).
    assert (Htne : t <> []) by (unfold t; congruence).
    assert (Hs1 : (if is_nil (b_text tb) then b_segs tb else b_segs tb ++ [(b_style tb, b_text tb)]) = b_result tb).
    { destruct (b_text tb) eqn:Etx; cbn [is_nil].
      - rewrite (Hz eq_refl). symmetry. apply b_result_empty; auto.
      - symmetry. rewrite b_result_nonempty by congruence. rewrite Etx. reflexivity. }
    rewrite Hs1. split.
    + rewrite b_result_nonempty by (cbn [b_text]; apply Normal_last_nonempty; assumption).
      cbn [b_segs b_style b_text]. rewrite <- surjective_pairing, <- app_assoc, removelast_last_seg by assumption.
      apply Normal_app. split; [exact Hn|]. split; [exact Htn|].
      intros Hrne _. unfold t; cbn [hd_style].
      destruct (b_text tb) eqn:Etx.
      * exfalso. apply Hrne. apply b_result_empty; auto.
      * rewrite b_result_nonempty by congruence. rewrite last_style_snoc. cbn [fst]. congruence.
    + cbn [b_text]. intros E. exfalso. revert E. apply Normal_last_nonempty; assumption.
Qed.

(* builder_normal: ui.Concat of normal texts is normal and has the concatenated content *)
Lemma fold_write_inv ts : forall tb, BInv tb -> Forall Normal ts -> BInv (fold_left write_text ts tb).
Proof.
  induction ts as [|t ts IH]; intros tb Hb Hf; cbn [fold_left]; [assumption|].
  inversion Hf; subst. apply IH; [apply write_text_inv|]; assumption.
Qed.

Lemma fold_write_content ts : forall tb,
  content (b_result (fold_left write_text ts tb)) = content (b_result tb) ++ flat_map content ts.
Proof.
  induction ts as [|t ts IH]; intros tb; cbn [fold_left flat_map]; [rewrite app_nil_r; reflexivity|].
  rewrite IH, content_write_text, app_assoc. reflexivity.
Qed.

Lemma builder_normal ts :
  Forall Normal ts ->
  Normal (concat_texts ts) /\ content (concat_texts ts) = flat_map content ts.
Proof.
  intros Hf. unfold concat_texts. split.
  - apply (fold_write_inv ts b_empty BInv_empty Hf).
  - rewrite fold_write_content. reflexivity.
Qed.
