(* C18 — determinism of read-to-end pipelines (Kahn-style): when every stage
   has the shape  sends ; each {forward a filter} ; sends  then what each stage
   receives and writes on each band is a function of the pipeline alone —
   the same under every schedule and every capacity. *)
From verif Require Import lib.Base lib.C18_Lts model.C18 proofs.C18_lts_proofs proofs.C18_proofs.
From Coq Require Import Arith PeanoNat.
Open Scope nat_scope.

Definition ev_sent (bx : band * N) : ev := ESent (fst bx) (snd bx).

Lemma sents_map_sent b l : sents b (map ev_sent l) = proj_band b l.
Proof.
  induction l as [|[c x] l IH]; simpl; [reflexivity|].
  destruct (band_eqb c b); simpl; rewrite IH; reflexivity.
Qed.

Lemma gots_map_sent b l : gots b (map ev_sent l) = [].
Proof. induction l as [|[c x] l IH]; simpl; auto. Qed.

Lemma has_gone_cons_false e h : has_gone (e :: h) = false -> has_gone h = false.
Proof. destruct e; simpl; auto. discriminate. Qed.

Notation rl := (run_local lstate want cont).

(* phase 1 / 3: a run of sends *)
Lemma seq_sends pre : forall rest h l e,
  rl (LRun (map send_of pre ++ rest)) h = Some l -> want l = WExit e -> has_gone h = false ->
  exists h2, h = map ev_sent pre ++ h2 /\ rl (LRun rest) h2 = Some l.
Proof.
  induction pre as [|[b x] pre IH]; intros rest h l e R W G; simpl in *.
  - exists h. auto.
  - destruct h as [|ev h].
    + simpl in R. inversion R; subst l. simpl in W. discriminate.
    + simpl in R. destruct ev as [c y|c y|c y|sl]; simpl in R; try discriminate.
      * destruct (band_eqb b c && N.eqb x y) eqn:M; [|discriminate].
        apply andb_true_iff in M as [M1 M2]. apply band_eqb_eq in M1. apply N.eqb_eq in M2. subst c y.
        simpl in G. destruct (IH rest h l e R W G) as [h2 [-> R2]].
        exists h2. split; auto.
Qed.

Definition pendl (b : band) (pend : option (band * N)) : list N :=
  match pend with
  | Some (c, x) => if band_eqb c b then [x] else []
  | None => []
  end.

(* phase 2: the drain loop *)
Lemma drain_phase f rest : forall h pend l e,
  rl (LDrain f None pend None rest) h = Some l -> want l = WExit e -> has_gone h = false ->
  exists h1 h2, h = h1 ++ EEof Any :: h2 /\ rl (LRun rest) h2 = Some l /\
    forall b, sents b h1 = pendl b pend ++ filter (keep f) (gots b h1).
Proof.
  induction h as [|ev h IH]; intros pend l e R W G.
  - simpl in R. inversion R; subst l. destruct pend as [[? ?]|]; simpl in W; discriminate.
  - destruct pend as [[c x]|].
    + (* forwarding the kept item *)
      simpl in R. destruct ev as [c' y|c' y|c' y|sl]; simpl in R; try discriminate.
      * destruct (band_eqb c c' && N.eqb x y) eqn:M; [|discriminate].
        apply andb_true_iff in M as [M1 M2]. apply band_eqb_eq in M1. apply N.eqb_eq in M2. subst c' y.
        simpl in G. destruct (IH None l e R W G) as [h1 [h2 [-> [R2 S]]]].
        exists (ESent c x :: h1), h2. split; [reflexivity|]. split; [exact R2|].
        intros b. simpl. specialize (S b). simpl in S.
        destruct (band_eqb c b); simpl; rewrite S; reflexivity.
    + simpl in R. destruct ev as [c' y|c' y|c' y|sl]; simpl in R; try discriminate.
      * (* an item arrives *)
        simpl in G.
        destruct (keep f y) eqn:K.
        -- destruct (IH (Some (c', y)) l e R W G) as [h1 [h2 [-> [R2 S]]]].
           exists (EGot c' y :: h1), h2. split; [reflexivity|]. split; [exact R2|].
           intros b. simpl. specialize (S b). simpl in S.
           destruct (band_eqb c' b); simpl; [rewrite K|]; exact S.
        -- destruct (IH None l e R W G) as [h1 [h2 [-> [R2 S]]]].
           exists (EGot c' y :: h1), h2. split; [reflexivity|]. split; [exact R2|].
           intros b. simpl. specialize (S b). simpl in S.
           destruct (band_eqb c' b); simpl; [rewrite K|]; exact S.
      * (* end of input *)
        destruct sl as [c'|]; simpl in R; [discriminate|].
        exists [], h. split; [reflexivity|]. split; [exact R|]. intros b. reflexivity.
Qed.

Lemma run_nil_exit h l : rl (LRun []) h = Some l -> h = [] /\ l = LRun [].
Proof. destruct h as [|ev h]; simpl; intros H; [inversion H; auto|discriminate]. Qed.

(* a whole read-to-end stage *)
Lemma det_stage_final pre f post h l e :
  rl (LRun (det_prog (pre, f, post))) h = Some l -> want l = WExit e -> has_gone h = false ->
  e = None /\ forall b, eof_on b h = true /\ sents b h = out_band (pre, f, post) b (gots b h).
Proof.
  unfold det_prog. simpl. intros R W G.
  destruct (seq_sends pre _ h l e R W G) as [hA [-> RA]].
  rewrite has_gone_app in G. apply orb_false_iff in G as [_ GA].
  (* the drain instruction starts the loop *)
  assert (rl (LDrain f None None None (map send_of post)) hA = Some l) as RD.
  { destruct hA as [|ev hA]; simpl in *.
    - inversion RA; subst l. simpl in W. discriminate.
    - exact RA. }
  destruct (drain_phase f _ hA None l e RD W GA) as [h1 [h2 [-> [R2 S]]]].
  rewrite has_gone_app in GA. apply orb_false_iff in GA as [_ G2]. simpl in G2.
  rewrite <- (app_nil_r (map send_of post)) in R2.
  destruct (seq_sends post [] h2 l e R2 W G2) as [h3 [-> R3]].
  apply run_nil_exit in R3 as [-> ->]. simpl in W. inversion W; subst e.
  split; [reflexivity|]. intros b. split.
  - rewrite !eof_on_app. simpl. rewrite !orb_true_r. reflexivity.
  - unfold out_band. simpl.
    rewrite !sents_app, !gots_app. simpl. rewrite !sents_app, !gots_app.
    rewrite !sents_map_sent, !gots_map_sent. simpl. rewrite !app_nil_r.
    rewrite (S b). simpl. reflexivity.
Qed.

Lemma has_got_false_gots b h : has_got h = false -> gots b h = [].
Proof.
  induction h as [|ev h IH]; simpl; auto. destruct ev; auto. discriminate.
Qed.

Section Det.
  Variable dp : list dstage.
  Variable capB : nat.
  Hypothesis capB_pos : 1 <= capB.
  Let p := det_pipeline dp.
  Variable s : pstate.
  Hypothesis R : preachable p capB s.
  Hypothesis D : pdone p s.

  Let n := length p.
  Let I := reachable_inv lstate want cont n (caps capB) (init p) s R.

  Lemma n_len : n = length dp.
  Proof. unfold n, p, det_pipeline. apply map_length. Qed.

  Lemma init_det k : k < n -> init p k = LRun (det_prog (nth k dp ([], FAll, []))).
  Proof.
    intros Hk. unfold init, p, det_pipeline.
    rewrite (nth_indep _ [] (det_prog ([], FAll, []))) by (rewrite map_length, <- n_len; exact Hk).
    rewrite map_nth. reflexivity.
  Qed.

  Lemma stage_final k : k < n -> has_gone (hist (stg s k)) = false ->
    fin (stg s k) = Some None /\
    forall b, eof_on b (hist (stg s k)) = true /\
      sents b (hist (stg s k)) = out_band (nth k dp ([], FAll, [])) b (gots b (hist (stg s k))).
  Proof.
    intros Hk G.
    pose proof (I_local _ _ _ _ _ _ _ I k) as Rl. rewrite (init_det k Hk) in Rl.
    destruct (fin (stg s k)) as [e|] eqn:Ef; [|exfalso; apply (D k Hk); exact Ef].
    pose proof (I_exit _ _ _ _ _ _ _ I k e Ef) as W.
    destruct (nth k dp ([], FAll, [])) as [[pre f] post] eqn:En.
    destruct (det_stage_final pre f post _ _ e Rl W G) as [-> H]. split; auto.
  Qed.

  (* nobody is ever told "reader gone": induction from the last stage down *)
  Lemma no_gone : forall d k, k + d = n - 1 -> k < n -> has_gone (hist (stg s k)) = false.
  Proof.
    induction d as [|d IH]; intros k Hd Hk.
    - destruct (has_gone (hist (stg s k))) eqn:G; [|reflexivity].
      destruct (I_gone _ _ _ _ _ _ _ I k G) as [_ Hl].
      unfold is_last in Hl. apply Nat.eqb_neq in Hl. fold n in Hl. lia.
    - destruct (has_gone (hist (stg s k))) eqn:G; [|reflexivity].
      assert (S k < n) as Hk' by lia.
      assert (has_gone (hist (stg s (S k))) = false) as G' by (apply IH; lia).
      destruct (stage_final (S k) Hk' G') as [_ H].
      pose proof (I_gone_eof _ _ _ _ _ _ _ I k G) as E.
      unfold has_eof in E. destruct (H V) as [E1 _]. rewrite E1 in E. discriminate.
  Qed.

  Lemma no_gone_all k : k < n -> has_gone (hist (stg s k)) = false.
  Proof. intros Hk. apply (no_gone (n - 1 - k)); lia. Qed.

  Theorem det_flow : forall k, k < n ->
    fin (stg s k) = Some None /\
    forall b, gots b (hist (stg s k)) = flow_in dp k b /\
              sents b (hist (stg s k)) = flow_out dp k b.
  Proof.
    induction k as [|k IH]; intros Hk.
    - destruct (stage_final 0 Hk (no_gone_all 0 Hk)) as [F H]. split; auto.
      intros b. destruct (H b) as [_ Sb].
      assert (gots b (hist (stg s 0)) = []) as G0
        by (apply has_got_false_gots; apply (I_first _ _ _ _ _ _ _ I)).
      split; [exact G0|]. rewrite Sb, G0. reflexivity.
    - destruct (IH ltac:(lia)) as [_ IHb].
      destruct (stage_final (S k) Hk (no_gone_all (S k) Hk)) as [F H]. split; auto.
      intros b. destruct (H b) as [Eb Sb].
      assert (gots b (hist (stg s (S k))) = sents b (hist (stg s k))) as Gk.
      { destruct (I_eof _ _ _ _ _ _ _ I k b Eb) as [_ Hb].
        rewrite (I_fifo _ _ _ _ _ _ _ I k b Hk), Hb, app_nil_r. reflexivity. }
      destruct (IHb b) as [_ Sk].
      split.
      + rewrite Gk, Sk. reflexivity.
      + rewrite Sb, Gk, Sk. reflexivity.
  Qed.
End Det.

(* two finished runs of the same read-to-end pipeline — any schedules, any
   byte-pipe capacities — agree on everything every stage received and wrote,
   and no stage ends with an exception *)
Theorem deterministic_when_read_to_end dp capB1 capB2 s1 s2 :
  1 <= capB1 -> 1 <= capB2 ->
  preachable (det_pipeline dp) capB1 s1 -> pdone (det_pipeline dp) s1 ->
  preachable (det_pipeline dp) capB2 s2 -> pdone (det_pipeline dp) s2 ->
  forall k, k < length dp ->
    fin (stg s1 k) = Some None /\ fin (stg s2 k) = Some None /\
    forall b, gots b (hist (stg s1 k)) = gots b (hist (stg s2 k)) /\
              sents b (hist (stg s1 k)) = sents b (hist (stg s2 k)).
Proof.
  intros C1 C2 R1 D1 R2 D2 k Hk.
  assert (k < length (det_pipeline dp)) as Hk' by (unfold det_pipeline; rewrite map_length; exact Hk).
  destruct (det_flow dp capB1 C1 s1 R1 D1 k Hk') as [F1 H1].
  destruct (det_flow dp capB2 C2 s2 R2 D2 k Hk') as [F2 H2].
  split; auto. split; auto. intros b.
  destruct (H1 b) as [A1 B1]. destruct (H2 b) as [A2 B2]. split; congruence.
Qed.
