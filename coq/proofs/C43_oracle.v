(* C43 — the oracle evaluated on the observations means what the property says *)
From verif Require Import lib.Base lib.Utf8 model.C03 proofs.C03_proofs model.C43 proofs.C43_proofs.
Open Scope N_scope.

Lemma eobs_eqb_true a b : eobs_eqb a b = true -> a = b.
Proof.
  destruct a, b; cbn; intros H; try discriminate; try reflexivity.
  apply bytes_eqb_spec in H. congruence.
Qed.

Lemma ptype_eqb_true a b : ptype_eqb a b = true -> a = b.
Proof. destruct a, b; cbn; intros H; try discriminate; reflexivity. Qed.

Lemma mem_bytes_spec x l : mem_bytes x l = true <-> In x l.
Proof.
  induction l as [|y l IH]; cbn; [split; [discriminate|intros []]|].
  rewrite orb_true_iff, IH, bytes_eqb_spec. split; intros [H|H]; auto.
Qed.

Lemma subset_bytes_spec a b : subset_bytes a b = true -> forall x, In x a -> In x b.
Proof.
  unfold subset_bytes. intros H x Hx. apply mem_bytes_spec.
  exact (proj1 (forallb_forall _ _) H x Hx).
Qed.

Lemma nodup_bytes_spec l : nodup_bytes l = true -> NoDup l.
Proof.
  induction l as [|x l IH]; cbn; intros H; constructor.
  - apply andb_true_iff in H as [H _]. apply negb_true_iff in H. intros C.
    apply mem_bytes_spec in C. congruence.
  - apply IH. apply andb_true_iff in H as [_ H]. exact H.
Qed.

Section Oracle.
Variable pr : N -> bool.

(* one offered item: the completed word evaluates to the candidate, and is
   written in the started style whenever that style can represent it *)
Definition item_spec (q : ptype) (it : citem) (o : iobs) : Prop :=
  io_eval o = EStr (to_show it)
  /\ (representable pr q (to_show it) = true -> word_type (io_word o) = Some q).

(* exactly the entries (or fixed candidates) with the typed prefix *)
Definition offered_spec (src : candsrc) (v : bytes) (items : list citem) : Prop :=
  match src with
  | GFiles _ (Some es) =>
    (forall x, In x (map to_show items) <-> In x (expected_files es v))
    /\ NoDup (map to_insert items)
  | GFiles _ None => items = []
  | GFixed its => forall x, In x (map to_show items) <-> In x (expected_fixed its v)
  | GVars _ => True
  | GNotModelled => True
  end.

Definition Spec_C43 (buf : bytes) (name : rname) (src : candsrc) (ty : typed)
    (res : result) (obs : list iobs) : Prop :=
  (r_from res <= r_to res)%nat /\ (r_to res <= length buf)%nat
  /\ match name with
     | NVariable =>
       length obs = length (r_items res)
       /\ Forall (fun o => exists n, io_eval o = EStr n /\ has_prefix n (ty_value ty) = true) obs
     | NArgument | NRedir =>
       Forall2 (item_spec (ty_style ty)) (r_items res) obs
       /\ offered_spec src (ty_value ty) (r_items res)
     | NCommand | NIndex => Forall2 (item_spec (ty_style ty)) (r_items res) obs
     end.

Lemma items_ok_sound q items : forall obs,
  items_ok pr q items obs = true -> Forall2 (item_spec q) items obs.
Proof.
  induction items as [|it items IH]; intros [|o obs] H; cbn [items_ok] in H; try discriminate; [constructor|].
  apply andb_true_iff in H as [H H3]. apply andb_true_iff in H as [H1 H2].
  constructor; [|apply IH; exact H3]. split; [apply eobs_eqb_true; exact H1|].
  intros R. unfold style_ok in H2. rewrite R in H2.
  destruct (word_type (io_word o)) as [t|]; cbn in H2; [|discriminate].
  apply ptype_eqb_true in H2. congruence.
Qed.

Lemma var_items_ok_sound v obs : var_items_ok v obs = true ->
  Forall (fun o => exists n, io_eval o = EStr n /\ has_prefix n v = true) obs.
Proof.
  induction obs as [|o obs IH]; cbn [var_items_ok]; intros H; constructor.
  - apply andb_true_iff in H as [H _]. destruct (io_eval o) as [n| |]; try discriminate.
    exists n. split; [reflexivity|exact H].
  - apply IH. apply andb_true_iff in H as [_ H]. exact H.
Qed.

Lemma offered_ok_sound src ty items : offered_ok src ty items = true ->
  offered_spec src (ty_value ty) items.
Proof.
  unfold offered_ok, offered_spec. destruct src as [dir [es|]|its|names|]; intros H.
  - apply andb_true_iff in H as [H H3]. apply andb_true_iff in H as [H1 H2]. split.
    + intros x. split; [apply subset_bytes_spec; exact H1|apply subset_bytes_spec; exact H2].
    + apply nodup_bytes_spec. exact H3.
  - destruct items; [reflexivity|discriminate].
  - apply andb_true_iff in H as [H1 H2].
    intros x. split; [apply subset_bytes_spec; exact H1|apply subset_bytes_spec; exact H2].
  - exact I.
  - exact I.
Qed.

Lemma check_C43_sound buf name src ty res obs :
  check_C43 pr buf name src ty res obs = true -> Spec_C43 buf name src ty res obs.
Proof.
  unfold check_C43, Spec_C43, range_ok. intros H.
  apply andb_true_iff in H as [H Hn]. apply andb_true_iff in H as [H _]. apply andb_true_iff in H as [H _].
  apply andb_true_iff in H as [R1 R2]. apply Nat.leb_le in R1, R2.
  split; [exact R1|]. split; [exact R2|].
  destruct name.
  - apply andb_true_iff in Hn as [H1 H2]. split; [apply items_ok_sound; exact H1|apply offered_ok_sound; exact H2].
  - apply andb_true_iff in Hn as [H1 H2]. split; [apply items_ok_sound; exact H1|apply offered_ok_sound; exact H2].
  - apply items_ok_sound; exact Hn.
  - apply andb_true_iff in Hn as [H1 H2]. split; [apply Nat.eqb_eq; exact H1|apply var_items_ok_sound; exact H2].
  - apply items_ok_sound; exact Hn.
Qed.

(* the model's own prediction for an item it cooked satisfies the per-item spec *)
Lemma model_item_satisfies q r (buf : bytes) from to :
  (from <= length buf)%nat ->
  is_bytes (item_str r) -> quotes r = true ->
  term_ok pr CNormal (item_suffix r ++ skipn to buf) ->
  exists o, predicted_obs pr buf from to (cook pr q r) = Some o
    /\ item_spec q (cook pr q r) o.
Proof.
  intros Hf Hb Hq Ht. unfold predicted_obs, read_word.
  rewrite subst_at by exact Hf.
  rewrite (cooked_reads_back pr q r CNormal (skipn to buf) Hb Hq Ht).
  pose proof (quote_as_literal pr (item_str r) q CStrict) as L. fold (QuoteAs pr (item_str r) q) in L.
  eexists. split; [reflexivity|]. unfold item_spec. cbn [io_eval io_word word_type].
  cbn [eval_compound eval_words]. rewrite L, app_nil_r, cook_show. split; [reflexivity|].
  intros R. rewrite (style_preserved pr q (item_str r) R). reflexivity.
Qed.

End Oracle.

Lemma subst_frame (buf : bytes) from to ins :
  (from <= to)%nat -> (to <= length buf)%nat ->
  firstn from (subst buf from to ins) = firstn from buf
  /\ skipn from (subst buf from to ins) = ins ++ skipn to buf
  /\ skipn (from + length ins) (subst buf from to ins) = skipn to buf
  /\ length (subst buf from to ins) = (length buf - (to - from) + length ins)%nat.
Proof.
  intros H1 H2. assert (H : (from <= length buf)%nat) by lia.
  repeat split; [apply subst_prefix|apply subst_at|apply subst_suffix|apply subst_length]; assumption.
Qed.

(* without a terminator after the range the completed word is another word:
   buffer [echo  b], new argument inserted at offset 6, directory candidate sub/ *)
From Coq Require Import String.
Lemma substituted_refuted :
  exists (buf : bytes) from to r,
    (from <= to)%nat /\ (to <= List.length buf)%nat /\ quotes r = true /\
    read_word ascii_print (subst buf from to (to_insert (cook ascii_print TBare r))) from
    <> Some (WWord [(TBare, item_str r)] (List.length (to_insert (cook ascii_print TBare r)) - List.length (item_suffix r))).
Proof.
  exists (hx "6563686f202062"%string), 6%nat, 6%nat, (RComplex (hx "7375622f"%string) []).
  split; [lia|]. split; [vm_compute; lia|]. split; [reflexivity|].
  vm_compute. discriminate.
Qed.

(* stated outside the table section *)
Lemma isort_meets_contract : sort_contract isort_items.
Proof. exact (isort_contract ascii_print). Qed.
