(* C20 -- run-parallel: invariants of its transition system (model/C20_Peach.v). *)
From verif Require Import lib.Base model.C20_Peach proofs.C20_proofs.
From Coq Require Import Permutation Arith.
Open Scope nat_scope.

(* ------------------------------------------------------------------ *)
(* run-parallel *)
Lemma countf_const_true {A} (p : A -> bool) v m : p v = true -> countf p (fun _ => v) m = m.
Proof. intros Hv. induction m as [|m IH]; cbn [countf]; [reflexivity|]. rewrite IH, Hv. lia. Qed.

Lemma countf_all {A} (p : A -> bool) f m :
  (forall i, i < m -> p (f i) = true) -> countf p f m = m.
Proof.
  induction m as [|m IH]; intros H; cbn [countf]; [reflexivity|].
  rewrite IH by (intros; apply H; lia). rewrite H by lia. lia.
Qed.

Ltac rstep_inv H :=
  unfold rstep in H;
  repeat match type of H with
  | context [match ?x with _ => _ end] => destruct x eqn:?
  end; try discriminate; inversion H; subst; clear H; bool_hyps.

Ltac fix_rst Hp :=
  repeat match goal with
  | E : r_st ?s ?i = _, Hc : context [r_st ?s ?i] |- _ => rewrite E in Hc
  | Hc : context [r_st ?s ?i] |- _ => rewrite (Hp i) in Hc by lia
  end.

Section RunPar.
Context (cb : callback) (n : nat).

Inductive rreach : rstate -> Prop :=
| rreach_init : rreach rinit
| rreach_step s l s' : rreach s -> rstep cb n s l = Some s' -> rreach s'.

Definition ridx (p : rpc) : nat :=
  match p with RAdd => 0 | RSpawn i => i | RWait | RDone => n end.
Definition r_started (w : rstat) : bool :=
  match w with RRunning _ | RStored | RFinished => true | _ => false end.
Definition r_stored (w : rstat) : bool :=
  match w with RStored | RFinished => true | _ => false end.

Definition rinv (s : rstate) : Prop :=
  (* shape *)
  (match r_pc s with RSpawn i => i <= n | _ => True end)
  /\ (forall k, ridx (r_pc s) <= k -> r_st s k = RPending)
  /\ (forall k, k < ridx (r_pc s) -> r_st s k <> RPending)
  (* the WaitGroup counts the functions that have not called Done *)
  /\ (r_pc s <> RAdd -> r_wg s = countf r_pre_done (r_st s) n)
  /\ (r_pc s = RDone -> r_wg s = 0)
  (* each function entered at most once; its exception is stored in its slot *)
  /\ (forall k, r_calls s k = if r_started (r_st s k) then 1 else 0)
  /\ (forall k, r_stored (r_st s k) = true -> r_exc s k = exc_of (cb_kind (cb k)))
  /\ r_panicked s = false.

Lemma rinv_init : rinv rinit.
Proof.
  unfold rinv; cbn. repeat apply conj; try reflexivity; try discriminate; try exact I.
  - intros k Hk. lia.
  - intros Hn. now elim Hn.
Qed.

Lemma rinv_step s l s' : rinv s -> rstep cb n s l = Some s' -> rinv s'.
Proof.
  intros (Hpc & Hp & Hnp & Hw & Hd & Hc & He & Hpan) H.
  assert (Hlt : forall i, r_st s i <> RPending -> i < ridx (r_pc s)).
  { intros i Hne. destruct (Nat.lt_ge_cases i (ridx (r_pc s))) as [|Hge]; [assumption|].
    exfalso. apply Hne. now apply Hp. }
  rstep_inv H;
  try match goal with E : r_st s ?i = _ |- _ =>
        assert (i < ridx (r_pc s)) by (apply Hlt; rewrite E; discriminate)
      end;
  try match goal with Hx : _ < ridx (r_pc s) |- _ =>
        assert (Hna : r_pc s <> RAdd) by (intros Hy; rewrite Hy in Hx; cbn in Hx; lia);
        specialize (Hw Hna)
      end;
  try match goal with E : r_pc s = _ |- _ => rewrite E in * end; cbn in Hpc, Hp, Hnp;
  try (match type of Hw with (_ <> _ -> _) => let Hq := fresh in assert (Hq : r_wg s = countf r_pre_done (r_st s) n) by (apply Hw; discriminate); clear Hw; rename Hq into Hw end);
  (* the panic case: the counter cannot be zero *)
  try (match goal with E : r_st s ?i = RStored, Z : r_wg s = 0 |- _ =>
         exfalso; pose proof (countf_pos r_pre_done (r_st s) n i ltac:(lia) ltac:(now rewrite E)); lia end);
  unfold rinv; cbn;
  (refine (conj _ (conj _ (conj _ (conj _ (conj _ (conj _ (conj _ _)))))));
  [ try assumption; try lia; try exact I
  | intros kk Hk; cbn in Hk; unfold upd; try case_upd; subst; try lia; try (apply Hp; cbn; lia)
  | intros kk Hk; cbn in Hk; unfold upd; try case_upd; subst; try discriminate; try lia; try (apply Hnp; cbn; lia)
  | intros Hne; try (symmetry; apply countf_all; intros; rewrite Hp by lia; reflexivity);
    cnt; fix_rst Hp; cbn in *; try lia
  | intros Hd'; try discriminate; try lia; try (specialize (Hd Hd'); lia)
  | intros kk; unfold upd; try case_upd; subst; try apply Hc;
    rewrite Hc; (first [ match goal with E : r_st s _ = _ |- _ => rewrite E end | rewrite Hp by (cbn; lia) ]); reflexivity
  | intros kk; unfold upd; try case_upd; subst; intros Hst; try discriminate; try reflexivity;
    try (apply He; assumption);
    try (apply He; match goal with E : r_st s _ = _ |- _ => rewrite E end; reflexivity)
  | reflexivity ]).

Qed.

Lemma rinv_reach s : rreach s -> rinv s.
Proof. induction 1; [apply rinv_init|eapply rinv_step; eassumption]. Qed.

Theorem run_parallel_each_once s :
  rreach s -> r_pc s = RDone ->
  forall i, i < n ->
    r_calls s i = 1 /\ r_st s i = RFinished /\ r_exc s i = exc_of (cb_kind (cb i)).
Proof.
  intros Hr Hpc i Hi. destruct (rinv_reach s Hr) as (_ & _ & _ & Hw & Hd & Hc & He & _).
  specialize (Hw ltac:(congruence)). rewrite (Hd Hpc) in Hw. symmetry in Hw.
  pose proof (countf_zero _ _ _ Hw i Hi) as Hz.
  assert (Hf : r_st s i = RFinished) by (destruct (r_st s i); cbn in Hz; congruence).
  repeat split; [rewrite Hc, Hf; reflexivity|exact Hf|apply He; now rewrite Hf].
Qed.

Theorem run_parallel_no_panic s : rreach s -> r_panicked s = false.
Proof. intros Hr. now destruct (rinv_reach s Hr) as (_ & _ & _ & _ & _ & _ & _ & Hp). Qed.
End RunPar.
