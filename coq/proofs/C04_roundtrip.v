(* C04 — the reader gives back, for everything repr prints, exactly [norm v]
   and leaves exactly the text that followed.  Structural induction on values
   of any depth and width, for every indent, every IsPrint table, and strconv
   under C05's contract. *)
From verif Require Import lib.Base lib.ListX lib.Utf8 lib.Utf8_proofs model.C03 proofs.C03_proofs
  model.C08_Value proofs.C08_Value_proofs model.C04 proofs.C04_text.
From verif Require model.C05 proofs.C05_proofs proofs.C05_float_proofs.
From Coq Require Import QArith ZifyBool ZifyNat ZifyN.
Close Scope Q_scope.
Open Scope N_scope.

(* fuel the reader needs: one unit per nesting level and per item *)
Fixpoint rdepth (v : value) : nat :=
  match v with
  | VList _ l => S (S (length l + list_max (map rdepth l)))
  | VMap m => S (S (length m + list_max (map (fun e => Nat.max (rdepth (fst e)) (rdepth (snd e))) m)))
  | _ => 1%nat
  end.

Lemma list_max_in (f : nat) l : In f l -> (f <= list_max l)%nat.
Proof.
  intros H. pose proof (proj1 (list_max_le l (list_max l)) (le_n _)) as F.
  rewrite Forall_forall in F. exact (F f H).
Qed.

Lemma fold_left_map {A B C} (g : A -> C -> A) (f : B -> C) l : forall a,
  fold_left (fun a x => g a (f x)) l a = fold_left g (map f l) a.
Proof. induction l as [|x l IH]; intros a; [reflexivity|]. cbn [fold_left map]. apply IH. Qed.

(* the text right after an item: white space or the closing bracket *)
Definition Terminated (T : bytes) : Prop :=
  exists c q, T = c :: q /\ (is_ws c = true \/ c = 93).

Lemma tail_after sep close (r : list bytes) t :
  all_ws sep -> sep <> [] -> all_ws close ->
  Terminated ((match r with [] => close | _ => sep end) ++ tail_text sep close r t).
Proof.
  intros Hs Hne Hc. destruct r as [|x r].
  - cbn [tail_text]. destruct close as [|c q]; [exists 93, t; split; [reflexivity|right; reflexivity]|].
    exists c, (q ++ 93 :: t). split; [reflexivity|]. left. exact (Forall_inv Hc).
  - destruct sep as [|c q]; [congruence|]. eexists c, _. split; [reflexivity|]. left. exact (Forall_inv Hs).
Qed.

Section Roundtrip.
Variable is_print : N -> bool.
Variable pf : bytes -> option N.
Variable fmtF fmtE : N -> bytes.
Variable rk : N -> Z.
Hypothesis HS : C05_float_proofs.contract_S pf fmtF fmtE.

Notation repr := (C04.repr is_print fmtF fmtE rk).
Notation norm := (C04.norm is_print pf fmtF fmtE rk).
Notation read_val := (C04.read_val is_print pf).
Notation read_items := (C04.read_items is_print pf).
Notation term_ok := (C03_proofs.term_ok is_print).
Notation sp := (starts_primary is_print).

Lemma read_val_S f ctx src :
  read_val (S f) ctx src =
  match src with
  | [] => ROther
  | c :: src1 =>
    if c =? 91 then
      match read_items f (skip_ws src1) with
      | IOk items rest =>
        if ws_other rest then ROther else
        match rest with
        | 93 :: rest' =>
          match build items with
          | Some v => finish is_print ctx v rest'
          | None => RErr
          end
        | _ => RErr
        end
      | IErr => RErr
      | IOther => ROther
      | IFuel => RFuel
      end
    else if c =? 40 then read_capture is_print pf ctx src1
    else from_compound (read_compound is_print ctx src)
  end.
Proof. reflexivity. Qed.

Lemma read_items_S f src :
  read_items (S f) src =
  if ws_other src then IOther else
  match peek src with
  | None => IOk [] src
  | Some r =>
    if r =? 38 then
      let src1 := tl src in
      if match peek src1 with Some r1 => sp r1 CLHS | None => false end then
        match read_val f CLHS src1 with
        | ROk k rest =>
          match rest with
          | 61 :: rest1 =>
            let rest2 := skip_ws rest1 in
            if ws_other rest2 then IOther else
            match peek rest2 with
            | Some r2 =>
              if sp r2 CNormal then
                match read_val f CNormal rest2 with
                | ROk v rest3 =>
                  match read_items f (skip_ws rest3) with
                  | IOk items rest4 => IOk (IPair k v :: items) rest4
                  | e => e
                  end
                | e => lift_r e
                end
              else IOther
            | None => IOther
            end
          | _ => IOther
          end
        | e => lift_r e
        end
      else IOk [ILone] (skip_ws src1)
    else if sp r CNormal then
      match read_val f CNormal src with
      | ROk v rest =>
        match read_items f (skip_ws rest) with
        | IOk items rest' => IOk (IElem v :: items) rest'
        | e => e
        end
      | e => lift_r e
      end
    else IOk [] src
  end.
Proof. reflexivity. Qed.

(* ---- terminators ---- *)
Lemma sp_false ctx c :
  (is_ws c = true \/ c = 93 \/ c = 35 \/ c = 38 \/ c = 41 \/ c = 59) -> sp c ctx = false.
Proof.
  intros H. unfold is_ws in H.
  assert (E : c = 32 \/ c = 9 \/ c = 10 \/ c = 13 \/ c = 93 \/ c = 35 \/ c = 38 \/ c = 41 \/ c = 59) by lia.
  unfold starts_primary, allowed_in_bareword, allowed_in_varname.
  repeat (destruct E as [E|E]; [subst c; cbn [N.eqb Pos.eqb N.leb N.compare Pos.compare Pos.compare_cont andb orb];
    destruct ctx; reflexivity|]).
  subst c. cbn [N.eqb Pos.eqb N.leb N.compare Pos.compare Pos.compare_cont andb orb]. destruct ctx; reflexivity.
Qed.

Lemma sp_caret ctx : ctx <> CCmd -> sp 94 ctx = false.
Proof.
  intros H. unfold starts_primary, allowed_in_bareword, allowed_in_varname.
  cbn [N.eqb Pos.eqb N.leb N.compare Pos.compare Pos.compare_cont andb orb].
  destruct ctx; try reflexivity. congruence.
Qed.

Lemma sp_eq_lhs : sp 61 CLHS = false.
Proof. reflexivity. Qed.

Lemma term_ok_cons ctx c q : c < 128 -> sp c ctx = false -> term_ok ctx (c :: q).
Proof. intros Hc H. unfold C03_proofs.term_ok. rewrite peek_ascii by exact Hc. exact H. Qed.

Lemma term_ok_terminated ctx T : Terminated T -> term_ok ctx T.
Proof.
  intros (c & q & -> & H). apply term_ok_cons.
  - unfold is_ws in H. lia.
  - apply sp_false. tauto.
Qed.

Lemma term_ok_nil ctx : term_ok ctx [].
Proof. exact I. Qed.

Lemma finish_ok ctx v t : term_ok ctx t -> finish is_print ctx v t = ROk v t.
Proof.
  unfold C03_proofs.term_ok, finish. destruct (peek t) as [r|]; [|reflexivity]. intros ->. reflexivity.
Qed.

(* ---- what the first rune of a value's text tells ---- *)
Lemma starts_val_facts ctx src r :
  peek src = Some r -> sp r ctx = true -> ctx <> CCmd ->
  skip_ws src = src /\ ws_other src = false /\ (r =? 38) = false.
Proof.
  intros P Hs Hctx. destruct src as [|c q]; [discriminate|].
  assert (A : forall x, c = x -> x < 128 -> sp x ctx = false -> False).
  { intros x -> Hx Hf. rewrite peek_ascii in P by exact Hx. inversion P; subst. congruence. }
  repeat split.
  - unfold skip_ws. cbn [skip_while]. destruct (is_ws c) eqn:W; [exfalso|reflexivity].
    apply (A c eq_refl); [unfold is_ws in W; lia|apply sp_false; tauto].
  - cbn [ws_other]. destruct ((c =? 35) || (c =? 94)) eqn:W; [exfalso|reflexivity].
    apply orb_true_iff in W as [W|W]; apply N.eqb_eq in W; subst c.
    + apply (A 35 eq_refl); [lia|apply sp_false; tauto].
    + apply (A 94 eq_refl); [lia|apply sp_caret; exact Hctx].
  - destruct (N.eqb_spec r 38) as [->|]; [|reflexivity].
    rewrite sp_false in Hs by tauto. discriminate.
Qed.

(* ---- atoms ---- *)
Lemma read_from_string ctx s t : is_bytes s -> term_ok ctx t ->
  exists c q, Quote is_print s = c :: q /\ c <> 91 /\ c <> 40
  /\ from_compound (read_compound is_print ctx (Quote is_print s ++ t)) = ROk (VStr s) t
  /\ exists r, peek (Quote is_print s ++ t) = Some r /\ sp r ctx = true.
Proof.
  intros Hb Ht. pose proof (quote_parses_back is_print s TBare ctx t Hb Ht) as R.
  pose proof (quote_as_literal is_print s TBare CStrict) as L.
  fold (Quote is_print s) in R. unfold QuoteAs in R.
  set (ty := snd (quote_as is_print s TBare CStrict)) in *.
  destruct (Quote is_print s) as [|c q] eqn:EQ.
  - cbn [app] in R. rewrite (read_compound_term is_print ctx t Ht) in R. discriminate.
  - exists c, q. split; [reflexivity|].
    assert (N1 : c <> 91).
    { intros ->. cbn [app] in R. rewrite (read_compound_bracket is_print ctx 91) in R by tauto. discriminate. }
    assert (N2 : c <> 40).
    { intros ->. cbn [app] in R. rewrite (read_compound_bracket is_print ctx 40) in R by tauto. discriminate. }
    repeat split; try assumption.
    + rewrite R. cbn [from_compound]. destruct ty; try discriminate; cbn; rewrite app_nil_r; reflexivity.
    + apply (read_compound_head is_print ctx _ _ _ R). discriminate.
Qed.

Lemma nchar_word_read ctx x t : forallb nchar x = true -> x <> [] -> term_ok ctx t ->
  read_compound is_print ctx (x ++ t) = COk [(TBare, x)] t.
Proof.
  intros F Hne Ht. rewrite forallb_forall in F. apply read_bare_ascii; try assumption.
  - apply Forall_forall. intros b Hb. apply nchar_ascii, F, Hb.
  - destruct x as [|b x']; [congruence|]. cbn [hd]. apply (nchar_not b (F b (or_introl eq_refl))).
  - apply Forall_forall. intros b Hb. apply nchar_bareword, F, Hb.
Qed.

(* number texts *)
Lemma fmt_text b :
  forallb nchar (C05.formatFloat64 fmtF fmtE b) = true /\ C05.formatFloat64 fmtF fmtE b <> [].
Proof.
  destruct (C05_float_proofs.classify b) as [(N1 & I0 & F0)|[(N0 & I1 & F0)|(N0 & I0 & F1)]].
  - pose proof (C05_float_proofs.S1_nan _ _ _ HS b N1) as EF.
    assert (FE : C05.formatFloat64 fmtF fmtE b = C05.sNaN).
    { unfold C05.formatFloat64. rewrite EF, N1. reflexivity. }
    rewrite FE. split; [reflexivity|discriminate].
  - pose proof (C05_float_proofs.S1_inf _ _ _ HS b I1) as EF.
    assert (FE : C05.formatFloat64 fmtF fmtE b = fmtF b).
    { unfold C05.formatFloat64. rewrite EF, N0, I1. destruct (b <? 2 ^ 63); reflexivity. }
    rewrite FE, EF. destruct (b <? 2 ^ 63); split; try reflexivity; discriminate.
  - destruct (nchar_shape_f _ (C05_float_proofs.S1_f _ _ _ HS b F1)) as [A1 A2].
    destruct (nchar_shape_e _ (C05_float_proofs.S1_e _ _ _ HS b F1)) as [B1 B2].
    unfold C05.formatFloat64. cbv zeta.
    destruct (_ || C05.has_prefix C05.sSmall (fmtF b)); [split; assumption|].
    destruct (_ && negb (C05.is_inf b)).
    + split; [rewrite forallb_app, A1; reflexivity|]. destruct (fmtF b); [congruence|discriminate].
    + split; assumption.
Qed.

Definition nnorm (n : C05.num) : C05.num :=
  match n with
  | C05.NFloat b =>
    if C05.is_nan b then match pf C05.sNaN with Some b' => C05.NFloat b' | None => n end else n
  | _ => n
  end.

Lemma num_text n : C05.canonical n = true ->
  forallb nchar (C05.to_string fmtF fmtE n) = true /\ C05.to_string fmtF fmtE n <> []
  /\ C05.parse_num pf (C05.to_string fmtF fmtE n) = C05.PNum (nnorm n).
Proof.
  intros C. destruct n as [z|z|n d|b]; cbn [C05.to_string nnorm].
  - destruct (nchar_dec_Z z) as [A1 A2]. repeat split; try assumption.
    pose proof (C05_proofs.int_roundtrip pf fmtF fmtE z) as R. cbn [C05.canonical] in C.
    unfold C05.canon_int in R. rewrite C in R. exact R.
  - destruct (nchar_dec_Z z) as [A1 A2]. repeat split; try assumption.
    pose proof (C05_proofs.int_roundtrip pf fmtF fmtE z) as R. cbn [C05.canonical] in C.
    apply negb_true_iff in C. unfold C05.canon_int in R. rewrite C in R. exact R.
  - destruct (nchar_dec_Z n) as [A1 A2]. destruct (nchar_dec_Z d) as [B1 B2]. repeat split.
    + rewrite forallb_app. cbn [forallb]. rewrite A1, B1. reflexivity.
    + destruct (C05.dec_Z n); [congruence|discriminate].
    + exact (C05_proofs.rat_roundtrip pf fmtF fmtE n d C).
  - destruct (fmt_text b) as [A1 A2]. repeat split; try assumption.
    destruct (C05.is_nan b) eqn:NB.
    + pose proof (C05_float_proofs.S1_nan _ _ _ HS b NB) as EF.
      assert (FE : C05.formatFloat64 fmtF fmtE b = C05.sNaN).
      { unfold C05.formatFloat64. rewrite EF, NB. reflexivity. }
      rewrite FE. destruct (C05_float_proofs.S2_nan _ _ _ HS) as (b' & EP & _). rewrite EP.
      apply C05_float_proofs.parse_float_text; [reflexivity|reflexivity|exact EP].
    + apply C05_float_proofs.float_roundtrip; assumption.
Qed.

Lemma read_num_head t' : term_ok CCmd t' ->
  read_compound is_print CCmd (110 :: 117 :: 109 :: t') = COk [(TBare, nNum)] t'.
Proof.
  intros Ht. change (110 :: 117 :: 109 :: t') with (nNum ++ t'). apply read_bare_ascii.
  - discriminate.
  - unfold nNum. repeat constructor; lia.
  - unfold nNum. cbn [hd]. lia.
  - unfold nNum. repeat constructor.
  - exact Ht.
Qed.

(* (num X) followed by a terminator *)
Lemma read_num ctx n t f : C05.canonical n = true -> term_ok ctx t ->
  read_val (S f) ctx (repr_num fmtF fmtE n ++ t) = ROk (value_of_num (nnorm n)) t.
Proof.
  intros C Ht. destruct (num_text n C) as (F & Hne & P).
  set (x := C05.to_string fmtF fmtE n) in *.
  unfold repr_num. fold x. unfold sNumOpen. cbn [app]. rewrite read_val_S.
  cbn [N.eqb Pos.eqb]. unfold read_capture.
  cbn [is_ws N.eqb Pos.eqb orb ws_other].
  assert (T1 : term_ok CCmd (32 :: (x ++ [41]) ++ t)) by (apply term_ok_cons; [lia|apply sp_false; left; reflexivity]).
  rewrite (read_num_head _ T1).
  cbn [string_literal is_literal]. change (bytes_eqb nNum nNum) with true. cbn [negb].
  unfold skip_inline. cbn [skip_while is_inline_ws N.eqb Pos.eqb orb].
  destruct x as [|x0 x'] eqn:Ex; [congruence|].
  assert (Fx0 : nchar x0 = true) by (cbn [forallb] in F; apply andb_true_iff in F; tauto).
  destruct (nchar_not x0 Fx0) as (W0 & N35 & N94 & N126 & N59).
  assert (IW : is_inline_ws x0 = false) by (unfold is_ws in W0; unfold is_inline_ws; lia).
  cbn [app skip_while]. rewrite IW. cbn [ws_other].
  replace ((x0 =? 35) || (x0 =? 94)) with false by lia.
  rewrite peek_ascii by (apply nchar_ascii; exact Fx0).
  rewrite (bareword_starts_primary is_print x0 CNormal (nchar_bareword is_print x0 CNormal Fx0)). cbn [negb].
  assert (T2 : term_ok CNormal (41 :: t)) by (apply term_ok_cons; [lia|apply sp_false; tauto]).
  pose proof (nchar_word_read CNormal (x0 :: x') (41 :: t) F ltac:(discriminate) T2) as R2.
  rewrite <- app_assoc. cbn [app] in R2 |- *. rewrite R2.
  cbn [eval_compound eval_words is_literal]. rewrite app_nil_r.
  cbn [skip_while is_inline_ws N.eqb Pos.eqb orb]. rewrite P. apply finish_ok. exact Ht.
Qed.

Lemma value_of_nnorm v n : num_of v = Some n -> forall ind, value_of_num (nnorm n) = norm v ind.
Proof.
  destruct v; cbn [num_of]; intros E ind; inversion E; subst; cbn [nnorm value_of_num C04.norm]; try reflexivity.
  - destruct q as [qn qd]. cbn [Qnum Qden]. reflexivity.
  - destruct (C05.is_nan bits); [destruct (pf C05.sNaN)|]; reflexivity.
Qed.

(* ---- heads of texts ---- *)
Lemma fold_write_head ind xs : forall c q, exists q',
  fold_left (fun b y => lb_write ind b y) xs (c :: q) = c :: q'.
Proof.
  induction xs as [|x xs IH]; intros c q; [exists q; reflexivity|]. cbn [fold_left].
  unfold lb_write at 2. destruct (0 <=? ind)%Z; [|destruct (Nat.ltb 1 (length (c :: q)))]; cbn [app]; apply IH.
Qed.

Lemma lb_string_head ind xs : exists q, lb_string ind (fold_left (fun b y => lb_write ind b y) xs []) = 91 :: q.
Proof.
  destruct xs as [|x xs]; [exists [93]; reflexivity|]. cbn [fold_left].
  assert (H : exists q0, lb_write ind [] x = 91 :: q0).
  { unfold lb_write. destruct (0 <=? ind)%Z; [|cbn [length Nat.ltb Nat.leb]]; cbn [app]; eexists; reflexivity. }
  destruct H as (q0 & ->). destruct (fold_write_head ind xs 91 q0) as (q' & ->).
  unfold lb_string. destruct (0 <=? ind)%Z; cbn [app]; eexists; reflexivity.
Qed.

Lemma mb_string_head ind buf : (exists q, lb_string ind buf = 91 :: q) -> exists q, mb_string ind buf = 91 :: q.
Proof.
  intros (q & E). unfold mb_string. rewrite E. destruct (bytes_eqb (91 :: q) sEmptyList); eexists; reflexivity.
Qed.

Definition SV (v : value) : Prop :=
  forall ind ctx t, term_ok ctx t -> exists r, peek (repr v ind ++ t) = Some r /\ sp r ctx = true.
Definition RT (v : value) : Prop :=
  forall ind ctx t fuel, (rdepth v <= fuel)%nat -> term_ok ctx t ->
    read_val fuel ctx (repr v ind ++ t) = ROk (norm v ind) t.

Lemma sp_open ctx c : c = 91 \/ c = 40 \/ c = 36 -> sp c ctx = true.
Proof.
  intros H. unfold starts_primary. destruct H as [->|[->| ->]]; cbn [N.eqb Pos.eqb]; rewrite ?orb_true_r; reflexivity.
Qed.

Lemma sv_all v : okv v = true -> SV v.
Proof.
  intros Hok ind ctx t Ht.
  assert (A : forall c q, repr v ind = c :: q -> (c = 91 \/ c = 40 \/ c = 36) ->
              exists r, peek (repr v ind ++ t) = Some r /\ sp r ctx = true).
  { intros c q E Hc. rewrite E. cbn [app]. exists c. split; [apply peek_ascii; lia|apply sp_open; exact Hc]. }
  destruct v as [|b|z|z|q|b|s|sub l|m|ty id]; try (eapply A; [reflexivity|tauto]).
  - destruct b; (eapply A; [reflexivity|tauto]).
  - cbn [C04.repr]. cbn [okv] in Hok.
    assert (Hb : is_bytes s).
    { apply Forall_forall. intros x Hx. rewrite forallb_forall in Hok. specialize (Hok x Hx). lia. }
    destruct (read_from_string ctx s t Hb Ht) as (_ & _ & _ & _ & _ & _ & H). exact H.
  - cbn [C04.repr]. rewrite (fold_left_map (fun b y => lb_write ind b y) (fun e => repr e (ind + 1))).
    destruct (lb_string_head ind (map (fun e => repr e (ind + 1)) l)) as (q & E).
    rewrite E. cbn [app]. exists 91. split; [apply peek_ascii; lia|apply sp_open; tauto].
  - cbn [C04.repr].
    rewrite (fold_left_map (fun b y => lb_write ind b y)
               (fun e : value * (bytes * bytes) => mb_pair (fst (snd e)) (ind + 2) (snd (snd e)))).
    match goal with |- context [mb_string ind (fold_left _ ?xs [])] =>
      destruct (mb_string_head ind _ (lb_string_head ind xs)) as (q & E) end.
    rewrite E. cbn [app]. exists 91. split; [apply peek_ascii; lia|apply sp_open; tauto].
  - discriminate.
Qed.

(* ---- the items loop, generically ---- *)
Lemma read_items_close f t : read_items (S f) (93 :: t) = IOk [] (93 :: t).
Proof.
  rewrite read_items_S. cbn [ws_other N.eqb Pos.eqb orb]. rewrite peek_ascii by lia.
  cbn [N.eqb Pos.eqb]. rewrite sp_false by tauto. reflexivity.
Qed.

Lemma items_gen {A} (txt : A -> bytes) (itm : A -> item) (M : nat) sep close t :
  all_ws sep -> sep <> [] -> all_ws close ->
  forall L,
  (forall a, In a L -> forall T', Terminated T' -> skip_ws (txt a ++ T') = txt a ++ T') ->
  (forall a, In a L -> forall f' T' items rest, Terminated T' -> (M <= f')%nat ->
     read_items f' (skip_ws T') = IOk items rest ->
     read_items (S f') (txt a ++ T') = IOk (itm a :: items) rest) ->
  forall f, (length L + 1 + M <= f)%nat ->
  read_items f (tail_text sep close (map txt L) t) = IOk (map itm L) (93 :: t).
Proof.
  intros Hs Hne Hc. induction L as [|a L IH]; intros Hhead Hstep f Hf.
  - cbn [map tail_text]. destruct f as [|f']; [cbn in Hf; lia|]. apply read_items_close.
  - cbn [map tail_text]. destruct f as [|f']; [cbn in Hf; lia|].
    pose proof (tail_after sep close (map txt L) t Hs Hne Hc) as Tm.
    apply (Hstep a (or_introl eq_refl) f' _ (map itm L) (93 :: t) Tm); [cbn [length] in Hf; lia|].
    rewrite skip_ws_app by (destruct (map txt L); assumption).
    assert (E : skip_ws (tail_text sep close (map txt L) t) = tail_text sep close (map txt L) t).
    { destruct L as [|a' L']; [reflexivity|]. cbn [map tail_text].
      apply (Hhead a' (or_intror (or_introl eq_refl))). apply tail_after; assumption. }
    rewrite E. apply IH.
    + intros a0 H0. apply Hhead. right. exact H0.
    + intros a0 H0. apply Hstep. right. exact H0.
    + cbn [length] in Hf. lia.
Qed.

(* one element *)
Lemma elem_step e ind M : RT e -> SV e -> (rdepth e <= M)%nat ->
  forall f' T' items rest, Terminated T' -> (M <= f')%nat ->
  read_items f' (skip_ws T') = IOk items rest ->
  read_items (S f') (repr e ind ++ T') = IOk (IElem (norm e ind) :: items) rest.
Proof.
  intros Hrt Hsv Hd f' T' items rest HT Hf Hrest.
  pose proof (term_ok_terminated CNormal T' HT) as Tk.
  destruct (Hsv ind CNormal T' Tk) as (r & P & Sr).
  destruct (starts_val_facts CNormal _ r P Sr ltac:(discriminate)) as (_ & W & N38).
  rewrite read_items_S, W, P, N38, Sr. rewrite (Hrt ind CNormal T' f') by (try lia; exact Tk).
  rewrite Hrest. reflexivity.
Qed.

Lemma elem_head e ind : SV e -> forall T', Terminated T' -> skip_ws (repr e ind ++ T') = repr e ind ++ T'.
Proof.
  intros Hsv T' HT. destruct (Hsv ind CNormal T' (term_ok_terminated CNormal T' HT)) as (r & P & Sr).
  apply (starts_val_facts CNormal _ r P Sr). discriminate.
Qed.

(* one pair *)
Definition pair_text (ind : Z) (e : value * value) : bytes :=
  mb_pair (repr (fst e) (ind + 1)) (ind + 2) (repr (snd e) (ind + 2)).

Lemma pair_step e ind M : RT (fst e) -> SV (fst e) -> RT (snd e) -> SV (snd e) ->
  (rdepth (fst e) <= M)%nat -> (rdepth (snd e) <= M)%nat ->
  forall f' T' items rest, Terminated T' -> (M <= f')%nat ->
  read_items f' (skip_ws T') = IOk items rest ->
  read_items (S f') (pair_text ind e ++ T') = IOk (IPair (norm (fst e) (ind + 1)) (norm (snd e) (ind + 2)) :: items) rest.
Proof.
  intros Hrk Hsk Hrv Hsv Hdk Hdv f' T' items rest HT Hf Hrest.
  destruct e as [k v]. cbn [fst snd] in *. unfold pair_text, mb_pair. cbn [fst snd].
  set (tab := if (0 <? ind + 2)%Z then [9] else []).
  assert (Wtab : all_ws tab) by (unfold tab; destruct (0 <? ind + 2)%Z; repeat constructor).
  cbn [app]. rewrite <- !app_assoc. cbn [app]. rewrite <- !app_assoc.
  set (R1 := tab ++ repr v (ind + 2) ++ T').
  rewrite read_items_S. cbn [ws_other N.eqb Pos.eqb orb]. rewrite peek_ascii by lia.
  cbn [N.eqb Pos.eqb tl]. cbv zeta.
  assert (Tk : term_ok CLHS (61 :: R1)) by (apply term_ok_cons; [lia|exact sp_eq_lhs]).
  destruct (Hsk (ind + 1)%Z CLHS (61 :: R1) Tk) as (r1 & P1 & S1). rewrite P1, S1.
  rewrite (Hrk (ind + 1)%Z CLHS (61 :: R1) f') by (try lia; exact Tk).
  pose proof (term_ok_terminated CNormal T' HT) as Tv.
  destruct (Hsv (ind + 2)%Z CNormal T' Tv) as (r2 & P2 & S2).
  destruct (starts_val_facts CNormal _ r2 P2 S2 ltac:(discriminate)) as (K & W & _).
  unfold R1. rewrite (skip_ws_app tab _ Wtab), K, W, P2, S2.
  rewrite (Hrv (ind + 2)%Z CNormal T' f') by (try lia; exact Tv).
  rewrite Hrest. reflexivity.
Qed.

Lemma pair_head ind e T' : skip_ws (pair_text ind e ++ T') = pair_text ind e ++ T'.
Proof. reflexivity. Qed.

Lemma pair_text_ne ind e : pair_text ind e <> [].
Proof. discriminate. Qed.

(* helpers about the items that come back *)
Lemma build_elems vs : build (map IElem vs) = Some (VList false vs).
Proof.
  unfold build. assert (F : forallb is_elem (map IElem vs) = true) by (induction vs; cbn; auto).
  rewrite F. clear F. f_equal. f_equal. induction vs as [|v vs IH]; cbn; [reflexivity|rewrite IH; reflexivity].
Qed.

Lemma build_pairs (ps : list (value * value)) : ps <> [] ->
  build (map (fun p => IPair (fst p) (snd p)) ps) = Some (VMap (rebuild ps)).
Proof.
  intros Hne. unfold build.
  assert (F : forallb is_elem (map (fun p => IPair (fst p) (snd p)) ps) = false)
    by (destruct ps; [congruence|reflexivity]).
  assert (E : existsb is_elem (map (fun p => IPair (fst p) (snd p)) ps) = false).
  { clear. induction ps as [|p ps IH]; [reflexivity|]. cbn [map existsb is_elem orb]. exact IH. }
  rewrite F, E. f_equal. f_equal. f_equal.
  clear. induction ps as [|[k v] ps IH]; cbn [map pairs_of fst snd]; [reflexivity|rewrite IH; reflexivity].
Qed.

Lemma repr_ne v ind : okv v = true -> repr v ind <> [].
Proof.
  intros Hok E. destruct (sv_all v Hok ind CNormal [] (term_ok_nil CNormal)) as (r & P & _).
  rewrite E in P. discriminate.
Qed.

Lemma read_dollar ctx name t f :
  name <> [] -> Forall (fun b => b < 128) name ->
  Forall (fun b => allowed_in_varname is_print b = true) name -> term_ok ctx t ->
  read_val (S f) ctx (36 :: name ++ t) = from_compound (COk [(TVar, name)] t).
Proof.
  intros H1 H2 H3 H4. rewrite read_val_S. cbn [N.eqb Pos.eqb].
  rewrite (read_var_ascii is_print ctx name t H1 H2 H3 H4). reflexivity.
Qed.

(* ---- the induction ---- *)
Lemma rt_sized n : forall v, (vsize v < n)%nat -> okv v = true -> RT v.
Proof.
  induction n as [|n IHn]; intros v Hsz Hok; [lia|].
  destruct v as [|b|z|z|q|b|s|sub l|m|ty id].
  - (* nil *)
    intros ind ctx t fuel Hf Ht. destruct fuel as [|f]; [cbn in Hf; lia|].
    cbn [C04.repr C04.norm]. change (sNil ++ t) with (36 :: nNil ++ t).
    rewrite read_dollar; try assumption; [reflexivity|discriminate|repeat constructor; lia|repeat constructor].
  - (* bool *)
    intros ind ctx t fuel Hf Ht. destruct fuel as [|f]; [cbn in Hf; lia|].
    cbn [C04.repr C04.norm]. destruct b.
    + change (sTrue ++ t) with (36 :: nTrue ++ t).
      rewrite read_dollar; try assumption; [reflexivity|discriminate|repeat constructor; lia|repeat constructor].
    + change (sFalse ++ t) with (36 :: nFalse ++ t).
      rewrite read_dollar; try assumption; [reflexivity|discriminate|repeat constructor; lia|repeat constructor].
  - intros ind ctx t fuel Hf Ht. destruct fuel as [|f]; [cbn in Hf; lia|]. cbn [C04.repr].
    rewrite read_num by assumption. rewrite (value_of_nnorm (VInt z) _ eq_refl ind). reflexivity.
  - intros ind ctx t fuel Hf Ht. destruct fuel as [|f]; [cbn in Hf; lia|]. cbn [C04.repr].
    rewrite read_num by assumption. rewrite (value_of_nnorm (VBig z) _ eq_refl ind). reflexivity.
  - intros ind ctx t fuel Hf Ht. destruct fuel as [|f]; [cbn in Hf; lia|]. cbn [C04.repr].
    rewrite read_num by assumption. rewrite (value_of_nnorm (VRat q) _ eq_refl ind). reflexivity.
  - intros ind ctx t fuel Hf Ht. destruct fuel as [|f]; [cbn in Hf; lia|]. cbn [C04.repr].
    rewrite read_num by assumption. rewrite (value_of_nnorm (VFloat b) _ eq_refl ind). reflexivity.
  - (* string *)
    intros ind ctx t fuel Hf Ht. destruct fuel as [|f]; [cbn in Hf; lia|].
    cbn [C04.repr C04.norm]. cbn [okv] in Hok.
    assert (Hb : is_bytes s).
    { apply Forall_forall. intros x Hx. rewrite forallb_forall in Hok. specialize (Hok x Hx). lia. }
    destruct (read_from_string ctx s t Hb Ht) as (c & q & E & N1 & N2 & R & _).
    rewrite E in *. cbn [app] in *. rewrite read_val_S.
    replace (c =? 91) with false by lia. replace (c =? 40) with false by lia. exact R.
  - (* list *)
    assert (IHe : forall e, In e l -> RT e /\ SV e /\ okv e = true).
    { intros e He. cbn [okv] in Hok. rewrite forallb_forall in Hok. specialize (Hok e He).
      split; [|split; [apply sv_all|]; assumption].
      apply IHn; [|exact Hok]. pose proof (vsize_list_in sub l e He). lia. }
    intros ind ctx t fuel Hf Ht. cbn [C04.repr C04.norm].
    rewrite (fold_left_map (fun b y => lb_write ind b y) (fun e => repr e (ind + 1))).
    cbn [rdepth] in Hf. destruct fuel as [|f]; [lia|].
    destruct l as [|e1 l'].
    + cbn [map fold_left lb_string]. unfold sEmptyList. cbn [app]. rewrite read_val_S.
      cbn [N.eqb Pos.eqb]. unfold skip_ws. cbn [skip_while is_ws N.eqb Pos.eqb orb].
      destruct f as [|f]; [cbn in Hf; lia|]. rewrite read_items_close.
      cbn [ws_other N.eqb Pos.eqb orb build forallb elems_of]. apply finish_ok. exact Ht.
    + cbn [map]. rewrite lb_string_items by (apply repr_ne, IHe; left; reflexivity).
      change (repr e1 (ind + 1) :: map (fun e => repr e (ind + 1)) l')
        with (map (fun e => repr e (ind + 1)) (e1 :: l')).
      cbn [app]. rewrite <- !app_assoc. cbn [app].
      rewrite (items_tail (sep_next ind) (sep_close ind) _ t) by discriminate.
      rewrite read_val_S. cbn [N.eqb Pos.eqb].
      rewrite (skip_ws_app _ _ (sep_first_ws ind)).
      assert (Hd : skip_ws (tail_text (sep_next ind) (sep_close ind) (map (fun e => repr e (ind + 1)) (e1 :: l')) t)
                   = tail_text (sep_next ind) (sep_close ind) (map (fun e => repr e (ind + 1)) (e1 :: l')) t).
      { cbn [map tail_text]. apply elem_head; [apply IHe; left; reflexivity|].
        apply tail_after; [apply sep_next_ws|unfold sep_next; destruct (0 <=? ind)%Z; discriminate|apply sep_close_ws]. }
      rewrite Hd.
      rewrite (items_gen (fun e => repr e (ind + 1)) (fun e => IElem (norm e (ind + 1)))
                 (list_max (map rdepth (e1 :: l'))) (sep_next ind) (sep_close ind) t
                 (sep_next_ws ind) ltac:(unfold sep_next; destruct (0 <=? ind)%Z; discriminate) (sep_close_ws ind) (e1 :: l')).
      * cbn [ws_other N.eqb Pos.eqb orb]. rewrite <- (map_map (fun e => norm e (ind + 1)) IElem).
        rewrite build_elems. apply finish_ok. exact Ht.
      * intros a Ha T' HT. apply elem_head; [apply IHe; exact Ha|exact HT].
      * intros a Ha. apply elem_step; [apply IHe; exact Ha|apply IHe; exact Ha|].
        apply list_max_in, in_map, Ha.
      * cbn [length] in *. lia.
  - (* map *)
    assert (IHe : forall e, In e m -> RT (fst e) /\ SV (fst e) /\ RT (snd e) /\ SV (snd e)).
    { intros e He. cbn [okv] in Hok. rewrite forallb_forall in Hok. specialize (Hok e He).
      apply andb_true_iff in Hok as [Hk Hv]. pose proof (vsize_map_in m e He) as [S1 S2].
      repeat split; try (apply sv_all; assumption); apply IHn; try assumption; lia. }
    intros ind ctx t fuel Hf Ht. cbn [C04.repr C04.norm].
    pose proof (isort_dec rk (fun k : value => repr k (ind + 1))
                  (fun e : value * value => repr (snd e) (ind + 2)) m) as E1.
    pose proof (isort_dec rk (fun k : value => repr k (ind + 1))
                  (fun e : value * value => (norm (fst e) (ind + 1), norm (snd e) (ind + 2))) m) as E2.
    cbn beta in E1, E2. rewrite E1, E2. clear E1 E2.
    set (ktext := fun k : value => repr k (ind + 1)).
    set (sm := sorted_entries rk ktext m).
    assert (Hin : forall e, In e sm -> In e m) by (intros e; apply sorted_entries_in).
    assert (Hlen : length sm = length m) by apply sorted_entries_length.
    rewrite (fold_left_map (fun b y => lb_write ind b y)
               (fun e : value * (bytes * bytes) => mb_pair (fst (snd e)) (ind + 2) (snd (snd e)))).
    rewrite !map_map. cbn [fst snd].
    change (map (fun x : value * value => mb_pair (repr (fst x) (ind + 1)) (ind + 2) (repr (snd x) (ind + 2))) sm)
      with (map (pair_text ind) sm).
    cbn [rdepth] in Hf. destruct fuel as [|f]; [lia|].
    destruct sm as [|a sm'] eqn:Esm.
    + cbn [map fold_left]. unfold mb_string. cbn [lb_string]. change (bytes_eqb sEmptyList sEmptyList) with true.
      unfold sEmptyMap. cbn [app]. rewrite read_val_S. cbn [N.eqb Pos.eqb].
      unfold skip_ws. cbn [skip_while is_ws N.eqb Pos.eqb orb].
      destruct f as [|f]; [cbn in Hf; lia|]. rewrite read_items_S.
      cbn [ws_other N.eqb Pos.eqb orb]. rewrite peek_ascii by lia. cbn [N.eqb Pos.eqb tl]. cbv zeta.
      rewrite peek_ascii by lia. rewrite sp_false by tauto.
      cbn [skip_while is_ws N.eqb Pos.eqb orb ws_other]. apply finish_ok. exact Ht.
    + cbn [map]. unfold mb_string. cbv zeta.
      rewrite lb_string_items by apply pair_text_ne.
      change (pair_text ind a :: map (pair_text ind) sm') with (map (pair_text ind) (a :: sm')).
      match goal with |- context [bytes_eqb ?X sEmptyList] =>
        assert (NE : bytes_eqb X sEmptyList = false) end.
      { match goal with |- bytes_eqb ?X _ = false => destruct (bytes_eqb X sEmptyList) eqn:B; [|reflexivity] end.
        apply bytes_eqb_spec in B. cbn [map items_text] in B. unfold sEmptyList in B.
        apply (f_equal (@length N)) in B. cbn [length] in B. rewrite !app_length in B.
        unfold pair_text, mb_pair in B. cbn [length] in B. blia. }
      rewrite NE. cbn [app]. rewrite <- !app_assoc. cbn [app].
      rewrite (items_tail (sep_next ind) (sep_close ind) _ t) by discriminate.
      rewrite read_val_S. cbn [N.eqb Pos.eqb].
      rewrite (skip_ws_app _ _ (sep_first_ws ind)).
      assert (Hd : skip_ws (tail_text (sep_next ind) (sep_close ind) (map (pair_text ind) (a :: sm')) t)
                   = tail_text (sep_next ind) (sep_close ind) (map (pair_text ind) (a :: sm')) t) by reflexivity.
      rewrite Hd.
      set (M := list_max (map (fun e => Nat.max (rdepth (fst e)) (rdepth (snd e))) m)) in *.
      rewrite (items_gen (pair_text ind) (fun e => IPair (norm (fst e) (ind + 1)) (norm (snd e) (ind + 2)))
                 M (sep_next ind) (sep_close ind) t
                 (sep_next_ws ind) ltac:(unfold sep_next; destruct (0 <=? ind)%Z; discriminate) (sep_close_ws ind) (a :: sm')).
      * cbn [ws_other N.eqb Pos.eqb orb].
        assert (MM : map (fun e : value * value => IPair (norm (fst e) (ind + 1)) (norm (snd e) (ind + 2))) (a :: sm')
                     = map (fun p : value * value => IPair (fst p) (snd p))
                           (map (fun e : value * value => (norm (fst e) (ind + 1), norm (snd e) (ind + 2))) (a :: sm')))
          by (rewrite map_map; reflexivity).
        rewrite MM.
        rewrite build_pairs by discriminate. apply finish_ok. exact Ht.
      * intros a0 _ T' _. apply pair_head.
      * intros a0 Ha0. destruct (IHe a0 (Hin a0 Ha0)) as (R1 & S1 & R2 & S2).
        assert (Dm : (Nat.max (rdepth (fst a0)) (rdepth (snd a0)) <= M)%nat).
        { apply list_max_in. apply (in_map (fun e => Nat.max (rdepth (fst e)) (rdepth (snd e)))). apply Hin, Ha0. }
        apply pair_step; try assumption; lia.
      * cbn [length] in *. lia.
  - discriminate.
Qed.

Theorem repr_reads_back v : okv v = true ->
  forall ind ctx t fuel, (rdepth v <= fuel)%nat -> term_ok ctx t ->
  read_val fuel ctx (repr v ind ++ t) = ROk (norm v ind) t.
Proof. intros Hok. exact (rt_sized (S (vsize v)) v (le_n _) Hok). Qed.

End Roundtrip.
