(* C39 -- proofs, part 2: compile-and-replace of the global namespace is one
   critical section; the namespace after ANY interleaving is the one obtained
   by applying the programs one after the other in commit order. *)
From verif Require Import lib.Base model.C39 proofs.C39_proofs.
Open Scope N_scope.

(* effect of one program on the namespace: what Eval installs, or nothing when
   it does not compile *)
Definition ns_effect (t : N) (p : list stmt) (g : ns) : ns :=
  match compile t 0 g p with Some (g', _, _) => g' | None => g end.

(* the programs applied one after the other, in the given order of threads *)
Definition ns_after (P : N -> option (list stmt)) (order : list N) (g : ns) : ns :=
  fold_left (fun g t => match P t with Some p => ns_effect t p g | None => g end) order g.

(* the program of thread t if job t is an Eval *)
Definition eval_prog (js : list job) (t : N) : option (list stmt) :=
  match nth_error js (N.to_nat t) with Some (JEval p) => Some p | _ => None end.

Definition quiet (o : op) : Prop :=
  match o with OLockW | OCompile _ | OWrGlobal _ _ => False | _ => True end.

Section Atomic.
Variable P : N -> option (list stmt).

(* where a thread is inside Eval, and what it knows there *)
Inductive phase (c : config) (t : N) : list op -> Prop :=
| PhStart p : P t = Some p -> ~ In t (c_commits c) ->
    phase c t [OLockW; ORdBuiltin; ORdGlobal; OCompile p]
| PhLocked1 p : c_w c = Some t -> P t = Some p -> ~ In t (c_commits c) ->
    phase c t [ORdBuiltin; ORdGlobal; OCompile p]
| PhLocked2 p : c_w c = Some t -> P t = Some p -> ~ In t (c_commits c) ->
    phase c t [ORdGlobal; OCompile p]
| PhSnap p : c_w c = Some t -> P t = Some p -> ~ In t (c_commits c) ->
    t_snap (c_thr c t) = c_global c ->
    phase c t [OCompile p]
| PhCommit p g' fr xs : c_w c = Some t -> P t = Some p -> ~ In t (c_commits c) ->
    compile t 0 (c_global c) p = Some (g', fr, xs) ->
    phase c t (OWrGlobal g' fr :: OUnlockW :: xs)
| PhQuiet ops : Forall quiet ops -> phase c t ops.

Lemma phase_frame c c' u ops :
  phase c u ops ->
  (c_w c = Some u -> c_w c' = Some u /\ c_global c' = c_global c) ->
  (In u (c_commits c') -> In u (c_commits c)) ->
  t_snap (c_thr c' u) = t_snap (c_thr c u) ->
  phase c' u ops.
Proof.
  intros Hph Hw Hc Hs.
  destruct Hph as [p Hp Hn|p Hl Hp Hn|p Hl Hp Hn|p Hl Hp Hn Hsn|p g' fr xs Hl Hp Hn Hcm|ops Hq].
  - apply PhStart; auto.
  - destruct (Hw Hl). apply PhLocked1; auto.
  - destruct (Hw Hl). apply PhLocked2; auto.
  - destruct (Hw Hl) as [H1 H2]. apply PhSnap; auto. rewrite Hs, H2. exact Hsn.
  - destruct (Hw Hl) as [H1 H2]. eapply PhCommit; eauto. rewrite H2. exact Hcm.
  - apply PhQuiet. exact Hq.
Qed.

Variable g0 : ns.

Definition Inv3 (c : config) : Prop :=
  (forall t, phase c t (t_ops (c_thr c t)))
  /\ c_global c = ns_after P (rev (c_commits c)) g0
  /\ NoDup (c_commits c)
  /\ (forall t, In t (c_commits c) -> P t <> None).

Lemma plain_quiet xs : Forall plain_op xs -> Forall quiet xs.
Proof.
  intros H. eapply Forall_impl; [|exact H]. intros o Ho. destruct o; simpl in *; auto.
Qed.

(* what a step of t does to the shared part *)
Lemma step_shared c t c' :
  step_opt c t = Some c' ->
  (forall u, u <> t -> c_thr c' u = c_thr c u)
  /\ (forall u, u <> t -> c_w c = Some u -> c_w c' = Some u)
  /\ ((c_global c' = c_global c /\ c_commits c' = c_commits c)
      \/ (exists g' fr r, t_ops (c_thr c t) = OWrGlobal g' fr :: r /\ c_global c' = g'
                          /\ c_commits c' = t :: c_commits c)).
Proof.
  unfold step_opt. destruct (t_ops (c_thr c t)) as [|o r] eqn:Hops; [discriminate|].
  intros Hs.
  destruct o.
  - destruct (c_w c) eqn:Hw; [discriminate|]. destruct (c_r c); [|discriminate]. inv_some.
    simpl. repeat split; auto; intros; try (apply upd_other; assumption); discriminate.
  - destruct (c_w c) as [x|] eqn:Hw; [|discriminate]. destruct (x =? t) eqn:E; [|discriminate].
    apply N.eqb_eq in E. subst x. inv_some.
    simpl. repeat split; auto; intros; try (apply upd_other; assumption). congruence.
  - destruct (c_w c) eqn:Hw; [discriminate|]. inv_some.
    simpl. repeat split; auto; intros; try (apply upd_other; assumption); discriminate.
  - inv_some. simpl. repeat split; auto; intros; try (apply upd_other; assumption).
  - inv_some. simpl. repeat split; auto; intros; try (apply upd_other; assumption).
  - inv_some. simpl. repeat split; auto; intros; try (apply upd_other; assumption).
  - destruct (compile t 0 (t_snap (c_thr c t)) p) as [[[g' fr] xs]|]; inv_some;
      simpl; repeat split; auto; intros; try (apply upd_other; assumption).
  - inv_some. simpl. split; [|split].
    + intros; apply upd_other; assumption.
    + auto.
    + right. exists g, fresh, r. auto.
  - destruct (compile t 0 (t_snap (c_thr c t)) p); inv_some;
      simpl; repeat split; auto; intros; try (apply upd_other; assumption).
  - inv_some. simpl. repeat split; auto; intros; try (apply upd_other; assumption).
  - inv_some. simpl. repeat split; auto; intros; try (apply upd_other; assumption).
  - inv_some. simpl. repeat split; auto; intros; try (apply upd_other; assumption).
  - destruct (memN m (c_mods c)); inv_some;
      simpl; repeat split; auto; intros; try (apply upd_other; assumption).
  - inv_some. simpl. repeat split; auto; intros; try (apply upd_other; assumption).
  - inv_some. simpl. repeat split; auto; intros; try (apply upd_other; assumption).
Qed.

Lemma ns_after_snoc order t g :
  ns_after P (order ++ [t]) g =
  match P t with Some p => ns_effect t p (ns_after P order g) | None => ns_after P order g end.
Proof. unfold ns_after. rewrite fold_left_app. reflexivity. Qed.

Lemma step_Inv3 c t : Inv3 c -> Inv3 (step c t).
Proof.
  intros (Hph & Hg & Hnd & Hev). unfold step.
  destruct (step_opt c t) as [c'|] eqn:Hs; [|repeat split; assumption].
  destruct (step_shared c t c' Hs) as (Hthr & Hwk & Hsh).
  pose proof (Hph t) as Ht.
  (* the other threads *)
  assert (Hothers : forall u, u <> t -> phase c' u (t_ops (c_thr c' u))).
  { intros u Hne. rewrite (Hthr u Hne). apply (phase_frame c c' u); [apply Hph| | |].
    - intros Hw. split; [apply Hwk; assumption|].
      destruct Hsh as [[Hsame _]|(g' & fr & r & Hops & _ & _)]; [exact Hsame|].
      (* t replaces ev.global: then t holds ev.mu exclusively, not u *)
      exfalso. rewrite Hops in Ht. inversion Ht as [| | | |p g1 f1 xs Hl _ _ _|ops Hq]; subst.
      + congruence.
      + inversion Hq as [|? ? Hq1 _]. exact Hq1.
    - destruct Hsh as [[_ Hsame]|(g' & fr & r & _ & _ & Hcm)]; rewrite ?Hsame, ?Hcm; auto.
      intros [Heq|Hin]; [congruence|exact Hin].
    - rewrite (Hthr u Hne). reflexivity. }
  (* thread t itself *)
  unfold step_opt in Hs.
  remember (t_ops (c_thr c t)) as tops eqn:Htops.
  inversion Ht as [p Hp Hn Hops|p Hl Hp Hn Hops|p Hl Hp Hn Hops|p Hl Hp Hn Hsn Hops
                   |p g' fr xs Hl Hp Hn Hcm Hops|ops Hq Hops]; try rewrite <- Hops in Hs.
  - (* OLockW *)
    destruct (c_w c) eqn:Hw; [discriminate|]. destruct (c_r c); [|discriminate]. inv_some.
    split; [|repeat split; assumption].
    intros u. destruct (N.eq_dec u t) as [->|Hne]; [|apply Hothers; exact Hne].
    simpl. rewrite upd_same. simpl. apply PhLocked1; auto.
  - (* ORdBuiltin *)
    inv_some. split; [|repeat split; assumption].
    intros u. destruct (N.eq_dec u t) as [->|Hne]; [|apply Hothers; exact Hne].
    simpl. rewrite upd_same. simpl. apply PhLocked2; auto.
  - (* ORdGlobal *)
    inv_some. split; [|repeat split; assumption].
    intros u. destruct (N.eq_dec u t) as [->|Hne]; [|apply Hothers; exact Hne].
    simpl. rewrite upd_same. simpl. apply PhSnap; auto. simpl. rewrite upd_same. reflexivity.
  - (* OCompile *)
    rewrite Hsn in Hs.
    destruct (compile t 0 (c_global c) p) as [[[g' fr] xs]|] eqn:Hc; inv_some.
    + split; [|repeat split; assumption].
      intros u. destruct (N.eq_dec u t) as [->|Hne]; [|apply Hothers; exact Hne].
      simpl. rewrite upd_same. simpl. eapply PhCommit; eauto.
    + split; [|repeat split; assumption].
      intros u. destruct (N.eq_dec u t) as [->|Hne]; [|apply Hothers; exact Hne].
      simpl. rewrite upd_same. simpl. apply PhQuiet. repeat constructor.
  - (* OWrGlobal: the commit *)
    inv_some. split; [|split; [|split]].
    + intros u. destruct (N.eq_dec u t) as [->|Hne]; [|apply Hothers; exact Hne].
      simpl. rewrite upd_same. simpl. apply PhQuiet. constructor; [exact I|].
      apply plain_quiet. eapply compile_plain; eauto.
    + simpl. rewrite ns_after_snoc, Hp, <- Hg. unfold ns_effect. rewrite Hcm. reflexivity.
    + simpl. constructor; assumption.
    + simpl. intros u [Heq|Hin]; [subst; congruence|apply Hev; exact Hin].
  - (* a quiet operation *)
    subst ops. destruct tops as [|o r]; [discriminate|].
    apply Forall_cons_iff in Hq as [Ho Hr].
    destruct o; simpl in Ho; try contradiction.
    + destruct (c_w c) as [x|] eqn:Hw; [|discriminate]. destruct (x =? t); [|discriminate]. inv_some.
      split; [|repeat split; assumption].
      intros u. destruct (N.eq_dec u t) as [->|Hne]; [|apply Hothers; exact Hne].
      simpl. rewrite upd_same. apply PhQuiet. exact Hr.
    + destruct (c_w c) eqn:Hw; [discriminate|]. inv_some.
      split; [|repeat split; assumption].
      intros u. destruct (N.eq_dec u t) as [->|Hne]; [|apply Hothers; exact Hne].
      simpl. rewrite upd_same. apply PhQuiet. exact Hr.
    + inv_some. split; [|repeat split; assumption].
      intros u. destruct (N.eq_dec u t) as [->|Hne]; [|apply Hothers; exact Hne].
      simpl. rewrite upd_same. apply PhQuiet. exact Hr.
    + inv_some. split; [|repeat split; assumption].
      intros u. destruct (N.eq_dec u t) as [->|Hne]; [|apply Hothers; exact Hne].
      simpl. rewrite upd_same. apply PhQuiet. exact Hr.
    + inv_some. split; [|repeat split; assumption].
      intros u. destruct (N.eq_dec u t) as [->|Hne]; [|apply Hothers; exact Hne].
      simpl. rewrite upd_same. apply PhQuiet. exact Hr.
    + destruct (compile t 0 (t_snap (c_thr c t)) p); inv_some;
        (split; [|repeat split; assumption]);
        intros u; (destruct (N.eq_dec u t) as [->|Hne]; [|apply Hothers; exact Hne]);
        simpl; rewrite upd_same; apply PhQuiet; exact Hr.
    + inv_some. split; [|repeat split; assumption].
      intros u. destruct (N.eq_dec u t) as [->|Hne]; [|apply Hothers; exact Hne].
      simpl. rewrite upd_same. apply PhQuiet. exact Hr.
    + inv_some. split; [|repeat split; assumption].
      intros u. destruct (N.eq_dec u t) as [->|Hne]; [|apply Hothers; exact Hne].
      simpl. rewrite upd_same. apply PhQuiet. exact Hr.
    + inv_some. split; [|repeat split; assumption].
      intros u. destruct (N.eq_dec u t) as [->|Hne]; [|apply Hothers; exact Hne].
      simpl. rewrite upd_same. apply PhQuiet. exact Hr.
    + destruct (memN m (c_mods c)); inv_some;
        (split; [|repeat split; assumption]);
        intros u; (destruct (N.eq_dec u t) as [->|Hne]; [|apply Hothers; exact Hne]);
        simpl; rewrite upd_same; apply PhQuiet; [exact Hr|constructor; [exact I|exact Hr]].
    + inv_some. split; [|repeat split; assumption].
      intros u. destruct (N.eq_dec u t) as [->|Hne]; [|apply Hothers; exact Hne].
      simpl. rewrite upd_same. apply PhQuiet. exact Hr.
    + inv_some. split; [|repeat split; assumption].
      intros u. destruct (N.eq_dec u t) as [->|Hne]; [|apply Hothers; exact Hne].
      simpl. rewrite upd_same. apply PhQuiet. exact Hr.
Qed.

End Atomic.

(* ---- the initial configuration ---- *)

Lemma threads_of_nth g0 js : forall i t,
  threads_of g0 i js t =
  match (if t <? i then None else nth_error js (N.to_nat (t - i))) with
  | Some j => mkThread (job_ops g0 j) [] false []
  | None => idle
  end.
Proof.
  induction js as [|j r IH]; intros i t; simpl.
  - destruct (t <? i); [reflexivity|]. destruct (N.to_nat (t - i)); reflexivity.
  - unfold upd. destruct (t =? i) eqn:E.
    + apply N.eqb_eq in E. subst t. rewrite N.ltb_irrefl, N.sub_diag. reflexivity.
    + apply N.eqb_neq in E. rewrite IH.
      destruct (t <? i) eqn:L1.
      * apply N.ltb_lt in L1. assert (L2 : (t <? i + 1) = true) by (apply N.ltb_lt; lia).
        rewrite L2. reflexivity.
      * apply N.ltb_ge in L1. assert (L2 : (t <? i + 1) = false) by (apply N.ltb_ge; lia).
        rewrite L2. replace (N.to_nat (t - i)) with (S (N.to_nat (t - (i + 1)))) by lia.
        reflexivity.
Qed.

Lemma call_ops_quiet g p : Forall quiet (call_ops g p).
Proof. apply plain_quiet, call_ops_plain. Qed.

Lemma init_Inv3 g0 st0 mods0 js : Inv3 (eval_prog js) g0 (init g0 st0 mods0 js).
Proof.
  split; [|split; [reflexivity|split; [constructor|intros t []]]].
  intros t. unfold init; simpl. rewrite threads_of_nth.
  assert (E : (t <? 0) = false) by (apply N.ltb_ge; lia). rewrite E, N.sub_0_r.
  destruct (nth_error js (N.to_nat t)) as [j|] eqn:Hn; simpl.
  - destruct j as [p|p|p]; simpl.
    + apply PhStart; [unfold eval_prog; rewrite Hn; reflexivity|intros []].
    + apply PhQuiet. repeat constructor.
    + apply PhQuiet. repeat constructor. apply call_ops_quiet.
  - apply PhQuiet. constructor.
Qed.

(* ALL job sets, ALL interleavings: the global namespace is the one obtained
   by applying the Eval programs one after the other in the order in which
   they replaced ev.global; each Eval commits at most once. *)
Lemma global_update_atomic g0 st0 mods0 js sched :
  let c := run sched (init g0 st0 mods0 js) in
  c_global c = ns_after (eval_prog js) (rev (c_commits c)) g0
  /\ NoDup (c_commits c)
  /\ (forall t, In t (c_commits c) -> eval_prog js t <> None).
Proof.
  assert (H : Inv3 (eval_prog js) g0 (run sched (init g0 st0 mods0 js))).
  { apply run_invariant; [intros; apply step_Inv3; assumption|apply init_Inv3]. }
  destruct H as (_ & H1 & H2 & H3). auto.
Qed.

(* the critical section itself: while a thread is between its read of
   ev.global and its replacement, ev.global is what it read *)
Lemma snapshot_is_current g0 st0 mods0 js sched t p :
  let c := run sched (init g0 st0 mods0 js) in
  t_ops (c_thr c t) = [OCompile p] -> t_snap (c_thr c t) = c_global c /\ c_w c = Some t.
Proof.
  intros c Hops.
  assert (H : Inv3 (eval_prog js) g0 c).
  { apply run_invariant; [intros; apply step_Inv3; assumption|apply init_Inv3]. }
  destruct H as (Hph & _). specialize (Hph t). rewrite Hops in Hph.
  inversion Hph as [| | |p' Hl Hp Hn Hsn| |ops Hq]; subst.
  - auto.
  - inversion Hq as [|? ? Hq1 _]. destruct Hq1.
Qed.
