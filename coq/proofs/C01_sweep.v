(* C01/C02 — finite exhaustive sweeps of the parser model (vm_compute), used
   for the [_partial] theorems and the examples. *)
From verif Require Import lib.Base lib.Utf8 model.C01_Parse model.C01 model.C02 proofs.C01_proofs.
Open Scope nat_scope.

(* all strings over [al] of length exactly k / at most k *)
Fixpoint strings_eq (al : bytes) (k : nat) : list bytes :=
  match k with
  | O => [[]]
  | S k' => flat_map (fun s => map (fun a => a :: s) al) (strings_eq al k')
  end.
Fixpoint strings_le (al : bytes) (k : nat) : list bytes :=
  match k with
  | O => [[]]
  | S k' => strings_eq al k ++ strings_le al k'
  end.

(* letter a, the two quotes, dollar, parentheses, brackets, braces, bar,
   ampersand, angle brackets, tilde, caret, hash, comma, equals, semicolon,
   backslash, star, question mark, space, newline *)
Definition alphabet25 : bytes :=
  [97; 39; 34; 36; 40; 41; 91; 93; 123; 125; 124; 38; 60; 62; 126; 94; 35; 44; 61; 59; 92; 42; 63; 32; 10]%N.
(* a subset of the above plus the two bytes of U+00E9 (so cuts inside a rune
   and invalid UTF-8 occur) *)
Definition alphabet16 : bytes :=
  [97; 39; 34; 36; 40; 41; 91; 93; 123; 125; 124; 38; 62; 32; 195; 169]%N.

Definition pr0 : N -> bool := fun r => N.eqb r 233 || N.eqb r 65533.

(* the model terminates within its fuel and returns a lossless tree with all
   errors in range *)
Definition ok_C01 (s : bytes) : bool :=
  match parse_model pr0 s with
  | Some (t, es) => check_C01 s t es
  | None => false
  end.

Fixpoint prefixes_from (k : nat) (s : bytes) : list bytes :=
  match k with
  | O => []
  | S k' => firstn k' s :: prefixes_from k' s
  end.
(* proper prefixes cut at a rune boundary: those that are valid UTF-8 *)
Definition proper_prefixes (s : bytes) : list bytes :=
  filter (fun p => negb (Nat.eqb (length p) 0) && valid p) (prefixes_from (length s) s).

Definition errs_of (s : bytes) : option (list perr) :=
  match parse_model pr0 s with Some (_, es) => Some es | None => None end.

(* if [s] is a valid program, every proper rune-boundary prefix has only
   partial errors, each starting at the end, and Enter inserts a newline *)
Definition ok_C02 (s : bytes) : bool :=
  match errs_of s with
  | Some [] =>
    valid s &&
    forallb (fun p => match errs_of p with
                      | Some es => forallb e_partial es
                                   && forallb (fun e => Nat.eqb (e_from e) (length p)) es
                                   && (match es with [] => true | _ => negb (isSyntaxComplete p es) end)
                      | None => false
                      end) (proper_prefixes s)
    || negb (valid s)
  | Some _ => true
  | None => false
  end.

Lemma sweep_C01_25_3 : forallb ok_C01 (strings_le alphabet25 3) = true.
Proof. vm_compute. reflexivity. Qed.
Lemma sweep_C01_16_4 : forallb ok_C01 (strings_le alphabet16 4) = true.
Proof. vm_compute. reflexivity. Qed.
Lemma sweep_C02_25_3 : forallb ok_C02 (strings_le alphabet25 3) = true.
Proof. vm_compute. reflexivity. Qed.
Lemma sweep_C02_16_4 : forallb ok_C02 (strings_le alphabet16 4) = true.
Proof. vm_compute. reflexivity. Qed.

(* the bound of the sweeps, as a predicate on texts *)
Definition in_sweep (s : bytes) : Prop :=
  In s (strings_le alphabet25 3) \/ In s (strings_le alphabet16 4).

Lemma sweep_total s : in_sweep s ->
  exists t es, parse_model pr0 s = Some (t, es) /\ check_C01 s t es = true.
Proof.
  intros [H|H]; [pose proof sweep_C01_25_3 as S|pose proof sweep_C01_16_4 as S];
    rewrite forallb_forall in S; specialize (S s H); unfold ok_C01 in S;
    destruct (parse_model pr0 s) as [[t es]|]; try discriminate; eauto.
Qed.

Lemma sweep_prefix s : in_sweep s -> ok_C02 s = true.
Proof.
  intros [H|H]; [pose proof sweep_C02_25_3 as S|pose proof sweep_C02_16_4 as S];
    rewrite forallb_forall in S; exact (S s H).
Qed.

(* "a 2>b": the Redir node covers [2,5) and its text is "2>b" *)
Definition redir_example : bytes := [97; 32; 50; 62; 98]%N.
Lemma redir_example_ok :
  match parse_model pr0 redir_example with
  | Some (t, es) => check_C01 redir_example t es = true /\ es = []
  | None => False
  end.
Proof. vm_compute. split; reflexivity. Qed.

(* a | each {|x| put $x 'y' } *)
Definition example_src : bytes := [97; 32; 124; 32; 101; 97; 99; 104; 32; 123; 124; 120; 124; 32; 112; 117; 116; 32; 36; 120; 32; 39; 121; 39; 32; 125]%N.
Lemma example_pipeline :
  match parse_model pr0 example_src with
  | Some (t, es) => check_C01 example_src t es = true /\ es = []
  | None => False
  end.
Proof. vm_compute. split; reflexivity. Qed.

(* double-quoted strings holding exactly one escape, with digits over small
   digit sets that reach surrogate values, values above U+10FFFF and the
   planes D8000..DFFFF (whose 7-digit prefixes read as surrogates); every cut
   inside the escape is among the prefixes *)
Definition dq_escape (k : N) (ds : bytes) : bytes := (34 :: 92 :: k :: ds ++ [34])%N.
Definition escape_texts : list bytes :=
  map (dq_escape 120) (strings_eq [48; 52; 70; 97]%N 2)        (* x: 0 4 F a *)
  ++ map (dq_escape 117) (strings_eq [48; 68; 56; 70]%N 4)     (* u: 0 D 8 F *)
  ++ map (dq_escape 85) (strings_eq [48; 68; 56]%N 8)          (* U: 0 D 8 *)
  ++ map (fun ds => (34 :: 92 :: ds ++ [34])%N) (strings_eq [48; 51; 55]%N 3)   (* octal: 0 3 7 *)
  ++ map (fun x => [34; 92; 99; x; 34]%N) [63; 64; 65; 95]%N   (* control, letter c *)
  ++ map (fun x => [34; 92; 94; x; 34]%N) [63; 64; 65; 95]%N.  (* control, caret *)

Lemma sweep_C02_escapes : forallb ok_C02 escape_texts = true.
Proof. vm_compute. reflexivity. Qed.

Definition in_sweep_C02 (s : bytes) : Prop := in_sweep s \/ In s escape_texts.

Lemma sweep_prefix2 s : in_sweep_C02 s -> ok_C02 s = true.
Proof.
  intros [H|H]; [now apply sweep_prefix|].
  pose proof sweep_C02_escapes as S. rewrite forallb_forall in S. exact (S s H).
Qed.

(* Prop-level reading of [ok_C02] *)
Lemma sweep_prefix_prop s : in_sweep_C02 s -> errs_of s = Some [] -> valid s = true ->
  forall p, In p (proper_prefixes s) ->
  exists es, errs_of p = Some es
    /\ (forall e, In e es -> e_partial e = true /\ e_from e = length p)
    /\ (es <> [] -> isSyntaxComplete p es = false).
Proof.
  intros Hs He Hv p Hp. pose proof (sweep_prefix2 s Hs) as S. unfold ok_C02 in S.
  rewrite He, Hv in S. cbn [negb andb orb] in S. rewrite orb_false_r in S.
  rewrite forallb_forall in S. specialize (S p Hp).
  destruct (errs_of p) as [es|]; [|discriminate]. exists es. split; [reflexivity|].
  apply andb_true_iff in S as [S S3]. apply andb_true_iff in S as [S1 S2].
  rewrite forallb_forall in S1, S2. split.
  - intros e Hin. split; [now apply S1|]. apply Nat.eqb_eq. now apply S2.
  - intros Hne. destruct es; [congruence|]. now apply negb_true_iff in S3.
Qed.

(* The full statement of C02 over the model, for reference (not proved in
   general; see checks/C02.md): for every text that parses without errors,
   every proper prefix that is valid UTF-8 has only errors that are partial and
   start at its end. *)
Definition prefix_errors_partial_statement : Prop :=
  forall is_print src, valid src = true ->
    (exists t, parse_model is_print src = Some (t, [])) ->
    forall k, 0 < k < length src -> valid (firstn k src) = true ->
    exists t es, parse_model is_print (firstn k src) = Some (t, es)
      /\ forall e, In e es -> e_partial e = true /\ e_from e = k.

Lemma example_prefix :
  errs_of [97; 32; 124; 32; 98]%N = Some []
  /\ errs_of [97; 32; 124]%N = Some [E 3 3 errShouldBeForm true].
Proof. vm_compute. split; reflexivity. Qed.
