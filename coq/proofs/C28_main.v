(* C28 — proofs, part 5: the statements used by props/C28.v, in their final form. *)
From Coq Require Import Permutation.
From verif Require Import lib.Base lib.ListX lib.Utf8 model.C28
  proofs.C28_proofs proofs.C28_words proofs.C28_area proofs.C28_oracle.
Open Scope nat_scope.

Lemma dot_in_range_builtin U c b :
  dot b <= length (content b) -> dot (apply_cmd U c b) <= length (content (apply_cmd U c b)).
Proof. exact (apply_cmd_range U c b). Qed.

Lemma dot_in_range_any_categoriser (cat : N -> Z) rs d : d <= length rs ->
  move_left_gw cat rs d <= length rs /\ move_right_gw cat rs d <= length rs /\
  snd (transpose_gw cat rs d) <= length (fst (transpose_gw cat rs d)) /\
  (forall m : list N -> nat -> nat, snd (make_kill m rs d) <= length (fst (make_kill m rs d))).
Proof.
  intros H. split; [apply move_left_gw_range; exact H|]. split; [apply move_right_gw_range; exact H|].
  split; [apply transpose_gw_perm; exact H|]. intros m. apply kill_range. exact H.
Qed.

Lemma history_invariant U cfg st evs :
  (dot (st_buf st) <= length (content (st_buf st)) /\
   exists pre, firstn (dot (st_last st)) (content (st_last st)) = pre ++ st_inserts st) ->
  Forall ev_ok evs ->
  let st' := run U cfg st evs in
  dot (st_buf st') <= length (content (st_buf st')) /\
  exists pre, firstn (dot (st_last st')) (content (st_last st')) = pre ++ st_inserts st'.
Proof. intros H Hok. exact (run_inv U cfg evs st H Hok). Qed.

Lemma dot_in_range_history U cfg b evs :
  dot b <= length (content b) -> Forall ev_ok evs ->
  forall k, let st := run U cfg (init_state b) (firstn k evs) in
            dot (st_buf st) <= length (content (st_buf st)).
Proof. intros Hb Hok k. exact (history_dot_in_range U cfg b evs Hb Hok k). Qed.

(* kill builtins of the table *)
Lemma kill_builtin_deletes_between U c m b :
  is_kill c = true -> mover_of U c = Some m ->
  let nd := m (content b) (dot b) in
  apply_cmd U c b =
  mkBuf (firstn (Nat.min (dot b) nd) (content b) ++ skipn (Nat.max (dot b) nd) (content b))
        (Nat.min (dot b) nd).
Proof.
  intros Hk Hm nd. unfold nd. destruct b as [rs d]. simpl content; simpl dot.
  destruct c; simpl in Hk; try discriminate; simpl in Hm; inversion Hm; subst; clear Hm;
    unfold apply_cmd; simpl mover_of; simpl is_kill; cbv iota; simpl content; simpl dot;
    rewrite kill_deletes_between; reflexivity.
Qed.

Lemma transpose_builtin_permutation U c b :
  is_transpose c = true -> dot b <= length (content b) ->
  Permutation (content b) (content (apply_cmd U c b)) /\
  length (content (apply_cmd U c b)) = length (content b).
Proof.
  intros Ht H. destruct b as [rs d]. simpl in H.
  assert (G : Permutation rs (content (apply_cmd U c (mkBuf rs d)))).
  { destruct c; simpl in Ht; try discriminate; simpl.
    - pose proof (transpose_runes_perm rs d H) as [Hp _]. destruct (transpose_runes rs d). exact Hp.
    - pose proof (transpose_gw_perm (cat_of U f) rs d H) as [Hp _].
      destruct (transpose_gw (cat_of U f) rs d). exact Hp. }
  split; [exact G|]. symmetry. apply Permutation_length. exact G.
Qed.

Lemma transpose_any_categoriser_permutation (cat : N -> Z) rs d : d <= length rs ->
  Permutation rs (fst (transpose_gw cat rs d)) /\
  length (fst (transpose_gw cat rs d)) = length rs.
Proof.
  intros H. pose proof (transpose_gw_perm cat rs d H) as [Hp _].
  split; [exact Hp|]. symmetry. apply Permutation_length. exact Hp.
Qed.

Lemma word_motion_lands (cat : N -> Z) rs d : d <= length rs ->
  lands_left cat rs d (move_left_gw cat rs d) /\ lands_right cat rs d (move_right_gw cat rs d).
Proof. intros H. split; [apply move_left_gw_lands|apply move_right_gw_lands]; exact H. Qed.

Lemma word_motion_nearest (cat : N -> Z) rs d : d <= length rs ->
  move_left_gw cat rs d = last_ws_before cat rs d /\ move_right_gw cat rs d = first_ws_after cat rs d.
Proof. intros H. split; [apply move_left_gw_nearest|apply move_right_gw_nearest]; exact H. Qed.

Lemma command_abbr_dot_at_end U cfg st :
  let st' := expand_command_abbr U cfg st in
  st' = st \/ (dot (st_buf st') = length (content (st_buf st')) /\ st_inserts st' = []).
Proof.
  cbv zeta. destruct (expand_command_cases U cfg st) as [E|[newc E]]; [left; exact E|right].
  rewrite E. simpl. auto.
Qed.

(* where the expansions are applied: right after an insertion the inserted
   text is in front of the dot *)
Lemma inserted_text_before_dot st rn :
  (dot (st_buf st) <= length (content (st_buf st)) /\
   exists pre, firstn (dot (st_last st)) (content (st_last st)) = pre ++ st_inserts st) ->
  let st2 := after_insert st rn in
  dot (st_buf st2) <= length (content (st_buf st2)) /\
  exists pre, firstn (dot (st_buf st2)) (content (st_buf st2)) = pre ++ st_inserts st2.
Proof.
  intros H. pose proof (after_insert_inv st rn H) as [[Hr _] [_ Hs]]. split; [exact Hr|exact Hs].
Qed.

(* a graphic key outside a paste is inserted and then the three expansions run *)
Lemma handle_key_graphic U cfg st (r : Z) :
  st_pasting st = false -> (0 <= r)%Z -> r <> 10%Z -> r <> 127%Z ->
  is_graphic U (Z.to_N r) = true ->
  handle_key U cfg st r 0 =
  expand_small_word_abbr U cfg (Z.to_N r)
    (expand_simple_abbr cfg
       (if is_whitespace (Z.to_N r) then expand_command_abbr U cfg (after_insert st (Z.to_N r))
        else after_insert st (Z.to_N r))).
Proof.
  intros Hp H0 H10 H127 Hg. unfold handle_key. rewrite Hp.
  replace (Z.eqb r 10) with false by (symmetry; apply Z.eqb_neq; exact H10).
  replace (Z.eqb r gen.Consts.pkg_ui.Backspace) with false
    by (symmetry; apply Z.eqb_neq; exact H127).
  replace (r <? 0)%Z with false by (symmetry; apply Z.ltb_ge; exact H0).
  rewrite Hg. simpl. rewrite Bool.andb_false_r. reflexivity.
Qed.
