(* C43 — proofs about model/C43.v.  Reading a quoted word back is C03's
   quote_parses_back; everything here is for every IsPrint table and every
   byte string, with no length bound. *)
From verif Require Import lib.Base lib.ListX lib.Utf8 lib.Utf8_proofs model.C03 proofs.C03_proofs model.C43.
From Coq Require Import ZifyBool ZifyNat ZifyN Permutation Sorted.
Open Scope N_scope.

Arguments decode_rune : simpl never.
Arguments encode_rune : simpl never.
Arguments next : simpl never.
Arguments peek : simpl never.

(* ------------------------------------------------------------------ *)
(* has_prefix / split_path                                              *)

Lemma has_prefix_spec s p : has_prefix s p = true <-> exists r, s = p ++ r.
Proof.
  revert s; induction p as [|b p IH]; intros s; cbn [has_prefix].
  - split; [intros _; exists s; reflexivity|intros _; destruct s; reflexivity].
  - destruct s as [|c s]; cbn [has_prefix]; [split; [discriminate|intros [r E]; discriminate]|].
    rewrite andb_true_iff, N.eqb_eq, IH. split.
    + intros [-> [r ->]]. exists r. reflexivity.
    + intros [r E]. inversion E; subst. split; [reflexivity|exists r; reflexivity].
Qed.

Lemma has_prefix_app d x p : has_prefix (d ++ x) (d ++ p) = has_prefix x p.
Proof. induction d as [|b d IH]; [reflexivity|]. cbn. rewrite N.eqb_refl. exact IH. Qed.

Lemma has_prefix_nil s : has_prefix s [] = true.
Proof. destruct s; reflexivity. Qed.

(* a prefix without a slash: the slash appended to a directory name does not matter *)
Lemma has_prefix_slash name p : ~ In cSLASH p ->
  has_prefix (name ++ [cSLASH]) p = has_prefix name p.
Proof.
  revert name; induction p as [|b p IH]; intros name Hn.
  - rewrite !has_prefix_nil. reflexivity.
  - destruct name as [|c name]; cbn [app has_prefix].
    + destruct (N.eqb_spec b cSLASH) as [E|E]; [exfalso; apply Hn; left; exact E|reflexivity].
    + rewrite IH; [reflexivity|]. intros H; apply Hn; right; exact H.
Qed.

Lemma split_path_spec s : forall d f, split_path s = (d, f) -> s = d ++ f /\ ~ In cSLASH f.
Proof.
  induction s as [|c s IH]; intros d f E; cbn [split_path] in E.
  - inversion E. split; [reflexivity|intros []].
  - destruct (split_path s) as [d0 f0]. destruct (IH _ _ eq_refl) as [Es Hn].
    destruct (N.eqb_spec c cSLASH) as [Ec|Ec].
    + inversion E; subst. split; [reflexivity|exact Hn].
    + destruct d0 as [|x d0]; inversion E; subst; cbn.
      * split; [reflexivity|]. intros [H|H]; [apply Ec; exact H|exact (Hn H)].
      * split; [reflexivity|exact Hn].
Qed.

(* the directory part is empty or ends with a slash *)
Lemma split_path_dir s : forall d f, split_path s = (d, f) -> d = [] \/ exists d', d = d' ++ [cSLASH].
Proof.
  induction s as [|c s IH]; intros d f E; cbn [split_path] in E.
  - inversion E. left; reflexivity.
  - destruct (split_path s) as [d0 f0]. specialize (IH _ _ eq_refl).
    destruct (N.eqb_spec c cSLASH) as [Ec|Ec].
    + inversion E; subst. right. destruct IH as [->|[d' ->]]; [exists []; reflexivity|exists (cSLASH :: d'); reflexivity].
    + destruct d0 as [|x d0]; inversion E; subst; [left; reflexivity|].
      right. destruct IH as [H|[d' H]]; [discriminate|]. exists (c :: d'). cbn. rewrite H. reflexivity.
Qed.

Lemma split_sigil_spec s a b : split_sigil s = (a, b) -> s = a ++ b.
Proof.
  destruct s as [|c r]; cbn [split_sigil]; [intros E; inversion E; reflexivity|].
  destruct (c =? cAT); intros E; inversion E; reflexivity.
Qed.

Lemma split_ns_spec s : forall d f, split_ns s = (d, f) -> s = d ++ f /\ ~ In cCOLON f.
Proof.
  induction s as [|c s IH]; intros d f E; cbn [split_ns] in E.
  - inversion E. split; [reflexivity|intros []].
  - destruct (split_ns s) as [d0 f0]. destruct (IH _ _ eq_refl) as [Es Hn].
    destruct (N.eqb_spec c cCOLON) as [Ec|Ec].
    + inversion E; subst. split; [reflexivity|exact Hn].
    + destruct d0 as [|x d0]; inversion E; subst; cbn.
      * split; [reflexivity|]. intros [H|H]; [apply Ec; exact H|exact (Hn H)].
      * split; [reflexivity|exact Hn].
Qed.

(* ------------------------------------------------------------------ *)
(* file names: offered = entries with the typed prefix                  *)

Lemma filenames_exact es seed :
  map item_str (filter_prefix seed (gen_file_names (Some es) seed)) = expected_files es seed.
Proof.
  unfold gen_file_names, expected_files, filter_prefix.
  destruct (split_path seed) as [dir fp] eqn:Sp. destruct (split_path_spec _ _ _ Sp) as [Es Hn].
  induction es as [|[name isdir] es IH]; [reflexivity|].
  cbn [flat_map fst snd]. rewrite filter_app, map_app, IH. f_equal.
  destruct (Bool.eqb (dotfile fp) (dotfile name)) eqn:D.
  - cbn [filter file_item item_str fst snd]. rewrite Es, has_prefix_app.
    assert (P : has_prefix (name ++ (if isdir then [cSLASH] else [])) fp = has_prefix name fp).
    { destruct isdir; [apply has_prefix_slash; exact Hn|rewrite app_nil_r; reflexivity]. }
    rewrite P. destruct (has_prefix name fp); reflexivity.
  - rewrite andb_false_r. reflexivity.
Qed.

(* what expected_files means *)
Lemma expected_files_spec es v x : forall dir fp, split_path v = (dir, fp) ->
  (In x (expected_files es v) <->
   exists name isdir, In (name, isdir) es /\ has_prefix name fp = true
     /\ dotfile name = dotfile fp
     /\ x = dir ++ name ++ (if isdir then [cSLASH] else [])).
Proof.
  intros dir fp Sp. unfold expected_files. rewrite Sp. rewrite in_flat_map. split.
  - intros [[name isdir] [Hin Hx]]. cbn [fst snd] in Hx.
    destruct (has_prefix name fp && Bool.eqb (dotfile fp) (dotfile name)) eqn:C; [|destruct Hx].
    apply andb_true_iff in C as [C1 C2]. apply eqb_prop in C2.
    destruct Hx as [<-|[]]. exists name, isdir. repeat split; try assumption. symmetry; exact C2.
  - intros (name & isdir & Hin & Hp & Hd & ->). exists (name, isdir). split; [exact Hin|].
    cbn [fst snd]. rewrite Hp, Hd, eqb_reflx. left; reflexivity.
Qed.

(* ------------------------------------------------------------------ *)
(* substitution                                                         *)

Lemma subst_at (buf : bytes) from to ins : (from <= length buf)%nat ->
  skipn from (subst buf from to ins) = ins ++ skipn to buf.
Proof.
  intros H. unfold subst.
  assert (L : length (firstn from buf) = from) by (apply firstn_length_le; exact H).
  rewrite <- L at 1. apply skipn_len_app.
Qed.

Lemma subst_prefix (buf : bytes) from to ins : (from <= length buf)%nat ->
  firstn from (subst buf from to ins) = firstn from buf.
Proof.
  intros H. unfold subst.
  assert (L : length (firstn from buf) = from) by (apply firstn_length_le; exact H).
  rewrite <- L at 1. apply firstn_len_app.
Qed.

Lemma subst_length (buf : bytes) from to ins : (from <= to)%nat -> (to <= length buf)%nat ->
  length (subst buf from to ins) = (length buf - (to - from) + length ins)%nat.
Proof.
  intros H1 H2. unfold subst. rewrite !app_length, firstn_length_le, skipn_length by lia. lia.
Qed.

(* the text after the inserted text is the text after the replaced range *)
Lemma subst_suffix (buf : bytes) from to ins : (from <= length buf)%nat ->
  skipn (from + length ins) (subst buf from to ins) = skipn to buf.
Proof.
  intros H. rewrite <- skipn_skipn, subst_at by exact H. apply skipn_len_app.
Qed.

(* ------------------------------------------------------------------ *)
Section Proofs.
Variable is_print : N -> bool.
Notation term_ok := (term_ok is_print).

Lemma space_term ctx t : term_ok ctx (cSPACE :: t).
Proof.
  unfold C03_proofs.term_ok. rewrite peek_ascii by (cbv; reflexivity).
  destruct ctx; reflexivity.
Qed.

(* ---- Cook ---- *)

Lemma cook_show q r : to_show (cook is_print q r) = item_str r.
Proof. destruct r; reflexivity. Qed.

Lemma cook_insert q r : quotes r = true ->
  to_insert (cook is_print q r) = fst (QuoteAs is_print (item_str r) q) ++ item_suffix r.
Proof. destruct r; cbn; intros H; try discriminate; [rewrite app_nil_r|]; reflexivity. Qed.

Lemma cook_noquote q s : to_insert (cook is_print q (RNoQuote s)) = s.
Proof. reflexivity. Qed.

(* the inserted text followed by t reads as ONE word whose value is the
   candidate, leaving the code suffix and t *)
Lemma cooked_reads_back q r ctx t :
  is_bytes (item_str r) -> quotes r = true -> term_ok ctx (item_suffix r ++ t) ->
  read_compound is_print ctx (to_insert (cook is_print q r) ++ t)
  = COk [(snd (QuoteAs is_print (item_str r) q), item_str r)] (item_suffix r ++ t).
Proof.
  intros Hb Hq Ht. rewrite cook_insert by exact Hq. rewrite <- app_assoc.
  apply quote_parses_back; assumption.
Qed.

Lemma cooked_evaluates q r ctx t :
  is_bytes (item_str r) -> quotes r = true -> term_ok ctx (item_suffix r ++ t) ->
  exists ty,
    read_compound is_print ctx (to_insert (cook is_print q r) ++ t) = COk [(ty, item_str r)] (item_suffix r ++ t)
    /\ eval_compound [(ty, item_str r)] = Some (item_str r)
    /\ string_literal [(ty, item_str r)] = Some (item_str r)
    /\ to_show (cook is_print q r) = item_str r.
Proof.
  intros Hb Hq Ht. exists (snd (QuoteAs is_print (item_str r) q)).
  split; [apply cooked_reads_back; assumption|].
  pose proof (quote_as_literal is_print (item_str r) q CStrict) as L. fold (QuoteAs is_print (item_str r) q) in L.
  cbn [eval_compound eval_words string_literal]. rewrite L, app_nil_r.
  repeat split; apply cook_show.
Qed.

(* file items: a directory gets no code suffix and needs a terminator after it;
   a file gets a space, which terminates the word whatever follows *)
Lemma file_item_reads_back q dir e ctx t :
  is_bytes dir -> is_bytes (fst e) -> (snd e = true -> term_ok ctx t) ->
  exists ty,
    read_compound is_print ctx (to_insert (cook is_print q (file_item dir e)) ++ t)
    = COk [(ty, item_str (file_item dir e))] (item_suffix (file_item dir e) ++ t)
    /\ eval_compound [(ty, item_str (file_item dir e))] = Some (item_str (file_item dir e)).
Proof.
  intros Hd Hn Ht.
  destruct (cooked_evaluates q (file_item dir e) ctx t) as (ty & H1 & H2 & _).
  - unfold file_item, is_bytes in *. cbn [item_str]. rewrite !Forall_app. repeat split; try assumption.
    destruct (snd e); [repeat constructor|constructor].
  - reflexivity.
  - unfold file_item. cbn [item_suffix]. destruct (snd e); [apply Ht; reflexivity|apply space_term].
  - exists ty. split; assumption.
Qed.

(* end to end: substitute the item for [from, to) of the buffer; what starts at
   from in the new buffer is the one word with the candidate's value *)
Lemma substituted_reads_back q r ctx (buf : bytes) from to :
  (from <= length buf)%nat ->
  is_bytes (item_str r) -> quotes r = true -> term_ok ctx (item_suffix r ++ skipn to buf) ->
  exists ty,
    read_compound is_print ctx (skipn from (subst buf from to (to_insert (cook is_print q r))))
    = COk [(ty, item_str r)] (item_suffix r ++ skipn to buf)
    /\ eval_compound [(ty, item_str r)] = Some (item_str r).
Proof.
  intros Hf Hb Hq Ht. rewrite subst_at by exact Hf.
  destruct (cooked_evaluates q r ctx (skipn to buf) Hb Hq Ht) as (ty & H1 & H2 & _).
  exists ty. split; assumption.
Qed.

(* ---- style ---- *)

Lemma scan_all_printable ok cs : forall bare,
  forallb (fun c => negb (fst c =? RuneError) && is_print (fst c)) cs = true ->
  scan is_print ok cs bare = Some (bare && forallb (fun c => ok (fst c)) cs).
Proof.
  induction cs as [|[r raw] cs IH]; intros bare H; cbn [scan forallb fst] in *.
  - rewrite andb_true_r. reflexivity.
  - apply andb_true_iff in H as [H1 H2]. apply andb_true_iff in H1 as [Ha Hb].
    apply negb_true_iff in Ha. rewrite Ha, Hb. cbn [negb orb]. rewrite IH by exact H2.
    rewrite andb_assoc. reflexivity.
Qed.

Lemma style_preserved q s : representable is_print q s = true ->
  QuoteAs is_print s q =
  (match q with TBare => s | TSingle => quote_single s | _ => quote_double is_print s end, q).
Proof.
  unfold representable, QuoteAs, quote_as. destruct q; intros H; try discriminate; try reflexivity.
  - (* bare *) unfold bare_safe in H. destruct s as [|b0 s']; [discriminate|].
    apply andb_true_iff in H as [H H3]. apply andb_true_iff in H as [H1 H2].
    unfold all_printable in H2. rewrite (scan_all_printable _ _ _ H2).
    fold cTILDE. rewrite H1, H3. reflexivity.
  - (* single *) destruct s as [|b0 s']; [reflexivity|].
    unfold all_printable in H. rewrite (scan_all_printable _ _ _ H). cbn [ptype_eqb andb]. reflexivity.
Qed.

(* a started quote is never dropped: the result is bare only if bare was asked for,
   and then the text is the candidate itself *)
Lemma bare_only_if_asked q s : snd (QuoteAs is_print s q) = TBare ->
  q = TBare /\ fst (QuoteAs is_print s q) = s.
Proof.
  unfold QuoteAs, quote_as. destruct q; cbn; intros H; try discriminate;
    destruct s as [|b0 s']; cbn in H; try discriminate;
    destruct (scan _ _ _ _) as [bare|]; cbn in H; try discriminate;
    try (destruct bare; cbn in H; try discriminate; split; reflexivity).
Qed.

(* double quotes always stay double quotes *)
Lemma double_stays q s : q = TDouble -> snd (QuoteAs is_print s q) = TDouble.
Proof. intros ->. reflexivity. Qed.

(* ---- dedup, sort ---- *)

Lemma dedup_from_incl prev l x : In x (dedup_from prev l) -> In x l.
Proof.
  revert prev; induction l as [|y l IH]; intros prev H; cbn [dedup_from] in H; [exact H|].
  apply in_app_or in H as [H|H].
  - destruct (option_eqb _ _ _); [destruct H|]. destruct H as [<-|[]]. left; reflexivity.
  - right. exact (IH _ H).
Qed.

Definition adj_distinct (l : list bytes) : Prop :=
  forall i a b, nth_error l i = Some a -> nth_error l (S i) = Some b -> a <> b.

Lemma dedup_from_head prev x l y r : dedup_from prev (x :: l) = y :: r ->
  (y = x \/ In y l) .
Proof.
  intros E. assert (H : In y (dedup_from prev (x :: l))) by (rewrite E; left; reflexivity).
  apply dedup_from_incl in H. destruct H as [<-|H]; [left; reflexivity|right; exact H].
Qed.

(* the kept list has no two adjacent items with the same inserted text, and its
   first item differs from prev *)
Fixpoint no_adj (prev : option bytes) (l : list citem) : Prop :=
  match l with
  | [] => True
  | x :: r => prev <> Some (to_insert x) /\ no_adj (Some (to_insert x)) r
  end.

Lemma option_bytes_eqb_spec a b : option_eqb bytes_eqb a b = true <-> a = b.
Proof.
  destruct a as [a|], b as [b|]; cbn; split; intros H; try discriminate; try reflexivity.
  - apply bytes_eqb_spec in H. congruence.
  - inversion H. apply bytes_eqb_refl.
Qed.

Lemma no_adj_weaken p p' l : (forall x r, l = x :: r -> p' <> Some (to_insert x)) -> no_adj p l -> no_adj p' l.
Proof. destruct l as [|x r]; [trivial|]. intros H [_ H2]. split; [apply (H x r eq_refl)|exact H2]. Qed.

Lemma dedup_from_no_adj l : forall prev, no_adj prev (dedup_from prev l).
Proof.
  induction l as [|x l IH]; intros prev; cbn [dedup_from]; [exact I|].
  destruct (option_eqb bytes_eqb prev (Some (to_insert x))) eqn:E; cbn [app].
  - apply option_bytes_eqb_spec in E. subst prev. apply IH.
  - split; [|apply IH]. intros C. apply option_bytes_eqb_spec in C. congruence.
Qed.

Lemma dedup_no_adj l : no_adj None (dedup l).
Proof. apply dedup_from_no_adj. Qed.

(* dedup keeps a sublist, so any order on the list is kept *)
Lemma dedup_from_sorted (R : citem -> citem -> Prop) l : forall prev,
  StronglySorted R l -> StronglySorted R (dedup_from prev l).
Proof.
  induction l as [|x l IH]; intros prev H; cbn [dedup_from]; [constructor|].
  inversion H as [|? ? Hs Hf]; subst.
  destruct (option_eqb _ _ _); cbn [app]; [apply IH; exact Hs|].
  constructor; [apply IH; exact Hs|].
  apply Forall_forall. intros y Hy. apply dedup_from_incl in Hy.
  exact (proj1 (Forall_forall _ _) Hf y Hy).
Qed.

(* every input item is represented: an item with the same inserted text is kept *)
Lemma dedup_from_repr l : forall prev x, In x l ->
  (exists y, In y (dedup_from prev l) /\ to_insert y = to_insert x) \/ prev = Some (to_insert x).
Proof.
  induction l as [|z l IH]; intros prev x Hin; [destruct Hin|].
  cbn [dedup_from]. destruct (option_eqb bytes_eqb prev (Some (to_insert z))) eqn:E.
  - apply option_bytes_eqb_spec in E. destruct Hin as [->|Hin]; [right; exact E|].
    destruct (IH (Some (to_insert z)) x Hin) as [(y & Hy & Ey)|Ep].
    + left. exists y. split; [exact Hy|exact Ey].
    + right. rewrite E. exact Ep.
  - left. destruct Hin as [->|Hin]; [exists x; split; [left; reflexivity|reflexivity]|].
    destruct (IH (Some (to_insert z)) x Hin) as [(y & Hy & Ey)|Ep].
    + exists y. split; [right; exact Hy|exact Ey].
    + exists z. split; [left; reflexivity|congruence].
Qed.

Lemma dedup_repr l x : In x l -> exists y, In y (dedup l) /\ to_insert y = to_insert x.
Proof.
  intros H. destruct (dedup_from_repr l None x H) as [E|E]; [exact E|discriminate].
Qed.

(* the contract of sort.Slice with the comparison of Complete *)
Definition le_item (a b : rawitem) : Prop := bytes_ltb (item_str b) (item_str a) = false.
Definition sort_contract (sort : list rawitem -> list rawitem) : Prop :=
  forall l, Permutation (sort l) l /\ StronglySorted le_item (sort l).

Lemma bytes_ltb_asym a : forall b, bytes_ltb a b = true -> bytes_ltb b a = false.
Proof.
  induction a as [|x a IH]; intros [|y b] H; cbn in *; try discriminate; try reflexivity.
  destruct (N.ltb_spec x y), (N.ltb_spec y x), (N.eqb_spec x y), (N.eqb_spec y x);
    cbn in *; try lia; try discriminate; try reflexivity; try (apply IH; exact H).
Qed.

Lemma bytes_ltb_trans a : forall b c, bytes_ltb a b = true -> bytes_ltb b c = true -> bytes_ltb a c = true.
Proof.
  induction a as [|x a IH]; intros [|y b] [|z c] H1 H2; cbn in *; try discriminate; try reflexivity.
  destruct (N.ltb_spec x y), (N.ltb_spec y z), (N.ltb_spec x z), (N.eqb_spec x y), (N.eqb_spec y z), (N.eqb_spec x z);
    cbn in *; try lia; try discriminate; try reflexivity; try (eapply IH; eassumption).
Qed.

Lemma insert_item_perm x l : Permutation (insert_item x l) (x :: l).
Proof.
  induction l as [|y l IH]; cbn; [apply Permutation_refl|].
  destruct (bytes_ltb (item_str x) (item_str y)); [apply Permutation_refl|].
  eapply perm_trans; [apply perm_skip; exact IH|apply perm_swap].
Qed.

Lemma insert_item_sorted x l : StronglySorted le_item l -> StronglySorted le_item (insert_item x l).
Proof.
  induction l as [|y l IH]; intros H; cbn.
  - constructor; constructor.
  - inversion H as [|? ? Hs Hf]; subst.
    destruct (bytes_ltb (item_str x) (item_str y)) eqn:E.
    + constructor; [exact H|]. constructor.
      * unfold le_item. apply bytes_ltb_asym. exact E.
      * apply Forall_forall. intros z Hz. unfold le_item.
        pose proof (proj1 (Forall_forall _ _) Hf z Hz) as Hyz. unfold le_item in Hyz.
        destruct (bytes_ltb (item_str z) (item_str x)) eqn:T; [|reflexivity].
        pose proof (bytes_ltb_trans _ _ _ T E) as C. congruence.
    + constructor; [apply IH; exact Hs|].
      apply Forall_forall. intros z Hz.
      apply (Permutation_in _ (insert_item_perm x l)) in Hz. destruct Hz as [<-|Hz].
      * unfold le_item. exact E.
      * exact (proj1 (Forall_forall _ _) Hf z Hz).
Qed.

Lemma isort_contract : sort_contract isort_items.
Proof.
  intros l. induction l as [|x l [IH1 IH2]]; cbn; [split; constructor|]. split.
  - eapply perm_trans; [apply insert_item_perm|apply perm_skip; exact IH1].
  - apply insert_item_sorted. exact IH2.
Qed.

(* the pipeline of Complete, for any sort that meets the contract *)
Lemma pipeline_spec sort seed q raw : sort_contract sort ->
  let out := pipeline is_print sort seed q raw in
  (* only cooked candidates that have the seed as a prefix *)
  (forall it, In it out -> exists r, In r raw /\ has_prefix (item_str r) seed = true /\ it = cook is_print q r)
  (* every such candidate is represented *)
  /\ (forall r, In r raw -> has_prefix (item_str r) seed = true ->
        exists it, In it out /\ to_insert it = to_insert (cook is_print q r))
  (* ordered by the shown text, no two neighbours insert the same text *)
  /\ StronglySorted (fun a b => bytes_ltb (to_show b) (to_show a) = false) out
  /\ no_adj None out.
Proof.
  intros Hs out. unfold out, pipeline. destruct (Hs (filter_prefix seed raw)) as [Hp Hsorted].
  repeat split.
  - intros it Hit. apply dedup_from_incl in Hit. apply in_map_iff in Hit as (r & <- & Hr).
    apply (Permutation_in _ Hp) in Hr. unfold filter_prefix in Hr. apply filter_In in Hr as [Hr1 Hr2].
    exists r. repeat split; assumption.
  - intros r Hr Hpre.
    assert (Hin : In (cook is_print q r) (map (cook is_print q) (sort (filter_prefix seed raw)))).
    { apply in_map. apply (Permutation_in _ (Permutation_sym Hp)). apply filter_In. split; assumption. }
    destruct (dedup_repr _ _ Hin) as (y & Hy & Ey). exists y. split; assumption.
  - apply dedup_from_sorted.
    assert (M : forall l, StronglySorted le_item l ->
      StronglySorted (fun a b => bytes_ltb (to_show b) (to_show a) = false) (map (cook is_print q) l)).
    { induction 1 as [|a l Hs' IH Hf]; cbn [map]; [constructor|]. constructor; [exact IH|].
      apply Forall_forall. intros y Hy. apply in_map_iff in Hy as (r & <- & Hr).
      rewrite !cook_show. exact (proj1 (Forall_forall _ _) Hf r Hr). }
    apply M. exact Hsorted.
  - apply dedup_no_adj.
Qed.

(* ---- replace range ---- *)

Definition tree_wf (buf : bytes) (t : treeobs) : Prop :=
  (t_leaf_to t <= length buf)%nat /\ (t_cfrom t <= t_cto t)%nat /\ (t_cto t <= length buf)%nat.

(* a variable leaf: a dollar sign, then at least the text of the name *)
Definition var_leaf_wf (t : treeobs) : Prop :=
  (t_leaf_from t + 1 + length (t_leaf_val t) <= t_leaf_to t)%nat.

Lemma replace_range_in_buffer homes t src buf r seed q :
  tree_wf buf t -> (r_name r = NVariable -> var_leaf_wf t) ->
  complete_model is_print homes t src = MRes r seed q ->
  (r_from r <= r_to r)%nat /\ (r_to r <= length buf)%nat.
Proof.
  intros (W1 & W2 & W3) Wv H. unfold complete_model in H.
  destruct (dispatch _ _); try discriminate;
    try (destruct src; try discriminate;
         destruct (split_sigil _) as [sg qn] eqn:S1; destruct (split_ns _) as [ns sd] eqn:S2;
         destruct (_ || _); try discriminate; inversion H; subst;
         cbn [r_from r_to r_name] in *; specialize (Wv eq_refl); unfold var_leaf_wf in Wv;
         apply split_sigil_spec in S1; apply split_ns_spec in S2 as [S2 _];
         rewrite S1, S2, !app_length in Wv; lia);
    try (destruct (partial_compound _ _ _); try discriminate);
    destruct (_ && special_head _); try discriminate;
    destruct (candidates _ _ _); try discriminate;
    inversion H; subst; cbn [r_from r_to]; lia.
Qed.

End Proofs.
