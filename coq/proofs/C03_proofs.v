(* C03 — proofs about model/C03.v: whatever the quoting functions produce, the
   string-literal reader gives back exactly the original bytes, as one word of
   the announced type, for every byte string and every IsPrint table. *)
From verif Require Import lib.Base lib.ListX lib.Utf8 lib.Utf8_proofs model.C03.
From Coq Require Import ZifyBool ZifyNat ZifyN.
Open Scope N_scope.

#[local] Ltac Zify.zify_post_hook ::= Z.to_euclidean_division_equations.

(* [bytes] and [list N] are the same type but different atoms for lia *)
Ltac blia := unfold bytes in *; lia.

Arguments decode_rune : simpl never.
Arguments encode_rune : simpl never.
Arguments next : simpl never.
Arguments peek : simpl never.
Arguments read_hex : simpl never.
Arguments rtohex : simpl never.
Arguments read_escape : simpl never.
Arguments N.div : simpl never.
Arguments N.modulo : simpl never.
Arguments N.mul : simpl never.
Arguments N.add : simpl never.

Definition is_bytes (s : bytes) : Prop := Forall (fun b => b < 256) s.

(* ------------------------------------------------------------------ *)
(* peek / next on ASCII bytes and on encoded runes *)

Lemma next_ascii b t : b < 128 -> next (b :: t) = (Some b, t).
Proof. intros H. unfold next. rewrite decode1 by exact H. reflexivity. Qed.

Lemma peek_ascii b t : b < 128 -> peek (b :: t) = Some b.
Proof. intros H. unfold peek. rewrite decode1 by exact H. reflexivity. Qed.

Lemma firstn_len_app {A} (l1 l2 : list A) : firstn (length l1) (l1 ++ l2) = l1.
Proof. rewrite firstn_app, firstn_all, Nat.sub_diag. cbn. apply app_nil_r. Qed.

Lemma skipn_len_app {A} (l1 l2 : list A) : skipn (length l1) (l1 ++ l2) = l2.
Proof. rewrite skipn_app, skipn_all, Nat.sub_diag. reflexivity. Qed.

Lemma encode_app_nonempty r t : encode_rune r ++ t <> [].
Proof. intros E. apply app_eq_nil in E as [E _]. exact (encode_rune_nonempty r E). Qed.

Lemma next_encode r t : valid_rune r = true -> next (encode_rune r ++ t) = (Some r, t).
Proof.
  intros V. unfold next. destruct (encode_rune r ++ t) eqn:E; [exfalso; exact (encode_app_nonempty r t E)|].
  rewrite <- E, decode_encode by exact V. unfold rune_len. rewrite skipn_len_app. reflexivity.
Qed.

Lemma peek_encode r t : valid_rune r = true -> peek (encode_rune r ++ t) = Some r.
Proof.
  intros V. unfold peek. destruct (encode_rune r ++ t) eqn:E; [exfalso; exact (encode_app_nonempty r t E)|].
  rewrite <- E, decode_encode by exact V. reflexivity.
Qed.

Lemma valid_rune_ascii r : r < 128 -> valid_rune r = true.
Proof. intros H. unfold valid_rune, is_surrogate, MaxRune. ncases; reflexivity. Qed.

(* ------------------------------------------------------------------ *)
(* chunks *)

Definition good (c : N * bytes) : Prop :=
  encode_rune (fst c) = snd c /\ valid_rune (fst c) = true.

Definition chunk_ok (c : N * bytes) : Prop :=
  (fst c = RuneError /\ exists b, snd c = [b]) \/ good c.

Lemma chunks_fuel_S f s : s <> [] ->
  chunks_fuel (S f) s =
  (fst (decode_rune s), firstn (snd (decode_rune s)) s)
    :: chunks_fuel f (skipn (snd (decode_rune s)) s).
Proof. intros H. destruct s; [congruence|]. cbn [chunks_fuel]. destruct (decode_rune _); reflexivity. Qed.

Lemma chunks_fuel_nil f : chunks_fuel f [] = [].
Proof. destruct f; reflexivity. Qed.

Lemma chunks_fuel_spec f : forall s, (length s <= f)%nat ->
  Forall chunk_ok (chunks_fuel f s) /\ flat_map snd (chunks_fuel f s) = s.
Proof.
  induction f as [|f IH]; intros s L.
  - destruct s; [split; [constructor|reflexivity]|cbn in L; blia].
  - destruct (list_eq_dec N.eq_dec s []) as [->|Hne]; [split; [constructor|reflexivity]|].
    rewrite chunks_fuel_S by exact Hne.
    pose proof (skipn_width_shorter s Hne) as Sh.
    destruct (decode_rune s) as [r w] eqn:D. cbn [fst snd] in *.
    destruct (IH (skipn w s)) as [IH1 IH2]; [blia|].
    split.
    + constructor; [|exact IH1]. unfold chunk_ok, good. cbn [fst snd].
      destruct (N.eq_dec r RuneError) as [Er|Nr].
      * destruct (Nat.eq_dec w 1) as [Ew|Nw].
        -- left. split; [exact Er|]. subst w. destruct s as [|b t]; [congruence|]. exists b. reflexivity.
        -- right. split; [apply (encode_decode s r w D Hne); right; exact Nw|].
           pose proof (decode_rune_valid_rune s) as V. rewrite D in V. exact V.
      * right. split; [apply (encode_decode s r w D Hne); left; exact Nr|].
        pose proof (decode_rune_valid_rune s) as V. rewrite D in V. exact V.
    + cbn [flat_map snd]. rewrite IH2. apply firstn_skipn.
Qed.

Lemma chunks_ok s : Forall chunk_ok (chunks s).
Proof. apply (chunks_fuel_spec (length s) s). blia. Qed.

Lemma chunks_concat s : flat_map snd (chunks s) = s.
Proof. apply (chunks_fuel_spec (length s) s). blia. Qed.

Lemma chunks_nil : chunks [] = [].
Proof. reflexivity. Qed.

Lemma chunks_length_le s : (length (chunks s) <= length s)%nat.
Proof.
  assert (H : forall cs, Forall chunk_ok cs -> (length cs <= length (flat_map snd cs))%nat).
  { induction 1 as [|c cs Hc _ IH]; [cbn; blia|]. cbn [flat_map length]. rewrite app_length.
    assert (1 <= length (snd c))%nat; [|blia].
    destruct Hc as [(_ & b & ->)|(E & _)]; [cbn; blia|].
    rewrite <- E. apply (rune_len_bounds (fst c)). }
  pose proof (H _ (chunks_ok s)) as L. rewrite chunks_concat in L. exact L.
Qed.

Lemma chunks_bytes s : is_bytes s -> Forall (fun c => is_bytes (snd c)) (chunks s).
Proof.
  intros B. unfold is_bytes in *. rewrite <- (chunks_concat s) in B.
  apply Forall_flat_map in B. exact B.
Qed.

(* the first chunk's rune is the tilde only if the first byte is *)
Lemma chunks_head_tilde b0 s' r raw cs :
  chunks (b0 :: s') = (r, raw) :: cs -> r = 126 -> b0 = 126.
Proof.
  unfold chunks. cbn [length]. rewrite chunks_fuel_S by discriminate. intros E Hr.
  inversion E as [[E1 E2 E3]]. clear E E2 E3.
  destruct (decode_rune (b0 :: s')) as [r' w] eqn:D. cbn [fst] in E1. subst r'. subst r.
  assert (Hne : b0 :: s' <> []) by discriminate.
  assert (Hok : 126 <> RuneError \/ w <> 1%nat) by (left; discriminate).
  pose proof (encode_decode _ _ _ D Hne Hok) as En.
  rewrite (encode_rune_ascii 126) in En by blia.
  destruct w as [|w]; [discriminate|]. cbn [firstn] in En. inversion En. reflexivity.
Qed.

(* ------------------------------------------------------------------ *)
(* hexadecimal digits *)

Fixpoint pow16 (n : nat) : N := match n with O => 1 | S n' => 16 * pow16 n' end.

Lemma pow16_pos n : pow16 n <> 0.
Proof. induction n; cbn [pow16]; blia. Qed.

Lemma hex_digit_spec d : d < 16 -> hex_digit d < 128 /\ hex_to_digit (hex_digit d) = Some d.
Proof.
  intros H. unfold hex_digit, hex_to_digit.
  destruct (N.leb_spec d 9).
  - split; [blia|]. ncases; cbn [andb]; f_equal; blia.
  - split; [blia|]. ncases; cbn [andb]; f_equal; blia.
Qed.

Lemma read_hex_0 src rr : read_hex 0 src rr = Some (rr, src).
Proof. reflexivity. Qed.

Lemma read_hex_S n src rr :
  read_hex (S n) src rr =
  match next src with
  | (Some r, src1) => match hex_to_digit r with Some d => read_hex n src1 (rr * 16 + d) | None => None end
  | (None, _) => None
  end.
Proof. reflexivity. Qed.

Lemma read_hex_snoc n : forall src rr,
  read_hex (S n) src rr =
  match read_hex n src rr with
  | Some (a, src') => read_hex 1 src' a
  | None => None
  end.
Proof.
  induction n as [|n IH]; intros src rr.
  - rewrite read_hex_0. reflexivity.
  - rewrite (read_hex_S (S n)), (read_hex_S n).
    destruct (next src) as [[r|] src1]; [|reflexivity].
    destruct (hex_to_digit r) as [d|]; [|reflexivity].
    apply IH.
Qed.

(* hex round trip: what rtohex writes, read_hex reads back *)
Lemma read_hex_rtohex n : forall v t acc,
  read_hex n (rtohex v n ++ t) acc = Some (acc * pow16 n + v mod pow16 n, t).
Proof.
  induction n as [|n IH]; intros v t acc.
  - cbn [rtohex pow16 app]. rewrite read_hex_0, N.mod_1_r. f_equal. f_equal. blia.
  - change (rtohex v (S n)) with (rtohex (v / 16) n ++ [hex_digit (v mod 16)]).
    rewrite <- app_assoc. rewrite read_hex_snoc, IH. cbn [app].
    assert (Hd : v mod 16 < 16) by (apply N.mod_lt; blia).
    destruct (hex_digit_spec _ Hd) as [H1 H2].
    rewrite read_hex_S, next_ascii by exact H1. rewrite H2, read_hex_0.
    f_equal. f_equal. cbn [pow16].
    rewrite (N.mod_mul_r v 16 (pow16 n)) by (try blia; apply pow16_pos). ring.
Qed.

Lemma hex_roundtrip n v t : v < pow16 n -> read_hex n (rtohex v n ++ t) 0 = Some (v, t).
Proof. intros H. rewrite read_hex_rtohex, N.mod_small by exact H. f_equal; f_equal; blia. Qed.

(* ------------------------------------------------------------------ *)
(* the escapes that quoteDouble writes *)

Lemma read_escape_x b rest : b < 256 ->
  read_escape (120 :: rtohex b 2 ++ rest) = Some ([b], rest).
Proof.
  intros H. unfold read_escape. rewrite next_ascii by blia. cbn [N.eqb Pos.eqb orb].
  rewrite hex_roundtrip by (cbn [pow16]; blia). rewrite N.mod_small by blia. reflexivity.
Qed.

Lemma read_escape_u r rest : r < 65536 ->
  read_escape (117 :: rtohex r 4 ++ rest) = Some (encode_rune r, rest).
Proof.
  intros H. unfold read_escape. rewrite next_ascii by blia. cbn [N.eqb Pos.eqb orb].
  rewrite hex_roundtrip by (cbn [pow16]; blia). reflexivity.
Qed.

Lemma read_escape_U r rest : r < 4294967296 ->
  read_escape (85 :: rtohex r 8 ++ rest) = Some (encode_rune r, rest).
Proof.
  intros H. unfold read_escape. rewrite next_ascii by blia. cbn [N.eqb Pos.eqb orb].
  rewrite hex_roundtrip by (cbn [pow16]; blia). reflexivity.
Qed.

Lemma read_escape_letter r e rest : double_unescape r = Some e ->
  read_escape (e :: rest) = Some (encode_rune r, rest).
Proof.
  unfold double_unescape. intros U.
  repeat match type of U with
  | (if ?x =? ?k then _ else _) = _ => destruct (N.eqb_spec x k) as [->|?]
  end; inversion U; subst e;
  unfold read_escape; rewrite next_ascii by blia; reflexivity.
Qed.

Lemma double_unescape_ascii r e : double_unescape r = Some e -> r < 128 /\ e < 128.
Proof.
  unfold double_unescape. intros U.
  repeat match type of U with
  | (if ?x =? ?k then _ else _) = _ => destruct (N.eqb_spec x k) as [->|?]
  end; inversion U; subst e; split; blia.
Qed.

Lemma double_unescape_None r : double_unescape r = None -> r <> 34 /\ r <> 92.
Proof.
  unfold double_unescape. intros U. split; intros ->; discriminate.
Qed.

(* read_dq, one loop iteration *)
Lemma read_dq_S f src acc :
  read_dq (S f) src acc =
  match next src with
  | (None, _) => RdErr
  | (Some r, src1) =>
    if r =? 34 then RdOk acc src1
    else if r =? 92 then
      match read_escape src1 with
      | Some (bs, src2) => read_dq f src2 (acc ++ bs)
      | None => RdErr
      end
    else read_dq f src1 (acc ++ encode_rune r)
  end.
Proof. reflexivity. Qed.

Section Proofs.
Variable is_print : N -> bool.

(* escape round trip: one piece written by quoteDouble is read back as the
   bytes of the chunk it was written for *)
Lemma read_dq_piece c rest acc f :
  chunk_ok c -> is_bytes (snd c) ->
  read_dq (S f) (dq_piece is_print c ++ rest) acc = read_dq f rest (acc ++ snd c).
Proof.
  destruct c as [r raw]. unfold chunk_ok, good, dq_piece. cbn [fst snd]. intros Hc Hb.
  destruct ((r =? RuneError) && Nat.eqb (length raw) 1) eqn:Bad.
  - (* an invalid byte, written as \xNN *)
    apply andb_true_iff in Bad as [B1 B2]. apply N.eqb_eq in B1. apply Nat.eqb_eq in B2.
    destruct Hc as [(_ & b & ->)|(E & _)].
    + cbn [hd]. inversion Hb as [|? ? Hb256 _]; subst.
      cbn [app]. rewrite read_dq_S, next_ascii by blia. cbn [N.eqb Pos.eqb].
      rewrite read_escape_x by exact Hb256. reflexivity.
    + exfalso. subst r. rewrite <- E in B2. discriminate.
  - assert (G : encode_rune r = raw /\ valid_rune r = true).
    { destruct Hc as [(-> & b & ->)|G]; [discriminate|exact G]. }
    destruct G as [E V]. clear Hc.
    destruct (double_unescape r) as [e|] eqn:U.
    + (* the one-letter escapes *)
      destruct (double_unescape_ascii r e U) as [_ He].
      rewrite (encode_rune_ascii e He). cbn [app].
      rewrite read_dq_S, next_ascii by blia. cbn [N.eqb Pos.eqb].
      rewrite (read_escape_letter r e rest U), E. reflexivity.
    + destruct (double_unescape_None r U) as [N34 N92].
      destruct (is_print r && negb (r =? RuneError)) eqn:P.
      * (* printed as it is *)
        rewrite read_dq_S, next_encode by exact V.
        apply N.eqb_neq in N34, N92. rewrite N34, N92, E. reflexivity.
      * destruct (N.leb_spec r 127).
        { (* \xNN *)
          cbn [app]. rewrite read_dq_S, next_ascii by blia. cbn [N.eqb Pos.eqb].
          rewrite read_escape_x by blia. rewrite <- E, encode_rune_ascii by blia. reflexivity. }
        destruct (N.leb_spec r 65535).
        { cbn [app]. rewrite read_dq_S, next_ascii by blia. cbn [N.eqb Pos.eqb].
          rewrite read_escape_u by blia. rewrite E. reflexivity. }
        cbn [app]. rewrite read_dq_S, next_ascii by blia. cbn [N.eqb Pos.eqb].
        rewrite read_escape_U; [rewrite E; reflexivity|].
        unfold valid_rune, MaxRune in V. apply andb_true_iff in V as [V _]. apply N.leb_le in V. blia.
Qed.

Lemma read_dq_pieces cs : Forall chunk_ok cs -> Forall (fun c => is_bytes (snd c)) cs ->
  forall rest acc fuel, (length cs < fuel)%nat ->
  read_dq fuel (flat_map (dq_piece is_print) cs ++ 34 :: rest) acc = RdOk (acc ++ flat_map snd cs) rest.
Proof.
  induction cs as [|c cs IH]; intros Hc Hb rest acc fuel L.
  - destruct fuel as [|f]; [cbn in L; blia|]. cbn [flat_map app].
    rewrite read_dq_S, next_ascii by blia. cbn [N.eqb Pos.eqb]. rewrite app_nil_r. reflexivity.
  - destruct fuel as [|f]; [cbn in L; blia|]. cbn [length] in L.
    inversion Hc as [|? ? Hc1 Hc2]; subst. inversion Hb as [|? ? Hb1 Hb2]; subst.
    cbn [flat_map]. rewrite <- app_assoc, read_dq_piece by assumption.
    rewrite IH by (try assumption; blia). rewrite <- app_assoc. reflexivity.
Qed.

(* ---- single quotes ---- *)

Lemma read_sq_S f src acc :
  read_sq (S f) src acc =
  match next src with
  | (None, _) => RdErr
  | (Some r, src1) =>
    if r =? 39 then
      if peek_is src1 39 then read_sq f (snd (next src1)) (acc ++ [39]) else RdOk acc src1
    else read_sq f src1 (acc ++ encode_rune r)
  end.
Proof. reflexivity. Qed.

Lemma read_sq_pieces cs : Forall good cs ->
  forall rest acc fuel, (length cs < fuel)%nat -> peek_is rest 39 = false ->
  read_sq fuel (flat_map sq_piece cs ++ 39 :: rest) acc = RdOk (acc ++ flat_map snd cs) rest.
Proof.
  induction cs as [|c cs IH]; intros Hg rest acc fuel L Hp.
  - destruct fuel as [|f]; [cbn in L; blia|]. cbn [flat_map app].
    rewrite read_sq_S, next_ascii by blia. cbn [N.eqb Pos.eqb]. rewrite Hp, app_nil_r. reflexivity.
  - destruct fuel as [|f]; [cbn in L; blia|]. cbn [length] in L.
    inversion Hg as [|? ? [E V] Hg2]; subst. destruct c as [r raw]. cbn [fst snd] in *.
    cbn [flat_map]. unfold sq_piece at 1. cbn [fst].
    destruct (N.eqb_spec r 39) as [->|Nr].
    + rewrite (encode_rune_ascii 39) in * by blia. subst raw. cbn [app].
      rewrite read_sq_S, next_ascii by blia. cbn [N.eqb Pos.eqb].
      unfold peek_is at 1. rewrite peek_ascii by blia. cbn [N.eqb Pos.eqb].
      rewrite next_ascii by blia. cbn [snd].
      rewrite IH by (try assumption; blia). rewrite <- app_assoc. reflexivity.
    + rewrite <- app_assoc. rewrite read_sq_S, next_encode by exact V.
      apply N.eqb_neq in Nr. rewrite Nr, E.
      rewrite IH by (try assumption; blia). rewrite <- app_assoc. reflexivity.
Qed.

Lemma sq_pieces_length (cs : list (N * bytes)) :
  (length cs <= length (flat_map sq_piece cs))%nat.
Proof.
  induction cs as [|c cs IH]; [cbn; blia|]. cbn [flat_map length]. rewrite app_length.
  assert (1 <= length (sq_piece c))%nat; [|blia]. unfold sq_piece.
  pose proof (rune_len_bounds (fst c)) as B. unfold rune_len in B.
  destruct (fst c =? 39); [rewrite app_length|]; blia.
Qed.

Lemma dq_piece_nonempty c : (1 <= length (dq_piece is_print c))%nat.
Proof.
  unfold dq_piece. destruct c as [r raw].
  pose proof (rune_len_bounds r) as B. unfold rune_len in B.
  repeat match goal with
  | |- context [match double_unescape ?x with _ => _ end] => destruct (double_unescape x)
  | |- context [if ?b then _ else _] => destruct b
  end; cbn [length]; blia.
Qed.

Lemma dq_pieces_length (cs : list (N * bytes)) :
  (length cs <= length (flat_map (dq_piece is_print) cs))%nat.
Proof.
  induction cs as [|c cs IH]; [cbn; blia|]. cbn [flat_map length]. rewrite app_length.
  pose proof (dq_piece_nonempty c). blia.
Qed.

(* ---- barewords ---- *)

Lemma take_while_S_encode f ok r rest : valid_rune r = true ->
  take_while (S f) ok (encode_rune r ++ rest) =
  if ok r then let '(v, rest') := take_while f ok rest in (encode_rune r ++ v, rest')
  else ([], encode_rune r ++ rest).
Proof.
  intros V. cbn [take_while].
  destruct (encode_rune r ++ rest) eqn:E; [exfalso; exact (encode_app_nonempty r rest E)|].
  rewrite <- E, decode_encode by exact V. unfold rune_len. rewrite firstn_len_app, skipn_len_app.
  reflexivity.
Qed.

Definition stops (ok : N -> bool) (t : bytes) : Prop :=
  match peek t with None => True | Some r => ok r = false end.

Lemma take_while_stop fuel ok t : stops ok t -> take_while fuel ok t = ([], t).
Proof.
  intros H. destruct fuel as [|f]; [reflexivity|]. cbn [take_while].
  destruct t as [|b t']; [reflexivity|].
  unfold stops, peek in H. destruct (decode_rune (b :: t')) as [r w]. cbn [fst] in H. rewrite H. reflexivity.
Qed.

Lemma take_while_chunks ok cs t : Forall good cs -> Forall (fun c => ok (fst c) = true) cs ->
  stops ok t ->
  forall fuel, (length cs <= fuel)%nat ->
  take_while fuel ok (flat_map snd cs ++ t) = (flat_map snd cs, t).
Proof.
  intros Hg Ho Ht. induction cs as [|c cs IH]; intros fuel L.
  - cbn [flat_map app]. apply take_while_stop; exact Ht.
  - destruct fuel as [|f]; [cbn in L; blia|]. cbn [length] in L.
    inversion Hg as [|? ? [E V] Hg2]; subst. inversion Ho as [|? ? Ho1 Ho2]; subst.
    cbn [flat_map]. unfold bytes in *. rewrite <- app_assoc, <- E.
    rewrite take_while_S_encode by exact V. rewrite Ho1.
    rewrite IH by (try assumption; blia). reflexivity.
Qed.

(* ---- the scan of quoteAs / QuoteVariableName ---- *)

Lemma scan_Some ok cs : forall bare b, scan is_print ok cs bare = Some b ->
  Forall (fun c => fst c <> RuneError /\ is_print (fst c) = true) cs
  /\ b = bare && forallb (fun c => ok (fst c)) cs.
Proof.
  induction cs as [|[r raw] cs IH]; intros bare b H.
  - cbn in H. inversion H. split; [constructor|]. cbn. rewrite andb_true_r. reflexivity.
  - cbn [scan] in H. destruct ((r =? RuneError) || negb (is_print r)) eqn:T; [discriminate|].
    apply orb_false_iff in T as [T1 T2]. apply N.eqb_neq in T1. apply negb_false_iff in T2.
    destruct (IH _ _ H) as [IH1 IH2]. split.
    + constructor; [cbn [fst]; split; assumption|exact IH1].
    + rewrite IH2. cbn [forallb fst]. rewrite andb_assoc. reflexivity.
Qed.

Lemma ok_not_error_good cs : Forall chunk_ok cs ->
  Forall (fun c => fst c <> RuneError /\ is_print (fst c) = true) cs -> Forall good cs.
Proof.
  induction 1 as [|c cs Hc _ IH]; intros H; [constructor|].
  inversion H as [|? ? [Hn _] H2]; subst. constructor; [|apply IH; exact H2].
  destruct Hc as [(E & _)|G]; [congruence|exact G].
Qed.

(* ---- character classes ---- *)

Lemma varname_is_bareword r ctx : allowed_in_varname is_print r = true ->
  allowed_in_bareword is_print r ctx = true.
Proof. intros H. unfold allowed_in_bareword. rewrite H. reflexivity. Qed.

(* what quoting allows unquoted (strictExpr, or CmdExpr for command names) is
   allowed by the reader in the context the word is read in *)
Definition ctx_compat (cq cr : ectx) : Prop := cq = CStrict \/ cq = cr.

Lemma allowed_compat cq cr r : ctx_compat cq cr ->
  allowed_in_bareword is_print r cq = true -> allowed_in_bareword is_print r cr = true.
Proof.
  intros [->| ->]; [|tauto]. unfold allowed_in_bareword. cbn [ctx_is negb andb].
  rewrite !orb_false_r. intros H. rewrite H. reflexivity.
Qed.

Lemma bareword_starts_primary r ctx : allowed_in_bareword is_print r ctx = true ->
  starts_primary is_print r ctx = true.
Proof. intros H. unfold starts_primary. rewrite H, !orb_true_r. reflexivity. Qed.

Lemma quote_not_bareword ctx : allowed_in_bareword is_print 39 ctx = false.
Proof. destruct ctx; reflexivity. Qed.
Lemma dquote_not_bareword ctx : allowed_in_bareword is_print 34 ctx = false.
Proof. destruct ctx; reflexivity. Qed.
Lemma dollar_not_bareword ctx : allowed_in_bareword is_print 36 ctx = false.
Proof. destruct ctx; reflexivity. Qed.

(* the text after the word: end of input, or a rune that cannot start a primary
   in this context (white space, ; | & ) ] } and so on; an opening bracket would
   start an index and is excluded by startsPrimary too) *)
Definition term_ok (ctx : ectx) (t : bytes) : Prop :=
  match peek t with None => True | Some r => starts_primary is_print r ctx = false end.

Lemma term_ok_peek_is ctx t c : term_ok ctx t -> starts_primary is_print c ctx = true ->
  peek_is t c = false.
Proof.
  unfold term_ok, peek_is. destruct (peek t) as [r|]; [|reflexivity]. intros H Hc.
  destruct (N.eqb_spec r c) as [->|]; [congruence|reflexivity].
Qed.

Lemma term_ok_quote ctx t : term_ok ctx t -> peek_is t 39 = false.
Proof. intros H. apply (term_ok_peek_is ctx); [exact H|destruct ctx; reflexivity]. Qed.
Lemma term_ok_bracket ctx t : term_ok ctx t -> peek_is t 91 = false.
Proof.
  intros H. apply (term_ok_peek_is ctx); [exact H|].
  unfold starts_primary. cbn [N.eqb Pos.eqb]. rewrite !orb_true_r. reflexivity.
Qed.
Lemma term_ok_stops_bareword ctx t : term_ok ctx t ->
  stops (fun r => allowed_in_bareword is_print r ctx) t.
Proof.
  unfold term_ok, stops. destruct (peek t) as [r|]; [|trivial]. intros H.
  destruct (allowed_in_bareword is_print r ctx) eqn:A; [|reflexivity].
  rewrite (bareword_starts_primary r ctx A) in H. discriminate.
Qed.
Lemma term_ok_stops_varname ctx t : term_ok ctx t -> stops (allowed_in_varname is_print) t.
Proof.
  intros H. pose proof (term_ok_stops_bareword ctx t H) as S. unfold stops in *.
  destruct (peek t) as [r|]; [|trivial].
  destruct (allowed_in_varname is_print r) eqn:A; [|reflexivity].
  rewrite (varname_is_bareword r ctx A) in S. discriminate.
Qed.

(* ------------------------------------------------------------------ *)
(* primaries *)

Lemma read_primary_single ctx s t : Forall good (chunks s) -> term_ok ctx t ->
  read_primary is_print ctx (quote_single s ++ t) = POk TSingle s t.
Proof.
  intros Hg Ht. unfold quote_single, read_primary. cbn [app].
  rewrite peek_ascii by blia.
  assert (S1 : starts_primary is_print 39 ctx = true) by (destruct ctx; reflexivity).
  rewrite S1, quote_not_bareword. cbn [negb N.eqb Pos.eqb]. rewrite next_ascii by blia. cbn [snd].
  rewrite <- app_assoc. cbn [app].
  rewrite read_sq_pieces; [rewrite chunks_concat; reflexivity|exact Hg| |exact (term_ok_quote ctx t Ht)].
  rewrite app_length. cbn [length]. pose proof (chunks_length_le s) as L1.
  pose proof (sq_pieces_length (chunks s)) as L2.
  blia.
Qed.

Lemma read_primary_double ctx s t : is_bytes s ->
  read_primary is_print ctx (quote_double is_print s ++ t) = POk TDouble s t.
Proof.
  intros Hb. unfold quote_double, read_primary. cbn [app].
  rewrite peek_ascii by blia.
  assert (S1 : starts_primary is_print 34 ctx = true) by (destruct ctx; reflexivity).
  rewrite S1, dquote_not_bareword. cbn [negb N.eqb Pos.eqb]. rewrite next_ascii by blia. cbn [snd].
  rewrite <- app_assoc. cbn [app].
  rewrite read_dq_pieces; [rewrite chunks_concat; reflexivity|apply chunks_ok|apply chunks_bytes; exact Hb|].
  rewrite app_length. cbn [length].
  pose proof (dq_pieces_length (chunks s)) as L2.
  blia.
Qed.

Lemma read_primary_bare ctx s t :
  s <> [] -> Forall good (chunks s) ->
  Forall (fun c => allowed_in_bareword is_print (fst c) ctx = true) (chunks s) ->
  term_ok ctx t ->
  read_primary is_print ctx (s ++ t) = POk TBare s t.
Proof.
  intros Hne Hg Ha Ht. unfold read_primary.
  pose proof (chunks_concat s) as Cc. pose proof (chunks_length_le s) as Cl.
  destruct (chunks s) as [|[r raw] cs] eqn:Ch; [cbn in Cc; congruence|].
  pose proof (Forall_inv Hg) as [E V]. pose proof (Forall_inv Ha) as Ha1. cbn [fst snd] in E, V, Ha1.
  assert (Pk : peek (s ++ t) = Some r).
  { rewrite <- Cc. cbn [flat_map snd]. unfold bytes in *. rewrite <- app_assoc, <- E.
    apply peek_encode; exact V. }
  rewrite Pk, (bareword_starts_primary r ctx Ha1), Ha1. cbn [negb].
  assert (L : (length ((r, raw) :: cs) <= length (s ++ t))%nat) by (rewrite app_length; blia).
  pose proof (take_while_chunks _ _ t Hg Ha (term_ok_stops_bareword ctx t Ht) _ L) as TW.
  rewrite Cc in TW. rewrite TW. reflexivity.
Qed.

(* Primary.variable on what QuoteVariableName produced *)
Lemma read_variable_bare ctx s t :
  s <> [] -> Forall good (chunks s) ->
  Forall (fun c => allowed_in_varname is_print (fst c) = true) (chunks s) ->
  term_ok ctx t ->
  read_variable is_print (s ++ t) = RdOk s t.
Proof.
  intros Hne Hg Ha Ht. unfold read_variable.
  pose proof (chunks_concat s) as Cc. pose proof (chunks_length_le s) as Cl.
  destruct (chunks s) as [|[r raw] cs] eqn:Ch; [cbn in Cc; congruence|].
  pose proof (Forall_inv Hg) as [E V]. pose proof (Forall_inv Ha) as Ha1. cbn [fst snd] in E, V, Ha1.
  pose proof (Forall_inv_tail Hg) as Hg2. pose proof (Forall_inv_tail Ha) as Ha2.
  cbn [flat_map snd] in Cc.
  assert (Es : s ++ t = encode_rune r ++ (flat_map snd cs ++ t)).
  { rewrite <- Cc, <- app_assoc, E. reflexivity. }
  rewrite Es, next_encode by exact V.
  assert (R39 : (r =? 39) = false).
  { destruct (N.eqb_spec r 39) as [->|]; [|reflexivity]. exfalso. revert Ha1.
    unfold allowed_in_varname. cbn. discriminate. }
  assert (R34 : (r =? 34) = false).
  { destruct (N.eqb_spec r 34) as [->|]; [|reflexivity]. exfalso. revert Ha1.
    unfold allowed_in_varname. cbn. discriminate. }
  rewrite R39, R34, Ha1. cbn [negb andb].
  rewrite decode_encode by exact V. cbn [snd]. unfold rune_len. rewrite firstn_len_app.
  assert (L : (length cs <= length (flat_map snd cs ++ t))%nat).
  { rewrite app_length.
    assert (length cs <= length (flat_map snd cs))%nat; [|blia].
    clear - Hg2. induction Hg2 as [|c cs' [E' V'] _ IH]; [cbn; blia|].
    cbn [flat_map length]. rewrite app_length. unfold bytes in *. rewrite <- E'.
    pose proof (rune_len_bounds (fst c)) as B. unfold rune_len in B. blia. }
  rewrite (take_while_chunks _ _ t Hg2 Ha2 (term_ok_stops_varname ctx t Ht) _ L).
  rewrite <- Cc, E. reflexivity.
Qed.

(* ------------------------------------------------------------------ *)
(* compounds *)

Lemma read_indexings_S f ctx src acc :
  read_indexings is_print (S f) ctx src acc =
  match peek src with
  | None => COk acc src
  | Some r =>
    if negb (starts_primary is_print r ctx) then COk acc src
    else match read_primary is_print ctx src with
    | POk ty v rest =>
      if peek_is rest 91 then COther else read_indexings is_print f ctx rest (acc ++ [(ty, v)])
    | PErr => CErr
    | POther => COther
    | PFuel => CFuel
    end
  end.
Proof. reflexivity. Qed.

Lemma read_indexings_term f ctx t acc : term_ok ctx t ->
  read_indexings is_print (S f) ctx t acc = COk acc t.
Proof.
  intros H. rewrite read_indexings_S. unfold term_ok in H.
  destruct (peek t) as [r|]; [|reflexivity]. rewrite H. reflexivity.
Qed.

(* one word: a primary that reads back as (ty, s) followed by a terminator *)
Lemma read_compound_one ctx q ty s t r0 :
  peek (q ++ t) = Some r0 -> r0 <> 126 -> starts_primary is_print r0 ctx = true ->
  read_primary is_print ctx (q ++ t) = POk ty s t ->
  q <> [] -> term_ok ctx t ->
  read_compound is_print ctx (q ++ t) = COk [(ty, s)] t.
Proof.
  intros Pk N126 Sp Rp Hne Ht. unfold read_compound, peek_is. rewrite Pk.
  apply N.eqb_neq in N126. rewrite N126.
  rewrite read_indexings_S, Pk, Sp, Rp. cbn [negb].
  rewrite (term_ok_bracket ctx t Ht). cbn [app].
  destruct (length (q ++ t)) as [|n] eqn:L.
  - destruct q; [congruence|discriminate].
  - apply read_indexings_term; exact Ht.
Qed.

Lemma starts_primary_quote ctx : starts_primary is_print 39 ctx = true.
Proof. destruct ctx; reflexivity. Qed.
Lemma starts_primary_dquote ctx : starts_primary is_print 34 ctx = true.
Proof. destruct ctx; reflexivity. Qed.
Lemma starts_primary_dollar ctx : starts_primary is_print 36 ctx = true.
Proof. destruct ctx; reflexivity. Qed.

Lemma read_compound_single ctx s t : Forall good (chunks s) -> term_ok ctx t ->
  read_compound is_print ctx (quote_single s ++ t) = COk [(TSingle, s)] t.
Proof.
  intros Hg Ht. apply (read_compound_one ctx _ TSingle s t 39); try assumption.
  - unfold quote_single. cbn [app]. apply peek_ascii; blia.
  - blia.
  - apply starts_primary_quote.
  - apply read_primary_single; assumption.
  - discriminate.
Qed.

Lemma read_compound_double ctx s t : is_bytes s -> term_ok ctx t ->
  read_compound is_print ctx (quote_double is_print s ++ t) = COk [(TDouble, s)] t.
Proof.
  intros Hb Ht. apply (read_compound_one ctx _ TDouble s t 34); try assumption.
  - unfold quote_double. cbn [app]. apply peek_ascii; blia.
  - blia.
  - apply starts_primary_dquote.
  - apply read_primary_double; assumption.
  - discriminate.
Qed.

Lemma read_compound_bare ctx b0 s' t :
  b0 <> 126 -> Forall good (chunks (b0 :: s')) ->
  Forall (fun c => allowed_in_bareword is_print (fst c) ctx = true) (chunks (b0 :: s')) ->
  term_ok ctx t ->
  read_compound is_print ctx ((b0 :: s') ++ t) = COk [(TBare, b0 :: s')] t.
Proof.
  intros Nt Hg Ha Ht.
  pose proof (read_primary_bare ctx (b0 :: s') t ltac:(discriminate) Hg Ha Ht) as Rp.
  pose proof (chunks_concat (b0 :: s')) as Cc.
  destruct (chunks (b0 :: s')) as [|[r raw] cs] eqn:Ch; [cbn in Cc; congruence|].
  assert (Hr : r <> 126).
  { intros Hr. apply Nt. exact (chunks_head_tilde b0 s' r raw cs Ch Hr). }
  pose proof (Forall_inv Hg) as [E V]. pose proof (Forall_inv Ha) as Ha1. cbn [fst snd] in E, V, Ha1.
  apply (read_compound_one ctx _ TBare (b0 :: s') t r); try assumption.
  - rewrite <- Cc. cbn [flat_map snd]. unfold bytes in *. rewrite <- app_assoc, <- E.
    apply peek_encode; exact V.
  - apply bareword_starts_primary; exact Ha1.
  - discriminate.
Qed.

(* ------------------------------------------------------------------ *)
(* the quoting functions *)

Lemma forallb_Forall_fst (ok : N -> bool) (cs : list (N * bytes)) :
  forallb (fun c => ok (fst c)) cs = true -> Forall (fun c => ok (fst c) = true) cs.
Proof. intros H. apply Forall_forall. intros x Hx. exact (proj1 (forallb_forall _ _) H x Hx). Qed.

(* quoteAs with any preferred type, for the quoting context cq, read in any
   compatible context *)
Lemma quote_as_reads_back s pref cq cr t :
  is_bytes s -> ctx_compat cq cr -> term_ok cr t ->
  read_compound is_print cr (fst (quote_as is_print s pref cq) ++ t)
  = COk [(snd (quote_as is_print s pref cq), s)] t.
Proof.
  intros Hb Hc Ht. unfold quote_as.
  assert (D : read_compound is_print cr (quote_double is_print s ++ t) = COk [(TDouble, s)] t)
    by (apply read_compound_double; assumption).
  assert (Main : forall q, q <> TDouble ->
    read_compound is_print cr (fst (
      match s with
      | [] => ([39; 39], TSingle)
      | b0 :: _ =>
        match scan is_print (fun r => allowed_in_bareword is_print r cq) (chunks s) (negb (b0 =? 126)) with
        | None => (quote_double is_print s, TDouble)
        | Some bare => if ptype_eqb q TBare && bare then (s, TBare) else (quote_single s, TSingle)
        end
      end) ++ t)
    = COk [(snd (
      match s with
      | [] => ([39; 39], TSingle)
      | b0 :: _ =>
        match scan is_print (fun r => allowed_in_bareword is_print r cq) (chunks s) (negb (b0 =? 126)) with
        | None => (quote_double is_print s, TDouble)
        | Some bare => if ptype_eqb q TBare && bare then (s, TBare) else (quote_single s, TSingle)
        end
      end), s)] t).
  { intros q _. destruct s as [|b0 s'] eqn:Es.
    - cbn [fst snd]. change [39; 39] with (quote_single []).
      apply read_compound_single; [rewrite chunks_nil; constructor|exact Ht].
    - rewrite <- Es in *.
      destruct (scan is_print _ (chunks s) (negb (b0 =? 126))) as [bare|] eqn:Sc; [|exact D].
      destruct (scan_Some _ _ _ _ Sc) as [Hpr Hbare].
      pose proof (ok_not_error_good _ (chunks_ok s) Hpr) as Hg.
      destruct (ptype_eqb q TBare && bare) eqn:B.
      + cbn [fst snd]. apply andb_true_iff in B as [_ B]. subst bare.
        apply andb_true_iff in B as [B1 B2]. apply negb_true_iff, N.eqb_neq in B1.
        rewrite Es in *. apply read_compound_bare; try assumption.
        apply (forallb_Forall_fst (fun r => allowed_in_bareword is_print r cq)) in B2.
        eapply Forall_impl; [|exact B2]. cbn beta. intros c Hc0. apply (allowed_compat cq cr); assumption.
      + cbn [fst snd]. apply read_compound_single; assumption. }
  destruct pref; try (apply Main; discriminate). exact D.
Qed.

Lemma quote_as_literal s pref cq : is_literal (snd (quote_as is_print s pref cq)) = true.
Proof.
  unfold quote_as. destruct pref; try reflexivity;
    (destruct s as [|b0 s']; [reflexivity|]; destruct (scan _ _ _ _) as [bare|]; [|reflexivity];
     destruct (_ && bare); reflexivity).
Qed.

(* main theorem: Quote / QuoteAs *)
Lemma quote_parses_back s pref ctx t :
  is_bytes s -> term_ok ctx t ->
  read_compound is_print ctx (fst (QuoteAs is_print s pref) ++ t)
  = COk [(snd (QuoteAs is_print s pref), s)] t.
Proof. intros Hb Ht. apply quote_as_reads_back; [exact Hb|left; reflexivity|exact Ht]. Qed.

(* QuoteCommandName, read in command position *)
Lemma quote_cmd_parses_back s t :
  is_bytes s -> term_ok CCmd t ->
  read_compound is_print CCmd (QuoteCommandName is_print s ++ t)
  = COk [(snd (quote_as is_print s TBare CCmd), s)] t.
Proof. intros Hb Ht. apply quote_as_reads_back; [exact Hb|right; reflexivity|exact Ht]. Qed.

(* one word whose value is s: cmpd.StringLiteral and evaluation *)
Lemma quote_single_word s pref ctx t :
  is_bytes s -> term_ok ctx t ->
  exists ty, read_compound is_print ctx (fst (QuoteAs is_print s pref) ++ t) = COk [(ty, s)] t
    /\ string_literal [(ty, s)] = Some s /\ eval_compound [(ty, s)] = Some s.
Proof.
  intros Hb Ht. exists (snd (QuoteAs is_print s pref)). split; [apply quote_parses_back; assumption|].
  pose proof (quote_as_literal s pref CStrict) as L. unfold QuoteAs.
  cbn [string_literal eval_compound eval_words]. rewrite L, app_nil_r. split; reflexivity.
Qed.

Lemma quote_cmd_single_word s t :
  is_bytes s -> term_ok CCmd t ->
  exists ty, read_compound is_print CCmd (QuoteCommandName is_print s ++ t) = COk [(ty, s)] t
    /\ string_literal [(ty, s)] = Some s.
Proof.
  intros Hb Ht. exists (snd (quote_as is_print s TBare CCmd)). split; [apply quote_cmd_parses_back; assumption|].
  pose proof (quote_as_literal s TBare CCmd) as L. cbn [string_literal]. rewrite L. reflexivity.
Qed.

(* QuoteVariableName after a dollar sign *)
Lemma quote_var_parses_back s ctx t :
  is_bytes s -> term_ok ctx t ->
  read_compound is_print ctx (36 :: QuoteVariableName is_print s ++ t) = COk [(TVar, s)] t.
Proof.
  intros Hb Ht.
  assert (Pk : forall q, peek ((36 :: q) ++ t) = Some 36) by (intros q; cbn [app]; apply peek_ascii; blia).
  assert (Step : forall q, read_variable is_print (q ++ t) = RdOk s t ->
    read_compound is_print ctx ((36 :: q) ++ t) = COk [(TVar, s)] t).
  { intros q Hq. apply (read_compound_one ctx _ TVar s t 36); try assumption.
    - apply Pk.
    - blia.
    - apply starts_primary_dollar.
    - unfold read_primary. rewrite Pk, starts_primary_dollar, dollar_not_bareword.
      cbn [negb N.eqb Pos.eqb app]. rewrite next_ascii by blia. cbn [snd]. rewrite Hq. reflexivity.
    - discriminate. }
  change (36 :: QuoteVariableName is_print s ++ t) with ((36 :: QuoteVariableName is_print s) ++ t).
  apply Step. unfold QuoteVariableName.
  assert (RS : forall s0, Forall good (chunks s0) ->
    read_variable is_print (quote_single s0 ++ t) = RdOk s0 t).
  { intros s0 Hg. unfold read_variable, quote_single. cbn [app]. rewrite next_ascii by blia.
    cbn [N.eqb Pos.eqb]. rewrite <- app_assoc. cbn [app].
    rewrite read_sq_pieces; [rewrite chunks_concat; reflexivity|exact Hg| |exact (term_ok_quote ctx t Ht)].
    rewrite app_length. cbn [length].
    pose proof (sq_pieces_length (chunks s0)) as L2.
    blia. }
  assert (RD : read_variable is_print (quote_double is_print s ++ t) = RdOk s t).
  { unfold read_variable, quote_double. cbn [app]. rewrite next_ascii by blia.
    cbn [N.eqb Pos.eqb]. rewrite <- app_assoc. cbn [app].
    rewrite read_dq_pieces; [rewrite chunks_concat; reflexivity|apply chunks_ok|apply chunks_bytes; exact Hb|].
    rewrite app_length. cbn [length].
    pose proof (dq_pieces_length (chunks s)) as L2.
    blia. }
  destruct s as [|b0 s'] eqn:Es.
  - change [39; 39] with (quote_single []). apply RS. rewrite chunks_nil. constructor.
  - rewrite <- Es in *.
    destruct (scan is_print _ (chunks s) true) as [bare|] eqn:Sc; [|exact RD].
    destruct (scan_Some _ _ _ _ Sc) as [Hpr Hbare].
    pose proof (ok_not_error_good _ (chunks_ok s) Hpr) as Hg.
    destruct bare.
    + cbn [andb] in Hbare. symmetry in Hbare.
      apply (forallb_Forall_fst (allowed_in_varname is_print)) in Hbare.
      apply (read_variable_bare ctx); try assumption. subst s. discriminate.
    + apply RS. exact Hg.
Qed.

(* ------------------------------------------------------------------ *)
(* the quoted text is valid UTF-8 (what the parser assumes of its input) *)

Lemma valid_rtohex v n t : valid (rtohex v n ++ t) = valid t.
Proof.
  revert v t. induction n as [|n IH]; intros v t; [reflexivity|].
  change (rtohex v (S n)) with (rtohex (v / 16) n ++ [hex_digit (v mod 16)]).
  rewrite <- app_assoc, IH. cbn [app]. apply valid_ascii_cons.
  assert (Hd : v mod 16 < 16) by (apply N.mod_lt; blia). apply (hex_digit_spec _ Hd).
Qed.

Lemma valid_dq_pieces cs t : Forall chunk_ok cs ->
  valid (flat_map (dq_piece is_print) cs ++ t) = valid t.
Proof.
  induction 1 as [|c cs Hc _ IH]; [reflexivity|]. cbn [flat_map]. rewrite <- app_assoc.
  destruct c as [r raw]. unfold dq_piece.
  destruct ((r =? RuneError) && Nat.eqb (length raw) 1) eqn:Bad.
  { cbn [app]. rewrite !valid_ascii_cons by blia. rewrite valid_rtohex. exact IH. }
  assert (V : valid_rune r = true).
  { destruct Hc as [(E & b & E2)|[_ V]]; [|exact V]. cbn [fst snd] in *. subst. discriminate. }
  destruct (double_unescape r) as [e|] eqn:U.
  { destruct (double_unescape_ascii r e U) as [_ He]. rewrite (encode_rune_ascii e He). cbn [app].
    rewrite !valid_ascii_cons by blia. exact IH. }
  destruct (is_print r && negb (r =? RuneError)).
  { rewrite valid_encode_app by exact V. exact IH. }
  destruct (r <=? 127); [|destruct (r <=? 65535)]; cbn [app];
    rewrite !valid_ascii_cons by blia; rewrite valid_rtohex; exact IH.
Qed.

Lemma valid_sq_pieces cs t : Forall good cs -> valid (flat_map sq_piece cs ++ t) = valid t.
Proof.
  induction 1 as [|c cs [E V] _ IH]; [reflexivity|]. cbn [flat_map]. rewrite <- app_assoc.
  unfold sq_piece. destruct (fst c =? 39).
  - rewrite <- app_assoc, valid_encode_app by exact V. cbn [app]. rewrite valid_ascii_cons by blia. exact IH.
  - rewrite valid_encode_app by exact V. exact IH.
Qed.

Lemma valid_good_chunks cs t : Forall good cs -> valid (flat_map snd cs ++ t) = valid t.
Proof.
  induction 1 as [|c cs [E V] _ IH]; [reflexivity|]. cbn [flat_map]. unfold bytes in *.
  rewrite <- app_assoc, <- E. rewrite valid_encode_app by exact V. exact IH.
Qed.

Lemma quote_double_valid s : valid (quote_double is_print s) = true.
Proof.
  unfold quote_double. rewrite valid_ascii_cons by blia.
  rewrite valid_dq_pieces by apply chunks_ok. rewrite valid_ascii_cons by blia. reflexivity.
Qed.

Lemma quote_single_valid s : Forall good (chunks s) -> valid (quote_single s) = true.
Proof.
  intros Hg. unfold quote_single. rewrite valid_ascii_cons by blia.
  rewrite valid_sq_pieces by exact Hg. rewrite valid_ascii_cons by blia. reflexivity.
Qed.

Lemma good_chunks_valid s : Forall good (chunks s) -> valid s = true.
Proof.
  intros Hg. rewrite <- (app_nil_r s), <- (chunks_concat s) at 1. rewrite valid_good_chunks by exact Hg.
  reflexivity.
Qed.

Lemma quote_as_valid s pref cq : valid (fst (quote_as is_print s pref cq)) = true.
Proof.
  unfold quote_as.
  assert (Main : valid (fst (
      match s with
      | [] => ([39; 39], TSingle)
      | b0 :: _ =>
        match scan is_print (fun r => allowed_in_bareword is_print r cq) (chunks s) (negb (b0 =? 126)) with
        | None => (quote_double is_print s, TDouble)
        | Some bare => if ptype_eqb pref TBare && bare then (s, TBare) else (quote_single s, TSingle)
        end
      end)) = true).
  { destruct s as [|b0 s'] eqn:Es; [reflexivity|]. rewrite <- Es in *.
    destruct (scan is_print _ (chunks s) _) as [bare|] eqn:Sc; [|apply quote_double_valid].
    destruct (scan_Some _ _ _ _ Sc) as [Hpr _].
    pose proof (ok_not_error_good _ (chunks_ok s) Hpr) as Hg.
    destruct (_ && bare); cbn [fst]; [apply good_chunks_valid|apply quote_single_valid]; exact Hg. }
  destruct pref; try exact Main. apply quote_double_valid.
Qed.

Lemma quote_var_valid s : valid (QuoteVariableName is_print s) = true.
Proof.
  unfold QuoteVariableName. destruct s as [|b0 s'] eqn:Es; [reflexivity|]. rewrite <- Es in *.
  destruct (scan is_print _ (chunks s) true) as [bare|] eqn:Sc; [|apply quote_double_valid].
  destruct (scan_Some _ _ _ _ Sc) as [Hpr _].
  pose proof (ok_not_error_good _ (chunks_ok s) Hpr) as Hg.
  destruct bare; [apply good_chunks_valid|apply quote_single_valid]; exact Hg.
Qed.

End Proofs.

(* ------------------------------------------------------------------ *)
(* the oracle and the judge's prediction *)

Lemma check_C03_sound f p s o : in_property f p = true -> check_C03 f p s o = true -> o = EStr s.
Proof.
  unfold check_C03. intros -> H. destruct o as [v| |]; try discriminate.
  cbn in H. apply bytes_eqb_spec in H. subst. reflexivity.
Qed.

(* the model satisfies the oracle: quoting s with f and using the result at a
   position the property speaks about, before any terminator, is predicted to
   give exactly s *)
Lemma model_satisfies_oracle pr f p s suffix :
  in_property f p = true -> is_bytes s -> term_ok pr (pos_ctx p) suffix ->
  model_use pr p (fst (model_quote pr f s)) suffix = Some (EStr s).
Proof.
  intros Hin Hb Ht. unfold model_use.
  destruct f as [pref| |]; destruct p; try discriminate; cbn [pos_ctx] in *.
  - unfold model_quote. destruct (QuoteAs pr s pref) as [q ty] eqn:Q. cbn [fst].
    pose proof (quote_parses_back pr s pref CNormal suffix Hb Ht) as R. rewrite Q in R. cbn [fst snd] in R.
    rewrite R, bytes_eqb_refl. cbn [negb].
    pose proof (quote_as_literal pr s pref CStrict) as L. unfold QuoteAs in Q. rewrite Q in L. cbn [snd] in L.
    cbn [eval_compound eval_words]. rewrite L, app_nil_r. reflexivity.
  - unfold model_quote. destruct (QuoteAs pr s pref) as [q ty] eqn:Q. cbn [fst].
    pose proof (quote_parses_back pr s pref CLHS suffix Hb Ht) as R. rewrite Q in R. cbn [fst snd] in R.
    rewrite R, bytes_eqb_refl. cbn [negb].
    pose proof (quote_as_literal pr s pref CStrict) as L. unfold QuoteAs in Q. rewrite Q in L. cbn [snd] in L.
    cbn [eval_compound eval_words]. rewrite L, app_nil_r. reflexivity.
  - cbn [model_quote fst].
    rewrite (quote_cmd_parses_back pr s suffix Hb Ht), bytes_eqb_refl. cbn [negb string_literal].
    rewrite (quote_as_literal pr s TBare CCmd). reflexivity.
  - cbn [model_quote fst].
    rewrite (quote_var_parses_back pr s CNormal suffix Hb Ht), bytes_eqb_refl. reflexivity.
Qed.

Lemma model_satisfies_oracle_full pr f p s suffix :
  in_property f p = true -> is_bytes s -> term_ok pr (pos_ctx p) suffix ->
  model_use pr p (fst (model_quote pr f s)) suffix = Some (EStr s)
  /\ check_C03 f p s (EStr s) = true.
Proof.
  intros Hin Hb Ht. split; [apply model_satisfies_oracle; assumption|].
  unfold check_C03. rewrite Hin. cbn [eobs_eqb]. apply bytes_eqb_refl.
Qed.
