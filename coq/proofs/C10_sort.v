(* C10, part 1: what "stable sorted permutation" means, its uniqueness, the
   contract of a stable sort as order uses it, and the proof that the insertion
   sort of model/C10.v satisfies the contract. *)
From Coq Require Import Permutation Sorted.
From verif Require Import lib.Base model.C10.
Open Scope nat_scope.

(* ---------- list facts ---------- *)
Lemma SS_app {A} (R : A -> A -> Prop) l1 l2 :
  StronglySorted R l1 -> StronglySorted R l2 ->
  (forall x y, In x l1 -> In y l2 -> R x y) -> StronglySorted R (l1 ++ l2).
Proof.
  induction l1 as [|a l1 IH]; intros H1 H2 H; simpl; [exact H2|].
  inversion H1 as [|? ? S1 F1]; subst. constructor.
  - apply IH; auto. intros; apply H; simpl; auto.
  - apply Forall_app; split; [exact F1|]. apply Forall_forall. intros y Hy. apply H; simpl; auto.
Qed.

Lemma SS_rev {A} (R : A -> A -> Prop) l :
  StronglySorted (fun a b => R b a) l -> StronglySorted R (rev l).
Proof.
  induction l as [|a l IH]; intros H; simpl; [constructor|].
  inversion H as [|? ? S1 F1]; subst. apply SS_app; [auto | repeat constructor |].
  intros x y Hx Hy. destruct Hy as [<-|[]]. rewrite Forall_forall in F1. apply F1.
  apply in_rev. exact Hx.
Qed.

Lemma SS_impl {A} (R R' : A -> A -> Prop) l :
  (forall a b, R a b -> R' a b) -> StronglySorted R l -> StronglySorted R' l.
Proof.
  intros H S. induction S as [|a l S IH F]; constructor; [exact IH|].
  eapply Forall_impl; [|exact F]. intros; apply H; assumption.
Qed.

Lemma SS_map {A B} (f : A -> B) (R : B -> B -> Prop) l :
  StronglySorted (fun a b => R (f a) (f b)) l -> StronglySorted R (map f l).
Proof.
  intros S. induction S as [|a l S IH F]; simpl; constructor; [exact IH|].
  apply Forall_forall. intros y Hy. apply in_map_iff in Hy as (x & <- & Hx).
  rewrite Forall_forall in F. apply F; exact Hx.
Qed.

Lemma map_snd_combine {A B} (a : list A) : forall (b : list B),
  length a = length b -> map snd (combine a b) = b.
Proof. induction a as [|x a IH]; intros [|y b] L; simpl in *; try discriminate; [reflexivity|].
  f_equal. apply IH. lia. Qed.

Lemma map_fst_combine {A B} (a : list A) : forall (b : list B),
  length a = length b -> map fst (combine a b) = a.
Proof. induction a as [|x a IH]; intros [|y b] L; simpl in *; try discriminate; [reflexivity|].
  f_equal. apply IH. lia. Qed.

Lemma map_snd_tagged {A} (l : list A) : map snd (tagged l) = l.
Proof. unfold tagged. apply map_snd_combine. apply seq_length. Qed.

Lemma combine_map_r {A B C} (f : B -> C) (a : list A) : forall (b : list B),
  combine a (map f b) = map (fun p => (fst p, f (snd p))) (combine a b).
Proof. induction a as [|x a IH]; intros [|y b]; simpl; try reflexivity. f_equal. apply IH. Qed.

Lemma tagged_map {A B} (f : A -> B) (l : list A) :
  tagged (map f l) = map (fun p => (fst p, f (snd p))) (tagged l).
Proof. unfold tagged. rewrite map_length. apply combine_map_r. Qed.

(* ---------- the specification ---------- *)
Section Spec.
  Context {X : Type} (less : X -> X -> bool).

  (* a stands before b in the output: b does not compare smaller than a, and if
     neither compares smaller then a stood before b in the input *)
  Definition ord_ok (a b : nat * X) : Prop :=
    less (snd b) (snd a) = false /\ (less (snd a) (snd b) = false -> fst a < fst b).

  (* out is a stable sorted permutation of inp *)
  Definition StableSorted (inp out : list X) : Prop :=
    exists tout, Permutation (tagged inp) tout /\ map snd tout = out /\
                 StronglySorted ord_ok tout.

  (* less is a strict weak order on the elements of l *)
  Definition SWO_on (l : list X) : Prop :=
    (forall a b, In a l -> In b l -> less a b = true -> less b a = false) /\
    (forall a b c, In a l -> In b l -> In c l ->
                   less a b = false -> less b c = false -> less a c = false).

  Lemma StableSorted_perm inp out : StableSorted inp out -> Permutation inp out.
  Proof.
    intros (t & P & M & _). rewrite <- M, <- (map_snd_tagged inp).
    apply Permutation_map. exact P.
  Qed.

  (* no value stands before a value that compares smaller *)
  Lemma StableSorted_sorted inp out :
    StableSorted inp out -> StronglySorted (fun a b => less b a = false) out.
  Proof.
    intros (t & _ & M & S). rewrite <- M. apply SS_map.
    eapply SS_impl; [|exact S]. intros a b [H _]. exact H.
  Qed.

  (* the stable sorted permutation is unique (no assumption on less) *)
  Lemma sorted_perm_unique t1 : forall t2,
    StronglySorted ord_ok t1 -> StronglySorted ord_ok t2 -> Permutation t1 t2 -> t1 = t2.
  Proof.
    induction t1 as [|a t1 IH]; intros t2 S1 S2 P.
    - apply Permutation_nil in P. auto.
    - destruct t2 as [|b t2]; [apply Permutation_sym, Permutation_nil in P; discriminate|].
      inversion S1 as [|? ? S1' F1]; inversion S2 as [|? ? S2' F2]; subst.
      assert (E : a = b).
      { assert (Ia : In a (b :: t2)) by (eapply Permutation_in; [exact P|left; reflexivity]).
        assert (Ib : In b (a :: t1))
          by (eapply Permutation_in; [apply Permutation_sym; exact P|left; reflexivity]).
        destruct Ia as [->|Ia]; [reflexivity|]. destruct Ib as [->|Ib]; [reflexivity|].
        rewrite Forall_forall in F1, F2.
        destruct (F1 _ Ib) as [A1 A2]. destruct (F2 _ Ia) as [B1 B2].
        specialize (A2 B1). specialize (B2 A1). lia. }
      subst b. f_equal. apply IH; auto. eapply Permutation_cons_inv; exact P.
  Qed.

  Lemma StableSorted_unique inp o1 o2 : StableSorted inp o1 -> StableSorted inp o2 -> o1 = o2.
  Proof.
    intros (t1 & P1 & M1 & S1) (t2 & P2 & M2 & S2). rewrite <- M1, <- M2. f_equal.
    apply sorted_perm_unique; auto.
    eapply Permutation_trans; [apply Permutation_sym; exact P1|exact P2].
  Qed.
End Spec.

Lemma SWO_on_flip {X} (less : X -> X -> bool) l :
  SWO_on less l -> SWO_on (fun a b => less b a) l.
Proof. intros [A N]. split; intros; eauto. Qed.

Lemma SWO_on_map {X Y} (f : Y -> X) (less : X -> X -> bool) l :
  SWO_on less (map f l) -> SWO_on (fun a b => less (f a) (f b)) l.
Proof.
  intros [A N]. split.
  - intros a b Ia Ib H. apply A; auto using in_map.
  - intros a b c Ia Ib Ic H1 H2. apply (N (f a) (f b) (f c)); auto using in_map.
Qed.

(* a stable sorted permutation through a decoration f *)
Lemma StableSorted_map {X Y} (f : Y -> X) (less : X -> X -> bool) inp out :
  StableSorted (fun a b => less (f a) (f b)) inp out ->
  StableSorted less (map f inp) (map f out).
Proof.
  intros (t & P & M & S). exists (map (fun p => (fst p, f (snd p))) t). repeat split.
  - rewrite tagged_map. apply Permutation_map. exact P.
  - rewrite <- M, !map_map. reflexivity.
  - apply SS_map. eapply SS_impl; [|exact S]. intros a b H. exact H.
Qed.

(* ---------- the contract of sort.Stable as order uses it ---------- *)
Definition StableSortContract (S : sorter) : Prop :=
  (* only Swap moves data: always a permutation *)
  (forall X less l, Permutation l (fst (S X less l))) /\
  (* stable and sorted when Less is a strict weak order on the input *)
  (forall X less l, SWO_on less l -> StableSorted less l (fst (S X less l))) /\
  (* Less is only called on elements of the input *)
  (forall X less l a b, In (a, b) (snd (S X less l)) -> In a l /\ In b l) /\
  (* the sort sees Less only through its answers *)
  (forall X less less' l, (forall a b, less a b = less' a b) -> S X less l = S X less' l).

(* ---------- the insertion sort satisfies the contract ---------- *)
Section ISortProofs.
  Context {X : Type} (less : X -> X -> bool).

  Lemma ins_perm x acc : Permutation (x :: acc) (ins less x acc).
  Proof.
    induction acc as [|y r IH]; simpl; [apply Permutation_refl|].
    destruct (less x y); [|apply Permutation_refl].
    eapply Permutation_trans; [apply perm_swap|]. apply perm_skip. exact IH.
  Qed.

  Lemma isort_acc_perm l : forall acc, Permutation (acc ++ l) (isort_acc less acc l).
  Proof.
    induction l as [|x r IH]; intros acc; simpl.
    - rewrite app_nil_r. apply Permutation_rev.
    - eapply Permutation_trans; [|apply IH].
      eapply Permutation_trans; [apply Permutation_sym, Permutation_middle|].
      change (x :: acc ++ r) with ((x :: acc) ++ r).
      apply Permutation_app_tail. apply ins_perm.
  Qed.

  Lemma ins_in x acc y : In y (ins less x acc) -> y = x \/ In y acc.
  Proof.
    intros H. eapply Permutation_in in H; [|apply Permutation_sym, ins_perm].
    destruct H as [<-|H]; auto.
  Qed.

  Lemma ins_trace_in x acc a b : In (a, b) (ins_trace less x acc) -> a = x /\ In b acc.
  Proof.
    induction acc as [|y r IH]; simpl; [tauto|]. intros [E|H].
    - inversion E; subst; auto.
    - destruct (less x y); [|destruct H]. destruct (IH H); auto.
  Qed.

  Lemma isort_trace_acc_in l : forall acc a b,
    In (a, b) (isort_trace_acc less acc l) -> In a l /\ In b (acc ++ l).
  Proof.
    induction l as [|x r IH]; intros acc a b; simpl; [tauto|]. intros H.
    apply in_app_or in H as [H|H].
    - apply ins_trace_in in H as [-> H]. split; [auto|]. apply in_or_app; auto.
    - apply IH in H as [H1 H2]. split; [auto|]. apply in_app_or in H2 as [H2|H2].
      + apply ins_in in H2 as [->|H2]; apply in_or_app; simpl; auto.
      + apply in_or_app; simpl; auto.
  Qed.
End ISortProofs.

(* sorting through a decoration: the decorated run is the image of the plain run *)
Section ISortMap.
  Context {X Y : Type} (f : Y -> X) (less : X -> X -> bool).
  Let lessY (p q : Y) := less (f p) (f q).

  Lemma ins_map y acc : map f (ins lessY y acc) = ins less (f y) (map f acc).
  Proof.
    induction acc as [|z r IH]; simpl; [reflexivity|]. unfold lessY at 1.
    destruct (less (f y) (f z)); simpl; [rewrite IH|]; reflexivity.
  Qed.

  Lemma isort_acc_map l : forall acc,
    map f (isort_acc lessY acc l) = isort_acc less (map f acc) (map f l).
  Proof.
    induction l as [|y r IH]; intros acc; simpl; [apply map_rev|].
    rewrite IH, ins_map. reflexivity.
  Qed.

  Definition pmap (pq : Y * Y) : X * X := (f (fst pq), f (snd pq)).

  Lemma ins_trace_map y acc :
    map pmap (ins_trace lessY y acc) = ins_trace less (f y) (map f acc).
  Proof.
    induction acc as [|z r IH]; simpl; [reflexivity|]. unfold lessY at 1, pmap at 1. simpl.
    f_equal. destruct (less (f y) (f z)); [exact IH|reflexivity].
  Qed.

  Lemma isort_trace_acc_map l : forall acc,
    map pmap (isort_trace_acc lessY acc l) = isort_trace_acc less (map f acc) (map f l).
  Proof.
    induction l as [|y r IH]; intros acc; simpl; [reflexivity|].
    rewrite map_app, IH, ins_trace_map, ins_map. reflexivity.
  Qed.
End ISortMap.

Section ISortExt.
  Context {X : Type} (less less' : X -> X -> bool) (E : forall a b, less a b = less' a b).
  Lemma ins_ext x acc : ins less x acc = ins less' x acc.
  Proof. induction acc as [|y r IH]; simpl; [reflexivity|]. rewrite E, IH. reflexivity. Qed.
  Lemma ins_trace_ext x acc : ins_trace less x acc = ins_trace less' x acc.
  Proof. induction acc as [|y r IH]; simpl; [reflexivity|]. rewrite E, IH. reflexivity. Qed.
  Lemma isort_acc_ext l : forall acc, isort_acc less acc l = isort_acc less' acc l.
  Proof. induction l as [|x r IH]; intros acc; simpl; [reflexivity|]. rewrite ins_ext. apply IH. Qed.
  Lemma isort_trace_acc_ext l : forall acc,
    isort_trace_acc less acc l = isort_trace_acc less' acc l.
  Proof. induction l as [|x r IH]; intros acc; simpl; [reflexivity|].
    rewrite ins_trace_ext, ins_ext, IH. reflexivity. Qed.
End ISortExt.

(* sortedness and stability of the tagged run *)
Section ISortSorted.
  Context {X : Type} (less : X -> X -> bool) (P : X -> Prop).
  Hypothesis asym : forall a b, P a -> P b -> less a b = true -> less b a = false.
  Hypothesis negtrans : forall a b c, P a -> P b -> P c ->
    less a b = false -> less b c = false -> less a c = false.
  Let tless (p q : nat * X) := less (snd p) (snd q).
  Let rord (a b : nat * X) := ord_ok less b a.

  Lemma ins_sorted x acc :
    P (snd x) -> Forall (fun y => P (snd y)) acc -> Forall (fun y => fst y < fst x) acc ->
    StronglySorted rord acc -> StronglySorted rord (ins tless x acc).
  Proof.
    intros Px. induction acc as [|y r IH]; intros FP FI S; simpl.
    - repeat constructor.
    - inversion S as [|? ? S' F]; subst. inversion FP as [|? ? Py FP']; subst.
      inversion FI as [|? ? Iy FI']; subst. unfold tless at 1.
      destruct (less (snd x) (snd y)) eqn:L.
      + constructor; [apply IH; assumption|]. apply Forall_forall. intros z Hz.
        apply ins_in in Hz as [->|Hz].
        * split; [apply asym; assumption|]. intros C. congruence.
        * rewrite Forall_forall in F. apply F; exact Hz.
      + constructor; [exact S|]. apply Forall_forall. intros z Hz.
        assert (Iz : fst z < fst x) by (rewrite Forall_forall in FI; apply FI; exact Hz).
        split; [|intros _; exact Iz].
        destruct Hz as [<-|Hz]; [exact L|].
        rewrite Forall_forall in F. destruct (F _ Hz) as [Lyz _].
        rewrite Forall_forall in FP'. eapply negtrans; eauto.
  Qed.

  Lemma isort_acc_sorted xs : forall i acc,
    Forall P xs -> Forall (fun y => P (snd y)) acc -> Forall (fun y => fst y < i) acc ->
    StronglySorted rord acc ->
    StronglySorted (ord_ok less) (isort_acc tless acc (combine (seq i (length xs)) xs)).
  Proof.
    induction xs as [|x xs IH]; intros i acc FX FP FI S; simpl.
    - apply SS_rev. exact S.
    - inversion FX as [|? ? Px FX']; subst. apply IH; try assumption.
      + apply Forall_forall. intros z Hz. apply ins_in in Hz as [->|Hz]; [exact Px|].
        rewrite Forall_forall in FP. apply FP; exact Hz.
      + apply Forall_forall. intros z Hz. apply ins_in in Hz as [->|Hz]; [simpl; lia|].
        rewrite Forall_forall in FI. specialize (FI _ Hz). lia.
      + apply ins_sorted; assumption.
  Qed.
End ISortSorted.

Lemma isort_stable {X} (less : X -> X -> bool) l :
  SWO_on less l -> StableSorted less l (isort X less l).
Proof.
  intros [A N]. exists (isort_acc (fun p q => less (snd p) (snd q)) [] (tagged l)). repeat split.
  - apply (isort_acc_perm _ (tagged l) []).
  - rewrite (isort_acc_map snd less). simpl. rewrite map_snd_tagged. reflexivity.
  - unfold tagged. apply (isort_acc_sorted less (fun x => In x l)); auto.
    + apply Forall_forall. auto.
    + constructor.
Qed.

Theorem isortT_contract : StableSortContract isortT.
Proof.
  split; [|split; [|split]].
  - intros X less l. apply (isort_acc_perm less l []).
  - intros X less l H. apply isort_stable. exact H.
  - intros X less l a b H. apply (isort_trace_acc_in less l [] a b) in H. exact H.
  - intros X less less' l E. unfold isortT, isort, isort_trace.
    rewrite (isort_acc_ext less less' E), (isort_trace_acc_ext less less' E). reflexivity.
Qed.

(* ---------- the latch written as code gives the same outcome ---------- *)
(* Running the insertion sort with slice.Less's latch (state = latched error
   and call count) ends with the error of the first failing call of the
   latch-free run, and with its arrangement when no call fails. *)
Section LatchProofs.
  Context {X : Type} (ok : X -> X -> bool) (fl : nat -> X -> X -> option errkind).

  (* first failing call in a trace, calls numbered from i *)
  Fixpoint first_fail_plain (i : nat) (tr : list (X * X)) : option (errkind * nat) :=
    match tr with
    | [] => None
    | (a, b) :: r =>
      match fl i a b with Some e => Some (e, i) | None => first_fail_plain (S i) r end
    end.

  Lemma first_fail_plain_app i t1 t2 :
    first_fail_plain i (t1 ++ t2) =
    match first_fail_plain i t1 with
    | Some r => Some r
    | None => first_fail_plain (i + length t1) t2
    end.
  Proof.
    revert i; induction t1 as [|[a b] r IH]; intros i; simpl.
    - f_equal. lia.
    - destruct (fl i a b); [reflexivity|]. rewrite IH. replace (S i + length r) with (i + S (length r)) by lia.
      reflexivity.
  Qed.

  (* once latched, the state never changes *)
  Lemma ins_l_latched e n x acc : snd (ins_l ok fl (Some e, n) x acc) = (Some e, n).
  Proof.
    induction acc as [|y r IH]; simpl; [reflexivity|].
    destruct (ins_l ok fl (Some e, n) x r) as [r' st2] eqn:E. simpl in *. exact IH.
  Qed.

  Lemma isort_l_latched e n l : forall acc, snd (isort_l ok fl (Some e, n) acc l) = (Some e, n).
  Proof.
    induction l as [|x r IH]; intros acc; simpl; [reflexivity|].
    pose proof (ins_l_latched e n x acc) as H.
    destruct (ins_l ok fl (Some e, n) x acc) as [acc' st1]. simpl in H. subst st1. apply IH.
  Qed.

  (* one insertion, not yet latched, n calls made so far *)
  Lemma ins_l_spec n x acc :
    match first_fail_plain (S n) (ins_trace ok x acc) with
    | Some (e, k) => snd (ins_l ok fl (None, n) x acc) = (Some e, k)
    | None => ins_l ok fl (None, n) x acc =
              (ins ok x acc, (None, n + length (ins_trace ok x acc)))
    end.
  Proof.
    revert n; induction acc as [|y r IH]; intros n; simpl.
    - f_equal. f_equal. lia.
    - unfold less_latched. simpl. destruct (fl (S n) x y) as [e|] eqn:F.
      + pose proof (ins_l_latched e (S n) x r) as H.
        destruct (ins_l ok fl (Some e, S n) x r) as [r' st2]. simpl in *. exact H.
      + destruct (ok x y) eqn:O.
        * specialize (IH (S n)).
          destruct (first_fail_plain (S (S n)) (ins_trace ok x r)) as [[e k]|].
          -- destruct (ins_l ok fl (None, S n) x r) as [r' st2]. simpl in *. exact IH.
          -- rewrite IH. f_equal. f_equal. simpl. lia.
        * simpl. f_equal. f_equal. lia.
  Qed.

  Lemma isort_l_spec l : forall n acc,
    match first_fail_plain (S n) (isort_trace_acc ok acc l) with
    | Some (e, k) => snd (isort_l ok fl (None, n) acc l) = (Some e, k)
    | None => isort_l ok fl (None, n) acc l =
              (isort_acc ok acc l, (None, n + length (isort_trace_acc ok acc l)))
    end.
  Proof.
    induction l as [|x r IH]; intros n acc; simpl.
    - f_equal. f_equal. lia.
    - rewrite first_fail_plain_app. pose proof (ins_l_spec n x acc) as H.
      destruct (first_fail_plain (S n) (ins_trace ok x acc)) as [[e k]|].
      + destruct (ins_l ok fl (None, n) x acc) as [acc' st1]. simpl in H. subst st1.
        apply isort_l_latched.
      + rewrite H. specialize (IH (n + length (ins_trace ok x acc)) (ins ok x acc)).
        replace (S n + length (ins_trace ok x acc)) with (S (n + length (ins_trace ok x acc))) by lia.
        destruct (first_fail_plain (S (n + length (ins_trace ok x acc)))
                                   (isort_trace_acc ok (ins ok x acc) r)) as [[e k]|].
        * exact IH.
        * rewrite IH. f_equal. f_equal. rewrite app_length. lia.
  Qed.
End LatchProofs.
