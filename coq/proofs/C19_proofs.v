(* C19 -- proofs about the evaluation model with a cancellation oracle
   (model/C19.v).  The peach-under-cancellation results are in
   proofs/C20_proofs.v (shared transition system). *)
From verif Require Import lib.Base model.C20_Peach model.C19.
From Coq Require Import Arith.
Open Scope nat_scope.

Scheme chunk_mind := Induction for chunk Sort Prop
  with form_mind := Induction for form Sort Prop.
Combined Scheme chunk_form_mutind from chunk_mind, form_mind.

(* ------------------------------------------------------------------ *)
(* invariant of the evaluation state *)
Definition Inv (ko : option nat) (s : es) : Prop :=
  good (tr s) = true
  /\ (cz s = false -> has_cancel (tr s) = false)
  /\ (forall k, ko = Some k -> starts_before k (tr s) = true).

Lemma inv_tickclk ko s : Inv ko s -> Inv ko (tickclk s).
Proof. intros H; exact H. Qed.

Lemma inv_start ko s :
  Inv ko s -> is_cancelled ko s = false -> Inv ko (add_ev s (EStart (clk s))).
Proof.
  intros (Hg & Hc & Hk) Hn. unfold is_cancelled in Hn. apply orb_false_iff in Hn as (Hz & Ho).
  unfold Inv, add_ev; cbn. repeat split.
  - rewrite (Hc Hz), Hg. reflexivity.
  - intros _. now apply Hc.
  - intros k Hko. subst ko. cbn in Ho. rewrite (Hk k eq_refl), andb_true_r.
    apply Nat.ltb_lt. now apply Nat.leb_gt in Ho.
Qed.

Lemma inv_tick ko s id : Inv ko s -> is_cancelled ko s = false \/ True -> cz s = false -> Inv ko (add_ev s (ETick id)).
Proof.
  intros (Hg & Hc & Hk) _ Hz. unfold Inv, add_ev; cbn. repeat split.
  - rewrite (Hc Hz), Hg. reflexivity.
  - intros _. now apply Hc.
  - exact Hk.
Qed.

Lemma inv_cancel ko s : Inv ko s -> Inv ko (do_cancel s).
Proof.
  intros (Hg & Hc & Hk). unfold Inv, do_cancel; cbn. repeat split.
  - exact Hg.
  - discriminate.
  - exact Hk.
Qed.

(* Forms run only inside a pipeline that passed its check; a tick therefore needs
   the flag to be clear.  The invariant carried through forms: Inv, and the
   synchronous flag was clear when the enclosing pipeline started OR the trace
   stays good anyway.  To keep the induction simple the evaluation of a form is
   given the fact [cz s = false]; it is re-established at every pipeline start. *)

Definition P_chunk (ko : option nat) (c : chunk) : Prop :=
  forall s, Inv ko s -> Inv ko (fst (eval_chunk ko c s)).
(* a form: ticks are the only events that need the flag clear *)
Definition P_form (ko : option nat) (f : form) : Prop :=
  forall s, Inv ko s -> cz s = false -> Inv ko (fst (eval_form ko f s)).

Lemma each_loop_inv ko b :
  P_chunk ko b ->
  forall k s, Inv ko s ->
  Inv ko (fst ((fix loop (k : nat) (s : es) : es * option exn :=
         match k with
         | 0 => (s, None)
         | S k' =>
             let '(s1, e) := eval_chunk ko b s in
             match e with
             | Some x => (s1, Some x)
             | None => loop k' s1
             end
         end) k s)).
Proof.
  intros Hb. induction k as [|k IH]; intros s Hs; [exact Hs|].
  specialize (Hb s Hs). destruct (eval_chunk ko b s) as [s1 [x|]]; cbn in *; [exact Hb|].
  now apply IH.
Qed.

Lemma inv_preserved ko :
  (forall c, P_chunk ko c) /\ (forall f, P_form ko f).
Proof.
  apply chunk_form_mutind; unfold P_chunk, P_form.
  - (* CNil *) intros s Hs. cbn. destruct (is_cancelled ko (tickclk s)); exact Hs.
  - (* CCons *) intros f Hf r Hr s Hs. cbn [eval_chunk].
    destruct (is_cancelled ko (tickclk s)) eqn:Ec; [exact Hs|].
    assert (Hz : cz (add_ev (tickclk s) (EStart (clk (tickclk s)))) = false).
    { unfold is_cancelled in Ec. now apply orb_false_iff in Ec as (Hz & _). }
    pose proof (Hf _ (inv_start ko (tickclk s) (inv_tickclk ko s Hs) Ec) Hz) as H2.
    destruct (eval_form ko f _) as [s2 [x|]]; cbn in *; [exact H2|].
    now apply Hr.
  - (* FTick *) intros id s Hs Hz. cbn. apply inv_tick; auto.
  - (* FCancel *) intros s Hs _. cbn. now apply inv_cancel.
  - (* FFail *) intros id s Hs _. exact Hs.
  - (* FCall *) intros b Hb s Hs _. cbn. now apply Hb.
  - (* FTry *) intros b Hb hc c Hc hf f Hf s Hs _. cbn [eval_form].
    specialize (Hb s Hs). destruct (eval_chunk ko b s) as [s1 e1]. cbn in Hb.
    assert (H2 : Inv ko (fst (match e1 with
                              | Some _ => if hc then eval_chunk ko c s1 else (s1, e1)
                              | None => (s1, e1) end))).
    { destruct e1; [destruct hc; [now apply Hc|exact Hb]|exact Hb]. }
    destruct (match e1 with Some _ => if hc then eval_chunk ko c s1 else (s1, e1) | None => (s1, e1) end)
      as [s2 e2]. cbn in H2.
    destruct hf; [|exact H2].
    specialize (Hf s2 H2). destruct (eval_chunk ko f s2) as [s3 e3]. exact Hf.
  - (* FEach *) intros k b Hb s Hs _. cbn [eval_form]. now apply each_loop_inv.
  - (* FDefer *) intros d Hd r Hr s Hs _. cbn [eval_form].
    destruct (is_cancelled ko (tickclk s)) eqn:Ec; [exact Hs|].
    pose proof (Hr _ (inv_start ko (tickclk s) (inv_tickclk ko s Hs) Ec)) as H1.
    destruct (eval_chunk ko r _) as [s1 e1]. cbn in H1.
    specialize (Hd s1 H1). destruct (eval_chunk ko d s1) as [s2 e2]. exact Hd.
  - (* FWhile *) intros k b Hb s Hs _. cbn [eval_form]. now apply each_loop_inv.
Qed.

Lemma inv_init_es ko : Inv ko init_es.
Proof. repeat split. Qed.

(* Theorem 1 *)
Theorem no_pipeline_body_after_cancel ko c :
  let s' := fst (run_prog ko c) in
  good (tr s') = true /\ (forall k, ko = Some k -> starts_before k (tr s') = true).
Proof.
  cbn. destruct (proj1 (inv_preserved ko) c init_es (inv_init_es ko)) as (Hg & _ & Hk).
  split; assumption.
Qed.

(* what [good] means: nothing but the cancel itself is recorded after a cancel
   (the list is newest first: [post] is what happened before [e]) *)
Definition nothing_after_cancel (rt : list event) : Prop :=
  forall pre e post, rt = pre ++ e :: post -> e <> ECancel -> has_cancel post = false.

Lemma good_sound rt : good rt = true -> nothing_after_cancel rt.
Proof.
  induction rt as [|x rt IH]; intros Hg pre e post Heq Hne.
  - destruct pre; discriminate.
  - destruct pre as [|y pre]; cbn in Heq; inversion Heq; subst.
    + destruct e; cbn in Hg; try congruence;
        apply andb_true_iff in Hg as (Hn & _); now apply negb_true_iff in Hn.
    + apply (IH ltac:(destruct y; cbn in Hg; try assumption;
                       apply andb_true_iff in Hg as (_ & Hg'); exact Hg') pre e post eq_refl Hne).
Qed.

Lemma check_sync_sound ot r :
  check_sync ot r = true ->
  nothing_after_cancel (rev ot) /\ (has_cancel ot = true -> r = RInt).
Proof.
  unfold check_sync. intros H. apply andb_true_iff in H as (Hg & Hr).
  split; [now apply good_sound|]. intros Hc. rewrite Hc in Hr.
  destruct r; cbn in Hr; congruence.
Qed.

(* Theorem 2: a chunk -- in particular the whole program -- that ends with the
   context cancelled returns an exception; it returns normally only if the
   cancellation had not been delivered when it finished *)
Theorem interrupted_unless_finished ko c : forall s s' e,
  eval_chunk ko c s = (s', e) -> is_cancelled ko s' = true -> e <> None.
Proof.
  induction c as [|f r IH]; intros s s' e H Hc; cbn [eval_chunk] in H.
  - destruct (is_cancelled ko (tickclk s)) eqn:E; inversion H; subst; congruence.
  - destruct (is_cancelled ko (tickclk s)) eqn:E; [inversion H; subst; discriminate|].
    destruct (eval_form ko f _) as [s2 [x|]]; [inversion H; subst; discriminate|].
    eapply IH; eassumption.
Qed.

(* ---- the exception is the interrupt (synchronous cancel, no defer) ---- *)
Lemma chunk_none_not_cancelled ko c : forall s s',
  eval_chunk ko c s = (s', None) -> is_cancelled ko s' = false.
Proof.
  intros s s' H. destruct (is_cancelled ko s') eqn:E; [|reflexivity].
  exfalso. now apply (interrupted_unless_finished ko c s s' None H E).
Qed.

Definition F_chunk (c : chunk) : Prop :=
  defer_free c = true -> forall s s' i,
  eval_chunk None c s = (s', Some (XFail i)) -> cz s' = false.
Definition F_form (f : form) : Prop :=
  defer_free_f f = true -> forall s s' i, cz s = false ->
  eval_form None f s = (s', Some (XFail i)) -> cz s' = false.

Lemma cz_none s : is_cancelled None s = cz s.
Proof. unfold is_cancelled. now rewrite orb_false_r. Qed.

Lemma each_loop_fail b :
  (forall s s' i, eval_chunk None b s = (s', Some (XFail i)) -> cz s' = false) ->
  forall k s s' i,
  (fix loop (k : nat) (s : es) : es * option exn :=
         match k with
         | 0 => (s, None)
         | S k' =>
             let '(s1, e) := eval_chunk None b s in
             match e with
             | Some x => (s1, Some x)
             | None => loop k' s1
             end
         end) k s = (s', Some (XFail i)) -> cz s' = false.
Proof.
  intros Hb. induction k as [|k IH]; intros s s' i H; [discriminate|].
  destruct (eval_chunk None b s) as [s1 [x|]] eqn:E.
  - inversion H; subst. eapply Hb; eassumption.
  - eapply IH; eassumption.
Qed.

Lemma fail_means_not_cancelled :
  (forall c, F_chunk c) /\ (forall f, F_form f).
Proof.
  apply chunk_form_mutind; unfold F_chunk, F_form.
  - intros _ s s' i H. cbn in H. destruct (is_cancelled None (tickclk s)); discriminate.
  - intros f Hf r Hr Hd s s' i H. cbn [defer_free] in Hd. apply andb_true_iff in Hd as (Hdf & Hdr).
    cbn [eval_chunk] in H.
    destruct (is_cancelled None (tickclk s)) eqn:Ec; [discriminate|].
    rewrite cz_none in Ec.
    destruct (eval_form None f _) as [s2 [x|]] eqn:Ef.
    + inversion H; subst. eapply (Hf Hdf); [|exact Ef]. exact Ec.
    + eapply (Hr Hdr); eassumption.
  - intros id _ s s' i _ H. discriminate.
  - intros _ s s' i _ H. discriminate.
  - intros id _ s s' i Hz H. cbn in H. inversion H; subst. exact Hz.
  - intros b Hb Hd s s' i _ H. cbn in *. eapply Hb; eassumption.
  - intros b Hb hc c Hc hf f Hf Hd s s' i _ H. cbn [defer_free_f] in Hd.
    apply andb_true_iff in Hd as (Hd & Hdf). apply andb_true_iff in Hd as (Hdb & Hdc).
    cbn [eval_form] in H.
    destruct (eval_chunk None b s) as [s1 e1] eqn:Eb.
    assert (H2 : forall s2 j, (match e1 with
                              | Some _ => if hc then eval_chunk None c s1 else (s1, e1)
                              | None => (s1, e1) end) = (s2, Some (XFail j)) -> cz s2 = false).
    { intros s2 j E2. destruct e1 as [x|]; [|discriminate].
      destruct hc; [eapply (Hc Hdc); exact E2|]. inversion E2; subst. eapply (Hb Hdb); exact Eb. }
    destruct (match e1 with Some _ => if hc then eval_chunk None c s1 else (s1, e1) | None => (s1, e1) end)
      as [s2 e2].
    destruct hf.
    + destruct (eval_chunk None f s2) as [s3 [x3|]] eqn:Ef; cbn in H; inversion H; subst.
      * eapply (Hf Hdf); exact Ef.
      * apply chunk_none_not_cancelled in Ef. now rewrite cz_none in Ef.
    + inversion H; subst. eapply H2; reflexivity.
  - intros k b Hb Hd s s' i _ H. cbn in Hd. cbn [eval_form] in H.
    eapply each_loop_fail; [|exact H]. intros; eapply (Hb Hd); eassumption.
  - intros d _ r _ Hd. discriminate.
  - intros k b Hb Hd s s' i _ H. cbn in Hd. cbn [eval_form] in H.
    eapply each_loop_fail; [|exact H]. intros; eapply (Hb Hd); eassumption.
Qed.

Theorem interrupted_exception_sync_partial c s s' e :
  defer_free c = true ->
  eval_chunk None c s = (s', e) -> cz s' = true -> e = Some XInt.
Proof.
  intros Hd H Hz. destruct e as [[|i]|].
  - reflexivity.
  - rewrite (proj1 fail_means_not_cancelled c Hd s s' i H) in Hz. discriminate.
  - apply chunk_none_not_cancelled in H. rewrite cz_none in H. congruence.
Qed.

(* with defer the full statement is false: the closure keeps the body's exception
   and drops the deferred call's *)
Definition w_defer : chunk := CCons (FDefer (CCons FCancel CNil) (CCons (FFail 7) CNil)) CNil.

Lemma interrupted_exception_refuted :
  exists c s' i, run_prog None c = (s', Some (XFail i)) /\ cz s' = true.
Proof. exists w_defer. eexists. exists 7%N. vm_compute. split; reflexivity. Qed.

(* ------------------------------------------------------------------ *)
(* where the cancellation points are: every chunk evaluation -- also of an EMPTY
   chunk -- passes a context check, so every iteration of every loop does *)

Definition loopf (ko : option nat) (b : chunk) :=
  fix loop (k : nat) (s : es) : es * option exn :=
    match k with
    | 0 => (s, None)
    | S k' =>
        let '(s1, e) := eval_chunk ko b s in
        match e with
        | Some x => (s1, Some x)
        | None => loop k' s1
        end
    end.

Lemma eval_while ko k b s : eval_form ko (FWhile k b) s = loopf ko b k s.
Proof. reflexivity. Qed.
Lemma eval_each ko k b s : eval_form ko (FEach k b) s = loopf ko b k s.
Proof. reflexivity. Qed.

Lemma cancelled_tick ko s : is_cancelled ko s = true -> is_cancelled ko (tickclk s) = true.
Proof.
  unfold is_cancelled. cbn. intros H. apply orb_true_iff in H as [H|H]; [now rewrite H|].
  apply orb_true_iff. right. destruct ko as [t|]; [|discriminate].
  apply Nat.leb_le in H. apply Nat.leb_le. lia.
Qed.

(* a chunk started with the context cancelled stops at its first check *)
Lemma chunk_cancelled ko c s :
  is_cancelled ko s = true -> eval_chunk ko c s = (tickclk s, Some XInt).
Proof.
  intros H. apply cancelled_tick in H. destruct c; cbn [eval_chunk]; now rewrite H.
Qed.

Lemma loop_clock ko b :
  (forall s s' e, eval_chunk ko b s = (s', e) -> clk s < clk s') ->
  forall k s s' e, loopf ko b k s = (s', e) ->
    clk s <= clk s'
    /\ (e = None -> clk s + k <= clk s')
    /\ (e = None -> 0 < k -> is_cancelled ko s' = false).
Proof.
  intros Hb. induction k as [|k IH]; intros s s' e H; cbn [loopf] in H.
  - inversion H; subst. repeat split; intros; lia.
  - destruct (eval_chunk ko b s) as [s1 [x|]] eqn:Eb.
    + inversion H; subst. apply Hb in Eb. repeat split; intros; try discriminate; lia.
    + pose proof (Hb _ _ _ Eb) as Hlt. destruct (IH _ _ _ H) as (H1 & H2 & H3).
      repeat split.
      * lia.
      * intros He. specialize (H2 He). lia.
      * intros He _. destruct k as [|k'].
        -- cbn in H. inversion H; subst. eapply chunk_none_not_cancelled; exact Eb.
        -- apply H3; [exact He|lia].
Qed.

Definition M_chunk (c : chunk) : Prop :=
  forall ko s s' e, eval_chunk ko c s = (s', e) -> clk s < clk s'.
Definition M_form (f : form) : Prop :=
  forall ko s s' e, eval_form ko f s = (s', e) -> clk s <= clk s'.

Lemma clock_advances : (forall c, M_chunk c) /\ (forall f, M_form f).
Proof.
  apply chunk_form_mutind; unfold M_chunk, M_form.
  - intros ko s s' e H. cbn in H. destruct (is_cancelled ko (tickclk s)); inversion H; subst; cbn; lia.
  - intros f Hf r Hr ko s s' e H. cbn [eval_chunk] in H.
    destruct (is_cancelled ko (tickclk s)); [inversion H; subst; cbn; lia|].
    destruct (eval_form ko f _) as [s2 [x|]] eqn:Ef; apply Hf in Ef; cbn in Ef.
    + inversion H; subst. lia.
    + apply Hr in H. lia.
  - intros id ko s s' e H. inversion H; subst. cbn. lia.
  - intros ko s s' e H. inversion H; subst. cbn. lia.
  - intros id ko s s' e H. inversion H; subst. lia.
  - intros b Hb ko s s' e H. cbn in H. apply Hb in H. lia.
  - intros b Hb hc c Hc hf f Hf ko s s' e H. cbn [eval_form] in H.
    destruct (eval_chunk ko b s) as [s1 e1] eqn:Eb. apply Hb in Eb.
    assert (H2 : forall s2 e2, (match e1 with
                              | Some _ => if hc then eval_chunk ko c s1 else (s1, e1)
                              | None => (s1, e1) end) = (s2, e2) -> clk s1 <= clk s2).
    { intros s2 e2 E2. destruct e1 as [x|]; [destruct hc|]; try (inversion E2; subst; lia).
      apply Hc in E2. lia. }
    destruct (match e1 with Some _ => if hc then eval_chunk ko c s1 else (s1, e1) | None => (s1, e1) end)
      as [s2 e2]. specialize (H2 s2 e2 eq_refl).
    destruct hf.
    + destruct (eval_chunk ko f s2) as [s3 e3] eqn:Ef. apply Hf in Ef. inversion H; subst. lia.
    + inversion H; subst. lia.
  - intros k b Hb ko s s' e H. rewrite eval_each in H.
    now destruct (loop_clock ko b (Hb ko) k s s' e H).
  - intros d Hd r Hr ko s s' e H. cbn [eval_form] in H.
    destruct (is_cancelled ko (tickclk s)); [inversion H; subst; cbn; lia|].
    destruct (eval_chunk ko r _) as [s1 e1] eqn:Er. apply Hr in Er. cbn in Er.
    destruct (eval_chunk ko d s1) as [s2 e2] eqn:Ed. apply Hd in Ed.
    inversion H; subst. lia.
  - intros k b Hb ko s s' e H. rewrite eval_while in H.
    now destruct (loop_clock ko b (Hb ko) k s s' e H).
Qed.

(* every chunk, also an empty one, passes at least one context check *)
Theorem chunk_passes_a_check c ko s s' e :
  eval_chunk ko c s = (s', e) -> clk s < clk s'.
Proof. apply (proj1 clock_advances). Qed.

(* a loop that completes k iterations passed at least k checks -- whatever its
   body is, in particular the empty chunk *)
Theorem every_loop_iteration_passes_a_check ko k b s s' :
  (eval_form ko (FWhile k b) s = (s', None) -> clk s + k <= clk s')
  /\ (eval_form ko (FEach k b) s = (s', None) -> clk s + k <= clk s').
Proof.
  split; intros H; [rewrite eval_while in H|rewrite eval_each in H];
  destruct (loop_clock ko b (fun s s' e => chunk_passes_a_check b ko s s' e) k s s' None H) as (_ & H2 & _);
  now apply H2.
Qed.

(* once the context is cancelled a loop runs no further iteration: it ends at
   its next check with the interrupt *)
Theorem cancelled_loop_stops ko k b s :
  is_cancelled ko s = true ->
  eval_form ko (FWhile (S k) b) s = (tickclk s, Some XInt).
Proof. intros H. rewrite eval_while. cbn [loopf]. now rewrite (chunk_cancelled ko b s H). Qed.

(* liveness of the interrupt: a loop with at least as many iterations left as
   checks remain before the interrupt does not complete -- so a loop that would
   run forever ([k] arbitrarily large) is always interrupted, empty body or not *)
Theorem long_loop_is_interrupted t k b s s' e :
  0 < k -> t <= clk s + k ->
  eval_form (Some t) (FWhile k b) s = (s', e) -> e <> None.
Proof.
  intros Hk Ht H He. subst e. rewrite eval_while in H.
  destruct (loop_clock (Some t) b (fun s s' e => chunk_passes_a_check b (Some t) s s' e) k s s' None H)
    as (_ & H2 & H3).
  specialize (H2 eq_refl). specialize (H3 eq_refl Hk).
  unfold is_cancelled in H3. apply orb_false_iff in H3 as (_ & H3). apply Nat.leb_gt in H3. lia.
Qed.

(* ------------------------------------------------------------------ *)
(* the exception is the interrupt for every program except the kept finding's
   shape (a closure whose deferred call can cancel while its body can fail) *)

Lemma loop_keeps_cz b :
  (forall s s' e, eval_chunk None b s = (s', e) -> cz s' = cz s) ->
  forall k s s' e, loopf None b k s = (s', e) -> cz s' = cz s.
Proof.
  intros Hb. induction k as [|k IH]; intros s s' e H; cbn [loopf] in H.
  - now inversion H.
  - destruct (eval_chunk None b s) as [s1 [x|]] eqn:Eb.
    + inversion H; subst. eapply Hb; eassumption.
    + rewrite (IH _ _ _ H). eapply Hb; eassumption.
Qed.

(* a chunk without verif:cancel leaves the flag alone *)
Definition K_chunk (c : chunk) : Prop :=
  cancels c = false -> forall s s' e, eval_chunk None c s = (s', e) -> cz s' = cz s.
Definition K_form (f : form) : Prop :=
  cancels_f f = false -> forall s s' e, eval_form None f s = (s', e) -> cz s' = cz s.

Lemma no_cancel_keeps_flag : (forall c, K_chunk c) /\ (forall f, K_form f).
Proof.
  apply chunk_form_mutind; unfold K_chunk, K_form.
  - intros _ s s' e H. cbn in H. destruct (is_cancelled None (tickclk s)); inversion H; reflexivity.
  - intros f Hf r Hr Hc s s' e H. cbn [cancels] in Hc. apply orb_false_iff in Hc as (Hcf & Hcr).
    cbn [eval_chunk] in H. destruct (is_cancelled None (tickclk s)); [inversion H; reflexivity|].
    destruct (eval_form None f _) as [s2 [x|]] eqn:Ef; apply (Hf Hcf) in Ef; cbn in Ef.
    + inversion H; subst. exact Ef.
    + rewrite (Hr Hcr _ _ _ H). exact Ef.
  - intros id _ s s' e H. inversion H; reflexivity.
  - discriminate.
  - intros id _ s s' e H. inversion H; reflexivity.
  - intros b Hb Hc s s' e H. cbn in *. eapply Hb; eassumption.
  - intros b Hb hc c Hc hf f Hf Hcc s s' e H. cbn [cancels_f] in Hcc.
    apply orb_false_iff in Hcc as (Hcc & Hcf). apply orb_false_iff in Hcc as (Hcb & Hcc).
    cbn [eval_form] in H.
    destruct (eval_chunk None b s) as [s1 e1] eqn:Eb. apply (Hb Hcb) in Eb.
    assert (H2 : forall s2 e2, (match e1 with
                              | Some _ => if hc then eval_chunk None c s1 else (s1, e1)
                              | None => (s1, e1) end) = (s2, e2) -> cz s2 = cz s1).
    { intros s2 e2 E2. destruct e1 as [x|]; [destruct hc|]; try (now inversion E2).
      eapply (Hc Hcc); exact E2. }
    destruct (match e1 with Some _ => if hc then eval_chunk None c s1 else (s1, e1) | None => (s1, e1) end)
      as [s2 e2]. specialize (H2 s2 e2 eq_refl).
    destruct hf.
    + destruct (eval_chunk None f s2) as [s3 e3] eqn:Ef. apply (Hf Hcf) in Ef. inversion H; subst. congruence.
    + inversion H; subst. congruence.
  - intros k b Hb Hc s s' e H. cbn in Hc. rewrite eval_each in H.
    eapply loop_keeps_cz; [|exact H]. intros; eapply (Hb Hc); eassumption.
  - intros d Hd r Hr Hc s s' e H. cbn [cancels_f] in Hc. apply orb_false_iff in Hc as (Hcd & Hcr).
    cbn [eval_form] in H. destruct (is_cancelled None (tickclk s)); [inversion H; reflexivity|].
    destruct (eval_chunk None r _) as [s1 e1] eqn:Er. apply (Hr Hcr) in Er. cbn in Er.
    destruct (eval_chunk None d s1) as [s2 e2] eqn:Ed. apply (Hd Hcd) in Ed.
    inversion H; subst. congruence.
  - intros k b Hb Hc s s' e H. cbn in Hc. rewrite eval_while in H.
    eapply loop_keeps_cz; [|exact H]. intros; eapply (Hb Hc); eassumption.
Qed.

Lemma loop_no_fail ko b :
  (forall s s' i, eval_chunk ko b s <> (s', Some (XFail i))) ->
  forall k s s' i, loopf ko b k s <> (s', Some (XFail i)).
Proof.
  intros Hb. induction k as [|k IH]; intros s s' i H; cbn [loopf] in H; [discriminate|].
  destruct (eval_chunk ko b s) as [s1 [x|]] eqn:Eb.
  - inversion H; subst. eapply Hb; exact Eb.
  - eapply IH; exact H.
Qed.

(* a chunk without fail never returns a fail exception *)
Definition N_chunk (c : chunk) : Prop :=
  fails c = false -> forall ko s s' i, eval_chunk ko c s <> (s', Some (XFail i)).
Definition N_form (f : form) : Prop :=
  fails_f f = false -> forall ko s s' i, eval_form ko f s <> (s', Some (XFail i)).

Lemma no_fail_no_fail_exception : (forall c, N_chunk c) /\ (forall f, N_form f).
Proof.
  apply chunk_form_mutind; unfold N_chunk, N_form.
  - intros _ ko s s' i H. cbn in H. destruct (is_cancelled ko (tickclk s)); discriminate.
  - intros f Hf r Hr Hc ko s s' i H. cbn [fails] in Hc. apply orb_false_iff in Hc as (Hcf & Hcr).
    cbn [eval_chunk] in H. destruct (is_cancelled ko (tickclk s)); [discriminate|].
    destruct (eval_form ko f _) as [s2 [x|]] eqn:Ef.
    + inversion H; subst. eapply (Hf Hcf); exact Ef.
    + eapply (Hr Hcr); exact H.
  - intros id _ ko s s' i H. discriminate.
  - intros _ ko s s' i H. discriminate.
  - discriminate.
  - intros b Hb Hc ko s s' i H. cbn in *. eapply Hb; eassumption.
  - intros b Hb hc c Hc hf f Hf Hcc ko s s' i H. cbn [fails_f] in Hcc.
    apply orb_false_iff in Hcc as (Hcc & Hcf). apply orb_false_iff in Hcc as (Hcb & Hcc).
    cbn [eval_form] in H.
    destruct (eval_chunk ko b s) as [s1 e1] eqn:Eb.
    assert (H2 : forall s2 j, (match e1 with
                              | Some _ => if hc then eval_chunk ko c s1 else (s1, e1)
                              | None => (s1, e1) end) <> (s2, Some (XFail j))).
    { intros s2 j E2. destruct e1 as [x|]; [destruct hc|]; try discriminate.
      - eapply (Hc Hcc); exact E2.
      - inversion E2; subst. eapply (Hb Hcb); exact Eb. }
    destruct (match e1 with Some _ => if hc then eval_chunk ko c s1 else (s1, e1) | None => (s1, e1) end)
      as [s2 e2].
    destruct hf.
    + destruct (eval_chunk ko f s2) as [s3 [x3|]] eqn:Ef; cbn in H; inversion H; subst.
      * eapply (Hf Hcf); exact Ef.
      * eapply H2; reflexivity.
    + inversion H; subst. eapply H2; reflexivity.
  - intros k b Hb Hc ko s s' i H. cbn in Hc. rewrite eval_each in H.
    eapply loop_no_fail; [|exact H]. intros; eapply (Hb Hc).
  - intros d Hd r Hr Hc ko s s' i H. cbn [fails_f] in Hc. apply orb_false_iff in Hc as (Hcd & Hcr).
    cbn [eval_form] in H. destruct (is_cancelled ko (tickclk s)); [discriminate|].
    destruct (eval_chunk ko r _) as [s1 [x1|]] eqn:Er;
    destruct (eval_chunk ko d s1) as [s2 e2] eqn:Ed; cbn in H; inversion H; subst.
    + eapply (Hr Hcr); exact Er.
    + eapply (Hd Hcd); exact Ed.
  - intros k b Hb Hc ko s s' i H. cbn in Hc. rewrite eval_while in H.
    eapply loop_no_fail; [|exact H]. intros; eapply (Hb Hc).
Qed.

Definition F2_chunk (c : chunk) : Prop :=
  defer_ok c = true -> forall s s' i,
  eval_chunk None c s = (s', Some (XFail i)) -> cz s' = false.
Definition F2_form (f : form) : Prop :=
  defer_ok_f f = true -> forall s s' i, cz s = false ->
  eval_form None f s = (s', Some (XFail i)) -> cz s' = false.

Lemma fail_means_not_cancelled_ok :
  (forall c, F2_chunk c) /\ (forall f, F2_form f).
Proof.
  apply chunk_form_mutind; unfold F2_chunk, F2_form.
  - intros _ s s' i H. cbn in H. destruct (is_cancelled None (tickclk s)); discriminate.
  - intros f Hf r Hr Hd s s' i H. cbn [defer_ok] in Hd. apply andb_true_iff in Hd as (Hdf & Hdr).
    cbn [eval_chunk] in H.
    destruct (is_cancelled None (tickclk s)) eqn:Ec; [discriminate|].
    rewrite cz_none in Ec.
    destruct (eval_form None f _) as [s2 [x|]] eqn:Ef.
    + inversion H; subst. eapply (Hf Hdf); [|exact Ef]. exact Ec.
    + eapply (Hr Hdr); eassumption.
  - intros id _ s s' i _ H. discriminate.
  - intros _ s s' i _ H. discriminate.
  - intros id _ s s' i Hz H. cbn in H. inversion H; subst. exact Hz.
  - intros b Hb Hd s s' i _ H. cbn in *. eapply Hb; eassumption.
  - intros b Hb hc c Hc hf f Hf Hd s s' i _ H. cbn [defer_ok_f] in Hd.
    apply andb_true_iff in Hd as (Hd & Hdf). apply andb_true_iff in Hd as (Hdb & Hdc).
    cbn [eval_form] in H.
    destruct (eval_chunk None b s) as [s1 e1] eqn:Eb.
    assert (H2 : forall s2 j, (match e1 with
                              | Some _ => if hc then eval_chunk None c s1 else (s1, e1)
                              | None => (s1, e1) end) = (s2, Some (XFail j)) -> cz s2 = false).
    { intros s2 j E2. destruct e1 as [x|]; [|discriminate].
      destruct hc; [eapply (Hc Hdc); exact E2|]. inversion E2; subst. eapply (Hb Hdb); exact Eb. }
    destruct (match e1 with Some _ => if hc then eval_chunk None c s1 else (s1, e1) | None => (s1, e1) end)
      as [s2 e2].
    destruct hf.
    + destruct (eval_chunk None f s2) as [s3 [x3|]] eqn:Ef; cbn in H; inversion H; subst.
      * eapply (Hf Hdf); exact Ef.
      * apply chunk_none_not_cancelled in Ef. now rewrite cz_none in Ef.
    + inversion H; subst. eapply H2; reflexivity.
  - intros k b Hb Hd s s' i _ H. cbn in Hd. cbn [eval_form] in H.
    eapply each_loop_fail; [|exact H]. intros; eapply (Hb Hd); eassumption.
  - (* the closure with defer: either the deferred call cannot cancel, or the body cannot fail *)
    intros d Hd r Hr Hok s s' i _ H. cbn [defer_ok_f] in Hok.
    apply andb_true_iff in Hok as (Hok & Hokr). apply andb_true_iff in Hok as (Hshape & Hokd).
    cbn [eval_form] in H. destruct (is_cancelled None (tickclk s)); [discriminate|].
    destruct (eval_chunk None r _) as [s1 e1] eqn:Er.
    destruct (eval_chunk None d s1) as [s2 e2] eqn:Ed.
    inversion H; subst. destruct e1 as [[|j]|]; cbn in H2; try discriminate.
    + inversion H2; subst.
      apply orb_true_iff in Hshape as [Hs|Hs]; apply negb_true_iff in Hs.
      * rewrite (proj1 no_cancel_keeps_flag d Hs _ _ _ Ed). eapply (Hr Hokr); exact Er.
      * exfalso. eapply (proj1 no_fail_no_fail_exception r Hs); exact Er.
    + subst e2. eapply (Hd Hokd); exact Ed.
  - intros k b Hb Hd s s' i _ H. cbn in Hd. cbn [eval_form] in H.
    eapply each_loop_fail; [|exact H]. intros; eapply (Hb Hd); eassumption.
Qed.

(* the interrupt is what is returned, for every program that has no closure whose
   deferred call can cancel while its body can fail *)
Theorem interrupted_exception_sync_ok c s s' e :
  defer_ok c = true ->
  eval_chunk None c s = (s', e) -> cz s' = true -> e = Some XInt.
Proof.
  intros Hd H Hz. destruct e as [[|i]|].
  - reflexivity.
  - rewrite (proj1 fail_means_not_cancelled_ok c Hd s s' i H) in Hz. discriminate.
  - apply chunk_none_not_cancelled in H. rewrite cz_none in H. congruence.
Qed.

(* the witness of the refutation is exactly of the excluded shape *)
Lemma w_defer_not_ok : defer_ok w_defer = false.
Proof. reflexivity. Qed.
