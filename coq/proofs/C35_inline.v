(* C35: the inline main loop of the model consumes at least one byte per
   iteration and therefore terminates on every input. *)
From Coq Require Import Arith.
From verif Require Import lib.Base lib.ListX model.C35_Bal model.C35_Inline model.C35 proofs.C35_proofs.
Open Scope nat_scope.

Lemma parse_text_progress text b p : p <= snd (parse_text text b p).
Proof. unfold parse_text. cbv zeta. destruct (nth_is _ text 10); cbn [snd]; apply Nat.le_add_r. Qed.

Lemma inline_step_progress text pos : pos < snd (inline_step text pos).
Proof.
  unfold inline_step. destruct (nth_error text pos) as [b|]; [|cbn [snd]; lia].
  destruct ((b =? 42)%N || (b =? 95)%N).
  { cbv zeta. destruct (cls_at text _) as [sp pp]. destruct (cls_at text _) as [sn pn].
    destruct (can_open_close _ sp pp sn pn). cbn [snd]. lia. }
  destruct (b =? 96)%N.
  { cbv zeta. destruct (findBacktickRun text _ _).
    - cbn [snd]. lia.
    - pose proof (parse_text_progress text pos (Nat.max (S pos) (pos + span is_bt (skipn pos text)))). lia. }
  destruct (b =? 38)%N.
  { cbv zeta. destruct (Nat.eqb (char_ref_len (skipn pos text)) 0) eqn:E.
    - pose proof (parse_text_progress text pos (S pos)). lia.
    - apply Nat.eqb_neq in E. cbn [snd]. lia. }
  destruct (b =? 92)%N.
  { destruct (nth_error text (S pos)) as [d|].
    - destruct (d =? 10)%N; [cbn [snd]; lia|]. destruct (is_ascii_punct d).
      + pose proof (parse_text_progress text (S pos) (S (S pos))). lia.
      + pose proof (parse_text_progress text pos (S pos)). lia.
    - pose proof (parse_text_progress text pos (S pos)). lia. }
  destruct (b =? 10)%N; [cbn [snd]; lia|].
  pose proof (parse_text_progress text pos (S pos)). lia.
Qed.

Lemma inline_loop_terminates : forall fuel text pos acc,
  length text - pos < fuel -> inline_loop fuel text pos acc <> None.
Proof.
  induction fuel as [|f IH]; intros text pos acc H; [lia|]. cbn [inline_loop].
  destruct (Nat.leb (length text) pos) eqn:E; [discriminate|]. apply Nat.leb_gt in E.
  pose proof (inline_step_progress text pos) as P.
  destruct (inline_step text pos) as [ps p']. simpl in P. apply IH. lia.
Qed.

Theorem inline_total text : render_inline text <> None.
Proof.
  unfold render_inline.
  pose proof (inline_loop_terminates (S (length text)) text 0 [] ltac:(lia)) as L.
  destruct (inline_loop (S (length text)) text 0 []) as [ps|]; [|congruence].
  pose proof (process_emphasis_terminates (piece_entries ps)) as P.
  destruct (process_emphasis (piece_entries ps)); [discriminate|congruence].
Qed.
