(* Proofs for C05, part 3: floats under the strconv contract S. *)
From verif Require Import lib.Base model.C05 proofs.C05_proofs proofs.C05_reject_proofs.
From Coq Require Import ZArith.
Open Scope N_scope.

(* ---------- the contract on strconv.FormatFloat / ParseFloat ---------- *)
Record contract_S (pf : bytes -> option N) (fmtF fmtE : N -> bytes) : Prop := {
  (* S1: output shapes *)
  S1_f : forall b, is_fin b = true -> shape_f (fmtF b) = true;          (* -?D+(.D+)? *)
  S1_e : forall b, is_fin b = true -> shape_e (fmtE b) = true;          (* -?D(.D+)?e[+-]DD+ *)
  S1_inf : forall b, is_inf b = true -> fmtF b = (if b <? 2 ^ 63 then sPInf else sNInf);
  S1_nan : forall b, is_nan b = true -> fmtF b = sNaN;
  (* S2: ParseFloat inverts FormatFloat bit-exactly (NaN: some NaN) *)
  S2_f : forall b, is_nan b = false -> pf (fmtF b) = Some b;
  S2_e : forall b, is_fin b = true -> pf (fmtE b) = Some b;
  S2_nan : exists b', pf sNaN = Some b' /\ is_nan b' = true;
  (* S3: ParseFloat depends only on the decimal value: "ddd" and "ddd.0" agree *)
  S3_point0 : forall s, shape_f s = true -> has_byte cDot s = false -> pf (s ++ sPoint0) = pf s
}.

(* ---------- shapes ---------- *)
Lemma span_dec_spec s : forall a b, span_dec s = (a, b) -> s = a ++ b /\ forallb is_dec a = true.
Proof.
  induction s as [|c r IH]; intros a b H; cbn [span_dec] in H.
  - inversion H; subst. split; reflexivity.
  - destruct (is_dec c) eqn:E.
    + destruct (span_dec r) as [a1 b1] eqn:ES. inversion H; subst.
      destruct (IH _ _ eq_refl) as [E1 F1]. split.
      * cbn [app]. rewrite <- E1. reflexivity.
      * cbn [forallb]. rewrite E, F1. reflexivity.
    + inversion H; subst. split; reflexivity.
Qed.

Definition sign_part (sg : bytes) : Prop := sg = [] \/ sg = [cMinus].
Definition frac_part (m : bytes) : Prop :=
  m = [] \/ exists fp, m = cDot :: fp /\ fp <> [] /\ forallb is_dec fp = true.

Definition strip_m (s : bytes) : bytes :=
  match s with c :: r => if c =? cMinus then r else s | [] => s end.
Definition body_f (s1 : bytes) : bool :=
  let '(ip, s2) := span_dec s1 in
  negb (Nat.eqb (length ip) 0) &&
  match s2 with
  | [] => true
  | c :: r => (c =? cDot) && let '(fp, t) := span_dec r in
              negb (Nat.eqb (length fp) 0) && Nat.eqb (length t) 0
  end.
Lemma shape_f_unfold s : shape_f s = body_f (strip_m s).
Proof. reflexivity. Qed.
Definition body_e (s1 : bytes) : bool :=
  match s1 with
  | d :: s2 =>
    is_dec d &&
    let s3ok :=
      match s2 with
      | c :: r => if c =? cDot then let '(fp, t) := span_dec r in (t, negb (Nat.eqb (length fp) 0))
                  else (s2, true)
      | [] => (s2, true)
      end in
    snd s3ok &&
    match fst s3ok with
    | e :: sg :: ex => (e =? c_e) && ((sg =? cPlus) || (sg =? cMinus))
                       && forallb is_dec ex && Nat.leb 2 (length ex)
    | _ => false
    end
  | [] => false
  end.
Lemma shape_e_unfold s : shape_e s = body_e (strip_m s).
Proof. reflexivity. Qed.

Lemma strip_minus s :
  exists sg, s = sg ++ strip_m s /\ sign_part sg.
Proof.
  unfold strip_m.
  destruct s as [|c r]; [exists []; split; [reflexivity|left; reflexivity]|].
  destruct (c =? cMinus) eqn:E.
  - apply N.eqb_eq in E. subst. exists [cMinus]. split; [reflexivity|right; reflexivity].
  - exists []. split; [reflexivity|left; reflexivity].
Qed.

Lemma shape_f_inv s : shape_f s = true ->
  exists sg d ip m, s = sg ++ (d :: ip) ++ m /\ sign_part sg
  /\ forallb is_dec (d :: ip) = true /\ frac_part m.
Proof.
  rewrite shape_f_unfold. destruct (strip_minus s) as (sg & Es & Hsg).
  set (s1 := strip_m s) in *. unfold body_f.
  destruct (span_dec s1) as [ip s2] eqn:E1. apply span_dec_spec in E1 as [Es1 Fip].
  intros H. apply andb_true_iff in H as [H1 H2].
  destruct ip as [|d ip]; [discriminate|]. exists sg, d, ip.
  destruct s2 as [|c r].
  - exists []. repeat split; try assumption. { rewrite Es, Es1. reflexivity. } left; reflexivity.
  - apply andb_true_iff in H2 as [Hc H3]. apply N.eqb_eq in Hc. subst c.
    destruct (span_dec r) as [fp t] eqn:E2. apply span_dec_spec in E2 as [Er Ffp].
    apply andb_true_iff in H3 as [H4 H5]. destruct t; [|discriminate]. rewrite app_nil_r in Er. subst r.
    exists (cDot :: fp). repeat split; try assumption. { rewrite Es, Es1. reflexivity. }
    right. exists fp. repeat split; [|exact Ffp]. destruct fp; [discriminate|discriminate].
Qed.

Lemma shape_e_inv s : shape_e s = true ->
  exists sg d m sgn ex, s = sg ++ d :: m ++ c_e :: sgn :: ex /\ sign_part sg
  /\ is_dec d = true /\ frac_part m /\ (sgn = cPlus \/ sgn = cMinus) /\ forallb is_dec ex = true.
Proof.
  rewrite shape_e_unfold. destruct (strip_minus s) as (sg & Es & Hsg).
  set (s1 := strip_m s) in *. unfold body_e.
  destruct s1 as [|d s2]; [discriminate|]. intros H.
  apply andb_true_iff in H as [Hd H]. cbv zeta in H.
  assert (Mid : exists m s3, s2 = m ++ s3 /\ frac_part m /\
     match s3 with
     | e :: sg0 :: ex => (e =? c_e) && ((sg0 =? cPlus) || (sg0 =? cMinus)) && forallb is_dec ex && Nat.leb 2 (length ex)
     | _ => false
     end = true).
  { destruct s2 as [|c r].
    - cbn [fst snd andb] in H. discriminate.
    - destruct (c =? cDot) eqn:EC.
      + apply N.eqb_eq in EC. subst c. destruct (span_dec r) as [fp t] eqn:E2.
        apply span_dec_spec in E2 as [Er Ffp]. cbn [fst snd] in H. apply andb_true_iff in H as [H1 H2].
        exists (cDot :: fp), t. split; [rewrite Er; reflexivity|]. split; [|exact H2].
        right. exists fp. repeat split; [|exact Ffp]. destruct fp; [discriminate|discriminate].
      + cbn [fst snd andb] in H. exists [], (c :: r). split; [reflexivity|]. split; [left; reflexivity|exact H]. }
  destruct Mid as (m & s3 & E2 & Fm & H3).
  destruct s3 as [|e [|sgn ex]]; try discriminate.
  apply andb_true_iff in H3 as [H3 _]. apply andb_true_iff in H3 as [H3 Fex].
  apply andb_true_iff in H3 as [He Hs]. apply N.eqb_eq in He. subst e.
  exists sg, d, m, sgn, ex. repeat split; try assumption.
  - rewrite Es, E2. reflexivity.
  - apply orb_true_iff in Hs as [Hs|Hs]; apply N.eqb_eq in Hs; auto.
Qed.

(* ---------- bytes of the shapes ---------- *)
Lemma dec_not c x : is_dec x = true -> c < 48 -> (c =? x) = false.
Proof. unfold is_dec. intros H L. apply andb_true_iff in H as [H _]. apply N.leb_le in H.
  apply N.eqb_neq. lia. Qed.

Lemma has_byte_digits c l : forallb is_dec l = true -> c < 48 -> has_byte c l = false.
Proof.
  intros F L. induction l as [|x r IH]; [reflexivity|]. cbn [forallb] in F.
  apply andb_true_iff in F as [F1 F2]. cbn [has_byte existsb]. rewrite (dec_not c x F1 L).
  apply IH. exact F2.
Qed.

Lemma has_byte_sign c sg : sign_part sg -> c <> cMinus -> has_byte c sg = false.
Proof. intros [->| ->] H; [reflexivity|]. cbn [has_byte existsb]. rewrite orb_false_r. apply N.eqb_neq. exact H. Qed.

Lemma has_slash_frac m : frac_part m -> has_byte cSlash m = false.
Proof.
  intros [->|(fp & -> & _ & F)]; [reflexivity|]. cbn [has_byte existsb].
  change (existsb (N.eqb cSlash) fp) with (has_byte cSlash fp).
  rewrite has_byte_digits by (assumption || (unfold cSlash; lia)). reflexivity.
Qed.

Lemma shape_f_no_slash s : shape_f s = true -> has_byte cSlash s = false.
Proof.
  intros H. apply shape_f_inv in H as (sg & d & ip & m & -> & Hsg & Fip & Fm).
  rewrite !has_byte_app, (has_byte_sign _ _ Hsg), (has_byte_digits _ _ Fip), (has_slash_frac _ Fm);
    try reflexivity; unfold cSlash, cMinus; lia.
Qed.

Lemma shape_e_no_slash s : shape_e s = true -> has_byte cSlash s = false.
Proof.
  intros H. apply shape_e_inv in H as (sg & d & m & sgn & ex & -> & Hsg & Fd & Fm & Hs & Fex).
  rewrite has_byte_app, (has_byte_sign _ _ Hsg) by (unfold cSlash, cMinus; lia).
  cbn [orb has_byte existsb]. rewrite (dec_not cSlash d Fd) by (unfold cSlash; lia).
  cbn [orb]. change (existsb (N.eqb cSlash) (m ++ c_e :: sgn :: ex)) with (has_byte cSlash (m ++ c_e :: sgn :: ex)).
  rewrite has_byte_app, (has_slash_frac _ Fm). cbn [orb has_byte existsb].
  change (existsb (N.eqb cSlash) ex) with (has_byte cSlash ex).
  rewrite (has_byte_digits _ _ Fex) by (unfold cSlash; lia).
  destruct Hs as [-> | ->]; reflexivity.
Qed.

(* ---------- when Int.SetString must fail ---------- *)
Definition bad (x : N) : bool := negb (alnum_us x).

Lemma int_none_bad_tail c r : existsb bad r = true -> int_setstring0 (c :: r) = None.
Proof.
  intros B. destruct (int_setstring0 (c :: r)) as [z|] eqn:E; [|reflexivity]. exfalso.
  apply int_setstring0_inv in E as (c' & r' & Es & F & _). inversion Es; subst c' r'.
  clear Es. induction r as [|x t IH]; [discriminate|]. cbn [existsb forallb] in *.
  apply andb_true_iff in F as [F1 F2]. apply orb_true_iff in B as [B|B].
  - unfold bad in B. rewrite F1 in B. discriminate.
  - apply IH; assumption.
Qed.

Lemma existsb_app_r {A} (f : A -> bool) a b : existsb f b = true -> existsb f (a ++ b) = true.
Proof. intros H. rewrite existsb_app, H. apply orb_true_r. Qed.

(* a text of shape 'f' with a point, or with ".0" appended, is no integer *)
Lemma shape_f_int_none s t : shape_f s = true ->
  (has_byte cDot s = true \/ existsb bad t = true) -> int_setstring0 (s ++ t) = None.
Proof.
  intros H Hd. apply shape_f_inv in H as (sg & d & ip & m & -> & Hsg & Fip & Fm).
  assert (Tail : exists c r, (sg ++ (d :: ip) ++ m) ++ t = c :: r /\ existsb bad r = true).
  { assert (Bm : existsb bad (m ++ t) = true).
    { destruct Hd as [Hd|Hd]; [|apply existsb_app_r; exact Hd].
      destruct Fm as [->|(fp & -> & _ & _)]; [|reflexivity].
      rewrite app_nil_r, has_byte_app, (has_byte_sign _ _ Hsg), (has_byte_digits _ _ Fip) in Hd
        by (unfold cDot, cMinus; lia). discriminate. }
    destruct Hsg as [-> | ->].
    - exists d, (ip ++ m ++ t). split; [cbn [app]; rewrite <- !app_assoc; reflexivity|].
      apply existsb_app_r. exact Bm.
    - exists cMinus, (d :: ip ++ m ++ t). split; [cbn [app]; rewrite <- !app_assoc; reflexivity|].
      change (d :: ip ++ m ++ t) with ((d :: ip) ++ m ++ t). apply existsb_app_r. exact Bm. }
  destruct Tail as (c & r & -> & B). apply int_none_bad_tail. exact B.
Qed.

Lemma shape_e_int_none s : shape_e s = true -> int_setstring0 s = None.
Proof.
  intros H. apply shape_e_inv in H as (sg & d & m & sgn & ex & -> & Hsg & Fd & Fm & Hs & Fex).
  assert (B : existsb bad (m ++ c_e :: sgn :: ex) = true).
  { apply existsb_app_r. cbn [existsb]. destruct Hs as [-> | ->]; reflexivity. }
  destruct Hsg as [-> | ->]; cbn [app]; apply int_none_bad_tail.
  - exact B.
  - cbn [existsb]. rewrite B. apply orb_true_r.
Qed.

(* ---------- the round trip of floats ---------- *)
Section FloatRoundtrip.
  Variable pf : bytes -> option N.
  Variable fmtF fmtE : N -> bytes.
  Hypothesis S : contract_S pf fmtF fmtE.

  Lemma classify b : (is_nan b = true /\ is_inf b = false /\ is_fin b = false)
    \/ (is_nan b = false /\ is_inf b = true /\ is_fin b = false)
    \/ (is_nan b = false /\ is_inf b = false /\ is_fin b = true).
  Proof.
    unfold is_nan, is_inf, is_fin. destruct (f_expo b =? 2047); destruct (f_mant b =? 0); cbn; auto.
  Qed.

  Lemma parse_float_text s b : has_byte cSlash s = false -> int_setstring0 s = None ->
    pf s = Some b -> parse_num pf s = PNum (NFloat b).
  Proof. intros H1 H2 H3. unfold parse_num. rewrite H1, H2, H3. reflexivity. Qed.

  (* finite floats and infinities come back bit-identical *)
  Theorem float_roundtrip b : is_nan b = false ->
    parse_num pf (formatFloat64 fmtF fmtE b) = PNum (NFloat b).
  Proof.
    intros NN. destruct (classify b) as [(N1 & _)|[(_ & I1 & _)|(_ & I0 & F1)]]; [congruence| |].
    - (* infinities *)
      pose proof (S1_inf _ _ _ S b I1) as EF. pose proof (S2_f _ _ _ S b NN) as EP.
      assert (FE : formatFloat64 fmtF fmtE b = fmtF b).
      { unfold formatFloat64. rewrite EF, NN, I1. destruct (b <? 2 ^ 63); reflexivity. }
      rewrite FE. apply parse_float_text; [| |exact EP]; rewrite EF; destruct (b <? 2 ^ 63); reflexivity.
    - (* finite *)
      pose proof (S1_f _ _ _ S b F1) as SF. pose proof (S1_e _ _ _ S b F1) as SE.
      pose proof (S2_f _ _ _ S b NN) as PF. pose proof (S2_e _ _ _ S b F1) as PE.
      unfold formatFloat64. rewrite NN, I0. cbn [negb andb].
      destruct ((negb (has_byte cDot (fmtF b)) && Nat.ltb 14 (length (fmtF b)) && (last (fmtF b) 0 =? c0))
                || has_prefix sSmall (fmtF b)).
      + apply parse_float_text; [apply shape_e_no_slash; exact SE|apply shape_e_int_none; exact SE|exact PE].
      + destruct (has_byte cDot (fmtF b)) eqn:HD; cbn [negb andb].
        * apply parse_float_text; [apply shape_f_no_slash; exact SF| |exact PF].
          rewrite <- (app_nil_r (fmtF b)). apply shape_f_int_none; [exact SF|left; exact HD].
        * apply parse_float_text.
          -- rewrite has_byte_app, (shape_f_no_slash _ SF). reflexivity.
          -- apply shape_f_int_none; [exact SF|right; reflexivity].
          -- rewrite (S3_point0 _ _ _ S _ SF HD). exact PF.
  Qed.

  (* a NaN comes back as a NaN *)
  Theorem nan_roundtrip b : is_nan b = true ->
    exists b', parse_num pf (formatFloat64 fmtF fmtE b) = PNum (NFloat b') /\ is_nan b' = true.
  Proof.
    intros N1. pose proof (S1_nan _ _ _ S b N1) as EF. destruct (S2_nan _ _ _ S) as (b' & EP & N').
    exists b'. split; [|exact N'].
    assert (FE : formatFloat64 fmtF fmtE b = sNaN).
    { unfold formatFloat64. rewrite EF, N1. reflexivity. }
    rewrite FE. apply parse_float_text; try reflexivity. exact EP.
  Qed.

  (* the documented guarantee, for every typed number: num (to-string x) is x with
     the same exactness; floats bit-identical, NaN stays NaN *)
  Theorem roundtrip x : canonical x = true ->
    check_roundtrip x (parse_num pf (to_string fmtF fmtE x)) = true.
  Proof.
    intros C. destruct x as [z|z|n d|b].
    - cbn [canonical] in C. pose proof (int_roundtrip pf fmtF fmtE z) as R.
      unfold canon_int in R. rewrite C in R. rewrite R. cbn. apply Z.eqb_refl.
    - cbn [canonical] in C. apply negb_true_iff in C. pose proof (int_roundtrip pf fmtF fmtE z) as R.
      unfold canon_int in R. rewrite C in R. rewrite R. cbn. apply Z.eqb_refl.
    - rewrite rat_roundtrip by exact C. cbn. rewrite !Z.eqb_refl. reflexivity.
    - cbn [to_string]. destruct (is_nan b) eqn:NB.
      + destruct (nan_roundtrip b NB) as (b' & -> & N'). cbn. rewrite NB, N'. apply orb_true_r.
      + rewrite float_roundtrip by exact NB. cbn. rewrite N.eqb_refl. reflexivity.
  Qed.
End FloatRoundtrip.

(* ---------- reading of the round-trip oracle ---------- *)
Lemma check_roundtrip_sound x y : check_roundtrip x y = true ->
  exists v, y = PNum v /\
  match x, v with
  | NInt a, NInt b | NBig a, NBig b => a = b
  | NRat n d, NRat n' d' => n = n' /\ d = d'
  | NFloat a, NFloat b => a = b \/ (is_nan a = true /\ is_nan b = true)
  | _, _ => False
  end.
Proof.
  unfold check_roundtrip. destruct y as [v|]; [|discriminate]. intros H. exists v. split; [reflexivity|].
  destruct x, v; cbn in H; try discriminate.
  - apply Z.eqb_eq in H. exact H.
  - apply Z.eqb_eq in H. exact H.
  - apply andb_true_iff in H as [H1 H2]. apply Z.eqb_eq in H1, H2. auto.
  - apply orb_true_iff in H as [H|H].
    + left. apply N.eqb_eq. exact H.
    + right. apply andb_true_iff in H. exact H.
Qed.

