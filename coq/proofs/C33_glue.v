(* C33 — the exact statements used in props/C33.v, assembled from the lemmas. *)
From verif Require Import lib.Base model.C34_width model.C33
  proofs.C33_proofs proofs.C33_proofs2 proofs.C33_proofs3
  proofs.C34_proofs proofs.C34_utf8b proofs.C34_inst.
Open Scope Z_scope.

Lemma write_text_invariant : forall tb t,
  BInv tb -> Normal t ->
  BInv (write_text tb t)
  /\ content (b_result (write_text tb t)) = content (b_result tb) ++ content t.
Proof. intros tb t Hb Ht. split; [exact (write_text_inv tb t Hb Ht) | exact (content_write_text tb t)]. Qed.

Lemma partition_normal_and_concat_back : forall t idxs,
  Normal t ->
  Forall Normal (partition t idxs) /\ flat_map content (partition t idxs) = content t.
Proof. intros t idxs. exact (partition_from_spec idxs t 0). Qed.

Lemma partition_part_lengths : forall t idxs,
  nondecreasing_from 0 idxs = true -> last idxs 0 <= blen (content t) ->
  part_lengths_ok 0 idxs (partition t idxs) = true.
Proof. intros t idxs H1 H2. apply partition_lengths; [exact H1 | lia]. Qed.

Lemma trim_prefix_width : forall (ofb : bytes -> Z) (trimb : bytes -> Z -> bytes),
  (forall x, 0 <= ofb x) ->
  (forall x n, exists rest, x = trimb x n ++ rest) ->
  (forall x n, 0 <= n -> ofb (trimb x n) <= n) ->
  forall t n,
    (exists rest, content t = content (trim_text_g ofb trimb t n) ++ rest)
    /\ (0 <= n -> text_width_g ofb (trim_text_g ofb trimb t n) <= n).
Proof.
  intros ofb trimb H1 H2 H3 t n.
  split; [apply trim_prefix; assumption | apply trim_width; assumption].
Qed.

Lemma restyle_content : forall t ts,
  content (style_text t ts) = content t /\ length (style_text t ts) = length t.
Proof. intros t ts. split; [apply style_text_content | apply style_text_length]. Qed.

(* the same for the executed instance: wcwidth.Of / wcwidth.Trim over the width table *)
Lemma trim_prefix_width_wcwidth : forall t n,
  (exists rest, content t = content (trim_text t n) ++ rest)
  /\ (0 <= n -> text_width (trim_text t n) <= n).
Proof.
  intros t n. unfold trim_text, text_width. apply trim_prefix_width.
  - intros x. apply of_bytes_nonneg. exact of_rune_nonneg.
  - intros x m. apply trim_bytes_prefix.
  - intros x m Hm. apply trim_fits_wcwidth. exact Hm.
Qed.
