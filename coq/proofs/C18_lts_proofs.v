(* C18 — proofs about the generic pipeline LTS of lib/C18_Lts.v.
   Everything here holds for every number of stages, every stage automaton,
   all capacities >= 1 and every schedule (induction over [reachable]). *)
From verif Require Import lib.Base lib.C18_Lts.
From Coq Require Import Arith PeanoNat.
Open Scope nat_scope.

(* ---------- small facts ---------- *)
Lemma band_eqb_refl b : band_eqb b b = true.
Proof. destruct b; reflexivity. Qed.

Lemma band_eqb_eq a b : band_eqb a b = true <-> a = b.
Proof. destruct a, b; simpl; split; congruence. Qed.

Lemma band_eqb_other b : band_eqb (other b) b = false.
Proof. destruct b; reflexivity. Qed.

Lemma band_cases a b : a = b \/ a = other b.
Proof. destruct a, b; simpl; auto. Qed.

Lemma exn_eqb_eq a b : exn_eqb a b = true <-> a = b.
Proof.
  destruct a, b; simpl; split; try congruence.
  - intros H; apply N.eqb_eq in H; congruence.
  - intros H; inversion H; apply N.eqb_refl.
Qed.

Lemma oexn_eqb_eq a b : oexn_eqb a b = true <-> a = b.
Proof.
  destruct a, b; simpl; split; try congruence.
  - intros H; apply exn_eqb_eq in H; congruence.
  - intros H; inversion H; apply exn_eqb_eq; reflexivity.
Qed.

Lemma final_eqb_eq a b : final_eqb a b = true <-> a = b.
Proof.
  destruct a, b; simpl; split; try congruence.
  - intros H; apply exn_eqb_eq in H; congruence.
  - intros H; inversion H; apply exn_eqb_eq; reflexivity.
  - intros H; apply (list_eqb_spec _ oexn_eqb_eq) in H; congruence.
  - intros H; inversion H; apply (list_eqb_spec _ oexn_eqb_eq); reflexivity.
Qed.

Lemma sents_app b h1 h2 : sents b (h1 ++ h2) = sents b h1 ++ sents b h2.
Proof.
  induction h1 as [|e h1 IH]; simpl; [reflexivity|].
  destruct e; try apply IH. destruct (band_eqb b0 b); simpl; rewrite IH; reflexivity.
Qed.

Lemma gots_app b h1 h2 : gots b (h1 ++ h2) = gots b h1 ++ gots b h2.
Proof.
  induction h1 as [|e h1 IH]; simpl; [reflexivity|].
  destruct e; try apply IH. destruct (band_eqb b0 b); simpl; rewrite IH; reflexivity.
Qed.

Lemma eof_on_app b h1 h2 : eof_on b (h1 ++ h2) = eof_on b h1 || eof_on b h2.
Proof.
  induction h1 as [|e h1 IH]; simpl; [reflexivity|].
  destruct e; try apply IH. rewrite IH. apply orb_assoc.
Qed.

Lemma has_gone_app h1 h2 : has_gone (h1 ++ h2) = has_gone h1 || has_gone h2.
Proof. induction h1 as [|e h1 IH]; simpl; [reflexivity|]. destruct e; auto. Qed.

Lemma has_got_app h1 h2 : has_got (h1 ++ h2) = has_got h1 || has_got h2.
Proof. induction h1 as [|e h1 IH]; simpl; [reflexivity|]. destruct e; auto. Qed.

Lemma prefixb_app a r : prefixb a (a ++ r) = true.
Proof. induction a as [|x a IH]; simpl; [reflexivity|]. rewrite N.eqb_refl, IH. reflexivity. Qed.

Lemma prefixb_sound a b : prefixb a b = true -> exists r, b = a ++ r.
Proof.
  revert b; induction a as [|x a IH]; intros b H; simpl in *.
  - exists b; reflexivity.
  - destruct b as [|y b]; [discriminate|].
    apply andb_true_iff in H as [H1 H2]. apply N.eqb_eq in H1. subst y.
    destruct (IH _ H2) as [r ->]. exists r; reflexivity.
Qed.

Lemma app_same_length_nil {A} (a r : list A) : length a = length (a ++ r) -> r = [].
Proof. rewrite app_length. destruct r; simpl; [reflexivity|lia]. Qed.

Lemma nth_map_seq {A} (f : nat -> A) d n k : k < n -> nth k (map f (seq 0 n)) d = f k.
Proof.
  intros H. rewrite (nth_indep _ d (f 0)) by (rewrite map_length, seq_length; exact H).
  rewrite map_nth. rewrite seq_nth by exact H. reflexivity.
Qed.

Lemma nth_map_seq_ge {A} (f : nat -> A) d n k : n <= k -> nth k (map f (seq 0 n)) d = d.
Proof. intros H. apply nth_overflow. rewrite map_length, seq_length. exact H. Qed.

(* ---------- the pipeline exception ---------- *)
Lemma nth_mask_from n j es k :
  nth k (mask_from n j es) None = mask1 n (j + k) (nth k es None).
Proof.
  revert j k; induction es as [|e es IH]; intros j k; simpl.
  - destruct k; reflexivity.
  - destruct k; simpl.
    + rewrite Nat.add_0_r. reflexivity.
    + rewrite IH. f_equal. lia.
Qed.

Lemma nth_mask es k : nth k (mask es) None = mask1 (length es) k (nth k es None).
Proof. unfold mask. rewrite nth_mask_from. reflexivity. Qed.

Lemma mask_from_length n j es : length (mask_from n j es) = length es.
Proof. revert j; induction es; intros; simpl; auto. Qed.

Lemma mask_length es : length (mask es) = length es.
Proof. apply mask_from_length. Qed.

Lemma nth_in_not_ok es k e : nth k es None = Some e -> In e (not_ok es).
Proof.
  revert k; induction es as [|x es IH]; intros k H.
  - destruct k; discriminate.
  - destruct k; simpl in *.
    + subst x. simpl. left; reflexivity.
    + apply in_or_app. right. eapply IH; eauto.
Qed.

(* Exception e of stage k is what the pipeline's result shows for stage k.  For
   a single exception Go returns the exception itself; it stems from the only
   non-OK position. *)
Definition reports (es : list (option exn)) (k : nat) (e : exn) : Prop :=
  match make_pipeline_error es with
  | FNone => False
  | FSingle e' => e' = e /\ nth k es None = Some e
  | FMulti l => nth k l None = Some e
  end.

Lemma reports_iff es k e : reports es k e <-> nth k es None = Some e.
Proof.
  unfold reports, make_pipeline_error.
  destruct (not_ok es) as [|e1 [|e2 r]] eqn:E; split; intros H; try tauto.
  - apply nth_in_not_ok in H. rewrite E in H. destruct H.
  - split; [|exact H]. apply nth_in_not_ok in H. rewrite E in H.
    destruct H as [H|[]]. exact H.
Qed.

Lemma reader_gone_not_reported es k :
  S k < length es -> nth k es None = Some ReaderGone -> forall e, ~ reports (mask es) k e.
Proof.
  intros Hk Hn e H. apply reports_iff in H. rewrite nth_mask, Hn in H. simpl in H.
  apply Nat.ltb_lt in Hk. rewrite Hk in H. discriminate.
Qed.

Lemma other_exceptions_all_reported es k e :
  nth k es None = Some e -> (e <> ReaderGone \/ S k = length es) -> reports (mask es) k e.
Proof.
  intros Hn Hc. apply reports_iff. rewrite nth_mask, Hn. simpl.
  destruct e; [|reflexivity].
  destruct Hc as [Hc|Hc]; [congruence|]. rewrite <- Hc, Nat.ltb_irrefl. reflexivity.
Qed.

Lemma nothing_else_reported es k e : reports (mask es) k e -> nth k es None = Some e.
Proof.
  intros H. apply reports_iff in H. rewrite nth_mask in H.
  destruct (nth k es None) as [[|t]|]; simpl in *; try congruence.
  destruct (S k <? length es); congruence.
Qed.

Lemma no_exception_iff es :
  make_pipeline_error (mask es) = FNone <-> forall k e, ~ reports (mask es) k e.
Proof.
  split.
  - intros H k e R. unfold reports in R. rewrite H in R. exact R.
  - intros H. unfold make_pipeline_error. destruct (not_ok (mask es)) as [|e1 r] eqn:E; [reflexivity|].
    exfalso. assert (In e1 (not_ok (mask es))) as Hin by (rewrite E; left; reflexivity).
    unfold not_ok in Hin. apply in_flat_map in Hin as [x [Hx Hin]].
    destruct x as [x|]; [|destruct Hin]. destruct Hin as [->|[]].
    apply (In_nth _ _ None) in Hx as [k [_ Hk]].
    apply (H k e1). apply reports_iff. exact Hk.
Qed.

(* ------------------------------------------------------------------ *)
Section LtsProofs.
  Variable L : Type.
  Variable want : L -> action.
  Variable cont : L -> result -> L.
  Variable n : nat.
  Variable cap : band -> nat.
  Variable init : nat -> L.
  Hypothesis cap_pos : forall b, 1 <= cap b.

  Notation state := (state L).
  Notation fire := (fire L want cont n cap).
  Notation step := (step L want cont n cap).
  Notation reachable := (reachable L want cont n cap init).
  Notation deliver := (deliver L cont).
  Notation is_last := (is_last n).
  Notation upd := (@upd _).

  Lemma upd_same {A} (f : nat -> A) k v : C18_Lts.upd f k v k = v.
  Proof. unfold C18_Lts.upd. rewrite Nat.eqb_refl. reflexivity. Qed.
  Lemma upd_other {A} (f : nat -> A) k v j : j <> k -> C18_Lts.upd f k v j = f j.
  Proof. intros H. unfold C18_Lts.upd. apply Nat.eqb_neq in H. rewrite H. reflexivity. Qed.

  Lemma set_buf_same f b v : set_buf f b v b = v.
  Proof. unfold set_buf. rewrite band_eqb_refl. reflexivity. Qed.
  Lemma set_buf_other f b v c : c <> b -> set_buf f b v c = f c.
  Proof.
    intros H. unfold set_buf. destruct (band_eqb c b) eqn:E; [|reflexivity].
    apply band_eqb_eq in E. contradiction.
  Qed.

  (* ---- the shapes a step can have ---- *)
  Definition exit_links (s : state) (k : nat) : nat -> link :=
    let lnk1 := C18_Lts.upd (lnk s) k (mkLink (buf (lnk s k)) true (rgone (lnk s k))) in
    match k with
    | O => lnk1
    | S j => C18_Lts.upd lnk1 j (mkLink (buf (lnk1 j)) (closed (lnk1 j)) true)
    end.

  Inductive fired (k : nat) (s : state) : state -> Prop :=
  | F_exit e :
      fin (stg s k) = None -> want (loc (stg s k)) = WExit e ->
      fired k s (mkState (C18_Lts.upd (stg s) k (mkStage (loc (stg s k)) (Some e) (hist (stg s k))))
                         (exit_links s k))
  | F_sink b x :
      fin (stg s k) = None -> want (loc (stg s k)) = WSend b x -> is_last k = true ->
      fired k s (mkState (C18_Lts.upd (stg s) k (deliver (stg s k) (ESent b x))) (lnk s))
  | F_send b x rg :
      fin (stg s k) = None -> want (loc (stg s k)) = WSend b x -> is_last k = false ->
      length (buf (lnk s k) b) < cap b -> rg = rgone (lnk s k) ->
      fired k s (mkState (C18_Lts.upd (stg s) k (deliver (stg s k) (ESent b x)))
                         (C18_Lts.upd (lnk s) k
                            (mkLink (set_buf (buf (lnk s k)) b (buf (lnk s k) b ++ [x]))
                                    (closed (lnk s k)) rg)))
  | F_gone b x :
      fin (stg s k) = None -> want (loc (stg s k)) = WSend b x -> is_last k = false ->
      rgone (lnk s k) = true ->
      fired k s (mkState (C18_Lts.upd (stg s) k (deliver (stg s k) (EGone b x))) (lnk s))
  | F_eof0 sl :
      fin (stg s k) = None -> want (loc (stg s k)) = WRecv sl -> k = 0 ->
      fired k s (mkState (C18_Lts.upd (stg s) k (deliver (stg s k) (EEof sl))) (lnk s))
  | F_item j sl b x r :
      fin (stg s k) = None -> want (loc (stg s k)) = WRecv sl -> k = S j ->
      sel_has sl b = true -> buf (lnk s j) b = x :: r ->
      fired k s (mkState (C18_Lts.upd (stg s) k (deliver (stg s k) (EGot b x)))
                         (C18_Lts.upd (lnk s) j
                            (mkLink (set_buf (buf (lnk s j)) b r) (closed (lnk s j)) (rgone (lnk s j)))))
  | F_eof j sl :
      fin (stg s k) = None -> want (loc (stg s k)) = WRecv sl -> k = S j ->
      closed (lnk s j) = true -> (forall b, sel_has sl b = true -> buf (lnk s j) b = []) ->
      fired k s (mkState (C18_Lts.upd (stg s) k (deliver (stg s k) (EEof sl))) (lnk s)).

  Lemma sel_has_only b c : sel_has (Only b) c = true -> c = b.
  Proof. simpl. intros H. apply band_eqb_eq in H. congruence. Qed.

  Lemma fire_fired k c s s' : fire k c s = Some s' -> fired k s s'.
  Proof.
    unfold C18_Lts.fire. intros H.
    destruct (fin (stg s k)) eqn:Ef; [discriminate|].
    destruct (want (loc (stg s k))) as [b x|sl|e] eqn:Ew.
    - destruct (C18_Lts.is_last n k) eqn:El.
      + inversion H; subst. eapply F_sink; eauto.
      + destruct (rgone (lnk s k)) eqn:Er.
        * destruct b.
          -- destruct (length (buf (lnk s k) V) <? cap V) eqn:Es; simpl in H.
             ++ destruct c; inversion H; subst.
                ** eapply F_send; eauto. apply Nat.ltb_lt; exact Es.
                ** eapply F_gone; eauto.
             ++ inversion H; subst. eapply F_gone; eauto.
          -- inversion H; subst. eapply F_gone; eauto.
        * destruct (length (buf (lnk s k) b) <? cap b) eqn:Es; [|discriminate].
          inversion H; subst. eapply F_send; eauto. apply Nat.ltb_lt; exact Es.
    - destruct k as [|j].
      + inversion H; subst. eapply F_eof0; eauto.
      + destruct sl as [b|].
        * destruct (buf (lnk s j) b) as [|x r] eqn:Eb.
          -- destruct (closed (lnk s j)) eqn:Ec; [|discriminate].
             inversion H; subst. eapply F_eof; eauto.
             intros c0 Hc. apply sel_has_only in Hc. subst. exact Eb.
          -- inversion H; subst. eapply F_item; eauto. simpl. apply band_eqb_refl.
        * destruct (buf (lnk s j) (if c then V else B)) as [|x r] eqn:Eb1.
          -- destruct (buf (lnk s j) (other (if c then V else B))) as [|x r] eqn:Eb2.
             ++ destruct (closed (lnk s j)) eqn:Ec; [|discriminate].
                inversion H; subst. eapply F_eof; eauto.
                intros b _. destruct (band_cases b (if c then V else B)) as [->| ->]; assumption.
             ++ inversion H; subst. eapply F_item; eauto.
          -- inversion H; subst. eapply F_item; eauto.
    - inversion H; subst. eapply F_exit; eauto.
  Qed.

  (* ---- the invariant ---- *)
  Definition isdone (st : stage L) : bool := match fin st with Some _ => true | None => false end.

  Record Inv (s : state) : Prop := {
    I_fifo : forall k b, S k < n ->
      sents b (hist (stg s k)) = gots b (hist (stg s (S k))) ++ buf (lnk s k) b;
    I_closed : forall k, closed (lnk s k) = isdone (stg s k);
    I_rgone : forall k, rgone (lnk s k) = isdone (stg s (S k));
    I_cap : forall k b, length (buf (lnk s k) b) <= cap b;
    I_local : forall k, run_local L want cont (init k) (hist (stg s k)) = Some (loc (stg s k));
    I_eof : forall k b, eof_on b (hist (stg s (S k))) = true ->
      closed (lnk s k) = true /\ buf (lnk s k) b = [];
    I_gone : forall k, has_gone (hist (stg s k)) = true -> rgone (lnk s k) = true /\ is_last k = false;
    I_gone_eof : forall k, has_gone (hist (stg s k)) = true -> has_eof (hist (stg s (S k))) = false;
    I_first : has_got (hist (stg s 0)) = false;
    I_exit : forall k e, fin (stg s k) = Some e -> want (loc (stg s k)) = WExit e;
    I_outside : forall k, n <= k -> hist (stg s k) = [] /\ fin (stg s k) = None
  }.

  Lemma run_local_app l h e l' :
    run_local L want cont l h = Some l' -> ev_matches (want l') e = true ->
    run_local L want cont l (h ++ [e]) = Some (cont l' (result_of e)).
  Proof.
    revert l; induction h as [|x h IH]; intros l H M; simpl in *.
    - inversion H; subst. rewrite M. reflexivity.
    - destruct (ev_matches (want l) x); [|discriminate]. apply IH; assumption.
  Qed.

  Lemma inv_init : Inv (init_state L init).
  Proof.
    constructor; simpl; intros; try reflexivity; try discriminate; auto.
    apply Nat.le_0_l.
  Qed.

  Ltac updc j k :=
    let H := fresh "E" in
    destruct (Nat.eq_dec j k) as [H|H];
    [try (exfalso; lia); try (apply Nat.succ_inj in H); subst; repeat rewrite !upd_same | repeat rewrite !(upd_other _ _ _ _ H)].

  Ltac upds :=
    repeat match goal with
    | |- context [C18_Lts.upd _ ?k _ ?j] =>
      let H := fresh "E" in
      destruct (Nat.eq_dec j k) as [H|H];
      [try (exfalso; lia); try (apply Nat.succ_inj in H); try subst; repeat rewrite !upd_same | repeat rewrite !(upd_other _ _ _ _ H)]
    end.

  Lemma isdone_running st : fin st = None -> isdone st = false.
  Proof. unfold isdone. intros ->. reflexivity. Qed.

  Lemma exit_links_buf s k j : buf (exit_links s k j) = buf (lnk s j).
  Proof.
    unfold exit_links. destruct k as [|i].
    - updc j 0; reflexivity.
    - updc j i.
      + simpl. updc i (S i); reflexivity.
      + updc j (S i); reflexivity.
  Qed.

  Lemma exit_links_closed s k j :
    closed (exit_links s k j) = if Nat.eqb j k then true else closed (lnk s j).
  Proof.
    unfold exit_links. destruct k as [|i].
    - updc j 0; simpl; [reflexivity|]. apply Nat.eqb_neq in E. rewrite E. reflexivity.
    - updc j i.
      + simpl. assert (i <> S i) as N by lia. rewrite (upd_other _ _ _ _ N).
        apply Nat.eqb_neq in N. rewrite N. reflexivity.
      + updc j (S i); simpl.
        * rewrite Nat.eqb_refl. reflexivity.
        * apply Nat.eqb_neq in E0. rewrite E0. reflexivity.
  Qed.

  Lemma exit_links_rgone s k j :
    rgone (exit_links s k j) = if Nat.eqb (S j) k then true else rgone (lnk s j).
  Proof.
    unfold exit_links. destruct k as [|i].
    - updc j 0; simpl; reflexivity.
    - updc j i.
      + simpl. rewrite Nat.eqb_refl. reflexivity.
      + assert (Nat.eqb (S j) (S i) = false) as N by (apply Nat.eqb_neq; lia). rewrite N.
        updc j (S i); reflexivity.
  Qed.

  Lemma inv_fired k s s' : k < n -> Inv s -> fired k s s' -> Inv s'.
  Proof.
    intros Hk I F. destruct I.
    destruct F as [e Hf Hw|b x Hf Hw Hl|b x rg Hf Hw Hl Hsp Hrg0|b x Hf Hw Hl Hrg|sl Hf Hw H0
                  |j sl b x r Hf Hw Hkj Hsel Hb|j sl Hf Hw Hkj Hcl Hemp].
    - (* exit *)
      constructor; simpl.
      + intros j b Hj. rewrite exit_links_buf.
        updc j k; upds; simpl; auto.
      + intros j. rewrite exit_links_closed. updc j k; simpl.
        * rewrite Nat.eqb_refl. reflexivity.
        * apply Nat.eqb_neq in E. rewrite E. apply I_closed0.
      + intros j. rewrite exit_links_rgone. updc (S j) k.
        * rewrite Nat.eqb_refl. reflexivity.
        * apply Nat.eqb_neq in E. rewrite E. apply I_rgone0.
      + intros j b. rewrite exit_links_buf. apply I_cap0.
      + intros j. updc j k; simpl; auto.
      + intros j b. rewrite exit_links_buf, exit_links_closed.
        updc (S j) k; simpl; intros H; apply I_eof0 in H as [H1 H2]; rewrite H1;
          split; auto; destruct (Nat.eqb _ _); reflexivity.
      + intros j. rewrite exit_links_rgone. updc j k; simpl; intros H;
          apply I_gone0 in H as [H1 H2]; rewrite H1; split; auto;
          match goal with |- (if ?c then _ else _) = _ => destruct c end; reflexivity.
      + intros j. updc j k; upds; simpl; auto.
      + updc 0 k; simpl; auto.
      + intros j e0. updc j k; simpl; auto. intros H; inversion H; subst. exact Hw.
      + intros j Hj. assert (j <> k) by lia. rewrite (upd_other _ _ _ _ H). auto.
    - (* send into the sink *)
      assert (S k = n) as Hlast by (apply Nat.eqb_eq; exact Hl).
      constructor; simpl.
      + intros j b0 Hj. assert (j <> k) by lia. rewrite (upd_other _ _ _ _ H).
        updc (S j) k; simpl; auto. rewrite gots_app. simpl. rewrite app_nil_r. auto.
      + intros j. updc j k; simpl; auto. rewrite I_closed0. unfold isdone; simpl. reflexivity.
      + intros j. updc (S j) k; simpl; auto. rewrite I_rgone0. reflexivity.
      + auto.
      + intros j. updc j k; simpl; auto. apply run_local_app; auto.
        rewrite Hw. simpl. rewrite band_eqb_refl, N.eqb_refl. reflexivity.
      + intros j b0. updc (S j) k; simpl; auto. rewrite eof_on_app. simpl. rewrite orb_false_r. auto.
      + intros j. updc j k; simpl; auto. rewrite has_gone_app. simpl. rewrite orb_false_r. auto.
      + intros j. updc j k; upds; simpl; auto; try lia.
        * rewrite has_gone_app. simpl. rewrite orb_false_r. auto.
        * unfold has_eof. rewrite !eof_on_app. simpl. rewrite !orb_false_r. apply I_gone_eof0.
      + updc 0 k; simpl; auto. rewrite has_got_app. simpl. rewrite orb_false_r. auto.
      + intros j e0. updc j k; simpl; auto. rewrite Hf. discriminate.
      + intros j Hj. assert (j <> k) by lia. rewrite (upd_other _ _ _ _ H). auto.
    - (* send into the buffer *)
      subst rg.
      assert (S k <> n) as Hnl by (apply Nat.eqb_neq; exact Hl).
      constructor; simpl.
      + intros j b0 Hj. updc j k; simpl.
        * assert (S k <> k) as N by lia. rewrite (upd_other _ _ _ _ N).
          rewrite sents_app. simpl.
          destruct (band_eqb b b0) eqn:Eb.
          -- apply band_eqb_eq in Eb. subst b0. rewrite set_buf_same, I_fifo0 by exact Hj.
             rewrite app_assoc. reflexivity.
          -- rewrite app_nil_r. rewrite set_buf_other.
             ++ apply I_fifo0; exact Hj.
             ++ intros ->. rewrite band_eqb_refl in Eb. discriminate.
        * updc (S j) k; simpl; auto. rewrite gots_app. simpl. rewrite app_nil_r. auto.
      + intros j. updc j k; simpl; rewrite I_closed0; reflexivity.
      + intros j. updc j k; simpl.
        * assert (S k <> k) as N by lia. rewrite (upd_other _ _ _ _ N). apply I_rgone0.
        * updc (S j) k; simpl; rewrite I_rgone0; reflexivity.
      + intros j b0. updc j k; simpl; auto.
        destruct (band_eqb b0 b) eqn:Eb.
        * apply band_eqb_eq in Eb. subst b0. rewrite set_buf_same, app_length. simpl. lia.
        * rewrite set_buf_other; auto. intros ->. rewrite band_eqb_refl in Eb. discriminate.
      + intros j. updc j k; simpl; auto. apply run_local_app; auto.
        rewrite Hw. simpl. rewrite band_eqb_refl, N.eqb_refl. reflexivity.
      + intros j b0. updc (S j) k; simpl.
        * rewrite eof_on_app. simpl. rewrite orb_false_r. intros H. apply I_eof0 in H as [H1 H2].
          assert (j <> S j) as N by lia. rewrite (upd_other _ _ _ _ N). auto.
        * intros H. apply I_eof0 in H as [H1 H2]. updc j k; simpl; auto.
          (* the writer k is running, so link k is not closed *)
          rewrite I_closed0, (isdone_running _ Hf) in H1. discriminate.
      + intros j. updc j k; simpl.
        * rewrite has_gone_app. simpl. rewrite orb_false_r. auto.
        * auto.
      + intros j. updc j k; simpl.
        * assert (S k <> k) as N by lia. rewrite (upd_other _ _ _ _ N).
          rewrite has_gone_app. simpl. rewrite orb_false_r. auto.
        * updc (S j) k; simpl; auto.
          unfold has_eof. rewrite !eof_on_app. simpl. rewrite !orb_false_r. apply I_gone_eof0.
      + updc 0 k; simpl; auto. rewrite has_got_app. simpl. rewrite orb_false_r. auto.
      + intros j e0. updc j k; simpl; auto. rewrite Hf. discriminate.
      + intros j Hj. assert (j <> k) by lia. rewrite (upd_other _ _ _ _ H). auto.
    - (* reader gone *)
      assert (S k <> n) as Hnl by (apply Nat.eqb_neq; exact Hl).
      constructor; simpl.
      + intros j b0 Hj. updc j k; upds; simpl; auto; try lia.
        * rewrite sents_app. simpl. rewrite app_nil_r. auto.
        * rewrite gots_app. simpl. rewrite app_nil_r. auto.
      + intros j. updc j k; simpl; rewrite I_closed0; reflexivity.
      + intros j. updc (S j) k; simpl; rewrite I_rgone0; reflexivity.
      + auto.
      + intros j. updc j k; simpl; auto. apply run_local_app; auto.
        rewrite Hw. simpl. rewrite band_eqb_refl, N.eqb_refl. reflexivity.
      + intros j b0. updc (S j) k; simpl; auto. rewrite eof_on_app. simpl. rewrite orb_false_r. auto.
      + intros j. updc j k; simpl; auto.
      + intros j. updc j k; simpl.
        * intros _. assert (S k <> k) as N by lia. rewrite (upd_other _ _ _ _ N).
          (* reader k+1 has exited while k still runs: it cannot have seen link k closed *)
          destruct (has_eof (hist (stg s (S k)))) eqn:Ee; [|reflexivity].
          unfold has_eof in Ee. apply orb_true_iff in Ee.
          assert (closed (lnk s k) = true) as Hc by (destruct Ee as [Ee|Ee]; apply I_eof0 in Ee; tauto).
          rewrite I_closed0, (isdone_running _ Hf) in Hc. discriminate.
        * updc (S j) k; simpl; auto.
          unfold has_eof. rewrite !eof_on_app. simpl. rewrite !orb_false_r. apply I_gone_eof0.
      + updc 0 k; simpl; auto. rewrite has_got_app. simpl. rewrite orb_false_r. auto.
      + intros j e0. updc j k; simpl; auto. rewrite Hf. discriminate.
      + intros j Hj. assert (j <> k) by lia. rewrite (upd_other _ _ _ _ H). auto.
    - (* end of the pipeline's own (empty) input *)
      subst k.
      constructor; simpl.
      + intros j b0 Hj. assert (S j <> 0) as N by lia. rewrite (upd_other _ _ _ _ N).
        updc j 0; simpl; auto. rewrite sents_app. simpl. rewrite app_nil_r. auto.
      + intros j. updc j 0; simpl; rewrite I_closed0; reflexivity.
      + intros j. assert (S j <> 0) as N by lia. rewrite (upd_other _ _ _ _ N). apply I_rgone0.
      + auto.
      + intros j. updc j 0; simpl; auto. apply run_local_app; auto.
        rewrite Hw. simpl. destruct sl; simpl; auto using band_eqb_refl.
      + intros j b0. assert (S j <> 0) as N by lia. rewrite (upd_other _ _ _ _ N). auto.
      + intros j. updc j 0; simpl; auto. rewrite has_gone_app. simpl. rewrite orb_false_r. auto.
      + intros j. assert (S j <> 0) as N by lia. rewrite (upd_other _ _ _ _ N).
        updc j 0; simpl; auto. rewrite has_gone_app. simpl. rewrite orb_false_r. auto.
      + rewrite ?upd_same. simpl. rewrite has_got_app. simpl. rewrite orb_false_r. auto.
      + intros j e0. updc j 0; simpl; auto. rewrite Hf. discriminate.
      + intros j Hj. assert (j <> 0) by lia. rewrite (upd_other _ _ _ _ H). auto.
    - (* an item is received *)
      subst k.
      constructor; simpl.
      + intros i b0 Hi. updc i j; simpl.
        * rewrite ?upd_same. assert (j <> S j) as N by lia. rewrite (upd_other _ _ _ _ N). simpl.
          rewrite gots_app. simpl.
          destruct (band_eqb b b0) eqn:Eb.
          -- apply band_eqb_eq in Eb. subst b0. rewrite set_buf_same, I_fifo0, Hb by exact Hi.
             rewrite <- app_assoc. reflexivity.
          -- rewrite app_nil_r. rewrite set_buf_other.
             ++ apply I_fifo0; exact Hi.
             ++ intros ->. rewrite band_eqb_refl in Eb. discriminate.
        * updc i (S j); simpl.
          -- assert (S (S j) <> S j) as N by lia. rewrite (upd_other _ _ _ _ N).
             rewrite sents_app. simpl. rewrite app_nil_r. auto.
          -- updc (S i) (S j); simpl; auto.
      + intros i. updc i j; simpl.
        * assert (j <> S j) as N by lia. rewrite (upd_other _ _ _ _ N). apply I_closed0.
        * updc i (S j); simpl; rewrite I_closed0; reflexivity.
      + intros i. updc i j; simpl.
        * rewrite ?upd_same. simpl. rewrite I_rgone0. unfold isdone. simpl. reflexivity.
        * updc (S i) (S j); simpl; apply I_rgone0.
      + intros i b0. updc i j; simpl; auto.
        destruct (band_eqb b0 b) eqn:Eb.
        * apply band_eqb_eq in Eb. subst b0. rewrite set_buf_same.
          specialize (I_cap0 j b). rewrite Hb in I_cap0. simpl in I_cap0. lia.
        * rewrite set_buf_other; auto. intros ->. rewrite band_eqb_refl in Eb. discriminate.
      + intros i. updc i (S j); simpl; auto. apply run_local_app; auto.
        rewrite Hw. simpl. exact Hsel.
      + intros i b0. updc (S i) (S j); simpl.
        * rewrite ?upd_same. simpl.
          rewrite eof_on_app. simpl. rewrite orb_false_r. intros H. apply I_eof0 in H as [H1 H2].
          split; auto. destruct (band_eqb b0 b) eqn:Eb.
          -- apply band_eqb_eq in Eb. subst b0. rewrite Hb in H2. discriminate.
          -- rewrite set_buf_other; auto. intros ->. rewrite band_eqb_refl in Eb. discriminate.
        * intros H. apply I_eof0 in H as [H1 H2]. updc i j; simpl; auto.
      + intros i. updc i (S j); simpl.
        * rewrite has_gone_app. simpl. rewrite orb_false_r. intros H. apply I_gone0 in H as [H1 H2].
          assert (S j <> j) as N by lia. rewrite (upd_other _ _ _ _ N). auto.
        * intros H. apply I_gone0 in H as [H1 H2]. updc i j; simpl; auto.
      + intros i. updc i (S j); simpl.
        * assert (S (S j) <> S j) as N by lia. rewrite (upd_other _ _ _ _ N).
          rewrite has_gone_app. simpl. rewrite orb_false_r. auto.
        * updc (S i) (S j); simpl; auto.
          unfold has_eof. rewrite !eof_on_app. simpl. rewrite !orb_false_r. apply I_gone_eof0.
      + assert (0 <> S j) as N by lia. rewrite (upd_other _ _ _ _ N). auto.
      + intros i e0. updc i (S j); simpl; auto. rewrite Hf. discriminate.
      + intros i Hi. assert (i <> S j) by lia. rewrite (upd_other _ _ _ _ H). auto.
    - (* end of input *)
      subst k.
      constructor; simpl.
      + intros i b0 Hi. updc i (S j); upds; simpl; auto; try lia.
        * rewrite sents_app. simpl. rewrite app_nil_r. auto.
        * rewrite gots_app. simpl. rewrite app_nil_r. auto.
      + intros i. updc i (S j); simpl; rewrite I_closed0; reflexivity.
      + intros i. updc (S i) (S j); simpl; rewrite I_rgone0; reflexivity.
      + auto.
      + intros i. updc i (S j); simpl; auto. apply run_local_app; auto.
        rewrite Hw. simpl. destruct sl; simpl; auto using band_eqb_refl.
      + intros i b0. updc (S i) (S j); simpl; auto.
        rewrite eof_on_app. simpl. rewrite orb_false_r. intros H.
        apply orb_true_iff in H as [H|H]; auto.
      + intros i. updc i (S j); simpl; auto. rewrite has_gone_app. simpl. rewrite orb_false_r. auto.
      + intros i. updc i (S j); simpl.
        * assert (S (S j) <> S j) as N by lia. rewrite (upd_other _ _ _ _ N).
          rewrite has_gone_app. simpl. rewrite orb_false_r. auto.
        * updc (S i) (S j); simpl; auto.
          intros H.
          (* writer j got "reader gone", so reader j+1 had exited: it is not running *)
          apply I_gone0 in H as [H1 H2]. rewrite I_rgone0, (isdone_running _ Hf) in H1. discriminate.
      + assert (0 <> S j) as N by lia. rewrite (upd_other _ _ _ _ N). auto.
      + intros i e0. updc i (S j); simpl; auto. rewrite Hf. discriminate.
      + intros i Hi. assert (i <> S j) by lia. rewrite (upd_other _ _ _ _ H). auto.
  Qed.

  Theorem reachable_inv s : reachable s -> Inv s.
  Proof.
    induction 1 as [|s s' R IH [k [c [Hk F]]]].
    - apply inv_init.
    - eapply inv_fired; eauto. eapply fire_fired; eauto.
  Qed.

  (* ---- exactly once, in order ---- *)
  Theorem fifo_prefix s k b : reachable s -> S k < n ->
    exists rest, sents b (hist (stg s k)) = gots b (hist (stg s (S k))) ++ rest.
  Proof. intros R Hk. exists (buf (lnk s k) b). apply (I_fifo _ (reachable_inv _ R)); exact Hk. Qed.

  Theorem read_to_end_sees_all s k b : reachable s -> S k < n ->
    eof_on b (hist (stg s (S k))) = true ->
    gots b (hist (stg s (S k))) = sents b (hist (stg s k)) /\ fin (stg s k) <> None.
  Proof.
    intros R Hk He. pose proof (reachable_inv _ R) as I.
    destruct (I_eof _ I _ _ He) as [Hc Hb].
    rewrite (I_fifo _ I k b Hk), Hb, app_nil_r. split; [reflexivity|].
    rewrite (I_closed _ I) in Hc. unfold isdone in Hc. destruct (fin (stg s k)); congruence.
  Qed.

  (* a stage that has exited never moves again: what it wrote is final *)
  Lemma fired_frozen k s s' j : fired k s s' -> fin (stg s j) <> None -> stg s' j = stg s j.
  Proof.
    intros F Hj. destruct F; simpl; (destruct (Nat.eq_dec j k) as [-> | E];
      [congruence | rewrite (upd_other _ _ _ _ E); reflexivity]).
  Qed.

  Theorem exited_stage_frozen s s' j : step s s' -> fin (stg s j) <> None -> stg s' j = stg s j.
  Proof. intros [k [c [Hk F]]]. apply fire_fired in F. eapply fired_frozen; eauto. Qed.

  (* histories only grow *)
  Theorem hist_monotone s s' j : step s s' -> exists ext, hist (stg s' j) = hist (stg s j) ++ ext.
  Proof.
    intros [k [c [Hk F]]]. apply fire_fired in F.
    destruct F; simpl; (destruct (Nat.eq_dec j k) as [-> | E];
      [rewrite upd_same; simpl; eauto using app_nil_r | rewrite (upd_other _ _ _ _ E); exists []; symmetry; apply app_nil_r]).
  Qed.

  (* ---- progress ---- *)
  Definition send_blocked (s : state) (k : nat) : Prop :=
    exists b x, want (loc (stg s k)) = WSend b x /\ is_last k = false /\
                rgone (lnk s k) = false /\ cap b <= length (buf (lnk s k) b).

  Definition recv_blocked (s : state) (k : nat) : Prop :=
    exists j sl, k = S j /\ want (loc (stg s k)) = WRecv sl /\ closed (lnk s j) = false /\
                 forall b, sel_has sl b = true -> buf (lnk s j) b = [].

  (* the only shape a deadlock can have: a reader waiting on one band only
     while its writer is blocked on the other, full, band *)
  Definition cross_band_wait (s : state) : Prop :=
    exists j b x, S j < n /\ fin (stg s j) = None /\ fin (stg s (S j)) = None /\
      want (loc (stg s (S j))) = WRecv (Only b) /\ buf (lnk s j) b = [] /\
      want (loc (stg s j)) = WSend (other b) x /\
      cap (other b) <= length (buf (lnk s j) (other b)).

  Definition can_move (s : state) : Prop := exists k c s', k < n /\ fire k c s = Some s'.

  Lemma enabled_cases s k : fin (stg s k) = None ->
    (exists c s', fire k c s = Some s') \/ send_blocked s k \/ recv_blocked s k.
  Proof.
    intros Hf. unfold C18_Lts.fire. rewrite Hf.
    destruct (want (loc (stg s k))) as [b x|sl|e] eqn:Ew.
    - destruct (C18_Lts.is_last n k) eqn:El; [left; exists true; eauto|].
      destruct (rgone (lnk s k)) eqn:Er.
      + left. exists false. destruct b; [rewrite andb_false_r|]; eauto.
      + destruct (length (buf (lnk s k) b) <? cap b) eqn:Es; [left; exists true; eauto|].
        right; left. exists b, x. apply Nat.ltb_ge in Es. auto.
    - destruct k as [|j]; [left; exists true; eauto|].
      destruct sl as [b|].
      + destruct (buf (lnk s j) b) as [|x r] eqn:Eb; [|left; exists true; eauto].
        destruct (closed (lnk s j)) eqn:Ec; [left; exists true; eauto|].
        right; right. exists j, (Only b). repeat split; auto.
        intros c Hc. apply sel_has_only in Hc. subst; exact Eb.
      + destruct (buf (lnk s j) V) as [|x r] eqn:Eb1; [|left; exists true; rewrite Eb1; eauto].
        destruct (buf (lnk s j) B) as [|x r] eqn:Eb2; [|left; exists true; simpl; rewrite Eb1, Eb2; eauto].
        destruct (closed (lnk s j)) eqn:Ec; [left; exists true; simpl; rewrite Eb1, Eb2; eauto|].
        right; right. exists j, Any. repeat split; auto. intros [|] _; assumption.
    - left. exists true. eauto.
  Qed.

  Lemma chain s : Inv s -> forall k, k < n -> fin (stg s k) = None -> ~ send_blocked s k ->
    can_move s \/ cross_band_wait s.
  Proof.
    intros I k. induction k as [|k IH]; intros Hk Hf Hns.
    - destruct (enabled_cases s 0 Hf) as [[c [s' F]]|[Hb|[j [sl [Hj _]]]]].
      + left. exists 0, c, s'. auto.
      + contradiction.
      + discriminate.
    - destruct (enabled_cases s (S k) Hf) as [[c [s' F]]|[Hb|[j [sl [Hj [Hw [Hc Hemp]]]]]]].
      + left. exists (S k), c, s'. auto.
      + contradiction.
      + inversion Hj; subst j.
        assert (fin (stg s k) = None) as Hfk.
        { rewrite (I_closed _ I) in Hc. unfold isdone in Hc. destruct (fin (stg s k)); congruence. }
        assert (k < n) as Hk' by lia.
        destruct (want (loc (stg s k))) as [b x|sl'|e] eqn:Ewk.
        * (* stage k wants to send on band b *)
          destruct (sel_has sl b) eqn:Es.
          -- (* the reader waits on b too: b is empty, so k is not blocked *)
             apply IH; auto. intros [b' [x' [W [_ [_ Hfull]]]]]. rewrite Ewk in W. inversion W; subst b' x'.
             rewrite (Hemp b Es) in Hfull. simpl in Hfull. specialize (cap_pos b). lia.
          -- destruct sl as [b0|]; [|discriminate].
             assert (b = other b0) as Hb.
             { destruct (band_cases b b0) as [-> | ->]; [simpl in Es; rewrite band_eqb_refl in Es; discriminate|reflexivity]. }
             destruct (le_lt_dec (cap b) (length (buf (lnk s k) b))) as [Hfull|Hfree].
             ++ right. exists k, b0, x. subst b. repeat split; auto.
                apply Hemp. simpl. apply band_eqb_refl.
             ++ apply IH; auto. intros [b' [x' [W [_ [_ Hfull]]]]]. rewrite Ewk in W. inversion W; subst b' x'. lia.
        * apply IH; auto. intros [b' [x' [W _]]]. rewrite Ewk in W. discriminate.
        * apply IH; auto. intros [b' [x' [W _]]]. rewrite Ewk in W. discriminate.
  Qed.

  Lemma last_running (s : state) : forall m, m <= n ->
    (forall k, k < m -> fin (stg s k) <> None) \/
    (exists j, j < m /\ fin (stg s j) = None /\ forall i, j < i -> i < m -> fin (stg s i) <> None).
  Proof.
    induction m as [|m IH]; intros Hm.
    - left. intros k Hk. lia.
    - destruct (fin (stg s m)) eqn:Ef.
      + destruct IH as [IH|[j [Hj [Hfj Hall]]]]; [lia| |].
        * left. intros k Hk. destruct (Nat.eq_dec k m); [subst; congruence|apply IH; lia].
        * right. exists j. repeat split; auto. intros i H1 H2.
          destruct (Nat.eq_dec i m); [subst; congruence|apply Hall; lia].
      + right. exists m. repeat split; auto. intros i H1 H2. lia.
  Qed.

  Theorem progress_or_cross_band s : reachable s -> ~ all_done L n s ->
    can_move s \/ cross_band_wait s.
  Proof.
    intros R Hnd. pose proof (reachable_inv _ R) as I.
    destruct (last_running s n (le_n n)) as [Hall|[j [Hj [Hf Hafter]]]].
    - exfalso. apply Hnd. exact Hall.
    - apply (chain s I j Hj Hf).
      intros [b [x [_ [Hl [Hr _]]]]].
      rewrite (I_rgone _ I) in Hr. unfold isdone in Hr.
      destruct (fin (stg s (S j))) eqn:Ef; [discriminate|].
      apply Nat.eqb_neq in Hl. apply (Hafter (S j)); auto; lia.
  Qed.

  (* a stage whose reader has exited is never blocked on writing *)
  Theorem writer_released_by_reader_gone s k b x : reachable s -> S k < n ->
    fin (stg s (S k)) <> None -> fin (stg s k) = None -> want (loc (stg s k)) = WSend b x ->
    exists c s', fire k c s = Some s'.
  Proof.
    intros R Hk Hd Hf Hw. pose proof (reachable_inv _ R) as I.
    destruct (enabled_cases s k Hf) as [H|[[b' [x' [_ [_ [Hr _]]]]]|[j [sl [_ [W _]]]]]]; auto.
    - rewrite (I_rgone _ I) in Hr. unfold isdone in Hr. destruct (fin (stg s (S k))); congruence.
    - rewrite Hw in W. discriminate.
  Qed.

  (* when every receive is a merged receive (IterateInputs) there is no deadlock *)
  Theorem progress_merged s :
    (forall l b, want l <> WRecv (Only b)) ->
    reachable s -> ~ all_done L n s -> can_move s.
  Proof.
    intros Hm R Hnd. destruct (progress_or_cross_band s R Hnd) as [H|[j [b [x [_ [_ [_ [W _]]]]]]]]; auto.
    exfalso. eapply Hm; eauto.
  Qed.

  (* ---- completion ---- *)
  Lemma all_doneb_iff s : all_doneb L n s = true <-> all_done L n s.
  Proof.
    unfold all_doneb, all_done. rewrite forallb_forall. split.
    - intros H k Hk. specialize (H k). rewrite in_seq in H.
      destruct (fin (stg s k)); [congruence|]. assert (false = true) by (apply H; lia). discriminate.
    - intros H k Hk. apply in_seq in Hk. specialize (H k). destruct (fin (stg s k)); [reflexivity|].
      exfalso. apply H; [lia|reflexivity].
  Qed.

  Theorem completes_when_stages_complete s :
    all_done L n s <->
    result_state L n s = Some (make_pipeline_error (mask (exits L n s))).
  Proof.
    unfold result_state. rewrite <- all_doneb_iff. destruct (all_doneb L n s); split; congruence.
  Qed.

  Theorem finished_pipeline_is_terminal s : all_done L n s -> ~ can_move s.
  Proof.
    intros H [k [c [s' [Hk F]]]]. unfold C18_Lts.fire in F.
    specialize (H k Hk). destruct (fin (stg s k)); congruence.
  Qed.

  (* ---- the acceptor admits every outcome the LTS can end in ---- *)
  Lemma hist_at_obs_of s k : Inv s -> hist_at (obs_of L n s) k = hist (stg s k).
  Proof.
    intros I. unfold hist_at, obs_of. simpl. destruct (lt_dec k n).
    - apply (nth_map_seq (fun k => hist (stg s k))); auto.
    - rewrite nth_map_seq_ge by lia. symmetry. apply (I_outside _ I). lia.
  Qed.

  Lemma exit_at_obs_of s k e : k < n -> fin (stg s k) = Some e -> exit_at (obs_of L n s) k = e.
  Proof.
    intros Hk Hf. unfold exit_at, obs_of, exits. simpl. rewrite nth_map_seq by exact Hk.
    rewrite Hf. reflexivity.
  Qed.

  Theorem allowed_outcome_complete s : reachable s -> all_done L n s ->
    allowed_outcome L want cont n init (obs_of L n s) = true.
  Proof.
    intros R Hd. pose proof (reachable_inv _ R) as I.
    unfold allowed_outcome, check_obs.
    repeat (apply andb_true_iff; split).
    - simpl. rewrite map_length, seq_length. apply Nat.eqb_refl.
    - simpl. unfold exits. rewrite map_length, seq_length. apply Nat.eqb_refl.
    - apply forallb_forall. intros k Hk. apply in_seq in Hk. assert (S k < n) as Hk' by lia.
      unfold link_ok. rewrite !hist_at_obs_of by exact I.
      apply forallb_forall. intros b _.
      rewrite (I_fifo _ I k b Hk'). rewrite prefixb_app. simpl.
      destruct (eof_on b (hist (stg s (S k)))) eqn:Ee; [|reflexivity].
      destruct (I_eof _ I _ _ Ee) as [_ Hb]. rewrite Hb, app_nil_r. apply Nat.eqb_refl.
    - simpl. apply final_eqb_eq. reflexivity.
    - apply forallb_forall. intros k Hk. apply in_seq in Hk. assert (k < n) as Hk' by lia.
      unfold stage_ok. rewrite hist_at_obs_of by exact I. rewrite (I_local _ I).
      destruct (fin (stg s k)) as [e|] eqn:Ef; [|exfalso; apply (Hd k Hk'); exact Ef].
      rewrite (I_exit _ I _ _ Ef). rewrite (exit_at_obs_of s k e Hk' Ef).
      apply oexn_eqb_eq. reflexivity.
    - apply forallb_forall. intros k Hk. unfold causal_ok. rewrite !hist_at_obs_of by exact I.
      destruct (has_gone (hist (stg s k))) eqn:Eg; [|reflexivity].
      rewrite (I_gone_eof _ I _ Eg). reflexivity.
    - rewrite hist_at_obs_of by exact I. rewrite (I_first _ I). reflexivity.
    - rewrite hist_at_obs_of by exact I.
      destruct (has_gone (hist (stg s (pred n)))) eqn:Eg; [|reflexivity].
      destruct (I_gone _ I _ Eg) as [Hr Hl]. exfalso.
      destruct n as [|m] eqn:En.
      + simpl in Eg. destruct (I_outside _ I 0) as [Hh _]; [lia|]. rewrite Hh in Eg. discriminate.
      + simpl in Hl. unfold C18_Lts.is_last in Hl. rewrite Nat.eqb_refl in Hl. discriminate.
  Qed.

  (* ---- the property on observables ---- *)
  Definition Spec_obs (o : obs) : Prop :=
    length (o_hist o) = n /\ length (o_exit o) = n /\
    (* each band of each link: what the reader got is a prefix of what the
       writer wrote — every item at most once, none invented, in order *)
    (forall k b, S k < n ->
       exists rest, sents b (hist_at o k) = gots b (hist_at o (S k)) ++ rest) /\
    (* a reader that saw the end of a band got everything written to it *)
    (forall k b, S k < n -> eof_on b (hist_at o (S k)) = true ->
       gots b (hist_at o (S k)) = sents b (hist_at o k)) /\
    (* the result is the composition of the stage exceptions, reader-gone of a
       non-last stage left out (see reports / reader_gone_not_reported / …) *)
    o_final o = make_pipeline_error (mask (o_exit o)).

  Theorem check_obs_sound o : check_obs n o = true -> Spec_obs o.
  Proof.
    unfold check_obs. intros H.
    apply andb_true_iff in H as [H Hfin]. apply andb_true_iff in H as [H Hlinks].
    apply andb_true_iff in H as [H1 H2].
    apply Nat.eqb_eq in H1. apply Nat.eqb_eq in H2. apply final_eqb_eq in Hfin.
    rewrite forallb_forall in Hlinks.
    assert (forall k b, S k < n ->
              prefixb (gots b (hist_at o (S k))) (sents b (hist_at o k)) = true /\
              (eof_on b (hist_at o (S k)) = true ->
               length (gots b (hist_at o (S k))) = length (sents b (hist_at o k)))) as HL.
    { intros k b Hk. assert (In k (seq 0 (pred n))) as Hin by (apply in_seq; lia).
      specialize (Hlinks k Hin). unfold link_ok in Hlinks. rewrite forallb_forall in Hlinks.
      assert (In b [V; B]) as Hb by (destruct b; simpl; auto).
      specialize (Hlinks b Hb). apply andb_true_iff in Hlinks as [P E]. split; [exact P|].
      intros He. rewrite He in E. apply Nat.eqb_eq in E. exact E. }
    repeat split; auto.
    - intros k b Hk. destruct (HL k b Hk) as [P _]. apply prefixb_sound in P as [r P]. eauto.
    - intros k b Hk He. destruct (HL k b Hk) as [P E]. apply prefixb_sound in P as [r P].
      specialize (E He). rewrite P in E. apply app_same_length_nil in E. subst r.
      rewrite P, app_nil_r. reflexivity.
  Qed.

  Theorem allowed_outcome_sound o : allowed_outcome L want cont n init o = true -> Spec_obs o.
  Proof.
    unfold allowed_outcome. intros H.
    do 4 (apply andb_true_iff in H as [H _]). apply check_obs_sound; exact H.
  Qed.

  (* ---- helpers for instances ---- *)
  (* a property of local states kept by every continuation holds everywhere *)
  Lemma local_invariant (Q : nat -> L -> Prop) :
    (forall k, Q k (init k)) -> (forall k l r, Q k l -> Q k (cont l r)) ->
    forall s, reachable s -> forall k, Q k (loc (stg s k)).
  Proof.
    intros Hi Hc s R. induction R as [|s s' R IH [j [c [Hj F]]]]; intros k.
    - simpl. apply Hi.
    - apply fire_fired in F.
      destruct F; simpl; (destruct (Nat.eq_dec k j) as [-> | E];
        [rewrite upd_same; simpl; auto | rewrite (upd_other _ _ _ _ E); auto]).
  Qed.

  Lemma run_sched_reachable sch : forall s s',
    reachable s -> run_sched L want cont n cap sch s = Some s' -> reachable s'.
  Proof.
    induction sch as [|[k c] sch IH]; intros s s' R H; simpl in H.
    - inversion H; subst; exact R.
    - destruct (k <? n) eqn:Ek; [|discriminate].
      destruct (fire k c s) as [s1|] eqn:F; [|discriminate].
      apply (IH s1); auto. eapply reach_step; eauto. exists k, c. split; auto.
      apply Nat.ltb_lt; exact Ek.
  Qed.

  Lemma stuckb_sound s : stuckb L want cont n cap s = true -> ~ can_move s.
  Proof.
    unfold stuckb. rewrite forallb_forall. intros H [k [c [s' [Hk F]]]].
    assert (In k (seq 0 n)) as Hin by (apply in_seq; lia).
    specialize (H k Hin). unfold enabledb in H.
    destruct c; rewrite F in H; [discriminate|].
    destruct (fire k true s); discriminate.
  Qed.
End LtsProofs.
