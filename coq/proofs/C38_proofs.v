(* Proofs for C38, part 1: the model of pkg/getopt's parser equals the
   item-based reference (tokenize + meaning) for every argument list, as long
   as no item of the defect classes occurs. *)
From verif Require Import lib.Base gen.Consts model.C38.
Open Scope N_scope.

(* ---------- decidable equalities ---------- *)
Lemma str_eqb_eq a b : str_eqb a b = true <-> a = b.
Proof. apply list_eqb_spec. intros; apply N.eqb_eq. Qed.
Lemma str_eqb_refl a : str_eqb a a = true.
Proof. apply str_eqb_eq; reflexivity. Qed.
Lemma str_eqb_sym a b : str_eqb a b = str_eqb b a.
Proof.
  destruct (str_eqb a b) eqn:E1, (str_eqb b a) eqn:E2; try reflexivity.
  - apply str_eqb_eq in E1; subst. rewrite str_eqb_refl in E2; discriminate.
  - apply str_eqb_eq in E2; subst. rewrite str_eqb_refl in E1; discriminate.
Qed.
Lemma str_eqb_neq a b : str_eqb a b = false <-> a <> b.
Proof. split.
  - intros H E; subst. rewrite str_eqb_refl in H; discriminate.
  - intros H. destruct (str_eqb a b) eqn:E; [apply str_eqb_eq in E; contradiction|reflexivity].
Qed.

Lemma arity_eqb_eq a b : arity_eqb a b = true <-> a = b.
Proof. destruct a, b; simpl; split; intros; congruence. Qed.

Lemma spec_eqb_eq a b : spec_eqb a b = true <-> a = b.
Proof.
  unfold spec_eqb. destruct a as [s1 l1 a1], b as [s2 l2 a2]; simpl. split.
  - intros H. apply andb_true_iff in H as [H H3]. apply andb_true_iff in H as [H1 H2].
    apply N.eqb_eq in H1. apply str_eqb_eq in H2. apply arity_eqb_eq in H3. congruence.
  - intros H; inversion H; subst. rewrite N.eqb_refl, str_eqb_refl.
    destruct a2; reflexivity.
Qed.

Lemma is_nil_true {A} (l : list A) : is_nil l = true <-> l = [].
Proof. destruct l; simpl; split; intros; congruence. Qed.
Lemma is_nil_false {A} (l : list A) : is_nil l = false <-> l <> [].
Proof. destruct l; simpl; split; intros; congruence. Qed.

(* ---------- the Config bits mean what the conventions say ---------- *)
Lemma has_dd cs : has (bits_of cs) bitSADD = cv_dd (conv_of cs).
Proof. destruct cs as [| |[] [] []]; reflexivity. Qed.
Lemma has_sf cs : has (bits_of cs) bitSBFN = cv_sf (conv_of cs).
Proof. destruct cs as [| |[] [] []]; reflexivity. Qed.
Lemma has_lo cs : has (bits_of cs) bitLO = cv_lo (conv_of cs).
Proof. destruct cs as [| |[] [] []]; reflexivity. Qed.

(* ---------- '=' splitting ---------- *)
Lemma split_eq_index s :
  match index_of EQ s with
  | None => split_eq s = (s, None) /\ contains EQ s = false
  | Some e => split_eq s = (firstn e s, Some (skipn (S e) s)) /\ contains EQ s = true
  end.
Proof.
  unfold contains. induction s as [|c r IH]; simpl; [auto|].
  destruct (N.eqb c EQ) eqn:Hc; simpl; [auto|].
  destruct (index_of EQ r) as [e|]; simpl; destruct IH as [IH1 IH2]; rewrite IH1; auto.
Qed.

Lemma split_eq_name_no_eq s : contains EQ (fst (split_eq s)) = false.
Proof.
  unfold contains. induction s as [|c r IH]; simpl; [reflexivity|].
  destruct (N.eqb c EQ) eqn:Hc; simpl; [reflexivity|].
  destruct (split_eq r) as [n a]; simpl in *. rewrite Hc.
  destruct (index_of EQ n); simpl in *; [discriminate|reflexivity].
Qed.

Lemma split_eq_nil s : s <> [] -> split_eq s = ([], None) -> False.
Proof.
  destruct s as [|c r]; [congruence|]. simpl. intros _.
  destruct (N.eqb c EQ); [discriminate|]. destruct (split_eq r); discriminate.
Qed.

Lemma firstn_index_no_eq s e : index_of EQ s = Some e -> contains EQ (firstn e s) = false.
Proof.
  intros H. pose proof (split_eq_index s) as P. rewrite H in P. destruct P as [P _].
  pose proof (split_eq_name_no_eq s) as Q. rewrite P in Q. exact Q.
Qed.

(* a string with '=' differs from every string without *)
Lemma contains_neq a b : contains EQ a = true -> contains EQ b = false -> str_eqb a b = false.
Proof. intros Ha Hb. apply str_eqb_neq. intros E; subst. congruence. Qed.

(* ---------- long lookup: the loop in parseLong is a [find] ---------- *)
Definition long_result (sp : ospec) (oa : option str) : opt * bool :=
  match oa with
  | None => (mkOpt sp false true [], arity_eqb (s_arity sp) ReqArg)
  | Some a => (mkOpt sp false true a, false)
  end.

Lemma find_ext {A} (f g : A -> bool) l : (forall x, f x = g x) -> find f l = find g l.
Proof. intros E. induction l as [|x l IH]; simpl; [reflexivity|]. rewrite E, IH. reflexivity. Qed.

Lemma find_none {A} (f : A -> bool) l : (forall x, f x = false) -> find f l = None.
Proof. intros E. induction l as [|x l IH]; simpl; [reflexivity|]. rewrite E. exact IH. Qed.

Definition long_is (name : str) (sp : ospec) : bool :=
  negb (is_nil (s_long sp)) && str_eqb (s_long sp) name.

Lemma parseLong_loop_find specs : longs_no_eq specs = true ->
  forall body name oa, split_eq body = (name, oa) ->
  parseLong_loop body (index_of EQ body) specs =
  match find (long_is name) specs with
  | Some sp => Some (long_result sp oa)
  | None => None
  end.
Proof.
  intros Hne body name oa Hs. pose proof (split_eq_index body) as P.
  induction specs as [|sp rest IH]; [reflexivity|].
  simpl in Hne. apply andb_true_iff in Hne as [Hsp Hrest]. apply negb_true_iff in Hsp.
  specialize (IH Hrest). cbn [parseLong_loop find]. unfold long_is at 1.
  destruct (is_nil (s_long sp)) eqn:Hn; [exact IH|]. cbn [negb andb].
  destruct (index_of EQ body) as [e|] eqn:He; destruct P as [P Pc]; rewrite P in Hs; inversion Hs; subst.
  - rewrite (contains_neq _ _ Pc Hsp). rewrite (str_eqb_sym (s_long sp)).
    destruct (str_eqb (firstn e body) (s_long sp)); [reflexivity|exact IH].
  - rewrite (str_eqb_sym (s_long sp)).
    destruct (str_eqb name (s_long sp)); [reflexivity|exact IH].
Qed.

Lemma find_long_is name specs : find (long_is name) specs = lookup_long name specs.
Proof.
  unfold lookup_long. destruct name as [|c n]; cbn [is_nil].
  - apply find_none. intros sp. unfold long_is. destruct (s_long sp); reflexivity.
  - apply find_ext. intros sp. unfold long_is. destruct (s_long sp); reflexivity.
Qed.

Definition unk_result (name : str) (oa : option str) : opt * bool :=
  (unk_long name (match oa with Some a => a | None => [] end), false).

Lemma parseLong_ref specs body name oa : longs_no_eq specs = true ->
  split_eq body = (name, oa) ->
  parseLong body specs =
  match lookup_long name specs with
  | Some sp => long_result sp oa
  | None => unk_result name oa
  end.
Proof.
  intros Hne Hs. unfold parseLong. rewrite (parseLong_loop_find specs Hne body name oa Hs).
  rewrite find_long_is. destruct (lookup_long name specs); [reflexivity|].
  pose proof (split_eq_index body) as P. unfold unk_result, unk_long.
  destruct (index_of EQ body); destruct P as [P _]; rewrite P in Hs; inversion Hs; subst; reflexivity.
Qed.

(* ---------- short lookup ---------- *)
Lemma findShort_ref r specs : findShort r specs = lookup_short r specs.
Proof.
  unfold lookup_short.
  assert (F : findShort r specs = find (fun sp => negb (N.eqb (s_short sp) 0) && N.eqb (s_short sp) r) specs).
  { induction specs as [|sp rest IH]; simpl; [reflexivity|].
    rewrite (N.eqb_sym (s_short sp) r).
    destruct (negb (N.eqb (s_short sp) 0) && N.eqb r (s_short sp)); auto. }
  rewrite F. destruct (N.eqb r 0) eqn:Hr.
  - apply N.eqb_eq in Hr; subst. apply find_none. intros sp. destruct (N.eqb (s_short sp) 0); reflexivity.
  - apply find_ext. intros sp. destruct (N.eqb (s_short sp) r) eqn:E; [|apply andb_false_r].
    apply N.eqb_eq in E. subst. rewrite Hr. reflexivity.
Qed.

Definition pend_opts (p : pend) : list opt * bool :=
  match p with
  | PFlags => ([], false)
  | PAtt sp a => ([mkOpt sp false false a], false)
  | PNeed sp => ([mkOpt sp false false []], true)
  | PUnk r a => ([unk_short r a], false)
  end.

Lemma parseShort_ref specs s :
  parseShort s specs =
  (map flag_opt (fst (scan_shorts specs s)) ++ fst (pend_opts (snd (scan_shorts specs s))),
   snd (pend_opts (snd (scan_shorts specs s)))).
Proof.
  induction s as [|r rest IH]; [reflexivity|]. cbn [scan_shorts parseShort].
  rewrite findShort_ref. destruct (lookup_short r specs) as [sp|] eqn:L; [|reflexivity].
  destruct (s_arity sp) eqn:Ha.
  - destruct (scan_shorts specs rest) as [fl p] eqn:Sc. cbn [fst snd] in *. rewrite IH. reflexivity.
  - destruct rest; reflexivity.
  - cbn. rewrite andb_false_r. reflexivity.
Qed.

(* ---------- the fold of parse, started in any state ---------- *)
Definition run (cfg : Z) (specs : list ospec) (st : pstate) (args : list str) : pstate :=
  fold_left (step cfg specs) args st.

Lemma run_cons cfg specs st w rest :
  run cfg specs st (w :: rest) = run cfg specs (step cfg specs st w) rest.
Proof. reflexivity. Qed.

Lemma run_app cfg specs st a b :
  run cfg specs st (a ++ b) = run cfg specs (run cfg specs st a) b.
Proof. unfold run. apply fold_left_app. Qed.

(* the state after reading [items], starting from [st] *)
Definition post (cv : conv) (st : pstate) (items : list item) : pstate :=
  mkSt (st_opts st ++ flat_map item_opts items) (st_non st ++ flat_map item_non items)
       (missing_of items) (st_stop st || existsb (item_stops cv) items).

Lemma missing_of_cons it items :
  is_missing it = false -> missing_of (it :: items) = missing_of items.
Proof.
  unfold missing_of, is_missing. intros H. simpl rev.
  destruct (rev items) as [|x r] eqn:E; simpl; [|reflexivity].
  destruct (item_missing it); [discriminate|reflexivity].
Qed.

Lemma post_cons cv st it items : is_missing it = false ->
  post cv st (it :: items) =
  post cv (mkSt (st_opts st ++ item_opts it) (st_non st ++ item_non it) None
                (st_stop st || item_stops cv it)) items.
Proof.
  intros H. unfold post. cbn [flat_map existsb st_opts st_non st_pend st_stop].
  rewrite (missing_of_cons _ _ H), !app_assoc, orb_assoc. reflexivity.
Qed.

Lemma post_last cv st it :
  post cv st [it] = mkSt (st_opts st ++ item_opts it) (st_non st ++ item_non it)
                         (item_missing it) (st_stop st || item_stops cv it).
Proof. unfold post, missing_of. cbn. rewrite !app_nil_r, orb_false_r. reflexivity. Qed.

Lemma post_nil cv st : st_pend st = None -> post cv st [] = st.
Proof. intros H. unfold post, missing_of. cbn. rewrite !app_nil_r, orb_false_r.
  destruct st; simpl in *; subst; reflexivity. Qed.

(* the tokenizer, one word at a time *)
Definition tok_long (cv : conv) (specs : list ospec) (d2 : bool) (body : str) (rest : list str)
  : list item :=
  let '(name, oa) := split_eq body in
  match lookup_long name specs with
  | None => ILongUnk d2 name oa :: tokenize cv specs false rest
  | Some sp =>
    match oa with
    | Some a => ILong d2 sp (LEq a) :: tokenize cv specs false rest
    | None =>
      if arity_eqb (s_arity sp) ReqArg then
        match rest with
        | a :: rest' => ILong d2 sp (LDet a) :: tokenize cv specs false rest'
        | [] => [ILong d2 sp LMiss]
        end
      else ILong d2 sp LNone :: tokenize cv specs false rest
    end
  end.

Definition tok_short (cv : conv) (specs : list ospec) (body : str) (rest : list str) : list item :=
  let '(fl, p) := scan_shorts specs body in
  match p with
  | PFlags => IShorts fl EFlags :: tokenize cv specs false rest
  | PAtt sp a => IShorts fl (EAtt sp a) :: tokenize cv specs false rest
  | PUnk r a => IShorts fl (EUnk r a) :: tokenize cv specs false rest
  | PNeed sp =>
    match rest with
    | a :: rest' => IShorts fl (EDet sp a) :: tokenize cv specs false rest'
    | [] => [IShorts fl (EMiss sp)]
    end
  end.

Lemma tokenize_cons cv specs stopped w rest :
  tokenize cv specs stopped (w :: rest) =
  if stopped then IRest w :: tokenize cv specs true rest
  else if cv_dd cv && str_eqb w DD then IDD :: tokenize cv specs true rest
  else if prefix2 w && negb (str_eqb w DD) then tok_long cv specs true (skipn 2 w) rest
  else if prefix1 w && negb (str_eqb w DD) && negb (str_eqb w D1) then
    if cv_lo cv then tok_long cv specs false (skipn 1 w) rest
    else tok_short cv specs (skipn 1 w) rest
  else INon w :: tokenize cv specs (cv_sf cv) rest.
Proof. reflexivity. Qed.

Section RunRef.
  Variable cs : cfgsel.
  Variable specs : list ospec.
  Hypothesis Hnoeq : longs_no_eq specs = true.
  Let cv := conv_of cs.
  Let cfg := bits_of cs.

  Definition run_ref_at (n : nat) : Prop :=
    forall args, (length args <= n)%nat -> forall st, st_pend st = None ->
    run cfg specs st args = post cv st (tokenize cv specs (st_stop st) args).

  Lemma long_case n (IH : run_ref_at n) st d2 body rest :
    (length rest <= n)%nat -> body <> [] -> st_pend st = None -> st_stop st = false ->
    run cfg specs (after_long st (parseLong body specs)) rest =
    post cv st (tok_long cv specs d2 body rest).
  Proof.
    intros Hlen Hbody Hp Hs. unfold tok_long.
    destruct (split_eq body) as [name oa] eqn:Hsp.
    destruct (lookup_long name specs) as [sp|] eqn:L.
    - rewrite (parseLong_ref specs body name oa Hnoeq Hsp), L.
      destruct oa as [a|]; cbn [long_result after_long].
      + rewrite post_cons by reflexivity.
        cbn [item_opts item_non item_stops]. rewrite app_nil_r, orb_false_r, Hs.
        specialize (IH rest Hlen (mkSt (st_opts st ++ [mkOpt sp false true a]) (st_non st) None false) eq_refl).
        cbn [st_stop] in IH. apply IH.
      + destruct (arity_eqb (s_arity sp) ReqArg) eqn:Ha.
        * destruct rest as [|a rest'].
          -- rewrite post_last. cbn. rewrite !app_nil_r, Hs. reflexivity.
          -- rewrite run_cons. unfold step at 1. cbn [st_pend].
             rewrite post_cons by reflexivity. cbn [item_opts item_non item_stops set_arg o_spec o_unknown o_long st_opts st_non st_stop].
             rewrite app_nil_r, orb_false_r, Hs.
             assert (Hl : (length rest' <= n)%nat) by (simpl in Hlen; lia).
             specialize (IH rest' Hl (mkSt (st_opts st ++ [mkOpt sp false true a]) (st_non st) None false) eq_refl).
             cbn [st_stop] in IH. apply IH.
        * rewrite post_cons by reflexivity.
          cbn [item_opts item_non item_stops]. rewrite app_nil_r, orb_false_r, Hs.
          specialize (IH rest Hlen (mkSt (st_opts st ++ [mkOpt sp false true []]) (st_non st) None false) eq_refl).
          cbn [st_stop] in IH. apply IH.
    - rewrite (parseLong_ref specs body name oa Hnoeq Hsp), L.
      unfold unk_result. cbn [after_long]. rewrite post_cons by reflexivity.
      rewrite orb_false_r, Hs.
      specialize (IH rest Hlen (mkSt (st_opts st ++ item_opts (ILongUnk d2 name oa)) (st_non st) None false) eq_refl).
      cbn [st_stop] in IH. cbn [item_non]. rewrite app_nil_r.
      replace [unk_long name match oa with Some a => a | None => [] end]
        with (item_opts (ILongUnk d2 name oa)) by (destruct oa; reflexivity).
      apply IH.
  Qed.

  Lemma short_case n (IH : run_ref_at n) st body rest :
    (length rest <= n)%nat -> st_pend st = None -> st_stop st = false ->
    run cfg specs
      (let '(os, need) := parseShort body specs in
       if need then mkSt (st_opts st ++ removelast os) (st_non st) (Some (last os dummy_opt)) false
       else mkSt (st_opts st ++ os) (st_non st) None false) rest =
    post cv st (tok_short cv specs body rest).
  Proof.
    intros Hlen Hp Hs. unfold tok_short.
    pose proof (parseShort_ref specs body) as PS.
    destruct (scan_shorts specs body) as [fl p] eqn:Sc. cbn [fst snd] in PS.
    destruct p as [|sp a|sp|r a].
    - rewrite PS. cbn [pend_opts fst snd].
      rewrite post_cons by reflexivity. cbn [item_opts item_non item_stops].
      rewrite !app_nil_r, orb_false_r, Hs.
      specialize (IH rest Hlen (mkSt (st_opts st ++ map flag_opt fl) (st_non st) None false) eq_refl).
      cbn [st_stop] in IH. apply IH.
    - rewrite PS. cbn [pend_opts fst snd].
      rewrite post_cons by reflexivity. cbn [item_opts item_non item_stops].
      rewrite !app_nil_r, orb_false_r, Hs.
      specialize (IH rest Hlen (mkSt (st_opts st ++ map flag_opt fl ++ [mkOpt sp false false a]) (st_non st) None false) eq_refl).
      cbn [st_stop] in IH. apply IH.
    - rewrite PS. cbn [pend_opts fst snd].
      rewrite removelast_last, last_last.
      destruct rest as [|a rest'].
      + rewrite post_last. cbn. rewrite !app_nil_r, Hs. reflexivity.
      + rewrite run_cons. unfold step at 1. cbn [st_pend].
        rewrite post_cons by reflexivity.
        cbn [item_opts item_non item_stops set_arg o_spec o_unknown o_long st_opts st_non st_stop].
        rewrite !app_nil_r, orb_false_r, Hs, <- app_assoc.
        assert (Hl : (length rest' <= n)%nat) by (simpl in Hlen; lia).
        specialize (IH rest' Hl (mkSt (st_opts st ++ map flag_opt fl ++ [mkOpt sp false false a]) (st_non st) None false) eq_refl).
        cbn [st_stop] in IH. apply IH.
    - rewrite PS. cbn [pend_opts fst snd].
      rewrite post_cons by reflexivity. cbn [item_opts item_non item_stops].
      rewrite !app_nil_r, orb_false_r, Hs.
      specialize (IH rest Hlen (mkSt (st_opts st ++ map flag_opt fl ++ [unk_short r a]) (st_non st) None false) eq_refl).
      cbn [st_stop] in IH. apply IH.
  Qed.

  Lemma prefix2_body w : prefix2 w && negb (str_eqb w DD) = true -> skipn 2 w <> [].
  Proof.
    destruct w as [|a [|b [|c r]]]; simpl; try discriminate.
    intros H. apply andb_true_iff in H as [H1 H2]. apply andb_true_iff in H1 as [Ha Hb].
    apply N.eqb_eq in Ha, Hb. subst. discriminate.
  Qed.

  Lemma prefix1_body w : prefix1 w && negb (str_eqb w DD) && negb (str_eqb w D1) = true -> skipn 1 w <> [].
  Proof.
    destruct w as [|a [|b r]]; simpl; try discriminate.
    intros H. apply andb_true_iff in H as [H1 H2]. apply andb_true_iff in H1 as [Ha Hb].
    apply N.eqb_eq in Ha. subst. discriminate.
  Qed.

  Lemma run_ref_all n : run_ref_at n.
  Proof.
    induction n as [|n IH]; intros args Hlen st Hp.
    - destruct args; [|simpl in Hlen; lia]. simpl. symmetry. apply post_nil. exact Hp.
    - destruct args as [|w rest]; [simpl; symmetry; apply post_nil; exact Hp|].
      assert (Hl : (length rest <= n)%nat) by (simpl in Hlen; lia).
      rewrite tokenize_cons, run_cons. unfold step. rewrite Hp.
      destruct (st_stop st) eqn:Hs.
      + rewrite post_cons by reflexivity.
        cbn [item_opts item_non item_stops]. rewrite app_nil_r, orb_true_r.
        specialize (IH rest Hl (mkSt (st_opts st) (st_non st ++ [w]) None true) eq_refl).
        cbn [st_stop] in IH. apply IH.
      + unfold cfg. rewrite has_dd, has_lo, has_sf. fold cv.
        destruct (cv_dd cv && str_eqb w DD) eqn:Hdd.
        * rewrite post_cons by reflexivity.
          cbn [item_opts item_non item_stops]. rewrite !app_nil_r, Hs.
          specialize (IH rest Hl (mkSt (st_opts st) (st_non st) None true) eq_refl).
          cbn [st_stop] in IH. apply IH.
        * destruct (prefix2 w && negb (str_eqb w DD)) eqn:H2.
          { apply (long_case n IH st true (skipn 2 w) rest Hl (prefix2_body w H2) Hp Hs). }
          destruct (prefix1 w && negb (str_eqb w DD) && negb (str_eqb w D1)) eqn:H1.
          { destruct (cv_lo cv).
            - apply (long_case n IH st false (skipn 1 w) rest Hl (prefix1_body w H1) Hp Hs).
            - apply (short_case n IH st (skipn 1 w) rest Hl Hp Hs). }
          rewrite post_cons by reflexivity.
          cbn [item_opts item_non item_stops]. rewrite app_nil_r, Hs.
          destruct (cv_sf cv); cbn [orb].
          -- specialize (IH rest Hl (mkSt (st_opts st) (st_non st ++ [w]) None true) eq_refl).
             cbn [st_stop] in IH. apply IH.
          -- specialize (IH rest Hl (mkSt (st_opts st) (st_non st ++ [w]) None false) eq_refl).
             cbn [st_stop] in IH. apply IH.
  Qed.

  (* the model's parser is the reference parser *)
  Lemma parse_is_ref args :
    parse cfg specs args = ref_parse cv specs args.
  Proof.
    unfold parse, ref_parse.
    pose proof (run_ref_all (length args) args (le_n _) st0 eq_refl) as R.
    unfold run in R. rewrite R. unfold post, meaning, missing_of. reflexivity.
  Qed.
End RunRef.
