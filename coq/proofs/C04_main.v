(* C04 — the statements of props/C04.v assembled from the other proof files. *)
From verif Require Import lib.Base lib.Utf8 model.C03 proofs.C03_proofs model.C08_Value
  proofs.C08_Value_proofs model.C04 proofs.C04_proofs proofs.C04_text proofs.C04_roundtrip
  proofs.C04_sem proofs.C04_order proofs.C04_fuel.
From verif Require model.C05 proofs.C05_float_proofs.
Open Scope N_scope.

(* float patterns are 64-bit and map keys are pairwise not eq, a NaN counting
   as equal to a NaN (so a map has at most one NaN key) *)
Definition wfv (v : value) : Prop := wfb (denan v) = true.

Section Main.
Variable is_print : N -> bool.
Variable pf : bytes -> option N.
Variable fmtF fmtE : N -> bytes.
Variable rk : N -> Z.
Hypothesis HS : C05_float_proofs.contract_S pf fmtF fmtE.

Theorem repr_roundtrip v : okv v = true -> wfv v ->
  forall ind ctx t fuel, (rdepth v <= fuel)%nat -> term_ok is_print ctx t ->
  exists v', read_val is_print pf fuel ctx (repr is_print fmtF fmtE rk v ind ++ t) = ROk v' t
             /\ eqn v v' = true.
Proof.
  intros Hok W ind ctx t fuel Hf Ht. exists (norm pf rk v). split.
  - apply repr_reads_back; assumption.
  - apply (norm_good pf rk (C05_float_proofs.S2_nan _ _ _ HS) v Hok W).
Qed.

Theorem repr_single_expression v : okv v = true ->
  forall ind fuel, (rdepth v <= fuel)%nat ->
  read_val is_print pf fuel CNormal (repr is_print fmtF fmtE rk v ind ++ []) = ROk (norm pf rk v) [].
Proof. intros Hok ind fuel Hf. apply repr_reads_back; try assumption. exact I. Qed.

Theorem repr_keeps_exactness v : okv v = true ->
  forall ind ctx t fuel, (rdepth v <= fuel)%nat -> term_ok is_print ctx t ->
  exists v', read_val is_print pf fuel ctx (repr is_print fmtF fmtE rk v ind ++ t) = ROk v' t
   /\ num_type v' = num_type v
   /\ match v with
      | VInt _ | VBig _ | VRat _ => v' = v
      | VFloat b => if C05.is_nan b then exists b', v' = VFloat b' /\ C05.is_nan b' = true else v' = v
      | _ => True
      end.
Proof.
  intros Hok ind ctx t fuel Hf Ht. exists (norm pf rk v). split; [apply repr_reads_back; assumption|].
  split; [apply (norm_num_type pf rk (C05_float_proofs.S2_nan _ _ _ HS))|].
  pose proof (norm_keeps_number pf rk (C05_float_proofs.S2_nan _ _ _ HS) v Hok) as K.
  destruct v; try exact I; exact K.
Qed.

(* the function the judge runs on the whole argument of put *)
Theorem read_expr_roundtrip v ind : okv v = true -> wfv v ->
  exists v', read_expr is_print pf (repr is_print fmtF fmtE rk v ind) = EVal v' /\ eqn v v' = true.
Proof.
  intros Hok W. exists (norm pf rk v). split.
  - apply read_expr_repr; assumption.
  - apply (norm_good pf rk (C05_float_proofs.S2_nan _ _ _ HS) v Hok W).
Qed.

(* what the model predicts for the implementation passes the oracle *)
Theorem model_passes_oracle v text : okv v = true -> wfv v ->
  check_C04 v resValue (norm pf rk v) true text [] = true.
Proof.
  intros Hok W. unfold check_C04. cbn [forallb]. rewrite N.eqb_refl, orb_true_r. cbn [andb].
  rewrite ?andb_true_r. apply (norm_good pf rk (C05_float_proofs.S2_nan _ _ _ HS) v Hok W).
Qed.
End Main.
