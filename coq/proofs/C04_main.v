(* C04 — the statements of props/C04.v assembled from the other proof files. *)
From verif Require Import lib.Base lib.Utf8 model.C03 proofs.C03_proofs model.C08_Value
  proofs.C08_Value_proofs proofs.C09_proofs model.C04 proofs.C04_proofs proofs.C04_text proofs.C04_roundtrip
  proofs.C04_sem proofs.C04_order proofs.C04_fuel.
From verif Require model.C05 proofs.C05_float_proofs.
From Coq Require Import Permutation.
Open Scope N_scope.

(* float patterns are 64-bit and map keys are pairwise not eq, a NaN counting
   as equal to a NaN (so a map has at most one NaN key) *)
Definition wfv (v : value) : Prop := wfb (denan v) = true.

Section Main.
Variable is_print : N -> bool.
Variable pf : bytes -> option N.
Variable fmtF fmtE : N -> bytes.
Variable rk : N -> Z.
Hypothesis HS : C05_float_proofs.contract_S pf fmtF fmtE.

Notation repr := (C04.repr is_print fmtF fmtE rk).
Notation norm := (C04.norm is_print pf fmtF fmtE rk).
Notation NaN_ok := (C05_float_proofs.S2_nan _ _ _ HS).

Theorem repr_roundtrip v : okv v = true -> wfv v ->
  forall ind ctx t fuel, (rdepth v <= fuel)%nat -> term_ok is_print ctx t ->
  exists v', read_val is_print pf fuel ctx (repr v ind ++ t) = ROk v' t /\ eqn v v' = true.
Proof.
  intros Hok W ind ctx t fuel Hf Ht. exists (norm v ind). split.
  - apply repr_reads_back; assumption.
  - apply (norm_good is_print pf fmtF fmtE rk NaN_ok v Hok W ind).
Qed.

Theorem repr_single_expression v : okv v = true ->
  forall ind fuel, (rdepth v <= fuel)%nat ->
  read_val is_print pf fuel CNormal (repr v ind ++ []) = ROk (norm v ind) [].
Proof. intros Hok ind fuel Hf. apply repr_reads_back; try assumption. exact I. Qed.

Theorem read_expr_roundtrip v ind : okv v = true -> wfv v ->
  exists v', read_expr is_print pf (repr v ind) = EVal v' /\ eqn v v' = true.
Proof.
  intros Hok W. exists (norm v ind). split.
  - apply read_expr_repr; assumption.
  - apply (norm_good is_print pf fmtF fmtE rk NaN_ok v Hok W ind).
Qed.

Theorem repr_keeps_exactness v : okv v = true ->
  forall ind ctx t fuel, (rdepth v <= fuel)%nat -> term_ok is_print ctx t ->
  exists v', read_val is_print pf fuel ctx (repr v ind ++ t) = ROk v' t
   /\ num_type v' = num_type v
   /\ match v with
      | VInt _ | VBig _ | VRat _ => v' = v
      | VFloat b => if C05.is_nan b then exists b', v' = VFloat b' /\ C05.is_nan b' = true else v' = v
      | _ => True
      end.
Proof.
  intros Hok ind ctx t fuel Hf Ht. exists (norm v ind). split; [apply repr_reads_back; assumption|].
  split; [apply (norm_num_type is_print pf fmtF fmtE rk NaN_ok)|].
  pose proof (norm_keeps_number is_print pf fmtF fmtE rk NaN_ok v Hok) as K.
  destruct v; try exact I; exact (K ind).
Qed.

(* values of the domain that print alike are eq (NaN by kind): the text reads
   back to one value, which is eq to both *)
Lemma same_text_eqn a b ind : okv a = true -> wfv a -> okv b = true -> wfv b ->
  repr a ind = repr b ind -> eqn a b = true.
Proof.
  intros Oa Wa Ob Wb E.
  pose proof (read_expr_repr is_print pf fmtF fmtE rk HS a ind Oa) as Ra.
  pose proof (read_expr_repr is_print pf fmtF fmtE rk HS b ind Ob) as Rb.
  rewrite E in Ra. rewrite Ra in Rb. injection Rb as En.
  destruct (norm_good is_print pf fmtF fmtE rk NaN_ok a Oa Wa ind) as [Wna Ea].
  destruct (norm_good is_print pf fmtF fmtE rk NaN_ok b Ob Wb ind) as [Wnb Eb].
  unfold eqn. rewrite <- En in Eb, Wnb.
  apply (equal_trans _ (denan (norm a ind))); try assumption.
  apply equal_sym; assumption.
Qed.

(* hence, in a map of the domain, entries whose keys print alike are one entry *)
Lemma texts_distinct m ind : okv (VMap m) = true -> wfv (VMap m) ->
  TextsDistinct is_print fmtF fmtE rk m ind.
Proof.
  intros Hok W e1 e2 H1 H2 _ T.
  cbn [okv] in Hok. rewrite forallb_forall in Hok.
  pose proof (Hok e1 H1) as O1. pose proof (Hok e2 H2) as O2.
  apply andb_true_iff in O1 as [O1 _]. apply andb_true_iff in O2 as [O2 _].
  destruct (wfd_map_in m e1 W H1) as [W1 _]. destruct (wfd_map_in m e2 W H2) as [W2 _].
  apply (wfd_keys_distinct m W e1 e2 H1 H2).
  exact (same_text_eqn (fst e1) (fst e2) (ind + 1)%Z O1 W1 O2 W2 T).
Qed.

(* THE ORDER THEOREM: for every map of the domain on whose keys CmpTotal is
   antisymmetric and transitive, the text is the same for every order in which
   the hash map yields the entries *)
Theorem repr_order_canonical m1 m2 ind :
  okv (VMap m1) = true -> wfv (VMap m1) -> KeysOrdered rk m1 -> Permutation m1 m2 ->
  repr (VMap m1) ind = repr (VMap m2) ind.
Proof.
  intros Hok W KO Pm. apply repr_order_canonical_gen; try assumption. apply texts_distinct; assumption.
Qed.

(* no hypothesis on the comparison is left when the numbers inside the keys are
   all exact, or all inexact *)
Theorem repr_order_canonical_exact m1 m2 ind :
  okv (VMap m1) = true -> wfv (VMap m1) -> wfb (VMap m1) = true -> injective rk ->
  (forall e, In e m1 -> nums_all is_exact (fst e) = true) -> Permutation m1 m2 ->
  repr (VMap m1) ind = repr (VMap m2) ind.
Proof.
  intros Hok W Wr Inj Hn Pm. apply repr_order_canonical; try assumption.
  apply (keys_ordered_of is_exact); auto.
Qed.

Theorem repr_order_canonical_inexact m1 m2 ind :
  okv (VMap m1) = true -> wfv (VMap m1) -> wfb (VMap m1) = true -> injective rk ->
  (forall e, In e m1 -> nums_all is_float (fst e) = true) -> Permutation m1 m2 ->
  repr (VMap m1) ind = repr (VMap m2) ind.
Proof.
  intros Hok W Wr Inj Hn Pm. apply repr_order_canonical; try assumption.
  apply (keys_ordered_of is_float); auto.
Qed.

Theorem repr_order_canonical_nested m m'' m' :
  okv (VMap m) = true -> wfv (VMap m) -> KeysOrdered rk m -> Permutation m m'' ->
  Forall2 (fun e e' => fst e = fst e' /\ SameText is_print fmtF fmtE rk (snd e) (snd e')) m'' m' ->
  SameText is_print fmtF fmtE rk (VMap m) (VMap m').
Proof.
  intros Hok W KO Pm F. apply (repr_order_canonical_nested_gen is_print fmtF fmtE rk m m'' m'); try assumption.
  intros ind. apply texts_distinct; assumption.
Qed.

(* what the model predicts for the implementation passes the oracle *)
Theorem model_passes_oracle v ind text : okv v = true -> wfv v ->
  check_C04 v resValue (norm v ind) true text [] = true.
Proof.
  intros Hok W. unfold check_C04. cbn [forallb]. rewrite N.eqb_refl, orb_true_r. cbn [andb].
  rewrite ?andb_true_r. apply (norm_good is_print pf fmtF fmtE rk NaN_ok v Hok W ind).
Qed.
End Main.
