(* C12 — exact-num then inexact-num gives every finite double back (up to the
   documented rules: exact numbers have no negative zero, and integers outside
   int64 convert to an infinity). *)
From Coq Require Import QArith Qcanon Lia Znumtheory Floats.SpecFloat.
From verif Require Import lib.Base model.C11_Num model.C12 proofs.C11_proofs proofs.C11_range proofs.C12_dyadic proofs.C12_proofs.
Open Scope Z_scope.

Lemma odd_gcd2 d : Z.odd d = true -> Z.gcd d 2 = 1.
Proof. intros O. pose proof (Z.gcd_divide_r d 2) as G2. pose proof (Z.gcd_divide_l d 2) as G1.
  pose proof (Z.gcd_nonneg d 2).
  assert (Z.gcd d 2 <= 2) by (apply Z.divide_pos_le; [lia|exact G2]).
  assert (Z.gcd d 2 <> 0) by (intros E; rewrite E in G2; destruct G2 as [x Hx]; lia).
  destruct (Z.eq_dec (Z.gcd d 2) 2) as [E|]; [|lia].
  rewrite E in G1. destruct G1 as [x Hx]. rewrite Hx, Z.odd_mul in O. cbn in O.
  rewrite andb_false_r in O. discriminate. Qed.

Lemma pow2_divisor k : 0 <= k -> forall d, 0 < d -> (d | 2 ^ k) -> exists i, 0 <= i <= k /\ d = 2 ^ i.
Proof. intros Hk. pattern k. apply natlike_ind; [| |exact Hk].
  - intros d Hd D. cbn in D. exists 0. split; [lia|]. apply Z.divide_1_r_nonneg in D; lia.
  - intros x Hx IH d Hd D. rewrite Z.pow_succ_r in D by lia.
    destruct (Z.odd d) eqn:O.
    + apply Z.gauss in D; [|apply odd_gcd2, O]. destruct (IH d Hd D) as (i & Hi & E).
      exists i. split; [lia|exact E].
    + assert (Ev : Z.even d = true) by (rewrite <- Z.negb_odd, O; reflexivity).
      apply Z.even_spec in Ev as [d' E']. subst d. apply Z.mul_divide_cancel_l in D; [|lia].
      destruct (IH d' ltac:(lia) D) as (i & Hi & E). exists (Z.succ i). split; [lia|].
      rewrite Z.pow_succ_r by lia. lia. Qed.

Lemma Zdigits2_le_53 a : 0 < a < 9007199254740992 -> Zdigits2 a <= 53.
Proof. intros H. destruct a as [|pa|pa]; try lia. cbn [Zdigits2]. pose proof (digits2_bounds pa) as Ba.
  destruct (Z_le_gt_dec (Z.pos (digits2_pos pa)) 53) as [L|L]; [exact L|exfalso].
  assert (2 ^ 53 <= 2 ^ (Z.pos (digits2_pos pa) - 1)) by (apply Z.pow_le_mono_r; lia).
  change (2 ^ 53) with 9007199254740992 in *. lia. Qed.

Definition smant (s : bool) (m : positive) : Z := if s then Z.neg m else Z.pos m.

(* the restriction by the documented rule: a double whose value is an integer
   outside the signed 64-bit range comes back as an infinity *)
Definition fits_int64 (f : f64) : bool :=
  match f with
  | S754_finite s m e => if 0 <=? e then in_int (smant s m * 2 ^ e) else true
  | _ => true
  end.

Lemma roundtrip_nonneg s m e : bounded prec emax m e = true -> 0 <= e ->
  in_int (smant s m * 2 ^ e) = true ->
  to_f64 (normalize_rat (f_to_Q (S754_finite s m e))) = S754_finite s m e.
Proof. intros B He Hi. cbn [f_to_Q]. fold (smant s m). apply Z.leb_le in He as He'. rewrite He'.
  unfold normalize_rat. rewrite Qred_z. cbn [Qden Qnum Pos.eqb]. unfold normalize_big. rewrite Hi.
  cbn [to_f64]. assert (P : 0 < 2 ^ e) by (apply Z.pow_pos_nonneg; lia).
  destruct (Z.pos m * 2 ^ e) as [|p|p] eqn:Ep; try lia.
  assert (Dy : dy_eq p 0 m e).
  { exists 0. split; [lia|]. split; [lia|]. rewrite !Z.sub_0_r. cbn [Z.pow]. lia. }
  destruct s; cbn [smant].
  - replace (Z.neg m * 2 ^ e) with (Z.neg p) by lia. cbn [of_Z]. apply f_of_dyadic_exact; assumption.
  - rewrite Ep. cbn [of_Z]. apply f_of_dyadic_exact; assumption.
Qed.

Lemma div_eucl_exact x d : 0 < d -> Z.div_eucl (x * d) d = (x, 0).
Proof. intros Hd. pose proof (Z.div_mul x d ltac:(lia)) as Q. pose proof (Z.mod_mul x d ltac:(lia)) as R.
  unfold Z.div, Z.modulo in *. destruct (Z.div_eucl (x * d) d). congruence. Qed.

Lemma roundtrip_neg s m e : bounded prec emax m e = true -> e < 0 ->
  to_f64 (normalize_rat (f_to_Q (S754_finite s m e))) = S754_finite s m e.
Proof. intros B He.
  pose proof (valid_mantissa s m e B) as Mlt.
  cbn [f_to_Q]. fold (smant s m). assert (He' : (0 <=? e) = false) by (apply Z.leb_gt; exact He). rewrite He'.
  set (k := - e). assert (Hk : 0 < k) by (unfold k; lia).
  assert (P : 0 < 2 ^ k) by (apply Z.pow_pos_nonneg; lia).
  set (q0 := smant s m # Z.to_pos (2 ^ k)).
  unfold normalize_rat. rewrite Qred_idem. set (r := Qred q0).
  assert (Hr : Qnum r * 2 ^ k = smant s m * Z.pos (Qden r)).
  { pose proof (Qred_correct q0) as E. fold r in E. unfold Qeq in E. unfold q0 in E. cbn [Qnum Qden] in E.
    rewrite Z2Pos.id in E by lia. exact E. }
  assert (G : Z.gcd (Qnum r) (Z.pos (Qden r)) = 1).
  { apply Qred_iff. unfold r. apply Qred_idem. }
  assert (Sm : Z.abs (smant s m) = Z.pos m) by (destruct s; reflexivity).
  assert (Ha : Z.abs (Qnum r) * 2 ^ k = Z.pos m * Z.pos (Qden r)).
  { rewrite <- Sm, <- (Z.abs_eq (2 ^ k)), <- Z.abs_mul, Hr, Z.abs_mul by lia. reflexivity. }
  assert (Sg : (Qnum r <? 0) = s).
  { destruct s; cbn [smant] in Hr; [apply Z.ltb_lt|apply Z.ltb_ge]; nia. }
  destruct (Pos.eqb (Qden r) 1) eqn:D1.
  - (* the value is an integer below 2^53 *)
    apply Pos.eqb_eq in D1. rewrite D1 in Ha, Hr. rewrite Z.mul_1_r in Ha, Hr.
    assert (Iz : in_int (Qnum r) = true).
    { apply in_int_iff. unfold min_int, max_int. nia. }
    unfold normalize_big. rewrite Iz. cbn [to_f64].
    destruct (Qnum r) as [|p|p] eqn:En; [cbn in Ha; lia| |]; cbn [Z.abs] in Ha;
      cbn [Z.ltb Z.compare] in Sg; subst s; cbn [of_Z]; apply f_of_dyadic_exact; try exact B;
      (exists e; split; [lia|]; split; [lia|]; rewrite Z.sub_diag, Z.mul_1_r; fold k; replace (0 - e) with k by (unfold k; lia); exact Ha).
  - (* a proper fraction: one correctly rounded division *)
    cbn [to_f64]. unfold of_Q. set (n := Qnum r) in *. set (d := Z.pos (Qden r)) in *.
    assert (Hd : 0 < d) by (unfold d; lia).
    assert (Nz : n <> 0) by (intros E; rewrite E in Ha; cbn in Ha; lia).
    set (a := Z.abs n) in *. assert (Hapos : 0 < a) by (unfold a; lia).
    assert (Gd : Z.gcd d a = 1) by (unfold a; rewrite Z.gcd_abs_r, Z.gcd_comm; exact G).
    assert (Dv : (d | 2 ^ k)).
    { apply (Z.gauss d a); [|exact Gd]. exists (Z.pos m). lia. }
    destruct (pow2_divisor k ltac:(lia) d Hd Dv) as (i & Hi & Ed).
    destruct Dv as [c Ec].
    assert (Hc : Z.pos m = a * c) by nia.
    assert (Dd : Zdigits2 d = i + 1).
    { unfold d. cbn [Zdigits2]. apply digits2_unique; [lia|]. fold d. rewrite Ed.
      replace (i + 1 - 1) with i by lia. rewrite Z.pow_add_r by lia. assert (0 < 2 ^ i) by (apply Z.pow_pos_nonneg; lia). lia. }
    assert (Hcpos : 0 < c) by nia.
    assert (Da : Zdigits2 a <= 53) by (apply Zdigits2_le_53; nia).
    set (kk := Z.max 0 (56 + Zdigits2 d - Zdigits2 a)).
    assert (Hkk : i <= kk) by (unfold kk; lia).
    assert (Sh : Z.shiftl a kk = (a * 2 ^ (kk - i)) * d).
    { rewrite Z.shiftl_mul_pow2 by lia. rewrite Ed, <- Z.mul_assoc, <- Z.pow_add_r by lia.
      f_equal. f_equal. lia. }
    destruct n as [|pn|pn] eqn:En; [congruence| |];
    (fold a; fold kk; rewrite Sh, div_eucl_exact by exact Hd; cbn [Z.eqb]; rewrite Z.add_0_r;
     assert (Pq : 0 < 2 * (a * 2 ^ (kk - i))) by (assert (0 < 2 ^ (kk - i)) by (apply Z.pow_pos_nonneg; lia); nia);
     destruct (2 * (a * 2 ^ (kk - i))) as [|mm|mm] eqn:Emm; try lia;
     rewrite Sg; apply f_of_dyadic_exact; [exact B|];
     exists (- kk - 1 - k); split; [lia|]; split; [unfold k; lia|];
     replace (- kk - 1 - (- kk - 1 - k)) with k by lia;
     replace (e - (- kk - 1 - k)) with (kk + 1) by (unfold k; lia);
     rewrite <- Emm, Ec, Hc, Ed;
     replace (2 ^ (kk + 1)) with (2 * (2 ^ (kk - i) * 2 ^ i)) by (rewrite <- Z.pow_add_r, <- Z.pow_succ_r by lia; f_equal; lia);
     ring).
Qed.

(* exact-num then inexact-num *)
Theorem exact_inexact_roundtrip f :
  fvalid f = true -> f_is_finite f = true -> f <> S754_zero true -> fits_int64 f = true ->
  exists v, call CExactNum [NFloat f] None = RVals [v]
    /\ call CInexactNum [v] None = RVals [NFloat f].
Proof. intros Hv Hf Hz Hi. unfold call at 1. unfold call_raw, exact_num. rewrite Hf.
  cbn [map_result map from_go]. eexists. split; [reflexivity|].
  unfold call, call_raw, unary. cbn [map_result map from_go]. f_equal. f_equal. f_equal.
  destruct f as [s|s| |s m e]; try discriminate.
  - destruct s; [congruence|]. reflexivity.
  - cbn [fits_int64] in Hi. destruct (0 <=? e) eqn:E.
    + apply Z.leb_le in E. apply roundtrip_nonneg; assumption.
    + apply Z.leb_gt in E. apply roundtrip_neg; assumption.
Qed.

(* beyond the restriction the documented rule gives an infinity *)
Theorem roundtrip_outside_int64 s m e : 0 <= e -> in_int (smant s m * 2 ^ e) = false ->
  to_f64 (normalize_rat (f_to_Q (S754_finite s m e))) = S754_infinity s.
Proof. intros He Hi. cbn [f_to_Q]. fold (smant s m). apply Z.leb_le in He as He'. rewrite He'.
  unfold normalize_rat. rewrite Qred_z. cbn [Qden Qnum Pos.eqb]. unfold normalize_big. rewrite Hi.
  cbn [to_f64]. rewrite Hi. f_equal. assert (P : 0 < 2 ^ e) by (apply Z.pow_pos_nonneg; lia).
  destruct s; cbn [smant]; [apply Z.ltb_lt|apply Z.ltb_ge]; nia. Qed.
