(* C27 -- proofs, part 1: list helpers, the unrestricted invariant (every
   interleaving), soundness of the acceptor. *)
From verif Require Import lib.Base model.C27.
From Coq Require Import Arith.
Open Scope nat_scope.

(* ------------------------------------------------------------------ *)
(* list helpers *)

Lemma nth_upd {A} (l : list A) i j x :
  nth_error (upd i x l) j =
  if Nat.eqb i j then match nth_error l j with Some _ => Some x | None => None end
  else nth_error l j.
Proof.
  revert i j; induction l as [|y l IH]; intros i j.
  - destruct i, j; cbn; try reflexivity; destruct (Nat.eqb i j); reflexivity.
  - destruct i, j; cbn; try reflexivity. apply IH.
Qed.

Lemma nth_upd_same {A} (l : list A) i x y :
  nth_error l i = Some y -> nth_error (upd i x l) i = Some x.
Proof. intros H. rewrite nth_upd, Nat.eqb_refl, H. reflexivity. Qed.

Lemma nth_upd_inv {A} (l : list A) i j x z :
  nth_error (upd i x l) j = Some z ->
  (i = j /\ z = x /\ exists y, nth_error l j = Some y) \/ (i <> j /\ nth_error l j = Some z).
Proof.
  rewrite nth_upd. destruct (Nat.eqb_spec i j) as [E|E].
  - destruct (nth_error l j) eqn:N; [|discriminate]. intros H; inversion H; subst. left. eauto.
  - intros H. right. split; assumption.
Qed.

Lemma forallb_nth {A} (f : A -> bool) l i x :
  forallb f l = true -> nth_error l i = Some x -> f x = true.
Proof. intros H N. rewrite forallb_forall in H. apply H. eapply nth_error_In; eassumption. Qed.

Lemma nth_forallb {A} (f : A -> bool) l :
  (forall i x, nth_error l i = Some x -> f x = true) -> forallb f l = true.
Proof.
  intros H. apply forallb_forall. intros x I. apply In_nth_error in I as [i N]. eapply H; eassumption.
Qed.

Lemma forallb_upd {A} (f : A -> bool) l i x :
  forallb f l = true -> f x = true -> forallb f (upd i x l) = true.
Proof.
  intros H F. apply nth_forallb. intros j z N.
  apply nth_upd_inv in N as [(_ & -> & _)|(_ & N)]; [assumption|]. eapply forallb_nth; eassumption.
Qed.

Lemma nth_app_one {A} (l : list A) x j z :
  nth_error (l ++ [x]) j = Some z ->
  nth_error l j = Some z \/ (j = length l /\ z = x).
Proof.
  intros H. destruct (Nat.lt_ge_cases j (length l)) as [L|L].
  - rewrite nth_error_app1 in H by assumption. left; assumption.
  - rewrite nth_error_app2 in H by assumption.
    destruct (j - length l) as [|k] eqn:E.
    + cbn in H. inversion H; subst. right. split; [lia|reflexivity].
    + cbn in H. destruct k; discriminate.
Qed.

Lemma nth_app_old {A} (l : list A) x j z :
  nth_error l j = Some z -> nth_error (l ++ [x]) j = Some z.
Proof.
  intros H. rewrite nth_error_app1; [assumption|]. apply nth_error_Some. congruence.
Qed.

Lemma nth_map_inv {A B} (f : A -> B) l j z :
  nth_error (map f l) j = Some z -> exists y, nth_error l j = Some y /\ z = f y.
Proof.
  rewrite nth_error_map. destruct (nth_error l j); cbn; intros H; inversion H; eauto.
Qed.

Lemma nth_repeat {A} (x : A) n j z : nth_error (repeat x n) j = Some z -> z = x.
Proof. intros H. apply nth_error_In in H. apply repeat_spec in H. assumption. Qed.

(* nobody references d once it has no clients *)
Lemma nclients_zero d l s e :
  nclients d l = 0 -> nth_error l s = Some (SConn e) -> e <> d.
Proof.
  unfold nclients. intros Z N E. subst e.
  assert (I : In (SConn d) (filter (client_of d) l)).
  { apply filter_In. split; [eapply nth_error_In; eassumption|]. cbn. apply Nat.eqb_refl. }
  destruct (filter (client_of d) l); [destruct I|discriminate].
Qed.

Lemma drop1_conn d p e : drop1 d p = SConn e -> p = SConn e /\ e <> d.
Proof.
  destruct p; cbn; try discriminate.
  - destruct (Nat.eqb_spec d d0); discriminate.
  - destruct (Nat.eqb_spec d d0); [discriminate|]. intros H; inversion H; subst. split; congruence.
Qed.

Lemma drop1_kill d p e : drop1 d p = SKill e -> p = SKill e /\ e <> d.
Proof.
  destruct p; cbn; try discriminate.
  - destruct (Nat.eqb_spec d d0); [discriminate|]. intros H; inversion H; subst. split; congruence.
  - destruct (Nat.eqb_spec d d0); discriminate.
Qed.

(* ------------------------------------------------------------------ *)
(* The invariant that holds on EVERY interleaving: a shell that holds a
   connection (after a successful Activate, or while killing an outdated
   daemon) refers to a daemon that is inside its serve loop. *)

Definition I1 (st : state) : Prop :=
  forall s d, (nth_error (ss st) s = Some (SConn d) \/ nth_error (ss st) s = Some (SKill d)) ->
  exists x, nth_error (ds st) d = Some x /\ d_pc x = DServe.

Lemma dial_ok st d old : dial st = DROk d old ->
  exists x, nth_error (ds st) d = Some x /\ d_pc x = DServe /\ d_old x = old.
Proof.
  unfold dial. destruct (sock st); try discriminate.
  destruct (nth_error (ds st) d0) eqn:N; [|discriminate].
  destruct (d_pc d1) eqn:P; try discriminate.
  intros H; inversion H; subst. eauto.
Qed.

(* generic: only shell s changes, to a pc that is fine *)
Lemma I1_sets st s p' :
  I1 st ->
  (forall d, p' = SConn d \/ p' = SKill d -> exists x, nth_error (ds st) d = Some x /\ d_pc x = DServe) ->
  I1 (sets st s p').
Proof.
  intros H F s0 d C. cbn [sets ss ds] in *.
  destruct C as [C|C]; apply nth_upd_inv in C as [(_ & E & _)|(_ & N)]; eauto.
Qed.

(* generic: daemon d changes; fine if it stays in the loop or nobody references it *)
Lemma I1_setd st d x' k l sh :
  I1 st -> sh = ss st ->
  (d_pc x' = DServe \/ forall s, nth_error (ss st) s <> Some (SConn d) /\ nth_error (ss st) s <> Some (SKill d)) ->
  I1 (mkSt k l (upd d x' (ds st)) sh).
Proof.
  intros H -> F s0 e C. cbn [ss ds] in *.
  destruct (H s0 e C) as (x & N & P).
  destruct (Nat.eq_dec d e) as [->|NE].
  - destruct F as [F|F].
    + exists x'. split; [eapply nth_upd_same; eassumption|assumption].
    + destruct (F s0) as [F1 F2]. destruct C; contradiction.
  - exists x. split; [|assumption]. rewrite nth_upd.
    destruct (Nat.eqb_spec d e); [contradiction|assumption].
Qed.

Lemma I1_drop st d x' k l :
  I1 st -> I1 (mkSt k l (upd d x' (ds st)) (drop d (ss st))).
Proof.
  intros H s0 e C. cbn [ss ds] in *. unfold drop in C.
  assert (C' : (nth_error (ss st) s0 = Some (SConn e) \/ nth_error (ss st) s0 = Some (SKill e)) /\ e <> d).
  { destruct C as [C|C]; apply nth_map_inv in C as (y & N & E); symmetry in E.
    - apply drop1_conn in E as [-> NE]. auto.
    - apply drop1_kill in E as [-> NE]. auto. }
  destruct C' as [C' NE]. destruct (H s0 e C') as (x & N & P).
  exists x. split; [|assumption]. rewrite nth_upd.
  destruct (Nat.eqb_spec d e); [congruence|assumption].
Qed.

Lemma I1_step st l st' : I1 st -> step st l = Some st' -> I1 st'.
Proof.
  intros H S. destruct l; cbn [step] in S.
  - (* LBegin *) destruct (nth_error (ss st) s) as [[]|]; inversion S; subst.
    apply I1_sets; [assumption|]. intros d [E|E]; discriminate.
  - (* LLstat *) destruct (nth_error (ss st) s) as [[]|]; inversion S; subst.
    apply I1_sets; [assumption|]. intros d [E|E]; destruct (sock st); discriminate.
  - (* LDial *) destruct (nth_error (ss st) s) as [[]|]; try discriminate.
    destruct (dial st) eqn:D; inversion S; subst; try (apply I1_sets; [assumption|]; intros e [E|E]; discriminate).
    apply dial_ok in D as (x & N & P & O).
    apply I1_sets; [assumption|]. intros e [E|E]; destruct old; inversion E; subst; eauto.
  - (* LRemove *) destruct (nth_error (ss st) s) as [[]|]; try discriminate.
    destruct (sock st); inversion S; subst.
    + apply I1_sets; [assumption|]. intros e [E|E]; discriminate.
    + apply (I1_sets (mkSt SkNone (lock st) (ds st) (ss st)) s SSpawn); [exact H|]. intros e [E|E]; discriminate.
    + apply (I1_sets (mkSt SkNone (lock st) (ds st) (ss st)) s SSpawn); [exact H|]. intros e [E|E]; discriminate.
  - (* LKillSig *) destruct (nth_error (ss st) s) as [[]|] eqn:NS; try discriminate.
    destruct (nth_error (ds st) d) eqn:ND.
    + destruct (d_pc d0) eqn:P; inversion S; subst;
        try (apply I1_sets; [assumption|]; intros e [E|E]; discriminate).
      pose proof (I1_drop st d (set_pc d0 DExit1) (sock st) (lock st) H) as H2.
      apply (I1_sets _ s SKillWait) in H2; [exact H2|]. intros e [E|E]; discriminate.
    + inversion S; subst. apply I1_sets; [assumption|]. intros e [E|E]; discriminate.
  - (* LKillWait *) destruct (nth_error (ss st) s) as [[]|]; try discriminate.
    destruct (sock st); inversion S; subst. apply I1_sets; [assumption|]. intros e [E|E]; discriminate.
  - (* LKillTimeout *) destruct (nth_error (ss st) s) as [[]|]; try discriminate.
    destruct (sock st); inversion S; subst; apply I1_sets; try assumption; intros e [E|E]; discriminate.
  - (* LSpawn *) destruct (nth_error (ss st) s) as [[]|]; inversion S; subst.
    intros s0 e C. cbn [ss ds] in *.
    assert (C' : nth_error (ss st) s0 = Some (SConn e) \/ nth_error (ss st) s0 = Some (SKill e)).
    { destruct C as [C|C]; apply nth_upd_inv in C as [(_ & E & _)|(_ & N)]; try discriminate; auto. }
    destruct (H s0 e C') as (x & N & P). exists x. split; [apply nth_app_old|]; assumption.
  - (* LSpawnFail *) destruct (nth_error (ss st) s) as [[]|]; inversion S; subst.
    apply I1_sets; [assumption|]. intros e [E|E]; discriminate.
  - (* LPollLstat *) destruct (nth_error (ss st) s) as [[]|]; try discriminate.
    destruct (sock st); inversion S; subst; apply I1_sets; try assumption; intros e [E|E]; discriminate.
  - (* LPollDial *) destruct (nth_error (ss st) s) as [[]|]; try discriminate.
    destruct (dial st) eqn:D; inversion S; subst; try (apply I1_sets; [assumption|]; intros e [E|E]; discriminate).
    apply dial_ok in D as (x & N & P & O).
    apply I1_sets; [assumption|]. intros e [E|E]; destruct old; inversion E; subst; eauto.
  - (* LPollTimeout *) destruct (nth_error (ss st) s) as [[]|]; inversion S; subst.
    apply I1_sets; [assumption|]. intros e [E|E]; discriminate.
  - (* LLeave *) destruct (nth_error (ss st) s) as [[]|] eqn:NS; try discriminate.
    assert (H1 : I1 (sets st s SGone)).
    { apply I1_sets; [assumption|]. intros e [E|E]; discriminate. }
    destruct (nth_error (ds st) d) eqn:ND; [|inversion S; subst; exact H1].
    destruct (d_pc d0) eqn:P; inversion S; subst; try exact H1.
    destruct (Nat.eqb_spec (nclients d (upd s SGone (ss st))) 0) as [Z|Z]; inversion S; subst; [|exact H1].
    apply (I1_setd (sets st s SGone) d (set_pc d0 DExit1) (sock st) (lock st) (upd s SGone (ss st)) H1 eq_refl).
    right. intros s0. cbn [sets ss]. split; intros C.
    + exact (nclients_zero _ _ _ _ Z C eq_refl).
    + unfold nclients in Z.
      assert (I : In (SKill d) (filter (client_of d) (upd s SGone (ss st)))).
      { apply filter_In. split; [eapply nth_error_In; eassumption|]. cbn. apply Nat.eqb_refl. }
      destruct (filter (client_of d) (upd s SGone (ss st))); [destruct I|discriminate].
  - (* LListen *) destruct (nth_error (ds st) d) eqn:ND; try discriminate.
    destruct (d_pc d0) eqn:P; try discriminate.
    assert (F : forall s, nth_error (ss st) s <> Some (SConn d) /\ nth_error (ss st) s <> Some (SKill d)).
    { intros s0. split; intros C; [destruct (H s0 d (or_introl C)) as (x & N & Q)|destruct (H s0 d (or_intror C)) as (x & N & Q)];
        congruence. }
    destruct (sock st); inversion S; subst; eapply I1_setd; eauto.
  - (* LOpenDB *) destruct (nth_error (ds st) d) eqn:ND; try discriminate.
    destruct (d_pc d0) eqn:P; try discriminate. destruct (lock st); inversion S; subst.
    eapply I1_setd; eauto.
  - (* LDBTimeout *) destruct (nth_error (ds st) d) eqn:ND; try discriminate.
    destruct (d_pc d0) eqn:P; try discriminate. destruct (lock st); inversion S; subst.
    eapply I1_setd; eauto.
  - (* LExit1 *) destruct (nth_error (ds st) d) eqn:ND; try discriminate.
    destruct (d_pc d0) eqn:P; inversion S; subst.
    eapply I1_setd; eauto. right. intros s0.
    split; intros C; [destruct (H s0 d (or_introl C)) as (x & N & Q)|destruct (H s0 d (or_intror C)) as (x & N & Q)]; congruence.
  - (* LExit2 *) destruct (nth_error (ds st) d) eqn:ND; try discriminate.
    destruct (d_pc d0) eqn:P; inversion S; subst.
    eapply I1_setd; eauto. right. intros s0.
    split; intros C; [destruct (H s0 d (or_introl C)) as (x & N & Q)|destruct (H s0 d (or_intror C)) as (x & N & Q)]; congruence.
  - (* LExit3 *) destruct (nth_error (ds st) d) eqn:ND; try discriminate.
    destruct (d_pc d0) eqn:P; inversion S; subst.
    eapply I1_setd; eauto. right. intros s0.
    split; intros C; [destruct (H s0 d (or_introl C)) as (x & N & Q)|destruct (H s0 d (or_intror C)) as (x & N & Q)]; congruence.
  - (* LCrash *) destruct (nth_error (ds st) d) eqn:ND; try discriminate.
    destruct (d_pc d0) eqn:P; inversion S; subst; apply I1_drop; assumption.
Qed.

Lemma I1_run ls : forall st st', I1 st -> run st ls = Some st' -> I1 st'.
Proof.
  induction ls as [|l ls IH]; intros st st' H R; cbn in R.
  - inversion R; subst; assumption.
  - destruct (step st l) eqn:S; [|discriminate]. eapply IH; [|eassumption]. eapply I1_step; eassumption.
Qed.

Lemma I1_init n stale : I1 (init n stale).
Proof. intros s d [C|C]; cbn in C; apply nth_repeat in C; discriminate. Qed.

Lemma I1_init_old n : I1 (init_old n).
Proof. intros s d [C|C]; cbn in C; apply nth_repeat in C; discriminate. Qed.

(* the initial states the theorems speak about *)
Definition initial (st : state) : Prop :=
  (exists n stale, st = init n stale) \/ (exists n, st = init_old n).

Lemma I1_initial st : initial st -> I1 st.
Proof. intros [(n & b & ->)|(n & ->)]; [apply I1_init|apply I1_init_old]. Qed.

Lemma pc_of_serve st d x : nth_error (ds st) d = Some x -> d_pc x = DServe -> pc_of st d = DServe.
Proof. unfold pc_of. intros -> P. assumption. Qed.

(* activation_result / serves_while_clients, every interleaving *)
Lemma activation_result st0 ls st s d :
  initial st0 -> run st0 ls = Some st -> nth_error (ss st) s = Some (SConn d) -> pc_of st d = DServe.
Proof.
  intros I R C. pose proof (I1_run ls st0 st (I1_initial _ I) R) as H.
  destruct (H s d (or_introl C)) as (x & N & P). eapply pc_of_serve; eassumption.
Qed.


(* serves_while_clients: whatever happens next (any label of any process), if the
   client is still connected afterwards, its daemon is still inside the serve loop;
   a daemon leaves the loop only through LLeave of its last client, a signal or a
   crash, and the last two turn every client into SDropped/SErr in the same step *)
Lemma serves_while_clients st0 ls st l st' s d :
  initial st0 -> run st0 ls = Some st -> step st l = Some st' ->
  nth_error (ss st) s = Some (SConn d) -> nth_error (ss st') s = Some (SConn d) ->
  pc_of st d = DServe /\ pc_of st' d = DServe.
Proof.
  intros I R S C C'. pose proof (I1_run ls st0 st (I1_initial _ I) R) as H.
  pose proof (I1_step st l st' H S) as H'.
  destruct (H s d (or_introl C)) as (x & N & P). destruct (H' s d (or_introl C')) as (x' & N' & P').
  split; eapply pc_of_serve; eassumption.
Qed.
