(* C30 -- proofs about fixRegions and the segment assembly of highlight. *)
From verif Require Import lib.Base lib.ListX model.C30.
From Coq Require Import Permutation Sorting.Sorted Arith Lia.
Open Scope nat_scope.

(* ------------------------------------------------------------------ *)
(* the ordering of fixRegions is the ordering of a numeric key *)

Definition rank (k : kind) : nat := match k with Semantic => 0 | Lexical => 1 end.
Definition key (r : region) : nat := 2 * r_begin r + rank (r_kind r).

Lemma less_key a b : less a b = (key a <? key b).
Proof.
  unfold less, key.
  destruct (Nat.ltb_spec (r_begin a) (r_begin b)) as [Hlt|Hge];
    [symmetry; apply Nat.ltb_lt; destruct (r_kind a), (r_kind b); cbn [rank]; lia|].
  destruct (Nat.eqb_spec (r_begin a) (r_begin b)) as [Heq|Hne].
  - destruct (r_kind a), (r_kind b); cbn [rank]; symmetry;
      solve [apply Nat.ltb_lt; lia | apply Nat.ltb_ge; lia].
  - symmetry; apply Nat.ltb_ge. destruct (r_kind a), (r_kind b); cbn [rank]; lia.
Qed.

(* a comes no later than b in the order of sort.Slice: not (less b a) *)
Definition leq (a b : region) : Prop := less b a = false.

Lemma leq_key a b : leq a b <-> key a <= key b.
Proof. unfold leq. rewrite less_key. apply Nat.ltb_ge. Qed.

Lemma leq_trans a b c : leq a b -> leq b c -> leq a c.
Proof. rewrite !leq_key. lia. Qed.

Lemma leq_begin a b : leq a b -> r_begin a <= r_begin b.
Proof.
  rewrite leq_key. unfold key. destruct (r_kind a), (r_kind b); cbn [rank]; lia.
Qed.

(* the contract of sort.Slice with this less function *)
Definition sort_ok (sort : list region -> list region) : Prop :=
  forall l, Permutation (sort l) l /\ StronglySorted leq (sort l).

(* ---- the executable instance satisfies the contract ---- *)
Lemma insert_perm x l : Permutation (insert x l) (x :: l).
Proof.
  induction l as [|y r IH]; cbn [insert]; [reflexivity|].
  destruct (less y x); [|reflexivity].
  rewrite IH. apply perm_swap.
Qed.

Lemma Forall_insert (P : region -> Prop) x l :
  P x -> Forall P l -> Forall P (insert x l).
Proof.
  intros Hx Hl. eapply Permutation_Forall; [symmetry; apply insert_perm|].
  constructor; assumption.
Qed.

Lemma insert_sorted x l : StronglySorted leq l -> StronglySorted leq (insert x l).
Proof.
  induction l as [|y r IH]; intros Hs; cbn [insert].
  - constructor; constructor.
  - apply StronglySorted_inv in Hs as [Hr Hy].
    destruct (less y x) eqn:E.
    + constructor; [apply IH; exact Hr|].
      apply Forall_insert; [|exact Hy].
      apply leq_key. rewrite less_key in E. apply Nat.ltb_lt in E. lia.
    + constructor; [constructor; assumption|].
      constructor; [exact E|].
      eapply Forall_impl; [|exact Hy]. intros z Hz. eapply leq_trans; [exact E|exact Hz].
Qed.

Lemma isort_perm l : Permutation (isort l) l.
Proof.
  induction l as [|x l IH]; [reflexivity|].
  cbn [isort fold_right]. rewrite insert_perm. constructor. exact IH.
Qed.

Lemma isort_sorted l : StronglySorted leq (isort l).
Proof.
  induction l as [|x l IH]; [constructor|].
  cbn [isort fold_right]. apply insert_sorted. exact IH.
Qed.

Lemma isort_ok : sort_ok isort.
Proof. intros l; split; [apply isort_perm|apply isort_sorted]. Qed.

(* ------------------------------------------------------------------ *)
(* overlap removal *)

(* every region begins at or after the end of the one before it *)
Fixpoint chain (lastEnd : nat) (rs : list region) : Prop :=
  match rs with
  | [] => True
  | r :: rest => lastEnd <= r_begin r /\ chain (r_end r) rest
  end.

Definition wf_region (len : nat) (r : region) : Prop :=
  r_begin r <= r_end r /\ r_end r <= len.

Lemma region_wf_spec len r : region_wf len r = true <-> wf_region len r.
Proof.
  unfold region_wf, wf_region. rewrite andb_true_iff, !Nat.leb_le. reflexivity.
Qed.

Lemma regions_wf_spec len rs : regions_wf len rs = true <-> Forall (wf_region len) rs.
Proof.
  unfold regions_wf. rewrite forallb_forall, Forall_forall.
  split; intros H x Hx; apply region_wf_spec, H, Hx.
Qed.

Lemma ro_chain rs : forall e, chain e (remove_overlaps e rs).
Proof.
  induction rs as [|r rest IH]; intros e; cbn [remove_overlaps]; [exact I|].
  destruct (Nat.ltb_spec (r_begin r) e) as [Hlt|Hge]; [apply IH|].
  cbn [chain]. split; [exact Hge|apply IH].
Qed.

Lemma ro_in rs : forall e x, In x (remove_overlaps e rs) -> In x rs.
Proof.
  induction rs as [|r rest IH]; intros e x Hx; cbn [remove_overlaps] in Hx; [exact Hx|].
  destruct (r_begin r <? e).
  - right. eapply IH, Hx.
  - destruct Hx as [Hx|Hx]; [left; exact Hx|right; eapply IH, Hx].
Qed.

Lemma ro_Forall (P : region -> Prop) rs e : Forall P rs -> Forall P (remove_overlaps e rs).
Proof.
  rewrite !Forall_forall. intros H x Hx. apply H. eapply ro_in, Hx.
Qed.

Lemma ro_sorted (R : region -> region -> Prop) rs :
  forall e, StronglySorted R rs -> StronglySorted R (remove_overlaps e rs).
Proof.
  induction rs as [|r rest IH]; intros e Hs; cbn [remove_overlaps]; [constructor|].
  apply StronglySorted_inv in Hs as [Hrest Hr].
  destruct (r_begin r <? e); [apply IH, Hrest|].
  constructor; [apply IH, Hrest|apply ro_Forall, Hr].
Qed.

(* a region that is dropped begins before the end of a region that is kept
   (or before the initial lastEnd) *)
Lemma ro_dropped rs : forall e x,
  In x rs -> ~ In x (remove_overlaps e rs) ->
  r_begin x < e \/ exists k, In k (remove_overlaps e rs) /\ r_begin x < r_end k.
Proof.
  induction rs as [|r rest IH]; intros e x Hin Hnot; [destruct Hin|].
  cbn [remove_overlaps] in *.
  destruct (Nat.ltb_spec (r_begin r) e) as [Hlt|Hge].
  - destruct Hin as [->|Hin]; [left; exact Hlt|]. apply IH; assumption.
  - destruct Hin as [->|Hin]; [exfalso; apply Hnot; left; reflexivity|].
    destruct (IH (r_end r) x Hin) as [Hb|[k [Hk Hb]]].
    + intros Hc. apply Hnot. right. exact Hc.
    + right. exists r. split; [left; reflexivity|exact Hb].
    + right. exists k. split; [right; exact Hk|exact Hb].
Qed.

(* with begin <= end everywhere, a chain is ordered and pairwise disjoint *)
Lemma chain_lower len rs : forall e,
  chain e rs -> Forall (wf_region len) rs -> Forall (fun x => e <= r_begin x) rs.
Proof.
  induction rs as [|r rest IH]; intros e Hc Hw; [constructor|].
  cbn [chain] in Hc. destruct Hc as [Hb Hc].
  apply Forall_cons_iff in Hw as [[Hbe _] Hw].
  constructor; [exact Hb|].
  eapply Forall_impl; [|apply (IH (r_end r) Hc Hw)]. cbn. intros z Hz. lia.
Qed.

Definition before (a b : region) : Prop := r_end a <= r_begin b.

Lemma chain_disjoint len rs : forall e,
  chain e rs -> Forall (wf_region len) rs -> StronglySorted before rs.
Proof.
  induction rs as [|r rest IH]; intros e Hc Hw; [constructor|].
  cbn [chain] in Hc. destruct Hc as [_ Hc].
  apply Forall_cons_iff in Hw as [_ Hw].
  constructor; [eapply IH; eassumption|].
  apply (chain_lower len rest (r_end r) Hc Hw).
Qed.

Section FixProofs.
  Variable sort : list region -> list region.
  Hypothesis sort_contract : sort_ok sort.

  Lemma fix_in raw x : In x (fixRegions_with sort raw) -> In x raw.
  Proof.
    intros Hx. apply ro_in in Hx.
    eapply Permutation_in; [apply (proj1 (sort_contract raw))|exact Hx].
  Qed.

  Lemma fix_wf len raw :
    Forall (wf_region len) raw -> Forall (wf_region len) (fixRegions_with sort raw).
  Proof.
    rewrite !Forall_forall. intros H x Hx. apply H. eapply fix_in, Hx.
  Qed.

  Lemma fix_chain raw : chain 0 (fixRegions_with sort raw).
  Proof. apply ro_chain. Qed.

  Lemma fix_regions_disjoint_sorted len raw :
    Forall (wf_region len) raw ->
    let out := fixRegions_with sort raw in
    incl out raw /\ StronglySorted before out /\ StronglySorted leq out.
  Proof.
    intros Hw out. split; [|split].
    - intros x Hx. eapply fix_in, Hx.
    - eapply chain_disjoint; [apply fix_chain|apply fix_wf, Hw].
    - apply ro_sorted. apply (proj2 (sort_contract raw)).
  Qed.

  Lemma fix_regions_first_wins raw x :
    In x raw -> ~ In x (fixRegions_with sort raw) ->
    exists k, In k (fixRegions_with sort raw) /\ r_begin x < r_end k.
  Proof.
    intros Hin Hnot.
    assert (Hs : In x (sort raw)).
    { eapply Permutation_in; [symmetry; apply (proj1 (sort_contract raw))|exact Hin]. }
    destruct (ro_dropped (sort raw) 0 x Hs Hnot) as [Hb|H]; [lia|exact H].
  Qed.
End FixProofs.

(* ------------------------------------------------------------------ *)
(* assembly *)

Lemma spell_app t1 t2 : spell (t1 ++ t2) = spell t1 ++ spell t2.
Proof. unfold spell. apply flat_map_app. Qed.

Lemma slice_skipn (code : bytes) a b :
  a <= b -> slice a b code ++ skipn b code = skipn a code.
Proof.
  intros Hab. unfold slice.
  replace (skipn b code) with (skipn (b - a) (skipn a code)).
  - apply firstn_skipn.
  - rewrite skipn_skipn. f_equal. lia.
Qed.

Lemma slice_to_end (code : bytes) a : slice a (length code) code = skipn a code.
Proof.
  unfold slice. apply firstn_all2. rewrite skipn_length. lia.
Qed.

Lemma assemble_spell th m (code : bytes) rs : forall e,
  e <= length code -> chain e rs -> Forall (wf_region (length code)) rs ->
  spell (assemble th m code e rs) = skipn e code.
Proof.
  induction rs as [|r rest IH]; intros e He Hc Hw; cbn [assemble].
  - destruct (Nat.ltb_spec e (length code)) as [Hlt|Hge].
    + cbn [spell flat_map s_text]. rewrite app_nil_r. apply slice_to_end.
    + cbn [spell flat_map]. symmetry. apply skipn_all2. unfold bytes in *. lia.
  - cbn [chain] in Hc. destruct Hc as [Hb Hc].
    apply Forall_cons_iff in Hw as [[Hbe Hel] Hw].
    rewrite spell_app. cbn [spell flat_map s_text]. fold (spell (assemble th m code (r_end r) rest)).
    rewrite (IH (r_end r) Hel Hc Hw).
    destruct (Nat.ltb_spec e (r_begin r)) as [Hlt|Hge].
    + cbn [spell flat_map s_text]. rewrite app_nil_r.
      rewrite (slice_skipn code (r_begin r) (r_end r) Hbe). apply slice_skipn. exact Hb.
    + cbn [spell flat_map app]. rewrite (slice_skipn code (r_begin r) (r_end r) Hbe). f_equal. lia.
Qed.

(* for every code and every list of regions inside the code that is a chain
   from 0: the concatenated segment texts are the code *)
Lemma assemble_content_chain th m (code : bytes) rs :
  chain 0 rs -> Forall (wf_region (length code)) rs ->
  spell (assemble th m code 0 rs) = code.
Proof.
  intros Hc Hw. rewrite (assemble_spell th m code rs 0); [reflexivity|lia|exact Hc|exact Hw].
Qed.

(* highlight: for every code and every raw region list inside the code *)
Lemma assemble_content sort th m (code : bytes) raw :
  sort_ok sort -> Forall (wf_region (length code)) raw ->
  spell (highlight_with sort th m code raw) = code.
Proof.
  intros Hs Hw. unfold highlight_with.
  apply assemble_content_chain; [apply fix_chain|apply fix_wf; assumption].
Qed.

(* the segment texts are slices of the code, styles do not matter: the
   immediate text and the late text have the same segment texts *)
Lemma assemble_texts_mode th m1 m2 (code : bytes) rs : forall e,
  map s_text (assemble th m1 code e rs) = map s_text (assemble th m2 code e rs).
Proof.
  induction rs as [|r rest IH]; intros e; cbn [assemble].
  - destruct (e <? length code); reflexivity.
  - rewrite !map_app. cbn [map s_text]. rewrite (IH (r_end r)).
    destruct (e <? r_begin r); reflexivity.
Qed.

(* ------------------------------------------------------------------ *)
(* the acceptor for observed results of the real fixRegions *)

Lemma kind_eqb_eq a b : kind_eqb a b = true -> a = b.
Proof. destruct a, b; cbn; congruence. Qed.

Lemma region_eqb_eq a b : region_eqb a b = true <-> a = b.
Proof.
  split.
  - unfold region_eqb. rewrite !andb_true_iff. intros [[[H1 H2] H3] H4].
    apply Nat.eqb_eq in H1, H2. apply kind_eqb_eq in H3. apply bytes_eqb_spec in H4.
    destruct a, b; cbn in *; subst; reflexivity.
  - intros ->. unfold region_eqb. rewrite !Nat.eqb_refl, bytes_eqb_refl.
    destruct (r_kind b); reflexivity.
Qed.

Lemma regions_eqb_eq a b : regions_eqb a b = true <-> a = b.
Proof. apply list_eqb_spec. intros x y. apply region_eqb_eq. Qed.

Lemma remove_one_perm x l : forall l', remove_one x l = Some l' -> Permutation l (x :: l').
Proof.
  induction l as [|y r IH]; intros l' H; cbn [remove_one] in H; [discriminate|].
  destruct (region_eqb x y) eqn:E.
  - apply region_eqb_eq in E. injection H as <-. subst. reflexivity.
  - destruct (remove_one x r) as [r'|] eqn:E2; [|discriminate].
    injection H as <-. rewrite (IH r' eq_refl). apply perm_swap.
Qed.

Lemma remove_all_perm xs : forall l rest,
  remove_all xs l = Some rest -> Permutation l (xs ++ rest).
Proof.
  induction xs as [|x xs IH]; intros l rest H; cbn [remove_all] in H.
  - injection H as <-. reflexivity.
  - destruct (remove_one x l) as [l'|] eqn:E; [|discriminate].
    rewrite (remove_one_perm x l l' E). cbn [app]. constructor. apply IH, H.
Qed.

(* an accepted result is remove_overlaps of a sorted permutation of raw *)
Lemma fix_accepts_sound raw obs :
  fix_accepts raw obs = true ->
  exists p, Permutation p raw /\ StronglySorted leq p /\ remove_overlaps 0 p = obs.
Proof.
  unfold fix_accepts. destruct (remove_all obs raw) as [rest|] eqn:E; [|discriminate].
  intros H. apply regions_eqb_eq in H.
  exists (fix_witness obs rest). split; [|split].
  - unfold fix_witness. rewrite isort_perm. symmetry. apply remove_all_perm, E.
  - apply isort_sorted.
  - exact H.
Qed.

(* so the text assembled from an accepted region list spells the code *)
Lemma fix_accepts_content th m (code : bytes) raw obs :
  regions_wf (length code) raw = true -> fix_accepts raw obs = true ->
  spell (assemble th m code 0 obs) = code.
Proof.
  intros Hw Ha. apply regions_wf_spec in Hw.
  destruct (fix_accepts_sound raw obs Ha) as [p [Hp [_ Hro]]]. subst obs.
  apply assemble_content_chain; [apply ro_chain|].
  apply ro_Forall. eapply Permutation_Forall; [symmetry; exact Hp|exact Hw].
Qed.

(* the model's own fixRegions is accepted for its own output *)
Lemma oracle_C30_sound (code : bytes) ret late :
  check_C30 code ret late = true ->
  spell ret = code /\ (forall t, late = Some t -> spell t = code).
Proof.
  unfold check_C30. rewrite andb_true_iff. intros [H1 H2].
  apply bytes_eqb_spec in H1. split; [exact H1|].
  intros t ->. apply bytes_eqb_spec in H2. exact H2.
Qed.
