(* C10, part 2: the model of order meets the specification for every input,
   for every sort that satisfies the stable-sort contract; option
   equivalences; failure atomicity; soundness of the oracle. *)
From Coq Require Import Permutation Sorted.
From verif Require Import lib.Base model.C10 proofs.C10_sort.
Open Scope nat_scope.

Lemma in_combine_fst {A B} (a : list A) (b : list B) p : In p (combine a b) -> In (fst p) a.
Proof. destruct p as [x y]. apply in_combine_l. Qed.
Lemma in_combine_snd {A B} (a : list A) (b : list B) p : In p (combine a b) -> In (snd p) b.
Proof. destruct p as [x y]. apply in_combine_r. Qed.

(* ---------- order_gen, unfolded ---------- *)
Definition keyed_of (kf : option (nat -> value -> errkind + value)) (vals : list value)
  : (errkind * nat) + (list value * nat) :=
  match kf with
  | None => inr (vals, 0)
  | Some f =>
    match keys_from f 1 vals with
    | inl (e, n) => inl (e, n)
    | inr ks => inr (ks, length vals)
    end
  end.

Lemma order_gen_unfold S kf okl fl rv vals :
  order_gen S kf okl fl rv vals =
  match keyed_of kf vals with
  | inl (e, n) => mkRes [] (Some e) n 0
  | inr (ks, kc) =>
    let st := S item (item_less okl rv) (combine ks vals) in
    match first_fail fl rv 1 (snd st) with
    | Some (e, n) => mkRes [] (Some e) kc n
    | None => mkRes (map snd (fst st)) None kc (length (snd st))
    end
  end.
Proof. unfold order_gen, keyed_of. destruct kf as [f|]; [|reflexivity].
  destruct (keys_from f 1 vals) as [[e n]|ks]; reflexivity. Qed.

Lemma keys_from_length f vs : forall i ks, keys_from f i vs = inr ks -> length ks = length vs.
Proof.
  induction vs as [|v r IH]; intros i ks H; simpl in H.
  - inversion H; reflexivity.
  - destruct (f i v) as [e|k]; [discriminate|].
    destruct (keys_from f (S i) r) as [e|ks'] eqn:E; [discriminate|].
    inversion H; subst. simpl. f_equal. eapply IH; eauto.
Qed.

Lemma keyed_of_length kf vals ks kc : keyed_of kf vals = inr (ks, kc) -> length ks = length vals.
Proof.
  unfold keyed_of. destruct kf as [f|]; [|intros H; inversion H; reflexivity].
  destruct (keys_from f 1 vals) as [[e n]|ks'] eqn:E; [discriminate|].
  intros H; inversion H; subst. eapply keys_from_length; eauto.
Qed.

Lemma item_less_eq okl rv p q :
  item_less okl rv p q = if rv then okl (fst q) (fst p) else okl (fst p) (fst q).
Proof. unfold item_less, cmp_args. destruct rv; reflexivity. Qed.

(* a strict weak order on the keys gives one on the items, in both directions *)
Lemma SWO_items okl rv ks vals :
  SWO_on okl ks -> SWO_on (item_less okl rv) (combine ks vals).
Proof.
  intros [A N]. split.
  - intros a b Ia Ib. apply in_combine_fst in Ia, Ib. rewrite !item_less_eq.
    destruct rv; intros H; apply A; auto.
  - intros a b c Ia Ib Ic. apply in_combine_fst in Ia, Ib, Ic. rewrite !item_less_eq.
    destruct rv; intros H1 H2; [apply (N _ (fst b))|apply (N _ (fst b))]; auto.
Qed.

(* first_fail finds a failing call of the trace, and only those *)
Lemma first_fail_some fl rv tr : forall i e n,
  first_fail fl rv i tr = Some (e, n) ->
  exists p q, In (p, q) tr /\
              fl n (fst (cmp_args rv p q)) (snd (cmp_args rv p q)) = Some e.
Proof.
  induction tr as [|[p q] r IH]; intros i e n H; simpl in H; [discriminate|].
  destruct (fl i (fst (cmp_args rv p q)) (snd (cmp_args rv p q))) as [e'|] eqn:F.
  - inversion H; subst. exists p, q. split; [left; reflexivity|exact F].
  - apply IH in H as (p' & q' & I & F'). exists p', q'. split; [right; exact I|exact F'].
Qed.

Lemma first_fail_none fl rv tr : forall i,
  first_fail fl rv i tr = None ->
  forall k p q, nth_error tr k = Some (p, q) ->
                fl (i + k) (fst (cmp_args rv p q)) (snd (cmp_args rv p q)) = None.
Proof.
  induction tr as [|[p q] r IH]; intros i H k p' q' Hk; [destruct k; discriminate|].
  simpl in H.
  destruct (fl i (fst (cmp_args rv p q)) (snd (cmp_args rv p q))) as [e'|] eqn:F; [discriminate|].
  destruct k as [|k]; simpl in Hk.
  - inversion Hk; subst. rewrite Nat.add_0_r. exact F.
  - replace (i + S k) with (S i + k) by lia. eapply IH; eauto.
Qed.

Lemma first_fail_nth fl rv tr : forall i k p q e,
  nth_error tr k = Some (p, q) ->
  fl (i + k) (fst (cmp_args rv p q)) (snd (cmp_args rv p q)) = Some e ->
  first_fail fl rv i tr <> None.
Proof.
  intros i k p q e Hk F C. rewrite (first_fail_none _ _ _ _ C _ _ _ Hk) in F. discriminate.
Qed.

Lemma first_fail_ext fl fl' rv tr : (forall i a b, fl i a b = fl' i a b) ->
  forall i, first_fail fl rv i tr = first_fail fl' rv i tr.
Proof.
  intros E. induction tr as [|[p q] r IH]; intros i; simpl; [reflexivity|].
  rewrite E, IH. reflexivity.
Qed.

(* ---------- the theorems about order_gen ---------- *)
Section Gen.
  Variable S : sorter.
  Hypothesis C : StableSortContract S.
  Variable kf : option (nat -> value -> errkind + value).
  Variable okl : value -> value -> bool.
  Variable fl : nat -> value -> value -> option errkind.
  Variable rv : bool.

  Let res vals := order_gen S kf okl fl rv vals.

  (* what is written is a rearrangement of the input *)
  Lemma gen_perm vals : r_err (res vals) = None -> Permutation vals (r_out (res vals)).
  Proof.
    unfold res. rewrite order_gen_unfold. destruct (keyed_of kf vals) as [[e n]|[ks kc]] eqn:K.
    - simpl. discriminate.
    - cbv zeta. destruct (first_fail fl rv 1 _) as [[e n]|]; simpl; [discriminate|]. intros _.
      destruct C as (CP & _). specialize (CP item (item_less okl rv) (combine ks vals)).
      apply (Permutation_map snd) in CP.
      rewrite map_snd_combine in CP by (eapply keyed_of_length; eauto). exact CP.
  Qed.

  (* the decorated output is the stable sorted permutation of the decorated input *)
  Lemma gen_stable vals ks kc :
    keyed_of kf vals = inr (ks, kc) -> SWO_on okl ks -> r_err (res vals) = None ->
    exists dout, r_out (res vals) = map snd dout /\
                 StableSorted (item_less okl rv) (combine ks vals) dout.
  Proof.
    intros K W. unfold res. rewrite order_gen_unfold, K. cbv zeta.
    destruct (first_fail fl rv 1 _) as [[e n]|]; simpl; [discriminate|]. intros _.
    eexists; split; [reflexivity|]. destruct C as (_ & CS & _). apply CS. apply SWO_items. exact W.
  Qed.

  (* failure is atomic, whatever failed *)
  Lemma gen_atomic vals : r_err (res vals) <> None -> r_out (res vals) = [].
  Proof.
    unfold res. rewrite order_gen_unfold. destruct (keyed_of kf vals) as [[e n]|[ks kc]]; [reflexivity|].
    cbv zeta. destruct (first_fail fl rv 1 _) as [[e n]|]; simpl; [reflexivity|]. congruence.
  Qed.

  (* a failing &key call makes order fail with that error, after exactly that many calls *)
  Lemma gen_key_fails vals e n :
    keyed_of kf vals = inl (e, n) -> res vals = mkRes [] (Some e) n 0.
  Proof. intros K. unfold res. rewrite order_gen_unfold, K. reflexivity. Qed.

  (* any failing comparator call that the sort makes makes order fail *)
  Lemma gen_inspected_fails vals ks kc k p q e :
    keyed_of kf vals = inr (ks, kc) ->
    nth_error (snd (S item (item_less okl rv) (combine ks vals))) k = Some (p, q) ->
    fl (1 + k) (fst (cmp_args rv p q)) (snd (cmp_args rv p q)) = Some e ->
    r_err (res vals) <> None /\ r_out (res vals) = [].
  Proof.
    intros K Hk F. unfold res. rewrite order_gen_unfold, K. cbv zeta.
    pose proof (first_fail_nth fl rv _ 1 k p q e Hk F) as NN.
    destruct (first_fail fl rv 1 _) as [[e' n']|]; [|congruence]. simpl. split; congruence.
  Qed.

  (* conversely: well-behaved callbacks and mutually comparable keys, no exception *)
  Lemma gen_no_error vals ks kc :
    keyed_of kf vals = inr (ks, kc) ->
    (forall i a b, In a ks -> In b ks -> fl i a b = None) ->
    r_err (res vals) = None.
  Proof.
    intros K NF. unfold res. rewrite order_gen_unfold, K. cbv zeta.
    destruct (first_fail fl rv 1 _) as [[e n]|] eqn:F; [|reflexivity]. exfalso.
    apply first_fail_some in F as (p & q & I & F). destruct C as (_ & _ & CT & _).
    apply CT in I as [Ip Iq]. apply in_combine_fst in Ip, Iq.
    unfold cmp_args in F. destruct rv; simpl in F; rewrite NF in F; auto; discriminate.
  Qed.

  (* an exception has a cause: the &key callback failed, or a comparator call
     on two keys of the input failed *)
  Lemma gen_error_cause vals :
    r_err (res vals) <> None ->
    (exists e n, keyed_of kf vals = inl (e, n) /\ r_err (res vals) = Some e) \/
    (exists ks kc a b e n, keyed_of kf vals = inr (ks, kc) /\ In a ks /\ In b ks /\
       fl n (if rv then b else a) (if rv then a else b) = Some e /\ r_err (res vals) = Some e).
  Proof.
    unfold res. rewrite order_gen_unfold. destruct (keyed_of kf vals) as [[e n]|[ks kc]] eqn:K.
    - intros _. left. exists e, n. auto.
    - cbv zeta. destruct (first_fail fl rv 1 _) as [[e n]|] eqn:F; simpl; [|congruence].
      intros _. right. apply first_fail_some in F as (p & q & I & F).
      destruct C as (_ & _ & CT & _). apply CT in I as [Ip Iq]. apply in_combine_fst in Ip, Iq.
      exists ks, kc, (fst p), (fst q), e, n. repeat split; auto.
      unfold cmp_args in F. destruct rv; exact F.
  Qed.
End Gen.

(* two comparators that answer alike give the same run *)
Lemma order_gen_ext S kf okl okl' fl fl' rv vals :
  StableSortContract S ->
  (forall a b, okl a b = okl' a b) -> (forall i a b, fl i a b = fl' i a b) ->
  order_gen S kf okl fl rv vals = order_gen S kf okl' fl' rv vals.
Proof.
  intros (_ & _ & _ & CE) E1 E2. rewrite !order_gen_unfold.
  destruct (keyed_of kf vals) as [[e n]|[ks kc]]; [reflexivity|]. cbv zeta.
  rewrite (CE item (item_less okl rv) (item_less okl' rv)).
  - rewrite (first_fail_ext fl fl' rv _ E2). reflexivity.
  - intros a b. unfold item_less. apply E1.
Qed.

(* &key g  ==  &less-than on g's images (g pure and total): decorate-sort-undecorate *)
Section KeyEquiv.
  Variable g : value -> value.
  Variable okl : value -> value -> bool.
  Variable fl : nat -> value -> value -> option errkind.
  Variable rv : bool.
  Let kfg : option (nat -> value -> errkind + value) := Some (fun _ v => inr (g v)).
  Let okl' (a b : value) := okl (g a) (g b).
  Let fl' (i : nat) (a b : value) := fl i (g a) (g b).
  Let h (p : item) : item := (g (fst p), snd p).

  Lemma keys_from_pure vals : forall i, keys_from (fun _ v => inr (g v)) i vals = inr (map g vals).
  Proof. induction vals as [|v r IH]; intros i; simpl; [reflexivity|]. rewrite IH. reflexivity. Qed.

  Lemma keyed_pure vals : keyed_of kfg vals = inr (map g vals, length vals).
  Proof. unfold keyed_of, kfg. rewrite keys_from_pure. reflexivity. Qed.

  Lemma combine_h vals : combine (map g vals) vals = map h (combine vals vals).
  Proof. induction vals as [|v r IH]; simpl; [reflexivity|]. rewrite <- IH.
    (* combine r r under h *) clear IH.
    assert (G : forall a b : list value, combine (map g a) b = map h (combine a b)).
    { induction a as [|x a IHa]; intros [|y b]; simpl; try reflexivity. f_equal. apply IHa. }
    unfold h at 1. simpl. f_equal. Qed.

  Lemma item_less_h p q : item_less okl' rv p q = item_less okl rv (h p) (h q).
  Proof. rewrite !item_less_eq. destruct rv; reflexivity. Qed.

  (* any contract-satisfying sort: same output when nothing fails *)
  Lemma key_equiv_abstract S vals :
    StableSortContract S -> SWO_on okl (map g vals) ->
    (forall i a b, In a (map g vals) -> In b (map g vals) -> fl i a b = None) ->
    r_err (order_gen S kfg okl fl rv vals) = None /\
    r_err (order_gen S None okl' fl' rv vals) = None /\
    r_out (order_gen S kfg okl fl rv vals) = r_out (order_gen S None okl' fl' rv vals).
  Proof.
    intros C W NF.
    assert (E1 : r_err (order_gen S kfg okl fl rv vals) = None).
    { eapply gen_no_error; [exact C|apply keyed_pure|exact NF]. }
    assert (W' : SWO_on okl' vals) by exact (SWO_on_map g okl vals W).
    assert (E2 : r_err (order_gen S None okl' fl' rv vals) = None).
    { eapply (gen_no_error S C None okl' fl' rv vals vals 0); [reflexivity|].
      intros i a b Ia Ib. unfold fl'. apply NF; apply in_map; assumption. }
    split; [exact E1|]. split; [exact E2|].
    destruct (gen_stable S C kfg okl fl rv vals _ _ (keyed_pure vals) W E1) as (d1 & O1 & S1).
    destruct (gen_stable S C None okl' fl' rv vals vals 0 eq_refl W' E2) as (d2 & O2 & S2).
    rewrite O1, O2.
    assert (S2' : StableSorted (item_less okl rv) (map h (combine vals vals)) (map h d2)).
    { apply StableSorted_map. destruct S2 as (t & P & M & SS). exists t. repeat split; auto.
      eapply SS_impl; [|exact SS]. intros a b [H1 H2]. split.
      - rewrite <- item_less_h. exact H1.
      - rewrite <- item_less_h. exact H2. }
    rewrite <- combine_h in S2'.
    rewrite (StableSorted_unique _ _ _ _ S1 S2'). rewrite map_map. reflexivity.
  Qed.

  (* the insertion sort: the whole run is the same, failures and call counts included *)
  Lemma first_fail_h tr : forall i,
    first_fail fl rv i (map (pmap h) tr) = first_fail fl' rv i tr.
  Proof.
    induction tr as [|[p q] r IH]; intros i; simpl; [reflexivity|]. rewrite IH.
    unfold pmap, fl', cmp_args, h; simpl. destruct rv; reflexivity.
  Qed.

  Lemma key_equiv_isort vals :
    let a := order_gen isortT kfg okl fl rv vals in
    let b := order_gen isortT None okl' fl' rv vals in
    r_out a = r_out b /\ r_err a = r_err b /\ r_lcalls a = r_lcalls b.
  Proof.
    cbv zeta. rewrite !order_gen_unfold, keyed_pure. unfold keyed_of. cbv zeta.
    rewrite combine_h. unfold isortT, isort, isort_trace. cbn [fst snd].
    set (L := combine vals vals).
    set (lessh := fun p q : item => item_less okl rv (h p) (h q)).
    assert (A1 : isort_acc (item_less okl rv) [] (map h L) = map h (isort_acc lessh [] L))
      by (symmetry; apply (isort_acc_map h (item_less okl rv) L [])).
    assert (A2 : isort_trace_acc (item_less okl rv) [] (map h L)
                 = map (pmap h) (isort_trace_acc lessh [] L))
      by (symmetry; apply (isort_trace_acc_map h (item_less okl rv) L [])).
    assert (B1 : isort_acc (item_less okl' rv) [] L = isort_acc lessh [] L)
      by (apply isort_acc_ext; intros; apply item_less_h).
    assert (B2 : isort_trace_acc (item_less okl' rv) [] L = isort_trace_acc lessh [] L)
      by (apply isort_trace_acc_ext; intros; apply item_less_h).
    rewrite A1, A2, B1, B2, first_fail_h.
    destruct (first_fail fl' rv 1 _) as [[e n]|]; simpl; [auto|].
    rewrite map_map, map_length. auto.
  Qed.
End KeyEquiv.

(* ---------- order_with: options ---------- *)
Lemma okless_default_lcmp rk a b :
  okless rk CDefault a b = okless rk (CLt (mkLt LCmp LNoFail)) a b.
Proof. unfold okless, lt_base, lt_of_ordering. simpl. destruct (cmp a b); reflexivity. Qed.

Lemma fails_default_lcmp rk i a b :
  fails rk CDefault i a b = fails rk (CLt (mkLt LCmp LNoFail)) i a b.
Proof. unfold fails, fails_static, lt_base, lt_of_ordering. simpl. destruct (cmp a b); reflexivity. Qed.

Lemma okless_total_lcmptotal rk a b :
  okless rk CTotal a b = okless rk (CLt (mkLt LCmpTotal LNoFail)) a b.
Proof. reflexivity. Qed.

Lemma fails_total_lcmptotal rk i a b :
  fails rk CTotal i a b = fails rk (CLt (mkLt LCmpTotal LNoFail)) i a b.
Proof. reflexivity. Qed.

(* order  ==  order &less-than={|a b| == -1 (compare $a $b)} *)
Lemma lessthan_equiv S rk rv key vals :
  StableSortContract S ->
  order_with S rk (mkOpts rv false key None) vals =
  order_with S rk (mkOpts rv false key (Some (mkLt LCmp LNoFail))) vals.
Proof.
  intros C. unfold order_with, both_total_lt, comparator_of. simpl.
  apply order_gen_ext; [exact C| |]; intros.
  - apply okless_default_lcmp.
  - apply fails_default_lcmp.
Qed.

(* order &total  ==  order &less-than={|a b| == -1 (compare &total $a $b)} *)
Lemma total_equiv S rk rv key vals :
  StableSortContract S ->
  order_with S rk (mkOpts rv true key None) vals =
  order_with S rk (mkOpts rv false key (Some (mkLt LCmpTotal LNoFail))) vals.
Proof.
  intros C. unfold order_with, both_total_lt, comparator_of. simpl.
  apply order_gen_ext; [exact C| |]; intros.
  - apply okless_total_lcmptotal.
  - apply fails_total_lcmptotal.
Qed.

(* ---------- value equality ---------- *)
Fixpoint value_ind2 (P : value -> Prop)
         (HN : forall z, P (VNum z)) (HF : forall h, P (VFlt h)) (HS : forall s, P (VStr s))
         (HB : forall b, P (VBool b)) (HL : forall l, Forall P l -> P (VList l))
         (HM : forall i, P (VMap i)) (v : value) : P v :=
  match v with
  | VNum z => HN z
  | VFlt h => HF h
  | VStr s => HS s
  | VBool b => HB b
  | VMap i => HM i
  | VList l =>
    HL l ((fix go (l : list value) : Forall P l :=
             match l with
             | [] => Forall_nil P
             | x :: r => Forall_cons x (value_ind2 P HN HF HS HB HL HM x) (go r)
             end) l)
  end.

Lemma value_eqb_eq a : forall b, value_eqb a b = true -> a = b.
Proof.
  induction a as [z|h|s|b0|l IH|i] using value_ind2;
    intros [z'|h'|s'|b'|l'|i']; simpl; try discriminate; intros E.
  - apply Z.eqb_eq in E; congruence.
  - apply Z.eqb_eq in E; congruence.
  - apply bytes_eqb_spec in E; congruence.
  - apply Bool.eqb_prop in E; congruence.
  - f_equal. revert l' E. induction IH as [|x l Hx _ IHl]; intros [|q l'] E; simpl in E;
      try discriminate; [reflexivity|].
    apply andb_true_iff in E as [E1 E2]. f_equal; [apply Hx; exact E1|apply IHl; exact E2].
  - apply N.eqb_eq in E; congruence.
Qed.

(* ---------- the specification on observations, and the oracle ---------- *)
Definition PairOk (rk : list N) (o : opts) (a b : titem) : Prop :=
  let ka := fst (snd a) in let kb := fst (snd b) in
  key_fails rk o kb ka = true \/ key_fails rk o ka kb = true \/
  (key_less rk o kb ka = false /\ (key_less rk o ka kb = false -> fst a < fst b)).

Definition Spec_C10 (rk : list N) (o : opts) (vals outs : list value)
           (err : option errkind) (cbf : bool) : Prop :=
  (* an exception means nothing was written *)
  (err <> None -> outs = []) /\
  (* a failing callback means an exception *)
  (cbf = true -> err <> None) /\
  (both_total_lt o = false ->
   match static_keys o vals with
   | None => err <> None
   | Some ks =>
     (* no exception: a stable sorted permutation *)
     (err = None ->
      exists touts, Permutation (tagged (combine ks vals)) touts /\
                    map (fun t => snd (snd t)) touts = outs /\
                    StronglySorted (PairOk rk o) touts) /\
     (* an exception has a cause *)
     (err <> None ->
      cbf = true \/ exists a b, In a ks /\ In b ks /\ key_fails rk o a b = true)
   end).

Lemma take_first_spec v rem : forall t rem',
  take_first v rem = Some (t, rem') -> Permutation rem (t :: rem') /\ snd (snd t) = v.
Proof.
  induction rem as [|u r IH]; intros t rem' H; simpl in H; [discriminate|].
  destruct (value_eqb (snd (snd u)) v) eqn:E.
  - inversion H; subst. split; [apply Permutation_refl|apply value_eqb_eq; exact E].
  - destruct (take_first v r) as [[t' r']|] eqn:T; [|discriminate]. inversion H; subst.
    destruct (IH _ _ eq_refl) as [P Q]. split; [|exact Q].
    eapply Permutation_trans; [apply perm_skip; exact P|apply perm_swap].
Qed.

Lemma assign_spec outs : forall rem touts,
  assign outs rem = Some touts ->
  Permutation rem touts /\ map (fun t => snd (snd t)) touts = outs.
Proof.
  induction outs as [|v r IH]; intros rem touts H; simpl in H.
  - destruct rem; [|discriminate]. inversion H; subst. split; [constructor|reflexivity].
  - destruct (take_first v rem) as [[t rem']|] eqn:T; [|discriminate].
    destruct (assign r rem') as [ts|] eqn:A; [|discriminate]. inversion H; subst.
    apply take_first_spec in T as [P Q]. apply IH in A as [P' Q']. split.
    + eapply Permutation_trans; [exact P|apply perm_skip; exact P'].
    + simpl. rewrite Q, Q'. reflexivity.
Qed.

Lemma pair_ok_spec rk o a b : pair_ok rk o a b = true -> PairOk rk o a b.
Proof.
  unfold pair_ok, PairOk. cbv zeta. intros H.
  apply orb_true_iff in H as [H|H]; [apply orb_true_iff in H as [H|H]; auto|].
  apply andb_true_iff in H as [H1 H2]. apply negb_true_iff in H1. right; right. split; [exact H1|].
  intros L. rewrite L in H2. simpl in H2. apply Nat.ltb_lt. exact H2.
Qed.

Lemma all_pairs_ok_spec rk o l : all_pairs_ok rk o l = true -> StronglySorted (PairOk rk o) l.
Proof.
  induction l as [|a r IH]; simpl; intros H; [constructor|].
  apply andb_true_iff in H as [H1 H2]. constructor; [apply IH; exact H2|].
  apply Forall_forall. intros b Hb. rewrite forallb_forall in H1. apply pair_ok_spec, H1, Hb.
Qed.

Lemma forallb_false_ex {A} (f : A -> bool) l : forallb f l = false -> exists x, In x l /\ f x = false.
Proof.
  induction l as [|a r IH]; simpl; [discriminate|]. intros H.
  apply andb_false_iff in H as [H|H]; [exists a; auto|].
  destruct (IH H) as (x & I & F). exists x; auto.
Qed.

Lemma is_some_true {A} (x : option A) : is_some x = true <-> x <> None.
Proof. destruct x; simpl; split; congruence. Qed.
Lemma is_some_false {A} (x : option A) : is_some x = false <-> x = None.
Proof. destruct x; simpl; split; congruence. Qed.

Theorem check_C10_sound rk o vals outs err cbf :
  check_C10 rk o vals outs err cbf = true -> Spec_C10 rk o vals outs err cbf.
Proof.
  unfold check_C10, Spec_C10. intros H.
  apply andb_true_iff in H as [H H3]. apply andb_true_iff in H as [H1 H2].
  split; [|split].
  - intros E. apply is_some_true in E. rewrite E in H1. simpl in H1.
    destruct outs; [reflexivity|discriminate].
  - intros E. subst cbf. simpl in H2. apply is_some_true. exact H2.
  - intros B. rewrite B in H3. simpl in H3.
    destruct (static_keys o vals) as [ks|]; [|apply is_some_true; exact H3].
    destruct (is_some err) eqn:E.
    + split; [intros E'; subst err; discriminate|]. intros _.
      apply orb_true_iff in H3 as [H3|H3]; [left; exact H3|right].
      apply negb_true_iff in H3. unfold comparable_keys in H3.
      apply forallb_false_ex in H3 as (a & Ia & H3). apply forallb_false_ex in H3 as (b & Ib & H3).
      apply negb_false_iff in H3. exists a, b. auto.
    + apply is_some_false in E. split; [|congruence]. intros _.
      destruct (assign outs (tagged (combine ks vals))) as [touts|] eqn:A; [|discriminate].
      apply assign_spec in A as [P Q]. exists touts. repeat split; auto.
      apply all_pairs_ok_spec. exact H3.
Qed.

(* ---------- the model meets the specification ---------- *)
Lemma key_call_base ks i v k : key_call ks i v = inr k -> key_base (k_base ks) v = inr k.
Proof.
  unfold key_call. destruct (k_fail ks) as [[n fk]|]; [|auto].
  destruct (Nat.eqb i n); [discriminate|auto].
Qed.

Lemma key_call_err ks i v e : key_call ks i v = inl e -> e <> EUncomparable /\ e <> EBoth.
Proof.
  unfold key_call, key_base.
  assert (B : forall e, (match k_base ks with
                         | KId => inr v
                         | KFirst => match v with VList (k :: _) => inr k | _ => inl EOther end
                         | KSecond => match v with VList (_ :: k :: _) => inr k | _ => inl EOther end
                         | KConst => inr (VNum 0)
                         end) = inl e -> e = EOther).
  { intros e'. destruct (k_base ks); try discriminate.
    - destruct v as [| | | |[|k r]|]; try discriminate; intros H; inversion H; reflexivity.
    - destruct v as [| | | |[|k [|k2 r]]|]; try discriminate; intros H; inversion H; reflexivity. }
  destruct (k_fail ks) as [[n fk]|].
  - destruct (Nat.eqb i n).
    + intros H; inversion H; subst. destruct fk; simpl; split; discriminate.
    + intros H. apply B in H. subst; split; discriminate.
  - intros H. apply B in H. subst; split; discriminate.
Qed.

Lemma keys_from_static o ks vals : o_key o = Some ks ->
  forall i l, keys_from (key_call ks) i vals = inr l -> static_keys o vals = Some l.
Proof.
  intros K. induction vals as [|v r IH]; intros i l H; simpl in H.
  - inversion H; reflexivity.
  - destruct (key_call ks i v) as [e|k] eqn:E; [discriminate|].
    destruct (keys_from (key_call ks) (S i) r) as [e|l'] eqn:E2; [discriminate|].
    inversion H; subst. simpl. unfold static_key. rewrite K.
    rewrite (key_call_base _ _ _ _ E). rewrite (IH _ _ E2). reflexivity.
Qed.

Lemma keys_from_err ks vals : forall i e n,
  keys_from (key_call ks) i vals = inl (e, n) -> e <> EUncomparable /\ e <> EBoth.
Proof.
  induction vals as [|v r IH]; intros i e n H; simpl in H; [discriminate|].
  destruct (key_call ks i v) as [e'|k] eqn:E.
  - inversion H; subst. eapply key_call_err; eauto.
  - destruct (keys_from (key_call ks) (S i) r) as [[e' n']|l'] eqn:E2; [|discriminate].
    inversion H; subst. eapply IH; eauto.
Qed.

Lemma static_keys_none_key o vals : o_key o = None -> static_keys o vals = Some vals.
Proof. intros K. induction vals as [|v r IH]; simpl; [reflexivity|].
  unfold static_key. rewrite K, IH. reflexivity. Qed.

Lemma keyed_static o vals ks kc :
  keyed_of (option_map key_call (o_key o)) vals = inr (ks, kc) -> static_keys o vals = Some ks.
Proof.
  unfold keyed_of. destruct (o_key o) as [k|] eqn:K; simpl.
  - destruct (keys_from (key_call k) 1 vals) as [[e n]|l] eqn:E; [discriminate|].
    intros H; inversion H; subst. eapply keys_from_static; eauto.
  - intros H; inversion H; subst. apply static_keys_none_key; exact K.
Qed.

Lemma keyed_err o vals e n :
  keyed_of (option_map key_call (o_key o)) vals = inl (e, n) -> e <> EUncomparable /\ e <> EBoth.
Proof.
  unfold keyed_of. destruct (o_key o) as [k|]; simpl; [|discriminate].
  destruct (keys_from (key_call k) 1 vals) as [[e' n']|l] eqn:E; [|discriminate].
  intros H; inversion H; subst. eapply keys_from_err; eauto.
Qed.

Lemma fails_not_both rk c i a b e : fails rk c i a b = Some e -> e <> EBoth.
Proof.
  assert (FE : forall fk n, fail_err fk n <> EBoth) by (intros [] n; simpl; discriminate).
  assert (LO : forall w x e', lt_of_ordering w x = inl e' -> e' <> EBoth).
  { intros w [] e'; simpl; try discriminate. intros H; inversion H; discriminate. }
  assert (ST : forall e', fails_static rk c a b = Some e' -> e' <> EBoth).
  { intros e'. unfold fails_static. destruct c as [| |l].
    - destruct (cmp a b); try discriminate. intros H; inversion H; discriminate.
    - discriminate.
    - destruct (lt_base rk (l_base l) a b) as [e2|] eqn:L; [|discriminate].
      intros H; inversion H; subst. unfold lt_base in L. destruct (l_base l).
      + eapply LO; eauto.
      + discriminate.
      + eapply LO; eauto.
      + destruct a as [| | | |[|x ?]|]; try (inversion L; discriminate).
        destruct b as [| | | |[|y ?]|]; try (inversion L; discriminate). eapply LO; eauto. }
  unfold fails. destruct c as [| |l]; try apply ST.
  destruct (l_fail l) as [|k fk|v fk].
  - apply ST.
  - destruct (Nat.eqb i k); [intros H; inversion H; apply FE|apply ST].
  - destruct (value_eqb a v || value_eqb b v); [intros H; inversion H; apply FE|apply ST].
Qed.

Lemma key_less_item rk o p q :
  key_less rk o (fst p) (fst q) = item_less (okless rk (comparator_of o)) (o_reverse o) p q.
Proof. unfold key_less. rewrite item_less_eq. reflexivity. Qed.

(* without &less-than the comparator ignores the call number *)
Lemma fails_builtin rk o i a b :
  o_lt o = None -> fails rk (comparator_of o) i a b = fails rk (comparator_of o) 0 a b.
Proof. unfold comparator_of. intros ->. destruct (o_total o); reflexivity. Qed.

Theorem order_meets_spec S rk o vals :
  StableSortContract S ->
  (forall ks, static_keys o vals = Some ks -> SWO_on (okless rk (comparator_of o)) ks) ->
  let m := order_with S rk o vals in
  Spec_C10 rk o vals (r_out m) (r_err m) (model_cb_failed o m).
Proof.
  intros C W. cbv zeta. unfold order_with. destruct (both_total_lt o) eqn:B.
  { unfold Spec_C10, model_cb_failed. simpl. repeat split; try congruence. }
  set (kf := option_map key_call (o_key o)). set (c := comparator_of o).
  unfold Spec_C10. split; [|split].
  - apply gen_atomic.
  - unfold model_cb_failed. intros H E. rewrite E in H. discriminate.
  - intros _. pose proof (gen_error_cause S C kf (okless rk c) (fails rk c) (o_reverse o) vals) as EC.
    rewrite order_gen_unfold in *. destruct (keyed_of kf vals) as [[e n]|[ks kc]] eqn:K.
    + (* the &key callback failed *)
      destruct (keyed_err _ _ _ _ K) as [N1 N2]. cbn [r_out r_err].
      assert (CB : model_cb_failed o (mkRes [] (Some e) n 0) = true).
      { unfold model_cb_failed. cbn [r_err]. destruct e; try reflexivity; congruence. }
      destruct (static_keys o vals) as [ks|]; [|discriminate].
      split; [discriminate|]. intros _. left. exact CB.
    + rewrite (keyed_static _ _ _ _ K). specialize (W ks (keyed_static _ _ _ _ K)).
      cbv zeta in *. destruct (first_fail (fails rk c) (o_reverse o) 1 _) as [[e n]|] eqn:F.
      * (* a comparator call failed *)
        cbn [r_out r_err] in *. split; [discriminate|]. intros _.
        destruct EC as [(e' & n' & EC & _)|(ks' & kc' & a & b & e' & n' & EK & Ia & Ib & FL & EE)];
          [discriminate|discriminate|].
        inversion EK; subst ks' kc'. inversion EE; subst e'.
        destruct (o_lt o) as [l|] eqn:L.
        -- left. unfold model_cb_failed. cbn [r_err]. rewrite L.
           pose proof (fails_not_both _ _ _ _ _ _ FL) as NB. destruct e; try reflexivity. congruence.
        -- right. exists a, b. repeat split; auto. unfold key_fails. fold c.
           unfold c in FL. rewrite fails_builtin in FL by exact L. fold c in FL.
           destruct (o_reverse o); rewrite FL; reflexivity.
      * (* sorted *)
        cbn [r_out r_err] in *. split; [|congruence]. intros _.
        destruct C as (_ & CS & _).
        destruct (CS item (item_less (okless rk c) (o_reverse o)) (combine ks vals)
                     (SWO_items _ _ _ _ W)) as (t & P & M & SS).
        exists t. split; [exact P|]. split; [rewrite <- M, map_map; reflexivity|].
        eapply SS_impl; [|exact SS]. intros a b [H1 H2]. unfold PairOk. cbv zeta. right; right.
        unfold c in *. rewrite !key_less_item. split; assumption.
Qed.

(* ---------- a closed instance: numbers with the default comparator ---------- *)
Definition is_number (v : value) : Prop :=
  match v with VNum _ | VFlt _ => True | _ => False end.
Definition num2 (v : value) : Z :=
  match v with VNum z => (2 * z)%Z | VFlt h => h | _ => 0%Z end.

Lemma okless_numbers rk a b : is_number a -> is_number b ->
  okless rk CDefault a b = Z.ltb (num2 a) (num2 b).
Proof.
  destruct a, b; try (simpl; tauto); intros _ _; unfold okless, num2; cbn [cmp cmp_flat];
    match goal with |- context [Z.compare ?x ?y] =>
      destruct (Z.compare_spec x y); cbn [of_cmp ordering_eqb]; symmetry;
      [apply Z.ltb_ge|apply Z.ltb_lt|apply Z.ltb_ge]; lia
    end.
Qed.

Lemma fails_numbers rk i a b : is_number a -> is_number b -> fails rk CDefault i a b = None.
Proof.
  destruct a, b; try (simpl; tauto); intros _ _; unfold fails, fails_static; cbn [cmp cmp_flat];
    match goal with |- context [Z.compare ?x ?y] => destruct (Z.compare x y); reflexivity end.
Qed.

Lemma SWO_numbers rk l : Forall is_number l -> SWO_on (okless rk CDefault) l.
Proof.
  intros F. rewrite Forall_forall in F. split.
  - intros a b Ia Ib. rewrite !okless_numbers by auto. intros H. apply Z.ltb_lt in H.
    apply Z.ltb_ge. lia.
  - intros a b c Ia Ib Ic. rewrite !okless_numbers by auto. intros H1 H2.
    apply Z.ltb_ge in H1, H2. apply Z.ltb_ge. lia.
Qed.

(* order on any list of numbers (no options but &reverse): never fails, and the
   output is the stable sorted permutation *)
Theorem order_numbers S rk rv vals :
  StableSortContract S -> Forall is_number vals ->
  let m := order_with S rk (mkOpts rv false None None) vals in
  r_err m = None /\
  StableSorted (fun a b => if rv then Z.ltb (num2 b) (num2 a) else Z.ltb (num2 a) (num2 b))
               vals (r_out m).
Proof.
  intros C F. cbv zeta. unfold order_with, both_total_lt, comparator_of. simpl.
  assert (E : r_err (order_gen S None (okless rk CDefault) (fails rk CDefault) rv vals) = None).
  { eapply (gen_no_error S C None _ _ rv vals vals 0); [reflexivity|].
    intros i a b Ia Ib. rewrite Forall_forall in F. apply fails_numbers; auto. }
  split; [exact E|].
  destruct (gen_stable S C None _ (fails rk CDefault) rv vals vals 0 eq_refl (SWO_numbers rk vals F) E)
    as (d & O & (t & P & M & SS)).
  rewrite O. exists (map (fun p => (fst p, snd (snd p))) t). repeat split.
  - assert (EQ : tagged vals = map (fun p => (fst p, snd (snd p))) (tagged (combine vals vals))).
    { assert (CV : combine vals vals = map (fun v => (v, v)) vals).
      { clear. induction vals as [|v r IH]; simpl; [reflexivity|]. rewrite IH. reflexivity. }
      rewrite CV, tagged_map, map_map. symmetry. etransitivity; [|apply map_id].
      apply map_ext. intros [i v]; reflexivity. }
    rewrite EQ. apply Permutation_map. exact P.
  - rewrite <- M, !map_map. reflexivity.
  - apply SS_map.
    assert (IN : forall x, In x t -> is_number (fst (snd x)) /\ fst (snd x) = snd (snd x)).
    { intros x Hx. eapply Permutation_in in Hx; [|apply Permutation_sym; exact P].
      unfold tagged in Hx. apply in_combine_snd in Hx.
      assert (G : forall (l : list value) y, In y (combine l l) -> In (fst y) l /\ fst y = snd y).
      { induction l as [|v r IH]; simpl; [tauto|]. intros y [<-|Hy]; [auto|].
        destruct (IH _ Hy); auto. }
      destruct (G _ _ Hx) as [G1 G2]. rewrite Forall_forall in F. auto. }
    clear P M O.
    induction SS as [|a r SS IH FA]; constructor.
    + apply IH. intros x Hx. apply IN. right; exact Hx.
    + apply Forall_forall. intros b Hb. rewrite Forall_forall in FA. destruct (FA _ Hb) as [H1 H2].
      destruct (IN a (or_introl eq_refl)) as [Na Ea]. destruct (IN b (or_intror Hb)) as [Nb Eb].
      unfold ord_ok. simpl. rewrite !item_less_eq in H1, H2.
      unfold item in *. rewrite <- Ea, <- Eb.
      destruct rv; rewrite !okless_numbers in H1, H2 by assumption; split; assumption.
Qed.

(* ---------- order_with: the named properties ---------- *)
Lemma order_with_both S rk o vals :
  both_total_lt o = true -> order_with S rk o vals = mkRes [] (Some EBoth) 0 0.
Proof. intros B. unfold order_with. rewrite B. reflexivity. Qed.

Lemma order_with_gen S rk o vals :
  both_total_lt o = false ->
  order_with S rk o vals =
  order_gen S (option_map key_call (o_key o)) (okless rk (comparator_of o))
            (fails rk (comparator_of o)) (o_reverse o) vals.
Proof. intros B. unfold order_with. rewrite B. reflexivity. Qed.

Theorem order_perm S rk o vals :
  StableSortContract S ->
  r_err (order_with S rk o vals) = None -> Permutation vals (r_out (order_with S rk o vals)).
Proof.
  intros C. destruct (both_total_lt o) eqn:B.
  - rewrite order_with_both by exact B. discriminate.
  - rewrite order_with_gen by exact B. apply gen_perm. exact C.
Qed.

Theorem order_error_atomic S rk o vals :
  r_err (order_with S rk o vals) <> None -> r_out (order_with S rk o vals) = [].
Proof.
  destruct (both_total_lt o) eqn:B.
  - rewrite order_with_both by exact B. reflexivity.
  - rewrite order_with_gen by exact B. apply gen_atomic.
Qed.

(* the keys order sorts by, when no exception is thrown *)
Lemma no_error_keys S rk o vals :
  r_err (order_with S rk o vals) = None ->
  both_total_lt o = false /\
  exists ks kc, keyed_of (option_map key_call (o_key o)) vals = inr (ks, kc) /\
                static_keys o vals = Some ks.
Proof.
  destruct (both_total_lt o) eqn:B.
  - rewrite order_with_both by exact B. discriminate.
  - rewrite order_with_gen by exact B. rewrite order_gen_unfold.
    destruct (keyed_of _ vals) as [[e n]|[ks kc]] eqn:K; [discriminate|]. intros _.
    split; [reflexivity|]. exists ks, kc. split; [reflexivity|]. eapply keyed_static; eauto.
Qed.

(* the one statement behind sorted / stable / reverse: the output, decorated
   with keys and input positions, is a permutation of the decorated input in
   which a later element never compares smaller than an earlier one and
   elements of which neither compares smaller keep their input order *)
Theorem order_stable_sorted S rk o vals :
  StableSortContract S ->
  r_err (order_with S rk o vals) = None ->
  exists ks, static_keys o vals = Some ks /\
    (SWO_on (okless rk (comparator_of o)) ks ->
     exists touts : list titem,
       Permutation (tagged (combine ks vals)) touts /\
       r_out (order_with S rk o vals) = map (fun t => snd (snd t)) touts /\
       StronglySorted (fun a b =>
           key_less rk o (fst (snd b)) (fst (snd a)) = false /\
           (key_less rk o (fst (snd a)) (fst (snd b)) = false -> fst a < fst b)) touts).
Proof.
  intros C E. destruct (no_error_keys _ _ _ _ E) as (B & ks & kc & K & SK).
  exists ks. split; [exact SK|]. intros W. rewrite order_with_gen in * by exact B.
  destruct (gen_stable S C _ _ _ _ vals ks kc K W E) as (d & O & (t & P & M & SS)).
  exists t. split; [exact P|]. split; [rewrite O, <- M, map_map; reflexivity|].
  eapply SS_impl; [|exact SS]. intros a b [H1 H2]. rewrite !key_less_item. split; assumption.
Qed.

(* sorted: no value is written before a value whose key compares smaller *)
Theorem order_sorted S rk o vals :
  StableSortContract S ->
  r_err (order_with S rk o vals) = None ->
  exists ks, static_keys o vals = Some ks /\
    (SWO_on (okless rk (comparator_of o)) ks ->
     exists dout : list (value * value),
       Permutation (combine ks vals) dout /\
       r_out (order_with S rk o vals) = map snd dout /\
       StronglySorted (fun p q => key_less rk o (fst q) (fst p) = false) dout).
Proof.
  intros C E. destruct (order_stable_sorted S rk o vals C E) as (ks & SK & H).
  exists ks. split; [exact SK|]. intros W. destruct (H W) as (t & P & O & SS).
  exists (map snd t). split; [|split].
  - rewrite <- (map_snd_tagged (combine ks vals)). apply Permutation_map. exact P.
  - rewrite O, map_map. reflexivity.
  - apply SS_map. eapply SS_impl; [|exact SS]. intros a b [H1 _]. exact H1.
Qed.

(* &reverse: descending, and values of which neither compares smaller still keep
   their input order (sort.Reverse swaps the arguments of Less; it does not
   reverse the result) *)
Theorem order_reverse S rk o vals :
  StableSortContract S -> o_reverse o = true ->
  r_err (order_with S rk o vals) = None ->
  exists ks, static_keys o vals = Some ks /\
    (SWO_on (okless rk (comparator_of o)) ks ->
     exists touts : list titem,
       Permutation (tagged (combine ks vals)) touts /\
       r_out (order_with S rk o vals) = map (fun t => snd (snd t)) touts /\
       StronglySorted (fun a b =>
           okless rk (comparator_of o) (fst (snd a)) (fst (snd b)) = false /\
           (okless rk (comparator_of o) (fst (snd b)) (fst (snd a)) = false -> fst a < fst b))
         touts).
Proof.
  intros C R E. destruct (order_stable_sorted S rk o vals C E) as (ks & SK & H).
  exists ks. split; [exact SK|]. intros W. destruct (H W) as (t & P & O & SS).
  exists t. repeat split; auto. eapply SS_impl; [|exact SS].
  unfold key_less. rewrite R. intros a b H0. exact H0.
Qed.

(* a failing &key call: that error, nothing written, no comparator call *)
Theorem order_key_failure S rk o vals k e n :
  both_total_lt o = false -> o_key o = Some k ->
  keys_from (key_call k) 1 vals = inl (e, n) ->
  order_with S rk o vals = mkRes [] (Some e) n 0.
Proof.
  intros B K F. rewrite order_with_gen by exact B. apply gen_key_fails.
  unfold keyed_of. rewrite K. simpl. rewrite F. reflexivity.
Qed.

(* any comparator call the sort makes that fails *)
Theorem order_inspected_failure (S : sorter) rk o vals ks kc i p q e :
  both_total_lt o = false ->
  keyed_of (option_map key_call (o_key o)) vals = inr (ks, kc) ->
  nth_error (snd (S item (item_less (okless rk (comparator_of o)) (o_reverse o)) (combine ks vals))) i
    = Some (p, q) ->
  fails rk (comparator_of o) (1 + i) (fst (cmp_args (o_reverse o) p q))
        (snd (cmp_args (o_reverse o) p q)) = Some e ->
  r_err (order_with S rk o vals) <> None /\ r_out (order_with S rk o vals) = [].
Proof.
  intros B K N F. rewrite order_with_gen by exact B. eapply gen_inspected_fails; eauto.
Qed.

(* mutually comparable keys and callbacks that do not fail: no exception *)
Theorem order_no_error S rk o vals ks :
  StableSortContract S -> both_total_lt o = false ->
  (match o_key o with
   | Some k => keys_from (key_call k) 1 vals = inr ks
   | None => ks = vals
   end) ->
  (forall i a b, In a ks -> In b ks -> fails rk (comparator_of o) i a b = None) ->
  r_err (order_with S rk o vals) = None.
Proof.
  intros C B K NF. rewrite order_with_gen by exact B.
  eapply (gen_no_error S C _ _ _ _ vals ks (match o_key o with Some _ => length vals | None => 0 end)).
  - unfold keyed_of. destruct (o_key o) as [k|]; simpl; [rewrite K|subst ks]; reflexivity.
  - exact NF.
Qed.

(* an exception has a cause *)
Theorem order_error_cause S rk o vals :
  StableSortContract S -> r_err (order_with S rk o vals) <> None ->
  both_total_lt o = true \/
  (exists k e n, o_key o = Some k /\ keys_from (key_call k) 1 vals = inl (e, n) /\
                 r_err (order_with S rk o vals) = Some e) \/
  (exists ks a b e n, static_keys o vals = Some ks /\ In a ks /\ In b ks /\
     fails rk (comparator_of o) n (if o_reverse o then b else a) (if o_reverse o then a else b)
       = Some e /\ r_err (order_with S rk o vals) = Some e).
Proof.
  intros C E. destruct (both_total_lt o) eqn:B; [left; reflexivity|right].
  rewrite order_with_gen in * by exact B.
  destruct (gen_error_cause S C _ _ _ _ vals E)
    as [(e & n & K & EE)|(ks & kc & a & b & e & n & K & Ia & Ib & F & EE)].
  - left. unfold keyed_of in K. destruct (o_key o) as [k|]; simpl in K; [|discriminate].
    destruct (keys_from (key_call k) 1 vals) as [[e' n']|] eqn:KF; [|discriminate].
    inversion K; subst. exists k, e, n. auto.
  - right. exists ks, a, b, e, n. repeat split; auto. eapply keyed_static; eauto.
Qed.

(* &key g as &less-than on the images *)
Theorem order_key_equiv S (g : value -> value) okl fl rv vals :
  StableSortContract S -> SWO_on okl (map g vals) ->
  (forall i a b, In a (map g vals) -> In b (map g vals) -> fl i a b = None) ->
  r_err (order_gen S (Some (fun _ v => inr (g v))) okl fl rv vals) = None /\
  r_err (order_gen S None (fun a b => okl (g a) (g b)) (fun i a b => fl i (g a) (g b)) rv vals) = None /\
  r_out (order_gen S (Some (fun _ v => inr (g v))) okl fl rv vals) =
  r_out (order_gen S None (fun a b => okl (g a) (g b)) (fun i a b => fl i (g a) (g b)) rv vals).
Proof. intros. apply key_equiv_abstract; assumption. Qed.

Theorem order_key_equiv_isort (g : value -> value) okl fl rv vals :
  let a := order_gen isortT (Some (fun _ v => inr (g v))) okl fl rv vals in
  let b := order_gen isortT None (fun a b => okl (g a) (g b)) (fun i a b => fl i (g a) (g b)) rv vals in
  r_out a = r_out b /\ r_err a = r_err b /\ r_lcalls a = r_lcalls b.
Proof. apply key_equiv_isort. Qed.

(* the instance with the verified insertion sort *)
Theorem order_isort_meets_spec rk o vals :
  (forall ks, static_keys o vals = Some ks -> SWO_on (okless rk (comparator_of o)) ks) ->
  let m := order rk o vals in
  Spec_C10 rk o vals (r_out m) (r_err m) (model_cb_failed o m).
Proof. apply order_meets_spec. apply isortT_contract. Qed.

(* the latch as code: the insertion sort run with slice.Less's latch ends in
   the state that order_gen computes from the latch-free trace *)
Theorem latch_equiv {X} (ok : X -> X -> bool) (fl : nat -> X -> X -> option errkind) l :
  match first_fail_plain fl 1 (isort_trace X ok l) with
  | Some (e, k) => snd (isort_l ok fl (None, 0) [] l) = (Some e, k)
  | None => isort_l ok fl (None, 0) [] l = (isort X ok l, (None, length (isort_trace X ok l)))
  end.
Proof. apply (isort_l_spec ok fl l 0 []). Qed.
